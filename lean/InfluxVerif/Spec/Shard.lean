/-
C02/C09/C10/C18/C01 — the abstract specification of a shard: a last-write-wins map
(series, field) ↦ time ↦ value, with field typing per measurement and range deletes.
This is what reads must equal whatever the physical layout (cache, snapshot, files,
compactions, restarts) — the layout operations are identities here.  Core Lean only.
Values are opaque tokens (`f:<bits>`, `i:<n>`, …); types are the leading letter.
-/
import InfluxVerif.Model.Values
namespace InfluxVerif.ShardSpec

abbrev Val := String
abbrev FType := Char          -- 'f' 'i' 'u' 'b' 's'

structure FieldW where
  name : String
  ty : FType
  val : Val
  deriving Repr, DecidableEq, Inhabited

structure Pt where
  series : String              -- canonical series key (measurement + sorted tags)
  meas : String
  t : Int
  fields : List FieldW
  deriving Repr, DecidableEq, Inhabited

structure Col where
  series : String
  meas : String
  field : String
  pts : List (Int × Val)       -- strictly increasing timestamps
  deriving Repr, DecidableEq, Inhabited

structure St where
  ftypes : List ((String × String) × FType) := []   -- (measurement, field) ↦ type
  cols : List Col := []
  index : List (String × String) := []              -- (series, measurement) known to the index
  deriving Repr, Inhabited

def ftypeOf (s : St) (meas field : String) : Option FType := s.ftypes.lookup (meas, field)

/-- insert or overwrite one timestamp in a strictly increasing list -/
abbrev upsert (t : Int) (v : Val) (l : List (Int × Val)) : List (Int × Val) := Values.upsert t v l

def writeCol (cols : List Col) (series meas field : String) (t : Int) (v : Val) : List Col :=
  if cols.any (fun c => c.series == series && c.field == field) then
    cols.map fun c => if c.series == series && c.field == field then { c with pts := upsert t v c.pts } else c
  else cols ++ [{ series := series, meas := meas, field := field, pts := [(t, v)] }]

inductive WriteRes | ok | partialWrite (dropped : Nat) | failed
  deriving Repr, DecidableEq

/-- a point is valid iff none of its fields conflicts with the type its field already has in the shard -/
def validPt (s : St) (p : Pt) : Bool :=
  p.fields.all fun f => match ftypeOf s p.meas f.name with
    | some ty => ty == f.ty
    | none => true

/-- create the new fields of the valid points, in batch order; a later point giving a field
created earlier *in this batch* another type makes the whole write fail (fields created so
far stay) -/
def createFields (ftypes : List ((String × String) × FType)) :
    List (String × FieldW) → List ((String × String) × FType) × Bool
  | [] => (ftypes, true)
  | (meas, f) :: rest =>
    match ftypes.lookup (meas, f.name) with
    | some ty => if ty == f.ty then createFields ftypes rest else (ftypes, false)
    | none => createFields (ftypes ++ [((meas, f.name), f.ty)]) rest

def addIndex (idx : List (String × String)) (p : Pt) : List (String × String) :=
  if idx.any (·.1 == p.series) then idx else idx ++ [(p.series, p.meas)]

def write (s : St) (batch : List Pt) : St × WriteRes :=
  -- the series of every point of the batch is created in the index first, whatever happens next
  let index := batch.foldl addIndex s.index
  let valid := batch.filter (validPt s)
  let dropped := batch.length - valid.length
  let (ft, okc) := createFields s.ftypes (valid.flatMap fun p => p.fields.map fun f => (p.meas, f))
  if !okc then ({ s with ftypes := ft, index := index }, .failed)
  else
    let cols := valid.foldl (fun cols p => p.fields.foldl (fun cols f => writeCol cols p.series p.meas f.name p.t f.val) cols) s.cols
    ({ ftypes := ft, cols := cols, index := index }, if dropped = 0 then .ok else .partialWrite dropped)

/-- delete the points of the selected series with `tmin ≤ t ≤ tmax` -/
def deleteRange (s : St) (sel : String → Bool) (tmin tmax : Int) : St :=
  let cut (c : Col) : Col :=
    if sel c.series then { c with pts := c.pts.filter fun p => p.1 < tmin || p.1 > tmax } else c
  let cols := (s.cols.map cut).filter fun c => !c.pts.isEmpty
  -- a selected series left without any point leaves the index; a measurement whose last
  -- series left is forgotten together with its field types
  let index := s.index.filter fun e => !(sel e.1 && !cols.any (·.series == e.1))
  let gone (m : String) : Bool := s.index.any (·.2 == m) && !index.any (·.2 == m)
  { cols := cols, index := index, ftypes := s.ftypes.filter fun e => !gone e.1.1 }

def read (s : St) (series field : String) (tmin tmax : Int) (asc : Bool) : List (Int × Val) :=
  match s.cols.find? (fun c => c.series == series && c.field == field) with
  | none => []
  | some c =>
    let w := c.pts.filter fun p => tmin ≤ p.1 && p.1 ≤ tmax
    if asc then w else w.reverse

/-- listings: series that still have points; measurements that still have series -/
def seriesList (s : St) : List String := s.index.map (·.1)
def measurements (s : St) : List String := (s.index.map (·.2)).eraseDups

/-- tag pairs of a canonical series key `meas|k=v,k=v` (`meas|-` has none) -/
def tagsOf (series : String) : List (String × String) :=
  match series.splitOn "|" with
  | [_, tags] => if tags == "-" then [] else (tags.splitOn ",").filterMap fun kv => match kv.splitOn "=" with
    | [k, v] => some (k, v)
    | _ => none
  | _ => []

/-- tag predicates of the listing queries (`=`, `!=`, and anchored alternations for `=~`, `!~`):
the value of an absent tag is the empty string -/
def tagPred (series key op vals : String) : Bool :=
  let v := (((tagsOf series).filter (·.1 == key)).head?.map (·.2)).getD ""
  let want := if vals == "-" then "" else vals
  match op with
  | "eq" => v == want
  | "ne" => v != want
  | "in" => (want.splitOn ",").contains v
  | "nin" => !(want.splitOn ",").contains v
  | _ => false

/-- series of a measurement under a tag predicate -/
def seriesBy (s : St) (meas key op vals : String) : List String :=
  (s.index.filter fun e => e.2 == meas && tagPred e.1 key op vals).map (·.1)

def tagKeys (s : St) (meas : String) : List String :=
  ((s.index.filter (·.2 == meas)).flatMap fun e => (tagsOf e.1).map (·.1)).eraseDups

def tagValues (s : St) (meas key : String) : List String :=
  ((s.index.filter (·.2 == meas)).flatMap fun e => ((tagsOf e.1).filter (·.1 == key)).map (·.2)).eraseDups

end InfluxVerif.ShardSpec
