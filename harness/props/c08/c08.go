// Package c08: the real PointsWriter.MapShards over a MetaClient backed by the real meta FSM,
// against the Lean routing model (driver "meta", op `map`), plus the routing oracle.
package c08

import (
	"fmt"
	"regexp"
	"sort"
	"strconv"
	"strings"
	"time"

	"github.com/influxdata/influxdb/coordinator"
	"github.com/influxdata/influxdb/models"
	"github.com/influxdata/influxdb/services/meta"
	"verifharness/fw"
	"verifharness/metah"
)

type Prop struct{}

func (Prop) ID() string     { return "C08" }
func (Prop) Model() string  { return "meta" }
func (Prop) Parallel() int  { return 16 }
func (Prop) Stateful() bool { return true }
func (Prop) Describe(cfg *fw.Config) {
	cfg.Rule = "metadata histories (nodes, policies with and without duration, altered shard durations, pre-created / truncated / deleted groups with successors) followed by batches mapped by the real MapShards: timestamps at and around group starts, ends and truncation instants, the extreme timestamps, relative to the retention cut-off (>= 1h away), duplicates, the same series with tags in different orders, the same points alone and inside other batches; non-trivial = a batch that spans >= 2 groups or meets a truncated/deleted group; distinct = distinct op list"
}

func (Prop) KeepOp(i int, op string) bool { return i == 0 }

var nowRe = regexp.MustCompile(`now([+-]\d+)`)

// Prepare replaces now±offset tokens by absolute nanoseconds (one clock reading per case).
func (Prop) Prepare(c fw.Case) fw.Case {
	now := time.Now().UnixNano()
	out := fw.Case{Tags: c.Tags}
	for _, op := range c.Ops {
		out.Ops = append(out.Ops, nowRe.ReplaceAllStringFunc(op, func(m string) string {
			off, _ := strconv.ParseInt(m[3:], 10, 64)
			return strconv.FormatInt(now+off, 10)
		}))
	}
	return out
}

const hourNs = int64(3600 * 1e9)
const dayNs = 24 * hourNs
const weekNs = 7 * dayNs

type ser struct {
	key  string // measurement,tags as written (tag order may vary)
	hash uint64
}

func mkSeries() []ser {
	var out []ser
	forms := []string{"cpu,host=a,region=x", "cpu,region=x,host=a", "cpu,host=b", "mem,host=a", "cpu", "disk,a=1,b=2,c=3", "disk,c=3,a=1,b=2", "net,h=\\,x", "m9,t=9",
		"sys,host=a,host2=b", "sys,host2=b,host=a", "sys,dc=x,dc-zone=y,dc.rack=z", "sys,dc.rack=z,dc-zone=y,dc=x"}
	for _, f := range forms {
		pts, err := models.ParsePointsString(f + " v=1 1")
		if err != nil || len(pts) != 1 {
			panic(fmt.Sprint("c08 series ", f, err))
		}
		out = append(out, ser{f, pts[0].HashID()})
	}
	return out
}

var series = mkSeries()

func genCase(r *fw.Rand, tier string) fw.Case {
	var ops []string
	ops = append(ops, "reset 1")
	nn := 1 + r.Intn(4)
	for i := 1; i <= nn; i++ {
		ops = append(ops, fmt.Sprintf("createdatanode h%d t%d", i, i))
	}
	ops = append(ops, "createdb db0")
	p := sameSeries[r.Intn(len(sameSeries))]
	ops = append(ops, fmt.Sprintf("samekey %d %d", p[0], p[1]))
	sgds := []int64{0, hourNs, dayNs, weekNs, 36 * hourNs}
	ops = append(ops, fmt.Sprintf("createrp db0 rp0 %d 0 %d 0", 1+r.Intn(3), sgds[r.Intn(len(sgds))]))
	ops = append(ops, fmt.Sprintf("createrp db0 rp1 %d %d %d 0", 1+r.Intn(3), []int64{48 * hourNs, 30 * dayNs, 200 * dayNs}[r.Intn(3)], sgds[r.Intn(len(sgds))]))
	base := int64(1600000000) * 1e9
	anchors := []int64{base}
	ts := func() int64 {
		switch r.Intn(9) {
		case 0:
			return models.MinNanoTime + int64(r.Intn(3))
		case 1:
			return models.MaxNanoTime - int64(r.Intn(3))
		case 2:
			return int64(r.Intn(3) - 1)
		default:
			a := anchors[r.Intn(len(anchors))]
			off := []int64{0, 1, -1, hourNs, -hourNs, dayNs, weekNs, 3 * dayNs, -2 * dayNs, 12 * hourNs}[r.Intn(10)]
			v := a + off*int64(r.Intn(3))
			// keep inside the representable point range (and clear of int64 wrap-around)
			if (off > 0 && v < a) || v > models.MaxNanoTime {
				v = models.MaxNanoTime
			}
			if (off < 0 && v > a) || v < models.MinNanoTime {
				v = models.MinNanoTime
			}
			return v
		}
	}
	nsteps := 4 + r.Intn(14)
	for i := 0; i < nsteps; i++ {
		switch r.Intn(10) {
		case 0, 1, 2:
			t := ts()
			anchors = append(anchors, t)
			ops = append(ops, fmt.Sprintf("createsg db0 rp0 %d", t))
		case 3:
			t := ts()
			anchors = append(anchors, t)
			ops = append(ops, fmt.Sprintf("truncate %d", t))
		case 4:
			ops = append(ops, fmt.Sprintf("deletesgid %d recent", 1+r.Intn(6)))
		case 5:
			ops = append(ops, fmt.Sprintf("updaterp db0 rp0 - - - %d 0", sgds[1+r.Intn(len(sgds)-1)]))
		case 6:
			// relative batch on the policy with a duration: well inside / well outside retention
			var pts []string
			for k, n := 0, 1+r.Intn(6); k < n; k++ {
				s := series[r.Intn(len(series))]
				off := []int64{0, -hourNs, -10 * hourNs, -46 * hourNs, -50 * hourNs, -29 * dayNs, -31 * dayNs, -400 * dayNs, 2 * hourNs}[r.Intn(9)]
				pts = append(pts, fmt.Sprintf("now%+d:%d", off-int64(r.Intn(1000)), s.hash))
			}
			ops = append(ops, fmt.Sprintf("map now+0 db0 rp1 %s", strings.Join(pts, ",")))
		default:
			var pts []string
			for k, n := 0, 1+r.Intn(8); k < n; k++ {
				s := series[r.Intn(len(series))]
				pts = append(pts, fmt.Sprintf("%d:%d", ts(), s.hash))
			}
			// often repeat one point alone afterwards and inside another batch
			ops = append(ops, fmt.Sprintf("map now+0 db0 rp0 %s", strings.Join(pts, ",")))
			if r.Chance(0.5) {
				ops = append(ops, fmt.Sprintf("map now+0 db0 rp0 %s", pts[r.Intn(len(pts))]))
			}
		}
		if r.Chance(0.3) {
			ops = append(ops, "dump")
		}
	}
	ops = append(ops, "dump")
	return fw.Case{Ops: ops}
}

func (Prop) Generate(r *fw.Rand, tier string) []fw.Case {
	n := 400
	if tier == "thorough" {
		n = 12000
	}
	var cases []fw.Case
	for i := 0; i < n; i++ {
		cases = append(cases, genCase(r.Fork(), tier))
	}
	return cases
}

// ---- implementation side ----

type metaClient struct{ m *metah.M }

func (c metaClient) NodeID() uint64                          { return 1 }
func (c metaClient) Database(name string) *meta.DatabaseInfo { return c.m.F.Data().Database(name) }
func (c metaClient) RetentionPolicy(database, policy string) (*meta.RetentionPolicyInfo, error) {
	return c.m.F.Data().RetentionPolicy(database, policy)
}

// as meta.Client.CreateShardGroup, with the FSM applied in-process
func (c metaClient) CreateShardGroup(database, policy string, timestamp time.Time) (*meta.ShardGroupInfo, error) {
	if sg, _ := c.m.F.Data().ShardGroupByTimestamp(database, policy, timestamp); sg != nil {
		return sg, nil
	}
	c.m.K++
	res, pan := c.m.F.Apply(meta.VerifCmdCreateShardGroup(database, policy, timestamp.UnixNano()), c.m.K, c.m.F.Data().Term)
	if pan != "" {
		return nil, fmt.Errorf("panic: %s", pan)
	}
	if err, ok := res.(error); ok && err != nil {
		return nil, err
	}
	rpi, err := c.m.F.Data().RetentionPolicy(database, policy)
	if err != nil {
		return nil, err
	} else if rpi == nil {
		return nil, fmt.Errorf("retention policy deleted after shard group created")
	}
	return rpi.ShardGroupByTimestamp(timestamp), nil
}

type pt struct {
	t    int64
	hash uint64
}

func parsePts(s string) []pt {
	var out []pt
	for _, x := range strings.Split(s, ",") {
		p := strings.Split(x, ":")
		t, _ := strconv.ParseInt(p[0], 10, 64)
		h, _ := strconv.ParseUint(p[1], 10, 64)
		out = append(out, pt{t, h})
	}
	return out
}

func keyFor(hash uint64) string {
	for _, s := range series {
		if s.hash == hash {
			return s.key
		}
	}
	return "cpu"
}

type mapped struct {
	dropped bool
	group   uint64
	shard   uint64
}

func doMap(m *metah.M, db, rp string, pts []pt) ([]mapped, error) {
	w := coordinator.NewPointsWriter()
	w.MetaClient = metaClient{m}
	var mps []models.Point
	for i, p := range pts {
		ps, err := models.ParsePointsString(fmt.Sprintf("%s i=%di %d", keyFor(p.hash), i, p.t))
		if err != nil {
			return nil, err
		}
		mps = append(mps, ps[0])
	}
	sm, err := w.MapShards(&coordinator.WritePointsRequest{Database: db, RetentionPolicy: rp, Points: mps})
	if err != nil {
		return nil, err
	}
	// shard -> group from the metadata after the call
	sg := map[uint64]uint64{}
	for _, d := range m.F.Data().Databases {
		for _, r := range d.RetentionPolicies {
			for _, g := range r.ShardGroups {
				for _, s := range g.Shards {
					sg[s.ID] = g.ID
				}
			}
		}
	}
	out := make([]mapped, len(pts))
	seen := make([]int, len(pts))
	idx := func(p models.Point) int {
		fi := p.FieldIterator()
		for fi.Next() {
			v, _ := fi.IntegerValue()
			return int(v)
		}
		return -1
	}
	for sid, ps := range sm.Points {
		for _, p := range ps {
			i := idx(p)
			out[i] = mapped{group: sg[sid], shard: sid}
			seen[i]++
		}
	}
	for _, p := range sm.Dropped {
		i := idx(p)
		out[i] = mapped{dropped: true}
		seen[i]++
	}
	for i, n := range seen {
		if n != 1 {
			return nil, fmt.Errorf("LOSTDUP point %d appears %d times in the mapping", i, n)
		}
	}
	return out, nil
}

func showMapped(ms []mapped) string {
	var s []string
	for _, m := range ms {
		if m.dropped {
			s = append(s, "D")
		} else {
			s = append(s, fmt.Sprintf("%d.%d", m.group, m.shard))
		}
	}
	return "ok " + strings.Join(s, ",")
}

// StepOp runs one op of the routing language (a `map` batch through the real
// PointsWriter.MapShards, anything else through the metadata harness).
func StepOp(m *metah.M, op string) string { return stepOp(m, op) }

// Dropped maps the batch of a `map` op on m and reports, per point, its timestamp and whether
// MapShards dropped it (nil if the mapping failed).
func Dropped(m *metah.M, op string) (ts []int64, dropped []bool) {
	f := strings.Fields(op)
	pts := parsePts(f[4])
	ms, err := doMap(m, metah.Nm(f[2]), metah.Nm(f[3]), pts)
	if err != nil {
		return nil, nil
	}
	for i, x := range ms {
		ts = append(ts, pts[i].t)
		dropped = append(dropped, x.dropped)
	}
	return
}

// SeriesHash is the hash of the i-th series the batches are built from.
func SeriesHash(i int) uint64 { return series[i%len(series)].hash }

// sameSeries: pairs of forms (indices into the series list) that spell one series
var sameSeries = [][2]int{{0, 1}, {5, 6}, {9, 10}, {11, 12}}

func stepOp(m *metah.M, op string) string {
	f := strings.Fields(op)
	if f[0] == "samekey" {
		// the two spellings are parsed now, by the code under test: same key, same hash
		i, _ := strconv.Atoi(f[1])
		j, _ := strconv.Atoi(f[2])
		a, e1 := models.ParsePointsString(series[i].key + " v=1 1")
		b, e2 := models.ParsePointsString(series[j].key + " v=1 1")
		if e1 != nil || e2 != nil || len(a) != 1 || len(b) != 1 {
			return "err"
		}
		if string(a[0].Key()) != string(b[0].Key()) || a[0].HashID() != b[0].HashID() {
			return fmt.Sprintf("DIFFERENT-KEYS %s / %s", a[0].Key(), b[0].Key())
		}
		return "ok"
	}
	if f[0] == "map" {
		ms, err := doMap(m, metah.Nm(f[2]), metah.Nm(f[3]), parsePts(f[4]))
		if err != nil {
			if strings.HasPrefix(err.Error(), "LOSTDUP") {
				return strings.ReplaceAll(err.Error(), " ", "_")
			}
			return "err"
		}
		return showMapped(ms)
	}
	return m.Step(op)
}

func (Prop) RunImpl(c fw.Case) []string {
	m := metah.New(true)
	out := make([]string, len(c.Ops))
	for i, op := range c.Ops {
		out[i] = stepOp(m, op)
	}
	return out
}

// Oracle: judged from the real metadata after each batch.
func (Prop) Oracle(c fw.Case, implOut []string) fw.Verdict {
	m := metah.New(true)
	for k, op := range c.Ops {
		f := strings.Fields(op)
		if f[0] == "samekey" {
			if k < len(implOut) && implOut[k] != "ok" {
				return fw.Verdict{OK: false, Why: op + " => " + implOut[k] + ": one series, written with its tags in another order, gets another key (and so another shard)", Signature: "tag order changes the series key"}
			}
			continue
		}
		if f[0] != "map" {
			m.Step(op)
			continue
		}
		now, _ := strconv.ParseInt(f[1], 10, 64)
		db, rp := metah.Nm(f[2]), metah.Nm(f[3])
		pts := parsePts(f[4])
		ms, err := doMap(m, db, rp, pts)
		if err != nil {
			if strings.HasPrefix(err.Error(), "LOSTDUP") {
				return fw.Verdict{OK: false, Why: op + ": " + err.Error(), Signature: "point lost or duplicated by mapping"}
			}
			continue
		}
		d := m.F.Data()
		rpi, _ := d.RetentionPolicy(db, rp)
		if rpi == nil {
			continue
		}
		byKey := map[string]uint64{}
		for i, p := range pts {
			t := time.Unix(0, p.t)
			old := rpi.Duration > 0 && p.t < now-int64(rpi.Duration)
			nearCut := rpi.Duration > 0 && abs64(p.t-(now-int64(rpi.Duration))) < int64(30*time.Minute)
			if ms[i].dropped {
				if !old && !nearCut {
					return fw.Verdict{OK: false, Why: fmt.Sprintf("%s: point %d at %d within retention was dropped", op, i, p.t), Signature: "young point dropped"}
				}
				continue
			}
			if old && !nearCut {
				return fw.Verdict{OK: false, Why: fmt.Sprintf("%s: point %d at %d is older than the retention period (cut-off %d) but was routed to shard %d, not reported as dropped", op, i, p.t, now-int64(rpi.Duration), ms[i].shard), Signature: "old point not dropped"}
			}
			want := rpi.ShardGroupByTimestamp(t)
			if want == nil || want.ID != ms[i].group {
				wid := "none"
				if want != nil {
					wid = fmt.Sprint(want.ID)
				}
				sig := "routed to a group the metadata does not designate"
				for _, g := range rpi.ShardGroups {
					if g.ID == ms[i].group {
						if g.Deleted() {
							sig = "routed to a deleted group"
						} else if g.Truncated() && !t.Before(g.TruncatedAt) {
							sig = "routed to a truncated group at/after its truncation time"
						}
					}
				}
				return fw.Verdict{OK: false, Why: fmt.Sprintf("%s: point %d at %d routed to group %d, metadata designates %s\n  %s", op, i, p.t, ms[i].group, wid, metah.Dump(d)), Signature: sig}
			}
			// same series key (whatever the tag order) and same group => same shard
			k := fmt.Sprintf("%d/%d", p.hash, ms[i].group)
			if prev, ok := byKey[k]; ok && prev != ms[i].shard {
				return fw.Verdict{OK: false, Why: fmt.Sprintf("%s: series %d routed to shards %d and %d of group %d", op, p.hash, prev, ms[i].shard, ms[i].group), Signature: "same series, two shards"}
			}
			byKey[k] = ms[i].shard
			// shard chosen by the key alone
			for _, g := range rpi.ShardGroups {
				if g.ID == ms[i].group {
					if exp := g.Shards[p.hash%uint64(len(g.Shards))].ID; exp != ms[i].shard {
						return fw.Verdict{OK: false, Why: fmt.Sprintf("%s: point %d in shard %d, key hash designates %d", op, i, ms[i].shard, exp), Signature: "shard not chosen by key hash"}
					}
				}
			}
		}
		// independence from the rest of the batch: each point alone routes the same
		for i, p := range pts {
			alone, err := doMap(m, db, rp, []pt{p})
			if err != nil {
				continue
			}
			if alone[0] != ms[i] {
				return fw.Verdict{OK: false, Why: fmt.Sprintf("%s: point %d routes to %v in the batch and to %v alone", op, i, ms[i], alone[0]), Signature: "routing depends on the batch"}
			}
		}
	}
	return fw.Verdict{OK: true}
}

func abs64(x int64) int64 {
	if x < 0 {
		return -x
	}
	return x
}

func (Prop) Trivial(c fw.Case, out []string) bool {
	for i, op := range c.Ops {
		if !strings.HasPrefix(op, "map") || i >= len(out) {
			continue
		}
		groups := map[string]bool{}
		for _, x := range strings.Split(strings.TrimPrefix(out[i], "ok "), ",") {
			groups[strings.Split(x, ".")[0]] = true
		}
		if len(groups) >= 2 {
			return false
		}
	}
	return true
}

var _ = sort.Ints
