package extract

import (
	"fmt"
	"go/ast"
	"math"
	"strings"

	"github.com/influxdata/influxdb/tsdb/engine/tsm1"
	"github.com/jwilder/encoding/simple8b"
)

func init() {
	Register(func(repo, out string) error {
		f := NewFile("C13")
		// simple8b selector table, behaviourally: count per selector and lane width from
		// decoding a word whose payload is all ones
		var ns, bits []uint64
		for k := uint64(0); k < 16; k++ {
			n, err := simple8b.Count(k << 60)
			if err != nil {
				return err
			}
			var buf [240]uint64
			m, err := simple8b.Decode(&buf, k<<60|(1<<60-1))
			if err != nil || m != n {
				return fmt.Errorf("C13: selector %d: decode count %d vs %d (%v)", k, m, n, err)
			}
			b := uint64(0)
			if k >= 2 {
				for v := buf[0]; v > 0; v >>= 1 {
					b++
				}
			}
			ns = append(ns, uint64(n))
			bits = append(bits, b)
		}
		f.NatList("selectorCounts", ns)
		f.NatList("selectorBits", bits)
		f.Nat("s8bMaxValue", simple8b.MaxValue)
		// Go's math.Log10 / math.Pow10 on the divisors the timestamp codec uses
		var logs, pows []uint64
		for k := 0; k <= 12; k++ {
			logs = append(logs, uint64(byte(math.Log10(float64(uint64(math.Pow10(k)))))))
		}
		for k := 0; k <= 15; k++ {
			pows = append(pows, uint64(math.Pow10(k)))
		}
		f.NatList("log10OfPow10", logs)
		f.NatList("pow10Table", pows)
		f.NatList("walEntryTypes", []uint64{uint64(tsm1.WriteWALEntryType), uint64(tsm1.DeleteWALEntryType), uint64(tsm1.DeleteRangeWALEntryType)})
		f.NatList("blockTypes", []uint64{uint64(tsm1.BlockFloat64), uint64(tsm1.BlockInteger), uint64(tsm1.BlockBoolean), uint64(tsm1.BlockString), uint64(tsm1.BlockUnsigned)})
		// the WAL reader does not size a buffer by the length field of an entry before the
		// bytes are there: Next reads through readFullGrowing and nowhere asks the pool for a
		// buffer of `length` bytes
		src, err := Parse(repo, "tsdb/engine/tsm1/wal.go")
		if err != nil {
			return err
		}
		next := src.Func("WALSegmentReader", "Next")
		if next == nil {
			return fmt.Errorf("C13: WALSegmentReader.Next not found")
		}
		grows, sizedByLength := false, false
		ast.Inspect(next, func(n ast.Node) bool {
			c, ok := n.(*ast.CallExpr)
			if !ok {
				return true
			}
			switch src.Text(c.Fun) {
			case "readFullGrowing":
				grows = true
			case "getBuf", "make":
				for _, a := range c.Args {
					if strings.Contains(src.Text(a), "length") {
						sizedByLength = true
					}
				}
			}
			return true
		})
		f.Bool("walLengthNotTrusted", grows && !sizedByLength)
		f.Nat("walReadChunk", uint64(tsm1.VerifWALReadChunk))
		return f.Write(out)
	})
}
