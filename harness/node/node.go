// Package node builds an in-process data node out of the real components: tsdb.Store,
// meta.Client (metadata installed through the verif hook, no meta service), tcp.Mux,
// coordinator.Service, ShardWriter, MetaExecutor, PointsWriter, query.Executor.
package node

import (
	"fmt"
	"net"
	"os"
	"path/filepath"
	"time"

	"github.com/influxdata/influxdb/coordinator"
	"github.com/influxdata/influxdb/query"
	"github.com/influxdata/influxdb/services/meta"
	"github.com/influxdata/influxdb/services/storage"
	"github.com/influxdata/influxdb/tcp"
	"github.com/influxdata/influxdb/tsdb"
	_ "github.com/influxdata/influxdb/tsdb/engine"
	_ "github.com/influxdata/influxdb/tsdb/index"
	"go.uber.org/zap"
)

type Node struct {
	Dir          string
	Addr         string // tcp address of the cluster listener
	Ln           net.Listener
	Mux          *tcp.Mux
	Store        *tsdb.Store
	Meta         *meta.Client
	Service      *coordinator.Service
	ShardWriter  *coordinator.ShardWriter
	MetaExecutor *coordinator.MetaExecutor
	PointsWriter *coordinator.PointsWriter
	Executor     *query.Executor
	HH           *StubHH
}

type serverStub struct{ addr string }

func (s serverStub) Reset() error       { return nil }
func (s serverStub) HTTPAddr() string   { return "127.0.0.1:0" }
func (s serverStub) HTTPScheme() string { return "http" }
func (s serverStub) TCPAddr() string    { return s.addr }

// StubHH records hinted-handoff writes (the queue itself is C04).
type StubHH struct {
	Writes map[uint64]int
}

func (h *StubHH) WriteShard(shardID, ownerID uint64, points interface{}) error { return nil }
func (h *StubHH) RemoveNode(ownerID uint64) error                              { return nil }

type Options struct {
	Index      string        // "inmem" (default) or "tsi1"
	RPCTimeout time.Duration // the MetaExecutor's response timeout (default 10 s)
}

// Listen reserves the node's cluster address first, so that metadata can name it.
func Listen() (net.Listener, error) { return net.Listen("tcp", "127.0.0.1:0") }

func New(dir string, ln net.Listener, opt Options) (*Node, error) {
	n := &Node{Dir: dir, Ln: ln, Addr: ln.Addr().String()}
	os.MkdirAll(dir, 0o755)

	mc := meta.NewConfig()
	mc.Dir = filepath.Join(dir, "meta")
	os.MkdirAll(mc.Dir, 0o755)
	n.Meta = meta.NewClient(mc)
	n.Meta.SetTCPAddr(n.Addr)

	n.Store = tsdb.NewStore(filepath.Join(dir, "data"))
	cfg := tsdb.NewConfig()
	cfg.Dir = filepath.Join(dir, "data")
	cfg.WALDir = filepath.Join(dir, "wal")
	if opt.Index != "" {
		cfg.Index = opt.Index
	}
	// background work is starved: explicit snapshots/compactions only
	cfg.CacheSnapshotWriteColdDuration = tomlDur(1000 * time.Hour)
	cfg.CompactFullWriteColdDuration = tomlDur(1000 * time.Hour)
	n.Store.EngineOptions.Config = cfg
	n.Store.EngineOptions.EngineVersion = cfg.Engine
	n.Store.EngineOptions.IndexVersion = cfg.Index
	n.Store.EngineOptions.WALEnabled = true
	n.Store.EngineOptions.MonitorDisabled = true
	n.Store.WithLogger(zap.NewNop())
	if err := n.Store.Open(); err != nil {
		return nil, fmt.Errorf("open store: %v", err)
	}

	writeTimeout := 5 * time.Second
	if opt.RPCTimeout > 0 {
		writeTimeout = opt.RPCTimeout
	}
	n.ShardWriter = coordinator.NewShardWriter(writeTimeout, 2*time.Second, time.Minute, 10)
	n.ShardWriter.MetaClient = n.Meta
	rpcTimeout := 10 * time.Second
	if opt.RPCTimeout > 0 {
		rpcTimeout = opt.RPCTimeout
	}
	n.MetaExecutor = coordinator.NewMetaExecutor(rpcTimeout, 2*time.Second, time.Minute, 10)
	n.MetaExecutor.MetaClient = n.Meta

	n.Executor = query.NewExecutor()
	clusterStore := &coordinator.ClusterTSDBStore{Store: n.Store, MetaExecutor: n.MetaExecutor}
	n.PointsWriter = coordinator.NewPointsWriter()
	n.PointsWriter.TSDBStore = n.Store
	n.PointsWriter.ShardWriter = n.ShardWriter
	n.PointsWriter.MetaClient = n.Meta
	n.PointsWriter.WriteTimeout = 5 * time.Second
	n.Executor.StatementExecutor = &coordinator.StatementExecutor{
		MetaClient:   n.Meta,
		TaskManager:  &coordinator.ClusterTaskManager{TaskManager: n.Executor.TaskManager, MetaExecutor: n.MetaExecutor},
		TSDBStore:    clusterStore,
		ShardMapper:  &coordinator.ClusterShardMapper{MetaClient: n.Meta, TSDBStore: n.Store, MetaExecutor: n.MetaExecutor},
		PointsWriter: n.PointsWriter,
	}

	n.Mux = tcp.NewMux()
	n.Mux.Timeout = 2 * time.Second
	go n.Mux.Serve(ln)
	ccfg := coordinator.NewConfig()
	n.Service = coordinator.NewService(ccfg)
	n.Service.Listener = n.Mux.Listen(coordinator.MuxHeader)
	n.Service.DefaultListener = n.Mux.DefaultListener()
	// the inter-node service answers for this node's own store, as in cmd/influxd/run (the
	// cluster store, which fans out, belongs to the statement executor only)
	n.Service.TSDBStore = n.Store
	n.Service.MetaClient = n.Meta
	n.Service.TaskManager = n.Executor.TaskManager
	n.Service.Store = storage.NewStore(n.Store, n.Meta)
	n.Service.Server = serverStub{n.Addr}
	n.Service.HintedHandoff = hhStub{}
	if err := n.Service.Open(); err != nil {
		return nil, fmt.Errorf("open coordinator service: %v", err)
	}
	return n, nil
}

type hhStub struct{}

func (hhStub) RemoveNode(ownerID uint64) error { return nil }

// SetData installs a metadata value in the node's meta client (as a poll would).
func (n *Node) SetData(d *meta.Data) { meta.VerifClientSetData(n.Meta, d) }

func (n *Node) Close() {
	if n.Service != nil {
		n.Service.Close()
	}
	if n.Ln != nil {
		n.Ln.Close()
	}
	if n.Store != nil {
		n.Store.Close()
	}
}
