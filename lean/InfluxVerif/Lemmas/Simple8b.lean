/- Helper lemmas for Props/C13.lean: simple8b. -/
import InfluxVerif.Model.Codec.Simple8b
import InfluxVerif.Lemmas.CodecBasic

namespace InfluxVerif.Codec

theorem packLanes_lt (bits : Nat) (xs : List Nat) (h : ∀ x ∈ xs, x < 2 ^ bits) :
    packLanes bits xs < 2 ^ (bits * xs.length) := by
  induction xs with
  | nil => simp [packLanes]
  | cons x xs ih =>
    have hx := h x (by simp)
    have ih' := ih (fun y hy => h y (by simp [hy]))
    simp only [packLanes, List.length_cons]
    rw [show bits * (xs.length + 1) = bits + bits * xs.length by ring, Nat.pow_add]
    generalize 2 ^ bits = B at *
    generalize 2 ^ (bits * xs.length) = C at *
    generalize packLanes bits xs = P at *
    have : B * P + B ≤ B * C := by
      have : P + 1 ≤ C := ih'
      calc B * P + B = B * (P + 1) := by ring
        _ ≤ B * C := Nat.mul_le_mul_left B this
    omega

theorem unpack_pack (bits : Nat) (xs : List Nat) (h : ∀ x ∈ xs, x < 2 ^ bits) :
    unpackLanes bits xs.length (packLanes bits xs) = xs := by
  induction xs with
  | nil => rfl
  | cons x xs ih =>
    have hx := h x (by simp)
    have ih' := ih (fun y hy => h y (by simp [hy]))
    have hpos : 0 < 2 ^ bits := Nat.pos_of_ne_zero (by simp)
    simp only [packLanes, List.length_cons, unpackLanes]
    rw [Nat.add_mul_mod_self_left, Nat.mod_eq_of_lt hx, Nat.add_mul_div_left _ _ hpos,
      Nat.div_eq_of_lt hx, Nat.zero_add, ih']

theorem selectors_ok : ∀ p ∈ selectors, 1 ≤ p.1 ∧ p.1 * p.2 ≤ 60 := by decide

theorem selectors_length : selectors.length = 16 := rfl

theorem pickSel_spec (src : List Nat) (l : List (Nat × Nat)) (k k' n b : Nat)
    (h : pickSel src k l = some (k', n, b)) :
    ∃ j, l[j]? = some (n, b) ∧ k' = k + j ∧ canPack src n b = true := by
  induction l generalizing k with
  | nil => simp [pickSel] at h
  | cons p rest ih =>
    obtain ⟨pn, pb⟩ := p
    simp only [pickSel] at h
    split at h
    · rename_i hc
      simp only [Option.some.injEq, Prod.mk.injEq] at h
      obtain ⟨rfl, rfl, rfl⟩ := h
      exact ⟨0, by simp, by simp, hc⟩
    · obtain ⟨j, hj, hk, hc⟩ := ih (k + 1) h
      exact ⟨j + 1, by simpa using hj, by omega, hc⟩

theorem T60_eq : (2 : Nat) ^ 60 = T60 := by unfold T60; norm_num

theorem decodeWord_of (k n bits P : Nat) (hk : selectors[k]? = some (n, bits)) (hP : P < T60) :
    decodeWord (T60 * k + P) =
      if bits = 0 then List.replicate n 1 else unpackLanes bits n P := by
  have hk16 : k < 16 := by
    have := (List.getElem?_eq_some_iff.1 hk).1
    simpa [selectors_length] using this
  unfold decodeWord
  have h1 : (T60 * k + P) / T60 % 16 = k := by unfold T60 at *; omega
  have h2 : (T60 * k + P) % T60 = P := by unfold T60 at *; omega
  rw [h1, hk, h2]

theorem encodeWord_spec (src : List Nat) (word n : Nat) (h : encodeWord src = some (word, n)) :
    1 ≤ n ∧ n ≤ src.length ∧ decodeWord word = src.take n ∧ word < M64 := by
  unfold encodeWord at h
  split at h
  · cases h
  · rename_i k n' bits hp
    obtain ⟨j, hj, hk, hc⟩ := pickSel_spec src selectors 0 k n' bits hp
    simp only [Nat.zero_add] at hk
    subst hk
    have hmem : (n', bits) ∈ selectors := List.mem_of_getElem? hj
    obtain ⟨hn1, hnb⟩ := selectors_ok _ hmem
    simp only at hn1 hnb
    have hk16 : k < 16 := by
      have := (List.getElem?_eq_some_iff.1 hj).1
      simpa [selectors_length] using this
    unfold canPack at hc
    split at hc
    · cases hc
    · rename_i hlen
      have hlen' : n' ≤ src.length := by omega
      split at h
      · rename_i hb0
        simp only [Option.some.injEq, Prod.mk.injEq] at h
        obtain ⟨rfl, rfl⟩ := h
        simp only [hb0, if_true] at hc
        refine ⟨hn1, hlen', ?_, ?_⟩
        · have := decodeWord_of k n' bits 0 hj (by unfold T60; omega)
          simp only [Nat.add_zero] at this
          rw [this]; simp only [hb0, if_true]
          apply List.ext_getElem
          · simp [hlen']
          · intro i h1 h2
            have hi : i < src.length := by simp at h2; omega
            simp only [List.getElem_replicate, List.getElem_take]
            have := List.all_eq_true.1 hc src[i] (List.getElem_mem hi)
            simp at this; exact this.symm
        · unfold M64 T60; omega
      · rename_i hb0
        simp only [Option.some.injEq, Prod.mk.injEq] at h
        obtain ⟨rfl, rfl⟩ := h
        simp only [hb0, if_false] at hc
        have hall : ∀ x ∈ src.take n', x < 2 ^ bits := by
          intro x hx
          have := List.all_eq_true.1 hc x hx
          have hpos : 0 < 2 ^ bits := Nat.pos_of_ne_zero (by simp)
          simp only [decide_eq_true_eq] at this
          omega
        have hlt := packLanes_lt bits (src.take n') hall
        have hlenT : (src.take n').length = n' := by simp [hlen']
        rw [hlenT] at hlt
        have h60 : packLanes bits (List.take n' src) < T60 := by
          rw [← T60_eq]
          calc packLanes bits (List.take n' src) < 2 ^ (bits * n') := hlt
            _ ≤ 2 ^ 60 := Nat.pow_le_pow_right (by norm_num) (by rw [Nat.mul_comm]; exact hnb)
        refine ⟨hn1, hlen', ?_, ?_⟩
        · rw [decodeWord_of k n' bits _ hj h60]
          simp only [hb0, if_false]
          have := unpack_pack bits (src.take n') hall
          rwa [hlenT] at this
        · unfold M64; unfold T60 at *; omega

theorem decodeAll_cons (w : Nat) (ws : List Nat) :
    s8bDecodeAll (w :: ws) = decodeWord w ++ s8bDecodeAll ws := by
  simp [s8bDecodeAll]

/-- **greedy round trip**, whatever look-ahead window the encoder uses -/
theorem encodeGreedy_roundtrip (win : Option Nat) (fuel : Nat) (xs ws : List Nat)
    (h : encodeGreedy win fuel xs = some ws) :
    s8bDecodeAll ws = xs ∧ ∀ w ∈ ws, w < M64 := by
  induction fuel generalizing xs ws with
  | zero =>
    cases xs with
    | nil => simp [encodeGreedy] at h; subst h; simp [s8bDecodeAll]
    | cons x xs => simp [encodeGreedy] at h
  | succ fuel ih =>
    cases xs with
    | nil => simp [encodeGreedy] at h; subst h; simp [s8bDecodeAll]
    | cons x xs =>
      simp only [encodeGreedy] at h
      split at h
      · cases h
      · rename_i word n hw
        split at h
        · cases h
        · split at h
          · cases h
          · rename_i ws' hrec
            simp only [Option.some.injEq] at h
            subst h
            obtain ⟨hn1, hnl, hdec, hlt⟩ := encodeWord_spec _ _ _ hw
            obtain ⟨ih1, ih2⟩ := ih _ _ hrec
            have htake : (window win (x :: xs)).take n
                = (x :: xs).take n := by
              cases win with
              | none => rfl
              | some k =>
                simp only [window] at hnl ⊢
                rw [List.take_take]
                congr 1
                simp only [List.length_take] at hnl
                omega
            constructor
            · rw [decodeAll_cons, hdec, htake, ih1, List.take_append_drop]
            · intro w hwm
              simp only [List.mem_cons] at hwm
              rcases hwm with rfl | hwm
              · exact hlt
              · exact ih2 w hwm

theorem canPack_last (src : List Nat) (hne : src ≠ []) (h : ∀ x ∈ src, x ≤ s8bMax) :
    canPack src 1 60 = true := by
  cases src with
  | nil => exact absurd rfl hne
  | cons x xs =>
    have hx := h x (by simp)
    unfold s8bMax at hx
    simp [canPack]
    omega

theorem pickSel_isSome_of_mem (src : List Nat) (k : Nat) (l : List (Nat × Nat)) (p : Nat × Nat)
    (hp : p ∈ l) (hc : canPack src p.1 p.2 = true) : (pickSel src k l).isSome = true := by
  induction l generalizing k with
  | nil => simp at hp
  | cons q rest ih =>
    obtain ⟨qn, qb⟩ := q
    simp only [pickSel]
    split
    · rfl
    · simp only [List.mem_cons] at hp
      rcases hp with rfl | hp
      · simp_all
      · exact ih (k + 1) hp

theorem encodeWord_isSome (src : List Nat) (hne : src ≠ []) (h : ∀ x ∈ src, x ≤ s8bMax) :
    (encodeWord src).isSome = true := by
  have := pickSel_isSome_of_mem src 0 selectors (1, 60) (by decide) (canPack_last src hne h)
  unfold encodeWord
  cases hp : pickSel src 0 selectors with
  | none => simp [hp] at this
  | some r =>
    obtain ⟨k, n, b⟩ := r
    simp only
    split <;> rfl

/-- **totality**: values within 60 bits are always encodable ("packed never errors") -/
theorem encodeGreedy_total (win : Option Nat) (hwin : ∀ k, win = some k → 1 ≤ k)
    (fuel : Nat) (xs : List Nat) (hf : xs.length ≤ fuel) (h : ∀ x ∈ xs, x ≤ s8bMax) :
    (encodeGreedy win fuel xs).isSome = true := by
  induction fuel generalizing xs with
  | zero =>
    cases xs with
    | nil => rfl
    | cons x xs => simp at hf
  | succ fuel ih =>
    cases xs with
    | nil => rfl
    | cons x xs =>
      simp only [encodeGreedy]
      have hwne : window win (x :: xs) ≠ [] := by
        cases win with
        | none => simp [window]
        | some k =>
          simp only [window]
          have := hwin k rfl
          cases k with
          | zero => omega
          | succ k => simp
      have hwall : ∀ y ∈ window win (x :: xs), y ≤ s8bMax := by
        intro y hy
        cases win with
        | none => exact h y hy
        | some k => exact h y (List.mem_of_mem_take (by simpa [window] using hy))
      have hsome := encodeWord_isSome _ hwne hwall
      cases hw : encodeWord (window win (x :: xs)) with
      | none => simp [hw] at hsome
      | some r =>
        obtain ⟨word, n⟩ := r
        obtain ⟨hn1, hnl, _, _⟩ := encodeWord_spec _ _ _ hw
        simp only
        have hn0 : ¬ (n = 0) := by omega
        simp only [hn0, if_false]
        have hrec := ih ((x :: xs).drop n)
          (by simp only [List.length_drop, List.length_cons] at *; omega)
          (fun y hy => h y (List.mem_of_mem_drop hy))
        cases hr : encodeGreedy win fuel ((x :: xs).drop n) with
        | none => simp [hr] at hrec
        | some ws' => rfl

theorem bytesToWords_wordsToBytes (ws : List Nat) (h : ∀ w ∈ ws, w < M64) (fuel : Nat)
    (hf : ws.length ≤ fuel) (tail : Bytes) (ht : tail.length < 8) :
    bytesToWords fuel (wordsToBytes ws ++ tail) = ws := by
  induction ws generalizing fuel with
  | nil =>
    simp only [wordsToBytes, List.flatMap_nil, List.nil_append]
    cases fuel with
    | zero => rfl
    | succ f =>
      simp only [bytesToWords]
      have : be64dec tail = none := by
        match tail, ht with
        | [], _ => rfl
        | [_], _ => rfl
        | [_, _], _ => rfl
        | [_, _, _], _ => rfl
        | [_, _, _, _], _ => rfl
        | [_, _, _, _, _], _ => rfl
        | [_, _, _, _, _, _], _ => rfl
        | [_, _, _, _, _, _, _], _ => rfl
        | _ :: _ :: _ :: _ :: _ :: _ :: _ :: _ :: _, h => simp at h; omega
      rw [this]
  | cons w ws ih =>
    cases fuel with
    | zero => simp at hf
    | succ f =>
      simp only [wordsToBytes, List.flatMap_cons, List.append_assoc, bytesToWords]
      rw [be64_roundtrip w (h w (by simp))]
      simp only
      congr 1
      exact ih (fun y hy => h y (by simp [hy])) f (by simp at hf; omega)

end InfluxVerif.Codec
