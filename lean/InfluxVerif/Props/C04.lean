/-
C04 — Hinted handoff queue loses nothing and keeps order.
Refinement of the queue model (`InfluxVerif.HH`) to a FIFO of pending blocks
(`Q.pending`), for every sequence of operations; `Empty` ⇔ nothing pending; the batch
splitting of `NodeProcessor.WriteShard`.
-/
import InfluxVerif.Lemmas.HHQueue

namespace InfluxVerif.HH

/-- **Append.** An accepted block goes to the back of the pending blocks; a refused append
(queue full, not open, block larger than a segment) leaves them unchanged. The invariant
is kept in every case. -/
theorem append_refines (q : Q) (hw : q.WF) (b : Block) (buffered : Bool) :
    let r := q.append b buffered
    r.1.WF ∧ (r.2 = .ok → r.1.pending = q.pending ++ [b]) ∧ (r.2 ≠ .ok → r.1.pending = q.pending) := by
  simp only [Q.append]
  cases hl : q.segs.getLast? with
  | none => simp only; exact ⟨hw, by simp, by simp⟩
  | some tail =>
    simp only
    split
    · exact ⟨hw, by simp, by simp⟩
    · have hsplit := segs_split q.segs tail hl
      obtain ⟨hinit, htw⟩ := (wf_snoc q _ _ hsplit).1 hw
      obtain ⟨hw1, hok1, hno1⟩ := seg_append_spec tail b buffered htw
      have hpend : q.pending = q.segs.dropLast.flatMap Seg.pend ++ tail.pend := by
        rw [pending_eq]; conv => lhs; rw [hsplit]
        exact flatMap_snoc _ _
      have hupd : updLast (fun _ => (tail.append b buffered).1) q.segs
          = q.segs.dropLast ++ [(tail.append b buffered).1] := by
        conv => lhs; rw [hsplit]
        exact updLast_append _ _ _
      cases hok : (tail.append b buffered).2 with
      | true =>
        simp only [if_true]
        refine ⟨?_, fun _ => ?_, fun h => absurd rfl h⟩
        · exact (wf_snoc _ _ _ hupd).2 ⟨hinit, hw1⟩
        · rw [pending_eq]; simp only; rw [hupd, flatMap_snoc, hok1 hok, hpend, List.append_assoc]
      | false =>
        simp only [Bool.false_eq_true, if_false]
        obtain ⟨hp1, hb1⟩ := hno1 hok
        -- after the failed append the old tail is flushed; a fresh segment becomes the tail
        have hsegs2 : ({ q with segs := updLast (fun _ => (tail.append b buffered).1) q.segs } : Q).addSegment.segs
            = (q.segs.dropLast ++ [(tail.append b buffered).1]) ++ [newSeg q.nextID q.maxSegSize] := by
          simp [Q.addSegment, hupd]
        have hl2 : (({ q with segs := updLast (fun _ => (tail.append b buffered).1) q.segs } : Q).addSegment).segs.getLast?
            = some (newSeg q.nextID q.maxSegSize) := by rw [hsegs2]; simp
        rw [hl2]
        simp only
        have hnw : (newSeg q.nextID q.maxSegSize).WF := by simp [Seg.WF, newSeg]
        obtain ⟨hw3, hok3, hno3⟩ := seg_append_spec (newSeg q.nextID q.maxSegSize) b buffered hnw
        have hupd2 : updLast (fun _ => ((newSeg q.nextID q.maxSegSize).append b buffered).1)
              (({ q with segs := updLast (fun _ => (tail.append b buffered).1) q.segs } : Q).addSegment).segs
            = (q.segs.dropLast ++ [(tail.append b buffered).1]) ++ [((newSeg q.nextID q.maxSegSize).append b buffered).1] := by
          rw [hsegs2]; exact updLast_append _ _ _
        have hinit2 : ∀ s ∈ q.segs.dropLast ++ [(tail.append b buffered).1], s.WF ∧ s.buf = [] := by
          intro s hs
          simp only [List.mem_append, List.mem_singleton] at hs
          rcases hs with hs | rfl
          · exact hinit s hs
          · exact ⟨hw1, hb1⟩
        have hnp : (newSeg q.nextID q.maxSegSize).pend = [] := by simp [Seg.pend, newSeg]
        refine ⟨?_, ?_, ?_⟩
        · exact (wf_snoc _ _ _ hupd2).2 ⟨hinit2, hw3⟩
        · intro hr
          have hok2 : ((newSeg q.nextID q.maxSegSize).append b buffered).2 = true := by
            cases h2 : ((newSeg q.nextID q.maxSegSize).append b buffered).2 with
            | true => rfl
            | false => simp [h2] at hr
          rw [pending_eq]; simp only; rw [hupd2, flatMap_snoc, flatMap_snoc, hok3 hok2, hnp, hp1, hpend]
          simp
        · intro hr
          have hok2 : ((newSeg q.nextID q.maxSegSize).append b buffered).2 = false := by
            cases h2 : ((newSeg q.nextID q.maxSegSize).append b buffered).2 with
            | false => rfl
            | true => simp [h2] at hr
          rw [pending_eq]; simp only; rw [hupd2, flatMap_snoc, flatMap_snoc, (hno3 hok2).1, hnp, hp1, hpend]
          simp

/-- **Current is the oldest pending block.** -/
theorem current_is_head (q : Q) (b : Block) (h : q.current = .block b) :
    ∃ rest, q.pending = b :: rest := by
  unfold Q.current at h
  cases hs : q.segs with
  | nil => simp [hs] at h
  | cons hd tl =>
    simp only [hs] at h
    cases hb : hd.blocks[hd.pos]? with
    | none => simp [hb] at h
    | some b' =>
      simp only [hb, Res.block.injEq] at h
      subst h
      have hlt : hd.pos < hd.blocks.length := by
        by_contra hge
        rw [List.getElem?_eq_none (by omega)] at hb
        cases hb
      have hdrop : hd.blocks.drop hd.pos = b' :: hd.blocks.drop (hd.pos + 1) := by
        rw [List.drop_eq_getElem_cons hlt]
        congr 1
        rw [List.getElem?_eq_getElem hlt] at hb
        exact Option.some.inj hb
      refine ⟨hd.blocks.drop (hd.pos + 1) ++ hd.buf ++ tl.flatMap Seg.pend, ?_⟩
      rw [pending_eq, hs]
      simp [List.flatMap_cons, Seg.pend, hdrop]

/-- **Empty ⇔ nothing pending.** -/
theorem empty_iff (q : Q) (_hw : q.WF) : q.empty = true ↔ q.pending = [] := by
  rw [pending_eq]
  unfold Q.empty
  simp only [List.all_eq_true, Bool.and_eq_true, decide_eq_true_eq, List.isEmpty_iff,
    List.flatMap_eq_nil_iff]
  constructor
  · intro h s hs
    obtain ⟨h1, h2⟩ := h s hs
    simp [Seg.pend, h2, List.drop_eq_nil_iff.2 h1]
  · intro h s hs
    have := h s hs
    simp only [Seg.pend, List.append_eq_nil_iff, List.drop_eq_nil_iff] at this
    exact ⟨this.1, this.2⟩

/-- flushing every segment before closing loses nothing: what is on disk after `Close`
holds exactly the pending blocks -/
theorem close_keeps_pending (q : Q) (hw : q.WF) :
    q.close.closedSegs.flatMap Seg.pend = q.pending := by
  rw [pending_eq]
  simp only [Q.close, List.flatMap_map]
  apply List.flatMap_congr
  intro s hs
  exact (flush_pend s (hw.1 s hs)).1

/-! ### the sender (`NodeProcessor.SendWrite`) -/

theorem trimHead_spec (q : Q) (hw : q.WF) (hd : ∀ h rest, q.segs = h :: rest → rest ≠ [] → h.pos ≥ h.blocks.length) :
    q.trimHead.WF ∧ q.trimHead.pending = q.pending := by
  unfold Q.trimHead
  cases hs : q.segs with
  | nil => simp only; exact ⟨hw, trivial⟩
  | cons h rest =>
    cases rest with
    | nil => simp only; exact ⟨hw, trivial⟩
    | cons s2 rest' =>
      simp only
      have hge := hd h (s2 :: rest') hs (by simp)
      have hbuf : h.buf = [] := hw.2 h (by rw [hs]; simp [List.dropLast])
      refine ⟨⟨fun s hs' => hw.1 s (by rw [hs]; exact List.mem_cons_of_mem _ hs'), fun s hs' => hw.2 s ?_⟩, ?_⟩
      · rw [hs]
        simp only [List.dropLast_cons_cons] at hs' ⊢
        exact List.mem_cons_of_mem _ hs'
      · rw [pending_eq, pending_eq, hs]
        simp [List.flatMap_cons, Seg.pend, hbuf, List.drop_eq_nil_iff.2 hge]

/-- **Advance after Current.** When the head of the queue points at a block, `Advance` removes
exactly that block — the oldest pending one — and nothing else. -/
theorem advance_drops_head (q : Q) (hw : q.WF) (b : Block) (hc : q.current = .block b) :
    (q.advance).1.WF ∧ q.pending = b :: (q.advance).1.pending := by
  unfold Q.current at hc
  unfold Q.advance
  cases hs : q.segs with
  | nil => simp [hs] at hc
  | cons h rest =>
    simp only [hs] at hc ⊢
    cases hb : h.blocks[h.pos]? with
    | none => simp [hb] at hc
    | some b' =>
      simp only [hb, Res.block.injEq] at hc
      subst hc
      have hlt : h.pos < h.blocks.length := by
        by_contra hge
        rw [List.getElem?_eq_none (by omega)] at hb
        cases hb
      have hnge : ¬ h.pos ≥ h.blocks.length := by omega
      simp only [hnge, if_false]
      have hdrop : h.blocks.drop h.pos = b' :: h.blocks.drop (h.pos + 1) := by
        rw [List.drop_eq_getElem_cons hlt]
        congr 1
        rw [List.getElem?_eq_getElem hlt] at hb
        exact Option.some.inj hb
      -- the queue after the offset moved
      let h' : Seg := { h with pos := h.pos + 1, old := false }
      let q' : Q := { q with segs := h' :: rest }
      have hw' : q'.WF := by
        refine ⟨fun s hs' => ?_, fun s hs' => ?_⟩
        · simp only [q', List.mem_cons] at hs'
          rcases hs' with rfl | hs'
          · show h.pos + 1 ≤ h.blocks.length
            omega
          · exact hw.1 s (by rw [hs]; exact List.mem_cons_of_mem _ hs')
        · have : s ∈ (h :: rest).dropLast ∨ (s = h' ∧ rest ≠ []) := by
            cases rest with
            | nil => simp [q', List.dropLast] at hs'
            | cons r rs =>
              simp only [q', List.dropLast_cons_cons, List.mem_cons] at hs'
              rcases hs' with rfl | hs'
              · exact Or.inr ⟨rfl, by simp⟩
              · exact Or.inl (by simp only [List.dropLast_cons_cons]; exact List.mem_cons_of_mem _ hs')
          rcases this with hm | ⟨rfl, hne⟩
          · exact hw.2 s (by rw [hs]; exact hm)
          · show h.buf = []
            apply hw.2 h
            rw [hs]
            cases rest with
            | nil => exact absurd rfl hne
            | cons r rs => simp [List.dropLast_cons_cons]
      have hp' : q.pending = b' :: q'.pending := by
        rw [pending_eq, pending_eq, hs]
        simp [q', h', List.flatMap_cons, Seg.pend, hdrop]
      split
      · rename_i hend
        obtain ⟨hw2, hp2⟩ := trimHead_spec q' hw' (by
          intro hh rr hseg _
          simp only [q', List.cons.injEq] at hseg
          obtain ⟨rfl, _⟩ := hseg
          exact hend)
        exact ⟨hw2, by rw [hp2]; exact hp'⟩
      · exact ⟨hw', hp'⟩

/-- **The sender's reaction to an empty-looking queue keeps every block.** -/
theorem skipDrainedHead_keeps_pending (q : Q) (hw : q.WF) :
    q.skipDrainedHead.WF ∧ q.skipDrainedHead.pending = q.pending := by
  unfold Q.skipDrainedHead
  cases hs : q.segs with
  | nil => simp only; exact ⟨hw, trivial⟩
  | cons h rest =>
    simp only
    split
    · rename_i hd
      apply trimHead_spec q hw
      intro hh rr hseg _
      rw [hs] at hseg
      simp only [List.cons.injEq] at hseg
      obtain ⟨rfl, _⟩ := hseg
      simp only [Seg.drained, Bool.and_eq_true, decide_eq_true_eq] at hd
      exact hd.1
    · exact ⟨hw, rfl⟩

/-- the blocks of `mid` that were accepted, in order -/
def accepted (q : Q) : List (Block × Bool) → List Block
  | [] => []
  | a :: rest => (if (q.append a.1 a.2).2 = .ok then [a.1] else []) ++ accepted (q.append a.1 a.2).1 rest

theorem applyAppends_spec (q : Q) (hw : q.WF) (mid : List (Block × Bool)) :
    (applyAppends q mid).WF ∧ (applyAppends q mid).pending = q.pending ++ accepted q mid ∧
    ∀ b, q.current = .block b → (applyAppends q mid).current = .block b := by
  induction mid generalizing q with
  | nil => simp [applyAppends, accepted, hw]
  | cons a rest ih =>
    obtain ⟨hw1, hok, hno⟩ := append_refines q hw a.1 a.2
    obtain ⟨hw2, hp2, hc2⟩ := ih (q.append a.1 a.2).1 hw1
    simp only [applyAppends, List.foldl_cons] at hw2 hp2 hc2 ⊢
    refine ⟨hw2, ?_, fun b hb => hc2 b (append_current q b a.1 a.2 hb)⟩
    rw [hp2]
    simp only [accepted]
    by_cases hr : (q.append a.1 a.2).2 = .ok
    · rw [hok hr]; simp [hr]
    · rw [hno hr]; simp [hr]

/-- **One round of the sender loses nothing.** Whatever appends other goroutines get in
between the sender's look at the head of the queue and its reaction — accepted or refused,
buffered or not — the blocks in the queue afterwards, preceded by the block handed to the shard
writer (if any), are exactly the blocks that were pending plus the accepted ones, in order.
In particular an accepted block is never dropped unsent. -/
theorem sendWrite_loses_nothing (q : Q) (hw : q.WF) (mid : List (Block × Bool)) (writerOK : Bool) :
    let r := sendWrite q mid writerOK
    r.1.WF ∧ r.2.toList ++ r.1.pending = q.pending ++ accepted q mid := by
  obtain ⟨hw1, hp1, hc1⟩ := applyAppends_spec q hw mid
  simp only [sendWrite]
  cases hc : q.current with
  | block b =>
    simp only
    cases writerOK with
    | true =>
      simp only [if_true]
      obtain ⟨hw2, hp2⟩ := advance_drops_head _ hw1 b (hc1 b hc)
      exact ⟨hw2, by simp [← hp1, hp2]⟩
    | false => simpa using ⟨hw1, hp1⟩
  | eof =>
    simp only
    obtain ⟨hw2, hp2⟩ := skipDrainedHead_keeps_pending _ hw1
    exact ⟨hw2, by simp [hp2, hp1]⟩
  | ok => simpa using ⟨hw1, hp1⟩
  | notOpen => simpa using ⟨hw1, hp1⟩
  | full => simpa using ⟨hw1, hp1⟩
  | segmentFull => simpa using ⟨hw1, hp1⟩
  | bool _ => simpa using ⟨hw1, hp1⟩

/-- **The pinned defect as a theorem.** The sender as it was (`Advance` when `Current`
reported end-of-queue) drops an accepted block without sending it: on the empty queue with one
append landing in between, the block is neither handed to the writer nor pending afterwards. -/
theorem sendWriteOld_loses_accepted_block :
    ∃ (q : Q) (mid : List (Block × Bool)), q.pending = [] ∧ accepted q mid = [[7]] ∧
      (sendWriteOld q mid true).2 = none ∧ (sendWriteOld q mid true).1.pending = [] :=
  ⟨{ segs := [newSeg 1 64], nextID := 2, maxSegSize := 64, maxSize := 1000, closedSegs := [] },
   [([7], false)], by decide, by decide, by decide, by decide⟩

def q0 : Q := { segs := [newSeg 1 64], nextID := 2, maxSegSize := 64, maxSize := 1000, closedSegs := [] }

/-! ### crash and restart -/

theorem open_spec (q : Q) (hs : q.segs = []) (hw : ∀ s ∈ q.closedSegs, s.WF ∧ s.buf = []) :
    q.open_.pending = q.closedSegs.flatMap Seg.pend := by
  have hpend : ∀ (l : List Seg), (l.map fun (s : Seg) => { s with maxSize := q.maxSegSize }).flatMap Seg.pend
      = l.flatMap Seg.pend := by
    intro l
    induction l with
    | nil => rfl
    | cons a l ih => simp only [List.map_cons, List.flatMap_cons, ih]; rfl
  cases hc : q.closedSegs with
  | nil =>
    -- nothing on disk: one fresh segment
    simp [Q.open_, hc, Q.addSegment, Q.trimHead, newSeg, Q.pending]
  | cons a l =>
    have ha := hw a (by simp [hc])
    by_cases hex : a.pos ≥ a.blocks.length
    · -- an exhausted head is trimmed: it holds nothing pending (no buffer on disk)
      have ha' : a.pend = [] := by
        simp only [Seg.pend, ha.2, List.append_nil, List.drop_eq_nil_iff]
        exact hex
      cases l with
      | nil =>
        simp [Q.open_, hc, Q.trimHead, pending_eq, Seg.pend, hex]
      | cons b l' =>
        have h2 := hpend (b :: l')
        simp only [List.map_cons, List.flatMap_cons] at h2
        simp only [Q.open_, hc, List.map_cons, List.isEmpty_cons, Bool.false_eq_true, if_false, hex,
          if_true, Q.trimHead, pending_eq, List.flatMap_cons, ha', List.nil_append]
        exact h2
    · have h2 := hpend (a :: l)
      simp only [List.map_cons] at h2
      simp only [Q.open_, hc, List.map_cons, List.isEmpty_cons, Bool.false_eq_true, if_false, hex, pending_eq]
      exact h2

/-- **What a crash keeps.** After a crash and restart the pending blocks are exactly the
blocks that had been flushed and not yet advanced past, in order: nothing on disk is lost,
reordered or duplicated. What sat in a write buffer (accepted under the buffered path, not
yet flushed) is gone. -/
theorem crash_keeps_flushed (q : Q) (hw : q.WF) (hopen : q.segs ≠ []) :
    q.crash.pending = q.segs.flatMap fun s => s.blocks.drop s.pos := by
  unfold Q.crash
  have hne : q.segs.isEmpty = false := by
    cases h : q.segs with
    | nil => exact absurd h hopen
    | cons a l => rfl
  simp only [hne, Bool.false_eq_true, if_false]
  rw [open_spec _ rfl]
  · simp only [List.flatMap_map]
    apply List.flatMap_congr
    intro s _
    simp [Seg.pend]
  · intro s hs
    simp only [List.mem_map] at hs
    obtain ⟨s0, hs0, rfl⟩ := hs
    exact ⟨hw.1 s0 hs0, rfl⟩

/-- with nothing buffered a crash loses nothing at all -/
theorem crash_loses_nothing_unbuffered (q : Q) (hw : q.WF) (hopen : q.segs ≠ [])
    (hb : ∀ s ∈ q.segs, s.buf = []) : q.crash.pending = q.pending := by
  rw [crash_keeps_flushed q hw hopen, pending_eq]
  apply List.flatMap_congr
  intro s hs
  simp [Seg.pend, hb s hs]

theorem flatMap_updLast_sublist (f : Seg → Seg) (g h : Seg → List Block)
    (hsub : ∀ s, (g s).Sublist (h (f s))) (hid : ∀ s, (g s).Sublist (h s)) (l : List Seg) :
    (l.flatMap g).Sublist ((updLast f l).flatMap h) := by
  induction l with
  | nil => simp [updLast]
  | cons a l ih =>
    cases l with
    | nil => simpa [updLast] using hsub a
    | cons b l' =>
      rw [updLast]
      · simp only [List.flatMap_cons] at ih ⊢
        exact (hid a).append ih
      · simp

/-- **A crash that tears a flush loses no flushed block.** Whatever part of the interrupted
write reached the file, every block that had been flushed and not yet advanced past is still
pending after the restart, in the same order (blocks delivered before may be pending again,
and the torn block itself if all of it arrived). -/
theorem crashTorn_keeps_flushed (q : Q) (hw : q.WF) (hopen : q.segs ≠ []) (b : Block) (k : Nat) :
    (q.segs.flatMap fun s => s.blocks.drop s.pos).Sublist (q.crashTorn b k).pending := by
  unfold Q.crashTorn
  have hne : q.segs.isEmpty = false := by
    cases h : q.segs with
    | nil => exact absurd h hopen
    | cons a l => rfl
  simp only [hne, Bool.false_eq_true, if_false]
  rw [open_spec _ rfl]
  · simp only
    -- segment by segment: the tail may have been reset to its first record and extended
    have h1 : (q.segs.flatMap fun s => s.blocks.drop s.pos)
        = (q.segs.map fun (s : Seg) => { s with buf := [] }).flatMap Seg.pend := by
      simp only [List.flatMap_map]
      apply List.flatMap_congr
      intro s _
      simp [Seg.pend]
    rw [h1]
    apply flatMap_updLast_sublist
    · intro s
      split
      · simp [Seg.pend]
      · simp only [Seg.pend, List.drop_zero]
        exact ((List.drop_sublist _ _).append (List.Sublist.refl _)).trans
          (by simp [List.append_assoc])
    · intro s; exact List.Sublist.refl _
  · intro s hs
    -- what is on disk has no buffers and valid offsets
    have hall : ∀ s ∈ (q.segs.map fun (s : Seg) => { s with buf := [] }), s.WF ∧ s.buf = [] := by
      intro s hs
      simp only [List.mem_map] at hs
      obtain ⟨s0, hs0, rfl⟩ := hs
      exact ⟨hw.1 s0 hs0, rfl⟩
    simp only at hs
    generalize (q.segs.map fun (s : Seg) => { s with buf := [] }) = disk at hs hall
    induction disk with
    | nil => simp [updLast] at hs
    | cons a l ih =>
      cases l with
      | nil =>
        simp only [updLast, List.mem_singleton] at hs
        subst hs
        have ha := hall a (by simp)
        split
        · exact ⟨ha.1, ha.2⟩
        · exact ⟨by simp [Seg.WF], ha.2⟩
      | cons c l' =>
        rw [updLast] at hs
        · simp only [List.mem_cons] at hs
          rcases hs with rfl | hs
          · exact hall _ (by simp)
          · exact ih (by simpa using hs) (fun x hx => hall x (List.mem_cons_of_mem _ hx))
        · simp

/-- **An accepted block can be lost by a crash** (the property is false of the model and of
the code alike — open known finding C04-buffered-append-lost-at-crash): `Append` returns
success for a block it only put into the tail's write buffer (the path taken above ten
concurrent writers); a crash before the next flush loses it. -/
theorem crash_loses_buffered_accepted_block :
    ∃ (q : Q) (b : Block), (q.append b true).2 = .ok ∧ b ∈ (q.append b true).1.pending ∧
      b ∉ (q.append b true).1.crash.pending :=
  ⟨q0, [7], by decide, by decide, by decide⟩

/-! ### splitting an oversized batch -/

/-- the chunks produced by the bisection are contiguous, start at `i`, end at the last
point, are never empty — so concatenated they are exactly the batch, in order, each point
once — and each fits the block limit -/
theorem shrink_spec (sizes : List Nat) (limit i fuel j j' : Nat) (hij : i < j)
    (h : shrink sizes limit i fuel j = some j') : i < j' ∧ j' ≤ j ∧ marshalSize sizes i j' ≤ limit := by
  induction fuel generalizing j with
  | zero => simp [shrink] at h
  | succ fuel ih =>
    simp only [shrink] at h
    split at h
    · rename_i hfit
      simp only [Option.some.injEq] at h
      subst h
      exact ⟨hij, Nat.le_refl _, hfit⟩
    · split at h
      · cases h
      · rename_i hne
        have hlt : i < (i + j + 1) / 2 := by omega
        obtain ⟨h1, h2, h3⟩ := ih _ hlt h
        exact ⟨h1, by omega, h3⟩

inductive Covers : Nat → Nat → List (Nat × Nat) → Prop
  | nil (i : Nat) : Covers i i []
  | cons (i j n : Nat) (rest : List (Nat × Nat)) : i < j → Covers j n rest → Covers i n ((i, j) :: rest)

theorem split_covers (sizes : List Nat) (limit fuel i : Nat) (hi : i ≤ sizes.length)
    (chunks : List (Nat × Nat)) (h : splitChunks sizes limit fuel i = some chunks) :
    Covers i sizes.length chunks ∧ ∀ c ∈ chunks, marshalSize sizes c.1 c.2 ≤ limit := by
  induction fuel generalizing i chunks with
  | zero => simp [splitChunks] at h
  | succ fuel ih =>
    simp only [splitChunks] at h
    split at h
    · rename_i hge
      simp only [Option.some.injEq] at h
      subst h
      have : i = sizes.length := by omega
      subst this
      exact ⟨Covers.nil _, by simp⟩
    · rename_i hlt
      split at h
      · cases h
      · rename_i j hj
        obtain ⟨h1, h2, h3⟩ := shrink_spec sizes limit i _ _ j (by omega) hj
        split at h
        · cases h
        · split at h
          · rename_i hjn
            simp only [Option.some.injEq] at h
            subst h
            subst hjn
            exact ⟨Covers.cons _ _ _ _ h1 (Covers.nil _), by simp [h3]⟩
          · cases hrec : splitChunks sizes limit fuel j with
            | none => simp [hrec] at h
            | some rest =>
              simp only [hrec, Option.map_some, Option.some.injEq] at h
              subst h
              obtain ⟨hc, hfit⟩ := ih j h2 rest hrec
              refine ⟨Covers.cons _ _ _ _ h1 hc, ?_⟩
              intro c hcm
              simp only [List.mem_cons] at hcm
              rcases hcm with rfl | hcm
              · exact h3
              · exact hfit c hcm

/-- the blocks appended for a batch are its points, in order, none lost, none repeated -/
theorem covers_concat {α} (l : List α) (i n : Nat) (chunks : List (Nat × Nat)) (hn : n ≤ l.length)
    (h : Covers i n chunks) :
    chunks.flatMap (fun c => (l.drop c.1).take (c.2 - c.1)) = (l.drop i).take (n - i) := by
  induction h with
  | nil i => simp
  | cons i j n rest hij hc ih =>
    simp only [List.flatMap_cons]
    rw [ih hn]
    have hjn : j ≤ n := by
      clear ih
      cases hc with
      | nil => exact Nat.le_refl _
      | cons _ j' _ _ hlt hc' =>
        have : ∀ a b cs, Covers a b cs → a ≤ b := by
          intro a b cs hh
          induction hh with
          | nil => exact Nat.le_refl _
          | cons _ _ _ _ hl _ ih' => omega
        have := this _ _ _ hc'
        omega
    rw [show n - i = (j - i) + (n - j) by omega, List.take_add, List.drop_drop,
      show i + (j - i) = j by omega]

theorem split_concat {α} (points : List α) (sizes : List Nat) (hlen : sizes.length = points.length)
    (limit : Nat) (chunks : List (Nat × Nat))
    (h : splitChunks sizes limit (sizes.length + 1) 0 = some chunks) :
    chunks.flatMap (fun c => (points.drop c.1).take (c.2 - c.1)) = points := by
  obtain ⟨hc, _⟩ := split_covers sizes limit _ 0 (Nat.zero_le _) chunks h
  rw [covers_concat points 0 sizes.length chunks (by omega) hc]
  simp [hlen]

/-! ### Non-vacuity -/

example : ((q0.append [1,2,3] false).1.append [4] true).1.pending = [[1,2,3],[4]] := by decide
example : ((q0.append [1,2,3] false).1.append [4] true).1.empty = false := by decide
example : q0.empty = true := by decide
example : splitChunks [10, 10, 10, 10] 40 5 0 = some [(0, 2), (2, 4)] := by decide

end InfluxVerif.HH
