/-
C19 — the engine's writer, snapshotter and reader as interleaved atomic steps (at the
granularity of the code's critical sections), for the one guarantee of the property that is
about logic rather than about the Go runtime: a read sees at least every write acknowledged
before it began.  Core Lean only.
-/
namespace InfluxVerif.Sched

abbrev W := Nat    -- an acknowledged write (its identity)

structure St where
  cache : List W := []      -- the hot cache
  snap : List W := []       -- the snapshot being written out
  files : List W := []      -- installed TSM files
  acked : List W := []
  deriving Repr

inductive Step
  | write (w : W)           -- Cache.WriteMulti + WAL append + fsync, under the engine's read lock
  | snapBegin               -- Cache.Snapshot under the engine's write lock: snapshot := cache, cache := ∅
  | snapInstall             -- FileStore.Replace: the snapshot's file becomes visible
  | snapClear               -- Cache.ClearSnapshot(true)
  | compact                 -- a compaction replaces files by files with the same content
  deriving Repr

def step (s : St) : Step → St
  | .write w => { s with cache := w :: s.cache, acked := w :: s.acked }
  | .snapBegin => if s.snap.isEmpty then { s with snap := s.cache, cache := [] } else s
  | .snapInstall => { s with files := s.snap ++ s.files }
  | .snapClear => if s.snap.all (s.files.contains ·) then { s with snap := [] } else s   -- only after the install
  | .compact => s

def run (s : St) (steps : List Step) : St := steps.foldl step s

/-- the reader as the code does it: first the cache (store and snapshot), later the files -/
def readCacheFirst (atCache atFiles : St) : List W := atCache.cache ++ atCache.snap ++ atFiles.files

/-- the other order: files first, the cache later -/
def readFilesFirst (atFiles atCache : St) : List W := atFiles.files ++ atCache.cache ++ atCache.snap

end InfluxVerif.Sched
