/-
Helper lemmas for the shard-group invariant of the metadata model (Props/C06.lean, used by
Props/C08.lean): the live groups of a retention policy never overlap.
-/
import InfluxVerif.Model.Meta
import Mathlib.Data.List.Perm.Basic
import Mathlib.Data.List.Pairwise

namespace InfluxVerif.Meta

/-- the group serves timestamp `t`: the predicate of `ShardGroupByTimestamp` -/
def SG.covers (g : SG) (t : Int) : Bool :=
  g.contains t && !g.deleted && (match g.trunc with | some tr => t < tr | none => true)

/-- shape of a group: a truncation point lies inside the group's range -/
def SG.WF (g : SG) : Prop := g.start ≤ g.stop ∧ ∀ tr, g.trunc = some tr → g.start ≤ tr ∧ tr ≤ g.stop

def Apart (a b : SG) : Prop := ∀ t, ¬(a.covers t = true ∧ b.covers t = true)

theorem Apart.symm {a b : SG} (h : Apart a b) : Apart b a := fun t ht => h t ⟨ht.2, ht.1⟩

/-- the invariant of one policy's group list -/
def GroupsOK (gs : List SG) : Prop := (∀ g ∈ gs, g.WF) ∧ gs.Pairwise Apart

theorem covers_lt_effEnd (g : SG) (t : Int) (h : g.covers t = true) : g.start ≤ t ∧ t < g.effEnd ∧ g.deleted = false := by
  unfold SG.covers SG.contains at h
  unfold SG.effEnd
  simp only [Bool.and_eq_true, decide_eq_true_eq, Bool.not_eq_true'] at h
  obtain ⟨⟨⟨h1, h2⟩, h3⟩, h4⟩ := h
  refine ⟨h1, ?_, h3⟩
  cases ht : g.trunc with
  | none => simpa [ht] using h2
  | some tr => rw [ht] at h4; simpa using h4

theorem covers_of (g : SG) (hw : g.WF) (t : Int) (hd : g.deleted = false) (h1 : g.start ≤ t) (h2 : t < g.effEnd) :
    g.covers t = true := by
  unfold SG.covers SG.contains
  unfold SG.effEnd at h2
  cases ht : g.trunc with
  | none =>
    rw [ht] at h2
    simp [hd, h1, h2]
  | some tr =>
    rw [ht] at h2
    have := (hw.2 tr ht).2
    simp only [Bool.and_eq_true, decide_eq_true_eq, Bool.not_eq_true']
    exact ⟨⟨⟨h1, by omega⟩, hd⟩, by simpa using h2⟩

/-! ### the clipping loop of CreateShardGroup -/

theorem clip_bounds (ts : Int) (gs : List SG) (s0 e0 : Int) :
    s0 ≤ (clip ts gs (s0, e0)).1 ∧ (clip ts gs (s0, e0)).2 ≤ e0 ∧
    (s0 ≤ ts → (clip ts gs (s0, e0)).1 ≤ ts) ∧ (ts < e0 → ts < (clip ts gs (s0, e0)).2) ∧
    ∀ g ∈ gs, g.deleted = false →
      (g.effEnd ≤ ts → g.effEnd ≤ (clip ts gs (s0, e0)).1) ∧ (ts < g.start → (clip ts gs (s0, e0)).2 ≤ g.start) := by
  induction gs generalizing s0 e0 with
  | nil => simp [clip]
  | cons g rest ih =>
    unfold clip
    by_cases hd : g.deleted = true
    · simp only [hd, if_true]
      obtain ⟨h1, h2, h3, h4, h5⟩ := ih s0 e0
      refine ⟨h1, h2, h3, h4, ?_⟩
      intro x hx hxd
      simp only [List.mem_cons] at hx
      rcases hx with rfl | hx
      · rw [hd] at hxd; exact absurd hxd (by simp)
      · exact h5 x hx hxd
    · have hd' : g.deleted = false := by simpa using hd
      simp only [hd', Bool.false_eq_true, if_false]
      -- the bounds after looking at g
      generalize hs' : (if ts ≥ g.effEnd && g.effEnd > s0 then g.effEnd else s0) = s'
      generalize he' : (if g.start > ts && g.start < e0 then g.start else e0) = e'
      have hs0 : s0 ≤ s' := by rw [← hs']; split <;> rename_i h <;> simp at h <;> omega
      have he0 : e' ≤ e0 := by rw [← he']; split <;> rename_i h <;> simp at h <;> omega
      have hsts : s0 ≤ ts → s' ≤ ts := by intro h; rw [← hs']; split <;> rename_i h' <;> simp at h' <;> omega
      have hets : ts < e0 → ts < e' := by intro h; rw [← he']; split <;> rename_i h' <;> simp at h' <;> omega
      have hgs : g.effEnd ≤ ts → g.effEnd ≤ s' := by
        intro h; rw [← hs']; split <;> rename_i h' <;> simp at h' <;> omega
      have hge : ts < g.start → e' ≤ g.start := by
        intro h; rw [← he']; split <;> rename_i h' <;> simp at h' <;> omega
      obtain ⟨h1, h2, h3, h4, h5⟩ := ih s' e'
      refine ⟨by omega, by omega, fun h => h3 (hsts h), fun h => h4 (hets h), ?_⟩
      intro x hx hxd
      simp only [List.mem_cons] at hx
      rcases hx with rfl | hx
      · exact ⟨fun h => by have := hgs h; omega, fun h => by have := hge h; omega⟩
      · exact h5 x hx hxd

end InfluxVerif.Meta
