import Driver.Util
import Driver.C03
import Driver.C13
import Driver.Meta
import Driver.HH
import Driver.C15
import Driver.C12
import Driver.Shard
import Driver.Compact
import Driver.Cluster
import Driver.Query

/-- one line in, one line out; the handler may carry state -/
structure Handler where
  σ : Type
  init : σ
  step : σ → String → σ × String

def stateless (f : String → String) : Handler := ⟨Unit, (), fun _ l => ((), f l)⟩

def handlers : List (String × Handler) := [
  ("c03", stateless Driver.C03.handle),
  ("c12", stateless Driver.C12.handle),
  ("c13", stateless Driver.C13.handle),
  ("c15", stateless Driver.C15.handle),
  -- C19's stress scenarios have one acceptable answer
  ("c19", stateless fun l => if l.startsWith "stress-" then "ok" else "bad-op"),
  ("meta", ⟨Driver.MetaD.St, {}, Driver.MetaD.step⟩),
  ("shard", ⟨InfluxVerif.ShardSpec.St, {}, Driver.ShardD.step⟩),
  ("compact", ⟨Driver.CompactD.St, {}, Driver.CompactD.step⟩),
  ("cluster", ⟨Driver.ClusterD.DSt, {}, Driver.ClusterD.step⟩),
  ("query", ⟨Driver.QueryD.St, {}, Driver.QueryD.step⟩),
  ("hh", ⟨InfluxVerif.HH.Q, Driver.HHD.init 1024 100000, Driver.HHD.step⟩)
]

partial def loop (h : IO.FS.Stream) (out : IO.FS.Stream) (H : Handler) (s : H.σ) : IO Unit := do
  let line ← h.getLine
  if line.isEmpty then return ()
  let l := (line.dropRightWhile (fun c => c = '\n' || c = '\r'))
  if l.isEmpty || l.startsWith "#" then
    loop h out H s
  else
    let (s', o) := H.step s l
    out.putStrLn o
    loop h out H s'

def main (args : List String) : IO UInt32 := do
  match args with
  | [name] =>
    match handlers.lookup name with
    | some H =>
      let stdin ← IO.getStdin
      let stdout ← IO.getStdout
      loop stdin stdout H H.init
      stdout.flush
      return 0
    | none => IO.eprintln s!"unknown model {name}"; return 2
  | _ => IO.eprintln "usage: driver <model>"; return 2
