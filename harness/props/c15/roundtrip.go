package c15

import (
	"fmt"
	"reflect"
	"strconv"
	"time"

	"github.com/influxdata/influxdb/coordinator"
	"github.com/influxdata/influxdb/models"
	"github.com/influxdata/influxdb/query"
	"github.com/influxdata/influxql"
	"verifharness/fw"
)

// roundTrips marshals and unmarshals request/response values derived from the seed.
func roundTrips(seed string) string {
	s, _ := strconv.Atoi(seed)
	r := fw.NewRand(uint64(s))
	// write shard request
	{
		var req coordinator.WriteShardRequest
		req.SetShardID(r.U64())
		req.SetDatabase(fmt.Sprintf("db%d", r.Intn(3)))
		req.SetRetentionPolicy("rp")
		var pts []models.Point
		for i, n := 0, r.Intn(4); i < n; i++ {
			pts = append(pts, models.MustNewPoint("m", models.NewTags(map[string]string{"t": fmt.Sprint(r.Intn(3))}),
				models.Fields{"f": float64(r.Intn(100)) / 4, "i": int64(r.U64()), "s": "x\"y", "b": r.Bool()}, time.Unix(0, int64(r.U64()>>2))))
		}
		req.AddPoints(pts)
		b, err := req.MarshalBinary()
		if err != nil {
			return "rt writeShardRequest-marshal"
		}
		var got coordinator.WriteShardRequest
		if err := got.UnmarshalBinary(b); err != nil {
			return "rt writeShardRequest-unmarshal"
		}
		gp := got.Points()
		if got.ShardID() != req.ShardID() || got.Database() != req.Database() || len(gp) != len(pts) {
			return "rt writeShardRequest-fields"
		}
		for i := range pts {
			if gp[i] == nil || gp[i].String() != pts[i].String() {
				return "rt writeShardRequest-points"
			}
		}
	}
	{
		var resp coordinator.WriteShardResponse
		resp.SetCode(r.Intn(3))
		resp.SetMessage(fmt.Sprintf("msg %d", r.Intn(100)))
		b, err := resp.MarshalBinary()
		if err != nil {
			return "rt writeShardResponse-marshal"
		}
		var got coordinator.WriteShardResponse
		if err := got.UnmarshalBinary(b); err != nil || got.Code() != resp.Code() || got.Message() != resp.Message() {
			return "rt writeShardResponse"
		}
	}
	{
		var req coordinator.ExecuteStatementRequest
		req.SetStatement("DROP MEASUREMENT m" + fmt.Sprint(r.Intn(9)))
		req.SetDatabase("db")
		b, _ := req.MarshalBinary()
		var got coordinator.ExecuteStatementRequest
		if err := got.UnmarshalBinary(b); err != nil || got.Statement() != req.Statement() || got.Database() != req.Database() {
			return "rt executeStatementRequest"
		}
	}
	// create-iterator request: measurement, options with condition, dimensions, aux fields
	{
		opt := query.IteratorOptions{
			Expr:       &influxql.Call{Name: "mean", Args: []influxql.Expr{&influxql.VarRef{Val: "v", Type: influxql.Float}}},
			Aux:        []influxql.VarRef{{Val: "a", Type: influxql.String}},
			Dimensions: []string{"host"},
			Interval:   query.Interval{Duration: time.Duration(1+r.Intn(60)) * time.Second, Offset: time.Duration(r.Intn(5)) * time.Second},
			StartTime:  int64(r.U64() >> 3),
			EndTime:    influxql.MaxTime,
			Ascending:  r.Bool(),
			Limit:      r.Intn(10),
			Offset:     r.Intn(10),
			Ordered:    true,
		}
		req := coordinator.CreateIteratorRequest{ShardIDs: []uint64{1, r.U64() % 100}, Measurement: influxql.Measurement{Database: "db", RetentionPolicy: "rp", Name: "cpu"}, Opt: opt}
		b, err := req.MarshalBinary()
		if err != nil {
			return "rt createIteratorRequest-marshal"
		}
		var got coordinator.CreateIteratorRequest
		if err := got.UnmarshalBinary(b); err != nil {
			return "rt createIteratorRequest-unmarshal"
		}
		if !reflect.DeepEqual(got.ShardIDs, req.ShardIDs) || got.Measurement.String() != req.Measurement.String() ||
			got.Opt.Expr.String() != opt.Expr.String() || got.Opt.Interval != opt.Interval || got.Opt.StartTime != opt.StartTime ||
			got.Opt.EndTime != opt.EndTime || got.Opt.Ascending != opt.Ascending || got.Opt.Limit != opt.Limit || got.Opt.Offset != opt.Offset ||
			!reflect.DeepEqual(got.Opt.Dimensions, opt.Dimensions) || !reflect.DeepEqual(got.Opt.Aux, opt.Aux) {
			return "rt createIteratorRequest-fields"
		}
	}
	return "rt ok"
}
