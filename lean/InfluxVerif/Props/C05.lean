/-
C05 — A distributed query reads every shard exactly once or fails.
Theorems over Model/Cluster.lean: the assignment of shards to nodes made by the coordinator
(`assign`, the model of ClusterShardMapper.mapShards) and the re-assignment after failures
(`shuffle`, the model of remoteShardGroup.shuffleShards) put every shard that has an owner in
exactly one node's list, always an owner's (and after failures a node that has not failed),
and fail — rather than leave a shard out — exactly when some shard has no owner left; the
data read under any such plan is the union of the shards each counted once, so counts and sums
do not depend on the plan.  The real cluster is compared with the model's verdict and result
query by query (harness/props/c05).
-/
import InfluxVerif.Model.Cluster
import Mathlib.Data.List.Perm.Basic
import Mathlib.Algebra.BigOperators.Group.List.Basic

namespace InfluxVerif.Cluster

/-! ### plans -/

theorem add_shards_perm (p : Plan) (n : Nat) (sh : Shard) : (p.add n sh).shards.Perm (sh :: p.shards) := by
  induction p with
  | nil => simp [Plan.add, Plan.shards]
  | cons e rest ih =>
    unfold Plan.add
    split
    · simp only [Plan.shards, List.flatMap_cons, List.append_assoc, List.singleton_append]
      exact List.perm_middle
    · simp only [Plan.shards, List.flatMap_cons] at ih ⊢
      exact (List.Perm.append_left _ ih).trans List.perm_middle

/-- every node of the plan owns every shard it is asked for -/
def Owned (p : Plan) : Prop := ∀ e ∈ p, ∀ sh ∈ e.2, e.1 ∈ sh.owners

theorem add_owned (p : Plan) (n : Nat) (sh : Shard) (hp : Owned p) (hn : n ∈ sh.owners) : Owned (p.add n sh) := by
  induction p with
  | nil =>
    intro e he s hs
    simp only [Plan.add, List.mem_singleton] at he
    subst he
    simp only [List.mem_singleton] at hs
    subst hs; exact hn
  | cons e rest ih =>
    unfold Plan.add
    split
    · rename_i heq
      intro e' he' s hs
      simp only [List.mem_cons] at he'
      rcases he' with rfl | he'
      · simp only [List.mem_append, List.mem_singleton] at hs
        rcases hs with hs | rfl
        · exact hp e (by simp) s hs
        · have : e.1 = n := by simpa using heq
          rw [this]; exact hn
      · exact hp e' (by simp [he']) s hs
    · intro e' he' s hs
      simp only [List.mem_cons] at he'
      rcases he' with rfl | he'
      · exact hp e' (by simp) s hs
      · exact ih (fun x hx => hp x (by simp [hx])) e' he' s hs

theorem add_nodes (p : Plan) (n : Nat) (sh : Shard) : ∀ e ∈ p.add n sh, e.1 = n ∨ ∃ e0 ∈ p, e0.1 = e.1 := by
  induction p with
  | nil => intro e he; simp only [Plan.add, List.mem_singleton] at he; subst he; exact Or.inl rfl
  | cons x rest ih =>
    unfold Plan.add
    split
    · intro e he
      simp only [List.mem_cons] at he
      rcases he with rfl | he
      · exact Or.inr ⟨x, by simp, rfl⟩
      · exact Or.inr ⟨e, by simp [he], rfl⟩
    · intro e he
      simp only [List.mem_cons] at he
      rcases he with rfl | he
      · exact Or.inr ⟨e, by simp, rfl⟩
      · rcases ih e he with h | ⟨e0, he0, h⟩
        · exact Or.inl h
        · exact Or.inr ⟨e0, by simp [he0], h⟩

/-! ### `assign`: the coordinator's first plan -/

def hasOwner (sh : Shard) : Bool := !sh.owners.isEmpty

/-- **Exactly once**: whatever the random choices, the plan lists every shard that has an owner
exactly once (and nothing else), on top of what the plan already held. -/
theorem assign_shards_perm (loc : Nat) (pick : Shard → Nat) (shs : List Shard) (p : Plan) :
    (assign loc pick shs p).shards.Perm (p.shards ++ shs.filter hasOwner) := by
  induction shs generalizing p with
  | nil => simp [assign]
  | cons sh rest ih =>
    unfold assign
    have step : ∀ n, (assign loc pick rest (p.add n sh)).shards.Perm (p.shards ++ sh :: rest.filter hasOwner) := by
      intro n
      refine (ih (p.add n sh)).trans ?_
      refine (List.Perm.append_right _ (add_shards_perm p n sh)).trans ?_
      simpa using (List.perm_middle (a := sh) (l₁ := p.shards) (l₂ := rest.filter hasOwner)).symm
    split
    · rename_i hloc
      have hown : hasOwner sh = true := by
        unfold hasOwner
        cases ho : sh.owners with
        | nil => simp [ho] at hloc
        | cons _ _ => rfl
      rw [List.filter_cons, if_pos hown]
      exact step loc
    · split
      · rename_i _ hemp
        have hown : hasOwner sh = false := by simp [hasOwner, hemp]
        rw [List.filter_cons, if_neg (by simp [hown])]
        exact ih p
      · rename_i _ hne
        have hown : hasOwner sh = true := by simpa [hasOwner] using hne
        rw [List.filter_cons, if_pos hown]
        split
        · exact step _
        · exact step _

/-- **Only from owners**: every node of the plan owns the shards it is asked for, provided the
random choice picks an owner. -/
theorem assign_owned (loc : Nat) (pick : Shard → Nat) (hpick : ∀ sh, hasOwner sh = true → pick sh ∈ sh.owners)
    (shs : List Shard) (p : Plan) (hp : Owned p) : Owned (assign loc pick shs p) := by
  induction shs generalizing p with
  | nil => simpa [assign] using hp
  | cons sh rest ih =>
    unfold assign
    split
    · rename_i hloc
      exact ih _ (add_owned p loc sh hp (by simpa using hloc))
    · split
      · exact ih p hp
      · rename_i _ hne
        split
        · rename_i o ho
          exact ih _ (add_owned p o sh hp (List.mem_of_find?_eq_some ho))
        · exact ih _ (add_owned p (pick sh) sh hp (hpick sh (by simpa [hasOwner] using hne)))

/-! ### `shuffle`: the plan after failures -/

/-- **After failures, still exactly once and only from owners that have not failed** -/
theorem shuffle_some (dirty : List Nat) (shs : List Shard) (p q : Plan)
    (hp : Owned p) (hclean : ∀ e ∈ p, e.1 ∉ dirty) (h : shuffle dirty shs p = some q) :
    q.shards.Perm (p.shards ++ shs.filter hasOwner) ∧ Owned q ∧ ∀ e ∈ q, e.1 ∉ dirty := by
  induction shs generalizing p with
  | nil =>
    simp only [shuffle, Option.some.injEq] at h
    subst h
    exact ⟨by simp, hp, hclean⟩
  | cons sh rest ih =>
    unfold shuffle at h
    have step : ∀ n, n ∈ sh.owners → n ∉ dirty → hasOwner sh = true → shuffle dirty rest (p.add n sh) = some q →
        q.shards.Perm (p.shards ++ (sh :: rest).filter hasOwner) ∧ Owned q ∧ ∀ e ∈ q, e.1 ∉ dirty := by
      intro n hn hnd hown hq
      have hclean' : ∀ e ∈ p.add n sh, e.1 ∉ dirty := by
        intro e he
        rcases add_nodes p n sh e he with h1 | ⟨e0, he0, h1⟩
        · rw [h1]; exact hnd
        · rw [← h1]; exact hclean e0 he0
      obtain ⟨h1, h2, h3⟩ := ih (p.add n sh) (add_owned p n sh hp hn) hclean' hq
      refine ⟨?_, h2, h3⟩
      rw [List.filter_cons, if_pos hown]
      refine h1.trans ?_
      refine (List.Perm.append_right _ (add_shards_perm p n sh)).trans ?_
      simpa using (List.perm_middle (a := sh) (l₁ := p.shards) (l₂ := rest.filter hasOwner)).symm
    split at h
    · rename_i hemp
      have hown : hasOwner sh = false := by simp [hasOwner, hemp]
      obtain ⟨h1, h2, h3⟩ := ih p hp hclean h
      refine ⟨?_, h2, h3⟩
      rw [List.filter_cons, if_neg (by simp [hown])]
      exact h1
    · rename_i hne
      have hown : hasOwner sh = true := by simpa [hasOwner] using hne
      split at h
      · rename_i o ho
        have hmem := List.mem_of_find?_eq_some ho
        have hin := List.find?_some ho
        simp only [List.any_eq_true] at hin
        obtain ⟨e, he, heq⟩ := hin
        have : o ∉ dirty := by
          have := hclean e he
          have heo : e.1 = o := by simpa using heq
          rwa [heo] at this
        exact step o hmem this hown h
      · split at h
        · rename_i o ho
          have hmem := List.mem_of_find?_eq_some ho
          have hnd : o ∉ dirty := by
            have := List.find?_some ho
            simpa using this
          exact step o hmem hnd hown h
        · exact absurd h (by simp)

/-- **Never silently incomplete**: when some shard has owners but all of them have failed,
there is no plan — the request fails. -/
theorem shuffle_fails_when_no_owner_left (dirty : List Nat) (shs : List Shard) (sh : Shard)
    (hmem : sh ∈ shs) (hown : hasOwner sh = true) (hall : ∀ o ∈ sh.owners, o ∈ dirty)
    (p : Plan) (hclean : ∀ e ∈ p, e.1 ∉ dirty) : shuffle dirty shs p = none := by
  induction shs generalizing p with
  | nil => simp at hmem
  | cons x rest ih =>
    unfold shuffle
    simp only [List.mem_cons] at hmem
    have cleanAdd : ∀ n, n ∉ dirty → ∀ e ∈ p.add n x, e.1 ∉ dirty := by
      intro n hn e he
      rcases add_nodes p n x e he with h1 | ⟨e0, he0, h1⟩
      · rw [h1]; exact hn
      · rw [← h1]; exact hclean e0 he0
    rcases hmem with rfl | hmem
    · -- this shard itself has no owner left
      have hne : sh.owners.isEmpty = false := by simpa [hasOwner] using hown
      simp only [hne, Bool.false_eq_true, if_false]
      have h1 : sh.owners.find? (fun o => p.any (·.1 == o)) = none := by
        rw [List.find?_eq_none]
        intro o ho hany
        simp only [List.any_eq_true] at hany
        obtain ⟨e, he, heq⟩ := hany
        have heo : e.1 = o := by simpa using heq
        exact hclean e he (heo ▸ hall o ho)
      have h2 : sh.owners.find? (fun o => !dirty.contains o) = none := by
        rw [List.find?_eq_none]
        intro o ho
        simp [hall o ho]
      rw [h1]
      simp only
      rw [h2]
    · split
      · exact ih hmem p hclean
      · split
        · rename_i o ho
          have hin := List.find?_some ho
          simp only [List.any_eq_true] at hin
          obtain ⟨e, he, heq⟩ := hin
          have heo : e.1 = o := by simpa using heq
          exact ih hmem _ (cleanAdd o (heo ▸ hclean e he))
        · split
          · rename_i o ho
            have hnd : o ∉ dirty := by
              have := List.find?_some ho
              simpa using this
            exact ih hmem _ (cleanAdd o hnd)
          · rfl

/-- **Failover whenever possible**: if every shard that has owners has one that has not failed,
a plan exists. -/
theorem shuffle_succeeds (dirty : List Nat) (shs : List Shard)
    (h : ∀ sh ∈ shs, hasOwner sh = true → ∃ o ∈ sh.owners, o ∉ dirty) (p : Plan) :
    ∃ q, shuffle dirty shs p = some q := by
  induction shs generalizing p with
  | nil => exact ⟨p, rfl⟩
  | cons x rest ih =>
    have ih' := ih (fun sh hs => h sh (by simp [hs]))
    unfold shuffle
    split
    · exact ih' p
    · rename_i hne
      split
      · exact ih' _
      · split
        · exact ih' _
        · rename_i hnone
          exfalso
          obtain ⟨o, ho, hnd⟩ := h x (by simp) (by simpa [hasOwner] using hne)
          rw [List.find?_eq_none] at hnone
          have := hnone o ho
          simp [hnd] at this

/-! ### the data read under a plan -/

def Plan.points (p : Plan) : List Pt := p.shards.flatMap (·.pts)

/-- the points read under the coordinator's plan are the points of the shards, each shard once -/
theorem assign_points_perm (loc : Nat) (pick : Shard → Nat) (shs : List Shard) (hown : ∀ sh ∈ shs, hasOwner sh = true) :
    (assign loc pick shs []).points.Perm (shs.flatMap (·.pts)) := by
  have h := assign_shards_perm loc pick shs []
  have hf : shs.filter hasOwner = shs := List.filter_eq_self.2 hown
  simp only [Plan.shards, List.flatMap_nil, List.nil_append, hf] at h
  exact List.Perm.flatMap_right _ h |>.trans (List.Perm.refl _) |> fun x => by
    simpa [Plan.points, Plan.shards] using x

/-- counts and sums do not depend on the plan -/
theorem count_sum_plan_independent (l₁ l₂ : List Pt) (h : l₁.Perm l₂) :
    l₁.length = l₂.length ∧ (l₁.map (·.v)).sum = (l₂.map (·.v)).sum :=
  ⟨h.length_eq, (h.map _).sum_eq⟩

/-! ### Non-vacuity -/

def shA : Shard := { id := 1, lo := 0, hi := 10, owners := [1, 2], pts := [⟨0, 1, 10⟩] }
def shB : Shard := { id := 2, lo := 0, hi := 10, owners := [2], pts := [⟨1, 2, 20⟩] }

example : (assign 0 (fun sh => sh.owners.headD 0) [shA, shB] []).map (fun e => (e.1, e.2.map (·.id))) = [(1, [1]), (2, [2])] := by decide
example : (shuffle [1] [shA, shB] []).map (fun q => q.map fun e => (e.1, e.2.map (·.id))) = some [(2, [1, 2])] := by decide
example : shuffle [2] [shA, shB] [] = none := by decide

end InfluxVerif.Cluster
