package c02

import (
	"fmt"
	"sort"
	"strconv"
	"strings"

	"verifharness/fw"
	"verifharness/shardh"
)

// ref is an independent, deliberately naive last-write-wins reference in Go: the property
// oracle for reads (what a read must return given the acknowledged writes and deletes).
type ref struct {
	ftypes map[string]byte             // meas/field -> type
	data   map[string]map[int64]string // series/field -> t -> value token
	meas   map[string]string           // series/field -> measurement
	index  map[string]string           // series -> measurement (series known to the index)
	// layout facts for failure signatures: per key, points written and snapshot files that hold it
	written map[string]int
	dirty   map[string]bool
	files   map[string]int
	// for the listing oracle: index type, the span of timestamps a series has held since it
	// was last absent, and the series that were emptied by a delete that did not span it
	indexType string
	side      map[string]bool // series another shard of the database held when it was deleted as a whole
	sideLive  map[string]bool // series another shard of the database holds
	span      map[string][2]int64
	piecemeal map[string]bool
}

func newRef() *ref {
	return &ref{ftypes: map[string]byte{}, data: map[string]map[int64]string{}, meas: map[string]string{}, index: map[string]string{}, written: map[string]int{}, dirty: map[string]bool{}, files: map[string]int{}, span: map[string][2]int64{}, piecemeal: map[string]bool{}}
}

type rpt struct {
	meas, tags string
	t          int64
	fields     [][2]string
}

func parsePts(arg string) []rpt {
	var out []rpt
	for _, ps := range strings.Split(arg, ";") {
		f := strings.Split(ps, "|")
		t, _ := strconv.ParseInt(f[2], 10, 64)
		p := rpt{meas: f[0], tags: f[1], t: t}
		for _, kv := range strings.Split(f[3], ",") {
			x := strings.SplitN(kv, "=", 2)
			p.fields = append(p.fields, [2]string{x[0], x[1]})
		}
		// models.NewPoint marshals a field map sorted by name: that is the order in which the
		// shard meets the fields, whatever order the op line lists them in
		sort.SliceStable(p.fields, func(i, j int) bool { return p.fields[i][0] < p.fields[j][0] })
		out = append(out, p)
	}
	return out
}

// write applies a batch as the property describes it: points conflicting with a field's
// existing type are dropped (partial write); the new fields of the remaining points are
// created in batch order, and two points of the batch disagreeing about a *new* field's type
// make the whole write fail with the fields created so far kept. Returns the expected answer.
func (r *ref) write(pts []rpt) string {
	for _, p := range pts { // series are registered before anything can fail
		r.index[p.meas+"|"+p.tags] = p.meas
	}
	var valid []rpt
	for _, p := range pts {
		if r.valid(p) {
			valid = append(valid, p)
		}
	}
	dropped := len(pts) - len(valid)
	for _, p := range valid {
		for _, f := range p.fields {
			k := p.meas + "/" + f[0]
			if ty, ok := r.ftypes[k]; ok {
				if ty != f[1][0] {
					return "err"
				}
				continue
			}
			r.ftypes[k] = f[1][0]
		}
	}
	for _, p := range valid {
		for _, f := range p.fields {
			k := p.meas + "|" + p.tags + "/" + f[0]
			if r.data[k] == nil {
				r.data[k] = map[int64]string{}
			}
			r.data[k][p.t] = f[1]
			r.noteTime(p.meas+"|"+p.tags, p.t)
			r.meas[k] = p.meas
		}
	}
	if dropped > 0 {
		return fmt.Sprintf("partial %d", dropped)
	}
	return "ok"
}

func (r *ref) valid(p rpt) bool {
	for _, f := range p.fields {
		if ty, ok := r.ftypes[p.meas+"/"+f[0]]; ok && ty != f[1][0] {
			return false
		}
	}
	return true
}

func (r *ref) step(f []string, op, o string) fw.Verdict {
	i64 := func(s string) int64 { v, _ := strconv.ParseInt(s, 10, 64); return v }
	switch f[0] {
	case "vmerge", "vdedup", "vexcl", "vincl":
		if want := refValueOp(f); o != want {
			return fw.Verdict{OK: false, Why: fmt.Sprintf("%.300s answered %.300s, last-write-wins gives %.300s", op, o, want), Signature: f[0] + " is not last-write-wins"}
		}
	case "reset":
		*r = *newRef()
		if len(f) > 1 {
			r.indexType = f[1]
		}
	case "sidew":
		if r.sideLive == nil {
			r.sideLive = map[string]bool{}
		}
		for _, p := range parsePts(f[1]) {
			r.sideLive[p.meas+"|"+p.tags] = true
		}
	case "sidedel":
		if r.side == nil {
			r.side = map[string]bool{}
		}
		for s := range r.sideLive {
			r.side[s] = true
		}
		r.sideLive = nil
	case "reopen":
		r.side = nil // (the in-memory index is rebuilt from the files)
	case "w":
		pts := parsePts(f[1])
		want := r.write(pts)
		if o != want {
			return fw.Verdict{OK: false, Why: fmt.Sprintf("%.300s answered %s, expected %s", op, o, want), Signature: "write result " + strings.Fields(o)[0] + " want " + strings.Fields(want)[0]}
		}
	case "wr":
		t0, stp, n, vb := i64(f[5]), i64(f[6]), int(i64(f[7])), i64(f[8])
		k := f[1] + "|" + f[2] + "/" + f[3]
		if r.data[k] == nil {
			r.data[k] = map[int64]string{}
		}
		if _, ok := r.ftypes[f[1]+"/"+f[3]]; !ok {
			r.ftypes[f[1]+"/"+f[3]] = 'i'
		}
		for i := 0; i < n; i++ {
			r.data[k][t0+int64(i)*stp] = fmt.Sprintf("i%d", vb+int64(i))
			r.noteTime(f[1]+"|"+f[2], t0+int64(i)*stp)
		}
		r.meas[k] = f[1]
		r.index[f[1]+"|"+f[2]] = f[1]
		r.written[k] += n
		r.dirty[k] = true
	case "wbig":
		if o != "ok" {
			return fw.Verdict{OK: false, Why: op + " answered " + o, Signature: "filler write fails"}
		}
	case "snap", "snaprelease":
		for k := range r.dirty {
			r.files[k]++
		}
		r.dirty = map[string]bool{}
	case "compact":
		for k := range r.files { // a compaction re-blocks the key; the layout facts are void
			r.files[k], r.written[k] = 1, 0
		}
	case "creset":
		*r = *newRef()
		if len(f) > 1 {
			r.indexType = f[1]
		}
	case "cowner":
		// the destination becomes an owner; every owner there was stays one; sorted insert
		var want []uint64
		if f[1] != "-" {
			for _, s := range strings.Split(f[1], ",") {
				v, _ := strconv.ParseUint(s, 10, 64)
				want = append(want, v)
			}
		}
		node, _ := strconv.ParseUint(f[2], 10, 64)
		has := false
		for _, w := range want {
			has = has || w == node
		}
		if !has {
			k := len(want)
			for i, w := range want {
				if w > node {
					k = i
					break
				}
			}
			want = append(want[:k], append([]uint64{node}, want[k:]...)...)
		}
		var ws []string
		for _, w := range want {
			ws = append(ws, fmt.Sprint(w))
		}
		if exp := "owners " + strings.Join(ws, ","); o != exp {
			return fw.Verdict{OK: false, Why: fmt.Sprintf("%s answered %s, the owners must be %s", op, o, exp), Signature: "shard copy: wrong owner list in the metadata"}
		}
		return fw.Verdict{OK: true}
	case "tarfault":
		if strings.HasPrefix(o, "TARFAULT-") || strings.HasPrefix(o, "err") || strings.HasPrefix(o, "panic") {
			return fw.Verdict{OK: false, Why: op + " => " + o, Signature: "backup stream: " + strings.Fields(o)[0]}
		}
		return fw.Verdict{OK: true}
	case "cw":
		return r.step(append([]string{"w"}, f[1:]...), op, o)
	case "cdel":
		return r.step([]string{"del", f[1], "-", f[2], f[3]}, op, o)
	case "copyagain":
		return r.step([]string{"bk", "full", f[2], f[3]}, op, o)
	case "copy":
		if f[1] != "full" {
			if o != "refused" {
				sig := "a shard copy whose source stream was cut is reported as successful"
				if f[1] == "nosrc" {
					sig = "a shard copy from a source that does not have the shard is reported as successful"
				}
				return fw.Verdict{OK: false, Why: fmt.Sprintf("%.200s answered %.300s: the destination reported success, so the metadata would advertise it as an owner of a shard it does not fully hold", op, o), Signature: sig}
			}
			return fw.Verdict{OK: true}
		}
		return r.step([]string{"bk", "full", f[2], f[3]}, op, o)
	case "bk":
		lo, hi := int64(-1<<63), int64(1<<63-1)
		if p := strings.Split(f[1], ":"); p[0] == "export" {
			lo, hi = i64(p[1]), i64(p[2])
		}
		var parts []string
		for _, sr := range strings.Split(f[2], ";") {
			for _, fn := range strings.Split(f[3], ",") {
				var tvs []shardh.TV
				for t, v := range r.data[sr+"/"+fn] {
					if t >= lo && t <= hi {
						tvs = append(tvs, shardh.TV{T: t, V: v})
					}
				}
				sort.Slice(tvs, func(i, j int) bool { return tvs[i].T < tvs[j].T })
				x := strings.Fields(shardh.Render(tvs))
				parts = append(parts, x[0]+":"+x[1])
			}
		}
		if want := strings.Join(parts, " "); o != want {
			sig := "restored shard reads differently from the source"
			if strings.HasPrefix(o, "err:") {
				sig = "backup or restore fails: " + strings.SplitN(o, ":", 3)[1]
			}
			return fw.Verdict{OK: false, Why: fmt.Sprintf("%.200s\n  restored shard: %.400s\n  source at backup time: %.400s", op, o, want), Signature: sig}
		}
	case "crashat":
		// crashat <point> <op...>: layout ops are the identity; an interrupted delete is
		// completed after the restart
		if len(f) > 2 && (f[2] == "del" || f[2] == "dropm") {
			return r.step(f[2:], strings.Join(f[2:], " "), o)
		}
	case "del", "snapdel", "delprobe", "delmon", "delheld", "dropm":
		tmin, tmax := int64(-1<<63), int64(1<<63-1)
		meas, pred := f[1], "-"
		if f[0] != "dropm" {
			pred = f[2]
			if f[3] != "-inf" {
				tmin = i64(f[3])
			}
			if f[4] != "+inf" {
				tmax = i64(f[4])
			}
		}
		r.deleteRange(meas, pred, tmin, tmax)
	case "series", "meas", "tagkeys", "tagvals", "seriesby", "measin":
		if v := r.listing(f, op, o); !v.OK {
			return v
		}
	case "card":
		// every series that has points is counted; nothing beyond the index entries is
		n := 0
		fmt.Sscanf(o, "card %d", &n)
		must := 0
		for series := range r.index {
			if r.hasData(series) {
				must++
			}
		}
		if n < must || n > len(r.index) {
			return fw.Verdict{OK: false, Why: fmt.Sprintf("%s answered %s: %d series hold points, %d are registered", op, o, must, len(r.index)), Signature: "series cardinality wrong"}
		}
	case "drops":
		sel := func(series string) bool {
			return strings.SplitN(series, "|", 2)[0] == f[1] && (f[2] == "-" || tagPred(series, f[2], f[3], f[4]))
		}
		r.deleteSel(sel, int64(-1<<63), int64(1<<63-1))
	case "read":
		k := f[1] + "|" + f[2] + "/" + f[3]
		tmin, tmax := i64(f[4]), i64(f[5])
		var tvs []shardh.TV
		for t, v := range r.data[k] {
			if t >= tmin && t <= tmax {
				tvs = append(tvs, shardh.TV{T: t, V: v})
			}
		}
		sort.Slice(tvs, func(i, j int) bool { return tvs[i].T < tvs[j].T })
		if f[6] != "asc" {
			for i, j := 0, len(tvs)-1; i < j; i, j = i+1, j-1 {
				tvs[i], tvs[j] = tvs[j], tvs[i]
			}
		}
		want := shardh.Render(tvs)
		if o != want {
			sig := readSig(o, want)
			if sig == "read returns a value that is not the latest written" && r.files[k] >= 3 && r.written[k] > 12000 {
				sig = "stale value: one key with more than 12 blocks spread over 3 or more overlapping files (KeyCursor block order)"
			}
			return fw.Verdict{OK: false, Why: fmt.Sprintf("%s\n  returned %.500s\n  last-write-wins content is %.500s", op, o, want), Signature: sig}
		}
	}
	return fw.Verdict{OK: true}
}

func readSig(got, want string) string {
	g, w := strings.Fields(got), strings.Fields(want)
	if len(g) > 0 && len(w) > 0 && g[0] != w[0] {
		return "read returns wrong number of points"
	}
	return "read returns a value that is not the latest written"
}

// refValueOp: the block algebra from first principles (a map from time to the value seen
// last, rendered in time order); the two shortcuts of Merge for an empty argument return the
// other argument untouched.
func refValueOp(f []string) string {
	a := parseTVs(f[1])
	lww := func(ls ...[]tv) []tv {
		m := map[int64]int64{}
		for _, l := range ls {
			for _, p := range l {
				m[p.t] = p.v
			}
		}
		var out []tv
		for t, v := range m {
			out = append(out, tv{t, v})
		}
		sort.Slice(out, func(i, j int) bool { return out[i].t < out[j].t })
		return out
	}
	strict := func(l []tv) bool {
		for i := 1; i < len(l); i++ {
			if l[i-1].t >= l[i].t {
				return false
			}
		}
		return true
	}
	show := func(l []tv) string {
		var ts []int64
		var vs []string
		for _, p := range l {
			ts = append(ts, p.t)
			vs = append(vs, strconv.FormatInt(p.v, 10))
		}
		return showTVs(ts, vs)
	}
	switch f[0] {
	case "vmerge":
		b := parseTVs(f[2])
		if len(a) == 0 {
			return show(b)
		}
		if len(b) == 0 {
			return show(a)
		}
		return show(lww(a, b))
	case "vdedup":
		if strict(a) {
			return show(a)
		}
		return show(lww(a))
	}
	lo, _ := strconv.ParseInt(f[2], 10, 64)
	hi, _ := strconv.ParseInt(f[3], 10, 64)
	var out []tv
	for _, p := range a {
		in := lo <= p.t && p.t <= hi
		if in == (f[0] == "vincl") {
			out = append(out, p)
		}
	}
	return show(out)
}

func selects(series, meas, pred string) bool {
	sm := strings.SplitN(series, "|", 2)
	if meas != "*" && sm[0] != meas {
		return false
	}
	if pred == "-" {
		return true
	}
	for _, kv := range strings.Split(sm[1], ",") {
		if kv == pred {
			return true
		}
	}
	return false
}

func (r *ref) noteTime(series string, t int64) {
	delete(r.piecemeal, series)
	sp, ok := r.span[series]
	if !ok {
		sp = [2]int64{t, t}
	}
	if t < sp[0] {
		sp[0] = t
	}
	if t > sp[1] {
		sp[1] = t
	}
	r.span[series] = sp
}

func tagPred(series, key, op, vals string) bool {
	v := ""
	sm := strings.SplitN(series, "|", 2)
	if sm[1] != "-" {
		for _, kv := range strings.Split(sm[1], ",") {
			x := strings.SplitN(kv, "=", 2)
			if x[0] == key {
				v = x[1]
			}
		}
	}
	want := vals
	if want == "-" {
		want = ""
	}
	in := false
	for _, w := range strings.Split(want, ",") {
		if w == v {
			in = true
		}
	}
	switch op {
	case "eq":
		return v == want
	case "ne":
		return v != want
	case "in":
		return in
	case "nin":
		return !in
	}
	return false
}

func (r *ref) deleteRange(meas, pred string, tmin, tmax int64) {
	r.deleteSel(func(series string) bool { return selects(series, meas, pred) }, tmin, tmax)
}

func (r *ref) deleteSel(sel func(string) bool, tmin, tmax int64) {
	for k, m := range r.data {
		series := strings.SplitN(k, "/", 2)[0]
		if !sel(series) {
			continue
		}
		for t := range m {
			if t >= tmin && t <= tmax {
				delete(m, t)
			}
		}
	}
	// a selected series left without any point leaves the index; a measurement whose
	// last series left is forgotten, field types included
	for k, m := range r.data {
		if len(m) == 0 {
			delete(r.data, k)
		}
	}
	hadM := map[string]bool{}
	for _, ms := range r.index {
		hadM[ms] = true
	}
	for series := range r.index {
		if !sel(series) {
			continue
		}
		if !r.hasData(series) {
			delete(r.index, series)
			if sp, ok := r.span[series]; ok {
				if !(tmin <= sp[0] && tmax >= sp[1]) {
					r.piecemeal[series] = true
				}
				delete(r.span, series)
			}
		}
	}
	hasM := map[string]bool{}
	for _, ms := range r.index {
		hasM[ms] = true
	}
	for ms := range hadM {
		if !hasM[ms] {
			for k := range r.ftypes {
				if strings.HasPrefix(k, ms+"/") {
					delete(r.ftypes, k)
				}
			}
		}
	}
}

func (r *ref) hasData(series string) bool {
	for k := range r.data {
		if strings.HasPrefix(k, series+"/") {
			return true
		}
	}
	return false
}

// listing: what the property says about listings — everything that still has points is
// listed; nothing is listed that has no series left in the index (a series whose points were
// all removed by a delete or drop has left the index). Series registered by a rejected write
// (never any points) are in r.index and therefore allowed either way.
func (r *ref) listing(f []string, op, o string) fw.Verdict {
	got := map[string]bool{}
	if o != "-" {
		for _, x := range strings.Split(o, ";") {
			got[x] = true
		}
	}
	must, may := map[string]bool{}, map[string]bool{}
	add := func(series string, m map[string]bool) {
		sm := strings.SplitN(series, "|", 2)
		switch f[0] {
		case "series":
			m[series] = true
		case "seriesby":
			if sm[0] == f[1] && tagPred(series, f[2], f[3], f[4]) {
				m[series] = true
			}
		case "measin":
			for _, w := range strings.Split(f[1], ",") {
				if w == sm[0] {
					m[sm[0]] = true
				}
			}
		case "meas":
			m[sm[0]] = true
		case "tagkeys", "tagvals":
			if sm[0] != f[1] || sm[1] == "-" {
				return
			}
			for _, kv := range strings.Split(sm[1], ",") {
				x := strings.SplitN(kv, "=", 2)
				if f[0] == "tagkeys" {
					m[x[0]] = true
				} else if x[0] == f[2] {
					m[x[1]] = true
				}
			}
		}
	}
	for series := range r.index {
		add(series, may)
		if r.hasData(series) {
			add(series, must)
		}
	}
	for x := range must {
		if !got[x] {
			return fw.Verdict{OK: false, Why: fmt.Sprintf("%s answered %.300s: %q still has points but is not listed", op, o, x), Signature: f[0] + " listing drops something that still has points"}
		}
	}
	ling := map[string]bool{}
	for series := range r.piecemeal {
		add(series, ling)
	}
	sideVals := map[string]bool{}
	for series := range r.side {
		add(series, sideVals)
	}
	if strings.HasPrefix(r.indexType, "inmem") {
		// the in-memory index is one per database: what another shard holds may be listed
		for series := range r.sideLive {
			add(series, may)
		}
	}
	for x := range got {
		if !may[x] {
			sig := f[0] + " listing keeps something whose points were all removed"
			switch {
			case ling[x]:
				// the last points went in a delete that did not span everything the series had
				// held (earlier deletes took the rest): the TSM index still names the key
				sig = "listing keeps a series emptied by several partial deletes"
			case f[0] == "tagvals" && strings.HasPrefix(r.indexType, "tsi1"):
				sig = "tagvals listing keeps a value whose series were all deleted (tsi1 index)"
			case f[0] == "tagvals" && strings.HasPrefix(r.indexType, "inmem") && sideVals[x]:
				sig = "tagvals listing keeps a value of a deleted shard's series (inmem index)"
			}
			return fw.Verdict{OK: false, Why: fmt.Sprintf("%s answered %.300s: %q is listed although all its points were removed", op, o, x), Signature: sig}
		}
	}
	return fw.Verdict{OK: true}
}

// OracleOps runs the reference over a case (for other properties built on the same shard ops).
func OracleOps(c fw.Case, out []string) fw.Verdict { return Prop{}.Oracle(c, out) }
