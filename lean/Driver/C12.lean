import Driver.Util
import InfluxVerif.Model.Points
namespace Driver.C12
open InfluxVerif.Points

def hexNat? (s : String) : Option (List Nat) := (hexToBytes? s).map (·.map UInt8.toNat)
def natHex (b : List Nat) : String := bytesToHex (b.map UInt8.ofNat)

def parseTag (s : String) : Option Tag :=
  match s.splitOn ":" with
  | [k, v] => match hexNat? k, hexNat? v with
    | some k, some v => some (k, v)
    | _, _ => none
  | _ => none

def handle (line : String) : String :=
  match splitWs line with
  | ["esc", kind, h] => match hexNat? h with
    | some b => "ok " ++ natHex (match kind with
      | "m" => escapeMeasurement b | "t" => escapeTag b | "s" => escapeStringField b | "k" => escapeBytes b | _ => b)
    | none => "bad-op"
  | ["unesc", kind, h] => match hexNat? h with
    | some b => "ok " ++ natHex (match kind with
      | "m" => unescapeMeasurement b | "t" => unescapeTag b | "s" => unescapeStringField b | "k" => appendUnescaped b | _ => b)
    | none => "bad-op"
  | ["key", name, tags] => match hexNat? name, allSome ((splitCsv tags).map parseTag) with
    | some n, some ts => s!"ok {natHex (makeKey n ts)} {hashID n ts}"
    | _, _ => "bad-op"
  | ["bin", k, f, t] => match hexNat? k, hexNat? f, hexNat? t with
    | some k, some f, some t => (match marshalPoint k f t with | some b => "ok " ++ natHex b | none => "err")
    | _, _, _ => "bad-op"
  | ["unbin", h] => match hexNat? h with
    | some b => (match unmarshalPoint b with
      | some (k, f, t) => s!"ok {natHex k} {natHex f} {natHex t}"
      | none => "err")
    | none => "bad-op"
  -- parser-level ops are judged by the oracle on the Go side; the model requires them to pass
  -- a point built through the API must come back from the text and the binary form exactly as
  -- given: the model of the round trip is the identity on the (canonically rendered) input
  | ["np", name, tags, fields, t] => s!"ok {name} {tags} {fields} {t}"
  | "line" :: _ => "line ok"
  | "fuzz" :: _ => "fuzz ok"
  | _ => "bad-op"

end Driver.C12
