/-
WAL segment framing (tsdb/engine/tsm1/wal.go): `WALSegmentWriter.Write` and
`WALSegmentReader.Next/Read/Count` as used by `CacheLoader.Load`: replay stops at the first
entry that cannot be read or decoded and the file is truncated to `Count()`.
The payload codec (snappy + entry unmarshal) is the parameter `valid`.
-/
import InfluxVerif.Model.Codec.Basic
namespace InfluxVerif.Codec

structure Frame where
  ty : Nat
  payload : Bytes
  deriving DecidableEq, Repr

def frameBytes (f : Frame) : Bytes := f.ty :: be32 f.payload.length ++ f.payload

def segmentBytes (fs : List Frame) : Bytes := fs.flatMap frameBytes

/-- entries accepted, and the byte count up to which the segment is valid -/
def walReplay (valid : Nat → Bytes → Bool) : Nat → Bytes → List Frame × Nat
  | 0, _ => ([], 0)
  | fuel + 1, b =>
    match b with
    | [] => ([], 0)                                   -- io.EOF at a frame boundary
    | ty :: r0 =>
      match be32dec r0 with
      | none => ([], 0)                               -- short header
      | some (len, r1) =>
        if r1.length < len then ([], 0)               -- short payload
        else
          let payload := r1.take len
          if valid ty payload then
            let (fs, n) := walReplay valid fuel (r1.drop len)
            (⟨ty, payload⟩ :: fs, 5 + len + n)
          else ([], 0)

/-- `readFullGrowing` (the read of an entry's payload): bytes read and buffer capacity after
asking for `n` bytes of a reader that holds `p`, with `len` bytes already in a buffer of
capacity `cap`. The buffer grows by doubling plus the chunk wanted next, never by `n`. -/
def growRead (chunk : Nat) : Nat → Nat → Nat → Nat → Nat → Nat × Nat
  | 0, _, _, len, cap => (len, cap)
  | fuel + 1, n, p, len, cap =>
    if len ≥ n then (len, cap)
    else
      let want := min (n - len) chunk
      let cap' := if cap - len < want then 2 * cap + want else cap
      let got := min want (p - len)
      if got < want then (len + got, cap') else growRead chunk fuel n p (len + got) cap'

end InfluxVerif.Codec
