/-
C02/C09 — `Values.Merge` (tsdb/engine/tsm1/encoding.gen.go) on deduplicated inputs: the
merge loop where, for equal timestamps, the value of the second argument wins.
Core Lean only.
-/
namespace InfluxVerif.Values

abbrev TV (α : Type) := Int × α

/-- strictly increasing timestamps -/
def Sorted {α} : List (TV α) → Prop
  | [] => True
  | [_] => True
  | a :: b :: rest => a.1 < b.1 ∧ Sorted (b :: rest)

/-- the merge loop of `Values.Merge` (both inputs sorted, `b` newer) -/
def merge {α} : List (TV α) → List (TV α) → List (TV α)
  | [], b => b
  | a, [] => a
  | x :: xs, y :: ys =>
    if x.1 < y.1 then x :: merge xs (y :: ys)
    else if x.1 = y.1 then y :: merge xs ys
    else y :: merge (x :: xs) ys
termination_by a b => a.length + b.length

def lookup {α} (l : List (TV α)) (t : Int) : Option α := (l.find? (·.1 == t)).map (·.2)

/-- insert or overwrite one timestamp in a strictly increasing list -/
def upsert {α} (t : Int) (v : α) : List (TV α) → List (TV α)
  | [] => [(t, v)]
  | (t', v') :: rest =>
    if t < t' then (t, v) :: (t', v') :: rest
    else if t = t' then (t, v) :: rest
    else (t', v') :: upsert t v rest

def ordered {α} : List (TV α) → Bool
  | [] => true
  | [_] => true
  | a :: b :: rest => a.1 < b.1 && ordered (b :: rest)

/-- `Values.Deduplicate`: untouched when already strictly increasing; otherwise a stable
sort by time keeping, for equal timestamps, the last value in input order -/
def dedup {α} (l : List (TV α)) : List (TV α) :=
  if ordered l then l else l.foldl (fun acc p => upsert p.1 p.2 acc) []

/-- `Values.Merge` as written: the empty-argument shortcuts skip de-duplication -/
def mergeFull {α} (a b : List (TV α)) : List (TV α) :=
  if a.isEmpty then b else if b.isEmpty then a else merge (dedup a) (dedup b)

/-- `Values.Exclude(min, max)` -/
def exclude {α} (l : List (TV α)) (tmin tmax : Int) : List (TV α) := l.filter fun p => p.1 < tmin || p.1 > tmax
/-- `Values.Include(min, max)` -/
def include_ {α} (l : List (TV α)) (tmin tmax : Int) : List (TV α) := l.filter fun p => tmin ≤ p.1 && p.1 ≤ tmax

end InfluxVerif.Values
