// corr <prop> -seed N -tier quick|thorough -work DIR -driver PATH [-replay FILE]
package main

import (
	"encoding/json"
	"flag"
	"fmt"
	"os"
	"runtime/pprof"
	"strings"
	"time"

	"verifharness/extract"
	"verifharness/fw"
	"verifharness/props/c02"
	"verifharness/props/c03"
	"verifharness/props/c04"
	"verifharness/props/c05"
	"verifharness/props/c06"
	"verifharness/props/c07"
	"verifharness/props/c08"
	"verifharness/props/c09"
	"verifharness/props/c11"
	"verifharness/props/c12"
	"verifharness/props/c13"
	"verifharness/props/c15"
	"verifharness/props/c16"
	"verifharness/props/c17"
	"verifharness/props/c19"
)

var registry = map[string]func() fw.Prop{
	"C02": func() fw.Prop { return c02.Prop{} },
	"C09": func() fw.Prop { return c09.Prop{} },
	"C05": func() fw.Prop { return c05.Prop{} },
	"C11": func() fw.Prop { return c11.Prop{} },
	"C19": func() fw.Prop { return c19.Prop{} },
	"C10": func() fw.Prop { return c02.C10{} },
	"C01": func() fw.Prop { return c02.C01{} },
	"C18": func() fw.Prop { return c02.C18{} },
	"C14": func() fw.Prop { return c02.C14{} },
	"C03": func() fw.Prop { return c03.Prop{} },
	"C04": func() fw.Prop { return c04.Prop{} },
	"C06": func() fw.Prop { return c06.Prop{} },
	"C07": func() fw.Prop { return c07.Prop{} },
	"C08": func() fw.Prop { return c08.Prop{} },
	"C12": func() fw.Prop { return c12.Prop{} },
	"C13": func() fw.Prop { return c13.Prop{} },
	"C15": func() fw.Prop { return c15.Prop{} },
	"C16": func() fw.Prop { return c16.Prop{} },
	"C17": func() fw.Prop { return c17.Prop{} },
}

func init() {
	// development aid: VERIF_HEAPPROF=<file> writes a heap profile after 60 s
	if f := os.Getenv("VERIF_HEAPPROF"); f != "" {
		go func() {
			time.Sleep(60 * time.Second)
			w, err := os.Create(f)
			if err == nil {
				pprof.WriteHeapProfile(w)
				w.Close()
			}
		}()
	}
}

func main() {
	if len(os.Args) < 2 {
		fmt.Fprintln(os.Stderr, "usage: corr <prop> [flags]")
		os.Exit(2)
	}
	if os.Args[1] == "extract" {
		fs := flag.NewFlagSet("extract", flag.ExitOnError)
		repo := fs.String("repo", "/repo", "")
		out := fs.String("out", "", "")
		fs.Parse(os.Args[2:])
		if err := extract.Run(*repo, *out); err != nil {
			fmt.Fprintln(os.Stderr, "extract:", err)
			os.Exit(1)
		}
		return
	}
	if os.Args[1] == "c15child" {
		c15.ChildMain(os.Args[2])
		return
	}
	defer c15.Shutdown()
	id := strings.ToUpper(os.Args[1])
	fs := flag.NewFlagSet("corr", flag.ExitOnError)
	seed := fs.Uint64("seed", 1, "")
	tier := fs.String("tier", "quick", "")
	work := fs.String("work", ".", "")
	driver := fs.String("driver", "", "")
	replays := fs.String("replays", "/verif/replays", "")
	corpus := fs.String("corpus", "/verif/replays/corpus", "")
	known := fs.String("known", "/verif/known_findings.json", "")
	replay := fs.String("replay", "", "")
	isolate := fs.Bool("isolate", false, "run every case's implementation side in a child process")
	implOnly := len(os.Args) > 2 && os.Args[2] == "implonly"
	if !implOnly {
		fs.Parse(os.Args[2:])
	}
	mk, ok := registry[id]
	if !ok {
		fmt.Fprintln(os.Stderr, "unknown property", id)
		os.Exit(2)
	}
	p := mk()
	if implOnly {
		var c fw.Case
		if err := json.NewDecoder(os.Stdin).Decode(&c); err != nil {
			os.Exit(2)
		}
		out := p.RunImpl(c)
		b, _ := json.Marshal(out)
		os.Stdout.Write(b)
		c15.Shutdown()
		return
	}
	if *isolate {
		self, _ := os.Executable()
		fw.Isolate = []string{self, id}
	}
	fw.HangDir = *work
	cfg := &fw.Config{Seed: *seed, Tier: *tier, Work: *work, Driver: *driver, Replays: *replays, Corpus: *corpus,
		Known: fw.LoadKnown(*known), ReplayFile: *replay}
	if d, ok := p.(interface{ Describe(*fw.Config) }); ok {
		d.Describe(cfg)
	}
	res, err := fw.Run(p, cfg)
	if err != nil {
		fmt.Fprintln(os.Stderr, "corr:", err)
		c15.Shutdown()
		os.Exit(3)
	}
	fmt.Printf("corr %s: programs=%d evaluations=%d distinct_nontrivial=%d divergences=%d wall=%.1fs\n",
		id, res.Programs, res.Evaluations, res.DistinctNontrivial, len(res.Divergences), res.WallS)
}
