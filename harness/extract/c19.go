package extract

import (
	"fmt"
	"go/ast"
	"strings"
)

// callPos returns the source offset of the first call inside fn whose function expression
// prints with the given suffix (e.g. "Cache.Values"), or -1.
func callPos(s *Src, fn *ast.FuncDecl, suffix string) int {
	pos := -1
	ast.Inspect(fn, func(n ast.Node) bool {
		if pos >= 0 {
			return false
		}
		if c, ok := n.(*ast.CallExpr); ok && strings.HasSuffix(s.Text(c.Fun), suffix) {
			pos = int(c.Pos())
			return false
		}
		return true
	})
	return pos
}

func init() {
	Register(func(repo, out string) error {
		f := NewFile("C19")
		// every cursor builder samples the cache (store + snapshot) BEFORE it takes the file
		// references: the order the schedule model's reader is proved safe for
		var names []string
		var ok []bool
		for _, rel := range []string{"tsdb/engine/tsm1/engine.gen.go", "tsdb/engine/tsm1/array_cursor_iterator.gen.go"} {
			src, err := Parse(repo, rel)
			if err != nil {
				return err
			}
			for _, d := range src.File.Decls {
				fd, isFn := d.(*ast.FuncDecl)
				if !isFn || !strings.HasPrefix(fd.Name.Name, "build") || !strings.HasSuffix(fd.Name.Name, "Cursor") {
					continue
				}
				c, k := callPos(src, fd, "Cache.Values"), callPos(src, fd, "KeyCursor")
				names = append(names, fd.Name.Name)
				ok = append(ok, c >= 0 && k >= 0 && c < k)
			}
		}
		if len(names) == 0 {
			return fmt.Errorf("C19: no cursor builders found")
		}
		f.StrBools("cacheBeforeFiles", names, ok)
		// the snapshot is cleared from the cache only after its file is installed
		src, err := Parse(repo, "tsdb/engine/tsm1/engine.go")
		if err != nil {
			return err
		}
		fn := src.Func("Engine", "writeSnapshotAndCommit")
		if fn == nil {
			return fmt.Errorf("C19: writeSnapshotAndCommit not found")
		}
		rp, cp := callPos(src, fn, "FileStore.Replace"), callPos(src, fn, "Cache.ClearSnapshot")
		// ClearSnapshot(false) in the deferred error path comes first in the source: take the
		// last ClearSnapshot call instead
		last := -1
		ast.Inspect(fn, func(n ast.Node) bool {
			if c, isCall := n.(*ast.CallExpr); isCall && strings.HasSuffix(src.Text(c.Fun), "Cache.ClearSnapshot") && len(c.Args) == 1 && src.Text(c.Args[0]) == "true" {
				last = int(c.Pos())
			}
			return true
		})
		_ = cp
		f.Bool("installBeforeClear", rp >= 0 && last >= 0 && rp < last)
		// the second look at a field that has appeared since validation compares its type
		ssrc, err := Parse(repo, "tsdb/shard.go")
		if err != nil {
			return err
		}
		vfn := ssrc.Func("Shard", "validateSeriesAndFields")
		if vfn == nil {
			return fmt.Errorf("C19: validateSeriesAndFields not found")
		}
		rechecked := false
		ast.Inspect(vfn, func(n ast.Node) bool {
			ifs, ok := n.(*ast.IfStmt)
			if !ok || ifs.Init == nil || !strings.Contains(ssrc.Text(ifs.Init), "mf.FieldBytes(fieldKey)") {
				return true
			}
			ast.Inspect(ifs.Body, func(m ast.Node) bool {
				if b, ok := m.(*ast.BinaryExpr); ok && strings.Contains(ssrc.Text(b), "f.Type != dataType") {
					rechecked = true
				}
				return true
			})
			return true
		})
		f.Bool("typeRecheckedAtSecondLook", rechecked)
		return f.Write(out)
	})
}
