import Driver.Util
import InfluxVerif.Model.Cluster
namespace Driver.ClusterD
open InfluxVerif.Cluster

def sortBy {α} (lt : α → α → Bool) (l : List α) : List α := (l.toArray.qsort lt).toList

def renderRaw (pts : List Pt) (desc : Bool) : String :=
  if pts.isEmpty then "-" else
  let sorted := sortBy (fun a b => if desc then a.t > b.t else a.t < b.t) pts
  "[m{}(time,v)" ++ String.join (sorted.map fun p => s!" {p.t},{p.v}") ++ "]"

def renderStar (pts : List Pt) (name cols : String) (cell : Pt → String) : String :=
  if pts.isEmpty then "-" else
  let sorted := sortBy (fun a b => a.t < b.t) pts
  "[" ++ name ++ "{}(" ++ cols ++ ")" ++ String.join (sorted.map fun p => " " ++ cell p) ++ "]"

def step1 (s : St) (line : String) : St × String :=
  match Driver.splitWs line with
  | ["creset", n] =>
    let n := n.toNat!
    ({ n := n, shards := [], status := List.replicate n .up }, "ok")
  | ["creset", n, "slow"] =>
    let n := n.toNat!
    ({ n := n, shards := [], status := List.replicate n .up, slowOK := true }, "ok")
  | ["sg", lo, hi, owners] =>
    match lo.toInt?, hi.toInt? with
    | some lo, some hi =>
      let lists := (owners.splitOn "/").map fun sh => (sh.splitOn ",").filterMap (·.toNat?)
      let base := s.shards.length
      let news := lists.mapIdx fun i os => ({ id := base + i + 1, lo := lo, hi := hi, owners := os, pts := [] } : Shard)
      ({ s with shards := s.shards ++ news }, "ok")
    | _, _ => (s, "bad-op")
  | ["data", idx, n, t0, stp, vb] =>
    match idx.toNat?, n.toNat?, t0.toInt?, stp.toInt?, vb.toInt? with
    | some idx, some n, some t0, some stp, some vb =>
      if idx ≥ s.shards.length then (s, "bad-op") else
      let news := (List.range n).map fun (i : Nat) => ({ host := idx % 2, t := t0 + (i : Int) * stp, v := vb + (i : Int) } : Pt)
      let shards := s.shards.mapIdx fun j (sh : Shard) =>
        if j == idx then { sh with pts := news.foldl (fun acc p => upsertPt p acc) sh.pts } else sh
      ({ s with shards := shards }, "ok")
    | _, _, _, _, _ => (s, "bad-op")
  | ["trunc", _] => (s, "ok")     -- truncation stops new points; what a group holds is still read
  | ["down", i] =>
    match i.toNat? with
    | some i => if i ≥ s.n then (s, "bad-op") else ({ s with status := s.status.set i .down }, "ok")
    | none => (s, "bad-op")
  | ["fault", i, kind] =>
    match i.toNat? with
    | some i =>
      if i ≥ s.n then (s, "bad-op") else
      if statusOf s i == .down then (s, "ok") else
      let st := if kind == "none" then some Status.up else if kind == "err" then some Status.errFault
                else if kind.startsWith "mid:" || kind == "cut" then some Status.midFault
                else if kind == "slow" && s.slowOK then some Status.slow else none
      match st with
      | some st => ({ s with status := s.status.set i st }, "ok")
      | none => (s, "bad-op")
    | none => (s, "bad-op")
  | ["q", c, kind, lo, hi] =>
    match c.toNat?, lo.toInt?, hi.toInt? with
    | some c, some lo, some hi =>
      if c ≥ s.n || statusOf s c == .down then (s, "bad-op") else
      if kind == "showtv" then
        -- SHOW TAG VALUES fans out to every node over every shard of the database and unites
        -- what the nodes that answer return (the errors of the others are dropped)
        let hosts := (s.shards.filter fun sh => metaOK s c sh).flatMap fun sh => sh.pts.map (·.host)
        let hs := sortBy (· < ·) hosts.eraseDups
        if hs.isEmpty then (s, "ok -")
        else (s, "ok [m{}(key,value) " ++ " ".intercalate (hs.map fun h => s!"host,h{h}") ++ "]")
      else
      if kind == "explain" then
        -- the cost estimate: the field types of every needed shard must be learnable, and every
        -- needed shard that exists is counted once (asked of a node that answers)
        -- (the field's type is asked of the coordinator's own shards and of every node that
        -- answers; a node that does not is passed over there: if nobody who answers knows the
        -- field, the plan is empty)
        let known := (needed s lo hi).any fun sh => !sh.pts.isEmpty && metaOK s c sh
        if !known then (s, "ok shards=0")
        else if !(needed s lo hi).all (metaOK s c) then (s, "error")
        else (s, s!"ok shards={((needed s lo hi).filter fun sh => !sh.pts.isEmpty).length}")
      else
      if !planOK s c lo hi (kind == "count" || kind == "count2") then (s, "error") else
      let pts := unionPts s lo hi
      let out := match kind with
        | "raw" => renderRaw pts false
        | "rawdesc" => renderRaw pts true
        | "count" => if pts.isEmpty then "-" else s!"[m\{}(time,count) {lo},{pts.length}]"
        | "count2" => if pts.isEmpty then "-" else s!"[m2\{}(time,count) {lo},{pts.length}]"
        | "star" => renderStar pts "m" "time,host,v" (fun p => s!"{p.t},h{p.host},{p.v}")
        | "star2" => renderStar pts "m2" "time,host,w" (fun p => s!"{p.t},h{p.host},{p.v}")
        | "both" =>
          if pts.isEmpty then "-" else
          renderStar pts "m" "time,host,v,w" (fun p => s!"{p.t},h{p.host},{p.v},null") ++
          renderStar pts "m2" "time,host,v,w" (fun p => s!"{p.t},h{p.host},null,{p.v}")
        | "sum" =>
          let hosts := sortBy (· < ·) ((pts.map (·.host)).eraseDups)
          if hosts.isEmpty then "-" else
          String.join (hosts.map fun h =>
            let sum := ((pts.filter (·.host == h)).map (·.v)).foldl (· + ·) 0
            s!"[m\{host=h{h}}(time,sum) {lo},{sum}]")
        | _ => "?"
      (s, "ok " ++ out)
    | _, _, _ => (s, "bad-op")
  | _ => (s, "bad-op")

/-- driver state: the cluster and the last query (for the serving log) -/
structure DSt where
  s : St := {}
  last : Option (Nat × Int × Int) := none

def step (d : DSt) (line : String) : DSt × String :=
  match Driver.splitWs line with
  | ["served"] =>
    -- the serving log is judged on the implementation side (exactly-once per needed shard);
    -- it can only be predicted when every node is healthy
    (d, if d.s.status.all (· == .up) then "served ok" else "served ?")
  | ["q", c, _, lo, hi] =>
    let (s', o) := step1 d.s line
    match c.toNat?, lo.toInt?, hi.toInt? with
    | some c, some lo, some hi => ({ s := s', last := some (c, lo, hi) }, o)
    | _, _, _ => ({ d with s := s' }, o)
  | "creset" :: _ =>
    let (s', o) := step1 d.s line
    ({ s := s', last := none }, o)
  | _ =>
    let (s', o) := step1 d.s line
    ({ d with s := s' }, o)

end Driver.ClusterD
