/-
C19 — Concurrent operation never corrupts state or loses writes  (partial).
What a theorem can carry here is the logic of the interleavings, not the Go runtime: for the
engine's writer / snapshotter / compactor / reader, modelled as atomic steps at the granularity
of the code's critical sections (Model/Sched.lean), a read that samples the cache first and the
files afterwards — the order every cursor builder of the code uses, a regenerated fact — sees
every write acknowledged before it began, under EVERY schedule; with the opposite order there
is a schedule that loses an acknowledged write.  Data races, deadlocks and crashes are looked
for by the stress harness built with the race detector (harness/props/c19), which is testing.
-/
import InfluxVerif.Model.Sched
import InfluxVerif.Gen.C19

namespace InfluxVerif.Sched

/-- every acknowledged write is in the cache, in the snapshot being written, or in a file -/
def Inv (s : St) : Prop := ∀ w ∈ s.acked, w ∈ s.cache ∨ w ∈ s.snap ∨ w ∈ s.files

theorem inv_init : Inv {} := by intro w hw; simp at hw

theorem step_inv (s : St) (st : Step) (h : Inv s) : Inv (step s st) := by
  cases st with
  | write w =>
    intro x hx
    have hx' : x = w ∨ x ∈ s.acked := by simpa [step] using hx
    show x ∈ w :: s.cache ∨ x ∈ s.snap ∨ x ∈ s.files
    rcases hx' with rfl | hx'
    · exact Or.inl (by simp)
    · rcases h x hx' with h1 | h1 | h1
      · exact Or.inl (by simp [h1])
      · exact Or.inr (Or.inl h1)
      · exact Or.inr (Or.inr h1)
  | snapBegin =>
    by_cases hemp : s.snap.isEmpty = true
    · have e : step s .snapBegin = { s with snap := s.cache, cache := [] } := by simp [step, hemp]
      rw [e]
      intro x hx
      rcases h x hx with h1 | h1 | h1
      · exact Or.inr (Or.inl h1)
      · have : s.snap = [] := by simpa using hemp
        rw [this] at h1; simp at h1
      · exact Or.inr (Or.inr h1)
    · have e : step s .snapBegin = s := by simp [step, hemp]
      rw [e]; exact h
  | snapInstall =>
    intro x hx
    have hx' : x ∈ s.acked := by simpa [step] using hx
    show x ∈ s.cache ∨ x ∈ s.snap ∨ x ∈ s.snap ++ s.files
    rcases h x hx' with h1 | h1 | h1
    · exact Or.inl h1
    · exact Or.inr (Or.inl h1)
    · exact Or.inr (Or.inr (by simp [h1]))
  | snapClear =>
    by_cases hall : (s.snap.all (s.files.contains ·)) = true
    · have e : step s .snapClear = { s with snap := [] } := by simp only [step, hall, if_true]
      rw [e]
      intro x hx
      rcases h x hx with h1 | h1 | h1
      · exact Or.inl h1
      · right; right
        have := List.all_eq_true.1 hall x h1
        simpa using this
      · exact Or.inr (Or.inr h1)
    · have e : step s .snapClear = s := by simp only [step, hall, if_false]; rfl
      rw [e]; exact h
  | compact => exact h

theorem run_inv (steps : List Step) (s : St) (h : Inv s) : Inv (run s steps) := by
  induction steps generalizing s with
  | nil => exact h
  | cons st rest ih => exact ih _ (step_inv s st h)

theorem step_files_mono (s : St) (st : Step) (w : W) (h : w ∈ s.files) : w ∈ (step s st).files := by
  cases st with
  | write x => exact h
  | snapBegin => by_cases hemp : s.snap.isEmpty = true <;> simp [step, hemp, h]
  | snapInstall => simp [step, h]
  | snapClear =>
    by_cases hall : (s.snap.all (s.files.contains ·)) = true
    · simp only [step, hall, if_true]; exact h
    · simp only [step, hall]; exact h
  | compact => exact h

theorem run_files_mono (steps : List Step) (s : St) (w : W) (h : w ∈ s.files) : w ∈ (run s steps).files := by
  induction steps generalizing s with
  | nil => exact h
  | cons st rest ih => exact ih _ (step_files_mono s st w h)

/-- **A read sees every write acknowledged before it began, under every schedule.**
`before` is any history up to the moment the reader samples the cache (store and snapshot);
`during` is anything that happens until it takes the file references — more writes, a
snapshot beginning, being installed, being cleared, compactions, in any order and number. -/
theorem read_sees_acked (before during : List Step) (w : W) (hw : w ∈ (run {} before).acked) :
    w ∈ readCacheFirst (run {} before) (run (run {} before) during) := by
  have hinv := run_inv before {} inv_init
  unfold readCacheFirst
  simp only [List.mem_append]
  rcases hinv w hw with h | h | h
  · exact Or.inl (Or.inl h)
  · exact Or.inl (Or.inr h)
  · exact Or.inr (run_files_mono during _ w h)

/-- **The order matters**: sampling the files first and the cache afterwards loses an
acknowledged write under the schedule write; snapshot begins; [files sampled]; snapshot
installed; snapshot cleared; [cache sampled]. -/
theorem files_first_loses_a_write :
    let atFiles := run {} [.write 1, .snapBegin]
    let atCache := run atFiles [.snapInstall, .snapClear]
    1 ∈ atFiles.acked ∧ 1 ∉ readFilesFirst atFiles atCache := by decide

/-! ### Tie to the code: facts regenerated from /repo on every run (Gen/C19.lean) -/

/-- all ten cursor builders (five types, iterator and array cursor) sample `Cache.Values`
before they take the `KeyCursor` -/
theorem gen_cache_before_files :
    Gen.C19.cacheBeforeFiles.length = 10 ∧ Gen.C19.cacheBeforeFiles.all (·.2) = true := by decide

/-- `writeSnapshotAndCommit` installs the snapshot's file before it clears the snapshot -/
theorem gen_install_before_clear : Gen.C19.installBeforeClear = true := by decide

/-! ### Non-vacuity -/

example : (run {} [.write 1, .snapBegin, .write 2, .snapInstall, .snapClear]).files = [1] := by decide

end InfluxVerif.Sched
