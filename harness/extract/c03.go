package extract

import (
	"errors"
	"fmt"

	"github.com/influxdata/influxdb/coordinator"
	"github.com/influxdata/influxdb/models"
	"github.com/influxdata/influxdb/services/hh"
	"github.com/influxdata/influxdb/tsdb"
)

func init() {
	Register(func(repo, out string) error {
		f := NewFile("C03")
		src, err := Parse(repo, "coordinator/points_writer.go")
		if err != nil {
			return err
		}
		fn := src.Func("PointsWriter", "writeToShardWithContext")
		if fn == nil {
			return fmt.Errorf("C03: writeToShardWithContext not found")
		}
		// the `required` switch, syntactically
		f.StrPairs("requiredSwitch", src.SwitchRows(fn, "consistency"))
		// the level enum, behaviourally
		var lv [][2]string
		for _, s := range []string{"any", "one", "quorum", "all"} {
			l, err := models.ParseConsistencyLevel(s)
			if err != nil {
				return err
			}
			lv = append(lv, [2]string{s, fmt.Sprint(int(l))})
		}
		f.StrPairs("levelEnum", lv)
		// IsRetryable, behaviourally, on the error shapes the write path produces
		errs := []error{
			errors.New("dial tcp 10.0.0.1:8088: connect: connection refused"),
			errors.New("i/o timeout"),
			errors.New("EOF"),
			tsdb.PartialWriteError{Reason: "field type conflict: input field \"v\" on measurement \"m\" is type integer, already exists as type float", Dropped: 1},
			tsdb.PartialWriteError{Reason: "points beyond retention policy", Dropped: 2},
			errors.New("partial write: something dropped=1"),
			tsdb.ErrShardNotFound,
			coordinator.ErrTimeout,
			errors.New("engine is closed"),
		}
		var names []string
		var vals []bool
		for _, e := range errs {
			names = append(names, e.Error())
			vals = append(vals, hh.IsRetryable(e))
		}
		f.StrBools("isRetryable", names, vals)
		f.Bool("isRetryableNil", hh.IsRetryable(nil))
		f.Str("errQueueNotEmpty", hh.ErrHintedHandoffQueueNotEmpty.Error())
		f.Str("errQueueBlocked", hh.ErrQueueBlocked.Error())
		return f.Write(out)
	})
}
