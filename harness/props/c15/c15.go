// Package c15: the inter-node listener of a real data node, run in a CHILD PROCESS (a
// panic in a connection handler kills the process, which is exactly the observation), fed
// byte streams; framing functions (ReadLV/WriteTLV) compared in-process with the Lean model
// InfluxVerif.TLV; message round-trips through Marshal/Unmarshal.
package c15

import (
	"bufio"
	"bytes"
	"encoding/binary"
	"encoding/hex"
	"fmt"
	"github.com/influxdata/influxdb/storage/reads/datatypes"
	"io"
	"net"
	"os"
	"os/exec"
	"path/filepath"
	"strconv"
	"strings"
	"sync"
	"syscall"
	"time"

	"github.com/influxdata/influxdb/coordinator"
	"github.com/influxdata/influxdb/models"
	"github.com/influxdata/influxdb/services/meta"
	"verifharness/fw"
	"verifharness/node"
)

type Prop struct{}

func (Prop) ID() string    { return "C15" }
func (Prop) Model() string { return "c15" }
func (Prop) Parallel() int { return 1 }

// KeepOp: the first op of a case writes the standard points; the shrinker keeps it
func (Prop) KeepOp(i int, op string) bool { return i == 0 && op == "ping" }
func (Prop) Describe(cfg *fw.Config) {
	cfg.Rule = "byte streams to the cluster listener of a real node in a child process: every message type 0..45 and 200/255 x length prefixes {-2^63, -1, 0, 1, exact, exact±1, 2^31, MaxMessageSize, 2^63-1} x payloads {valid requests incl. write requests whose points are undecodable or malformed, random bytes, truncated}, 1-4 frames per connection; after every stream the child must be alive and still serve a valid write; ReadLV/WriteTLV on the same byte strings in-process; request/response Marshal/Unmarshal round trips; non-trivial = a stream with a malformed or boundary length, or a rejected/failed request; distinct = distinct op list"
}

func hx(b []byte) string {
	if len(b) == 0 {
		return "-"
	}
	return hex.EncodeToString(b)
}
func unhx(s string) []byte {
	if s == "-" {
		return nil
	}
	b, _ := hex.DecodeString(s)
	return b
}

// ---- payloads ----

func goodPoint(i int) models.Point {
	return models.MustNewPoint("cpu", models.NewTags(map[string]string{"host": fmt.Sprintf("h%d", i%3)}), models.Fields{"v": float64(i)}, time.Unix(int64(1600000000+i), 0))
}

// a binary point whose only field is a string consisting of a lone quote
func loneQuotePoint() []byte {
	p := goodPoint(1)
	b, _ := p.MarshalBinary()
	// layout: 4-byte key len, key, 4-byte fields len, fields, time. Replace the fields section by `s="`
	keyLen := binary.BigEndian.Uint32(b[:4])
	key := b[4 : 4+keyLen]
	fields := []byte(`s="`)
	out := make([]byte, 0, len(b))
	var l [4]byte
	binary.BigEndian.PutUint32(l[:], uint32(len(key)))
	out = append(out, l[:]...)
	out = append(out, key...)
	binary.BigEndian.PutUint32(l[:], uint32(len(fields)))
	out = append(out, l[:]...)
	out = append(out, fields...)
	tm, _ := time.Unix(1600000000, 0).MarshalBinary()
	out = append(out, tm...)
	return out
}

func writeReq(kind int) []byte {
	var req coordinator.WriteShardRequest
	req.SetShardID(1)
	req.SetDatabase("db0")
	req.SetRetentionPolicy("rp0")
	switch kind {
	case 0:
		req.AddPoints([]models.Point{goodPoint(1), goodPoint(2)})
	case 1: // undecodable point bytes
		req.SetBinaryPoints([][]byte{{1, 2, 3}})
	case 2: // decodable point with a malformed string field
		req.SetBinaryPoints([][]byte{loneQuotePoint()})
	case 3: // unknown shard, no database: dropped
		req.SetShardID(99)
		req.SetDatabase("")
		req.AddPoints([]models.Point{goodPoint(3)})
	case 4: // empty key / zero-length point
		req.SetBinaryPoints([][]byte{{}})
	}
	b, _ := req.MarshalBinary()
	return b
}

func frame(typ byte, length int64, payload []byte) []byte {
	var b bytes.Buffer
	b.WriteByte(typ)
	binary.Write(&b, binary.BigEndian, length)
	b.Write(payload)
	return b.Bytes()
}

func genStream(r *fw.Rand) ([]byte, []string) {
	var out []byte
	var tags []string
	nf := 1 + r.Intn(4)
	for i := 0; i < nf; i++ {
		typ := byte(r.Intn(46))
		switch r.Intn(12) {
		case 0:
			typ = 200
		case 1:
			typ = 255
		case 2, 3, 4:
			typ = 1
		case 5:
			typ = 3
		}
		var payload []byte
		pk := r.Intn(8)
		if r.Intn(3) == 0 {
			// a well-formed request of any type, content referring to things that may not exist
			et, ep, tag := genEnvelope(r)
			typ, payload, pk = byte(et), ep, 99
			tags = append(tags, tag)
			if et == tStoreReadFilter || et == tStoreReadGroup || et == tCreateIterator || et == tBackupShard {
				// answered with a data stream: such a request ends the generated stream
				out = append(out, frame(typ, int64(len(payload)), payload)...)
				break
			}
		}
		switch {
		case pk == 99:
		case typ == 1 && pk < 5:
			payload = writeReq(pk)
			tags = append(tags, fmt.Sprintf("write-kind-%d", pk))
		case typ == 3 && pk < 4:
			var req coordinator.ExecuteStatementRequest
			req.SetStatement([]string{"DROP MEASUREMENT nothing", "this is not influxql", "DROP DATABASE nodb", ""}[pk])
			req.SetDatabase("db0")
			payload, _ = req.MarshalBinary()
		case pk == 5:
			payload = nil
		default:
			payload = make([]byte, r.Intn(40))
			for j := range payload {
				payload[j] = byte(r.U64())
			}
		}
		exact := int64(len(payload))
		length := exact
		switch r.Intn(14) {
		case 0:
			length = -1 << 63
			tags = append(tags, "len-minint")
		case 1:
			length = -1
			tags = append(tags, "len-neg")
		case 2:
			length = 0
		case 3:
			length = exact + 1
			tags = append(tags, "len-short-by-1")
		case 4:
			if exact > 0 {
				length = exact - 1
			}
		case 5:
			length = coordinator.MaxMessageSize
			tags = append(tags, "len-max")
		case 6:
			length = 1<<63 - 1
			tags = append(tags, "len-maxint")
		case 7:
			length = 1 << 31
			tags = append(tags, "len-2^31")
		case 8:
			// a large but admissible length with no data behind it: at most one per stream, small enough to be cheap
			length = 1 << 20
			tags = append(tags, "len-1MiB-short")
		}
		out = append(out, frame(typ, length, payload)...)
		if r.Chance(0.1) {
			// cut the stream inside this frame
			out = out[:len(out)-r.Intn(min(len(out), 9))]
			break
		}
	}
	return out, tags
}

func min(a, b int) int {
	if a < b {
		return a
	}
	return b
}

func (Prop) Generate(r *fw.Rand, tier string) []fw.Case {
	n := 150
	if tier == "thorough" {
		n = 4000
	}
	var cases []fw.Case
	// deterministic table: each request type with each special length and an empty payload
	lens := []int64{-1 << 63, -1, 0, 1, coordinator.MaxMessageSize, 1<<63 - 1}
	for typ := 0; typ <= 45; typ++ {
		var ops []string
		for _, l := range lens {
			ops = append(ops, "conn "+hx(frame(byte(typ), l, nil)), "ping")
		}
		cases = append(cases, fw.Case{Ops: ops, Tags: []string{"table"}})
	}
	// the three malformed-point write requests, then a ping
	for k := 0; k < 5; k++ {
		p := writeReq(k)
		cases = append(cases, fw.Case{Ops: []string{"conn " + hx(frame(1, int64(len(p)), p)), "ping"}, Tags: []string{fmt.Sprintf("write-kind-%d", k)}})
	}
	// well-formed requests of every type (fixed stream of variants, independent of the seed)
	er := fw.NewRand(15)
	ne := 240
	if tier == "thorough" {
		ne = 4000
	}
	for i := 0; i < ne; i += 8 {
		var ops []string
		var tags []string
		for k := 0; k < 8; k++ {
			et, ep, tag := genEnvelope(er)
			ops = append(ops, "conn "+hx(frame(byte(et), int64(len(ep)), ep)))
			tags = append(tags, tag)
		}
		ops = append(ops, "ping")
		cases = append(cases, fw.Case{Ops: ops, Tags: tags})
	}
	// storage reads that reach the cursors of a shard holding data: every group kind with
	// every aggregate type, known or not
	for _, at := range []int32{0, 1, 2, 3, 100, -1} {
		for _, grp := range []int32{0, 2} {
			req := datatypes.ReadGroupRequest{ReadSource: readSource("db0", "rp0"), Range: datatypes.TimestampRange{Start: -1 << 62, End: 1 << 62},
				Group: datatypes.ReadGroupRequest_Group(grp), Aggregate: &datatypes.Aggregate{Type: datatypes.Aggregate_AggregateType(at)}}
			if grp == 0 {
				req.GroupKeys = []string{"host"}
			}
			m := &coordinator.StoreReadGroupRequest{ShardIDs: []uint64{1}, Request: req}
			if b, err := m.MarshalBinary(); err == nil {
				cases = append(cases, fw.Case{Ops: []string{"ping", "conn " + hx(frame(byte(tStoreReadGroup), int64(len(b)), b)), "ping"}, Tags: []string{"readgroup-aggregate"}})
			}
		}
	}
	for i := 0; i < n; i++ {
		var ops []string
		var tags []string
		for k, m := 0, 1+r.Intn(5); k < m; k++ {
			s, tg := genStream(r)
			tags = append(tags, tg...)
			ops = append(ops, "conn "+hx(s))
			// the framing functions on the same bytes
			if len(s) > 1 {
				ops = append(ops, "lv "+hx(s[1:]))
			}
			if r.Chance(0.3) {
				ops = append(ops, fmt.Sprintf("tlv %d %s", r.Intn(256), hx(s[:min(len(s), 30)])))
			}
		}
		ops = append(ops, "ping", "rt "+fmt.Sprint(r.Intn(1000)))
		cases = append(cases, fw.Case{Ops: ops, Tags: tags})
	}
	// message values of every shape: iterator options inside requests, streamed points
	nrt := 400
	if tier == "thorough" {
		nrt = 40000
	}
	// the node lives across cases: every case first writes the standard points itself, so that
	// what it meets in the shard does not depend on the cases before it (a replay runs alone)
	for i := range cases {
		if len(cases[i].Ops) > 0 && cases[i].Ops[0] != "ping" {
			cases[i].Ops = append([]string{"ping"}, cases[i].Ops...)
		}
	}
	for i := 0; i < nrt; i += 8 {
		var ops []string
		for k := 0; k < 8; k++ {
			ops = append(ops, "rt2 "+fmt.Sprint(r.Intn(1<<30)))
		}
		cases = append(cases, fw.Case{Ops: ops, Tags: []string{"roundtrip"}})
	}
	return cases
}

// ---- child process ----

type child struct {
	cmd     *exec.Cmd
	addr    string
	dir     string
	in      io.WriteCloser
	dead    chan struct{}
	errPath string
}

// lastDeath describes how the child died most recently: exit state and the head of its stderr.
var lastDeath string

func (c *child) noteDeath() {
	b, _ := os.ReadFile(c.errPath)
	if len(b) > 3000 {
		b = b[:3000]
	}
	state := ""
	if c.cmd.ProcessState != nil {
		state = c.cmd.ProcessState.String()
	}
	lastDeath = fmt.Sprintf("[%s] %s", state, strings.TrimSpace(string(b)))
	os.WriteFile(filepath.Join(workDir(), fmt.Sprintf("death-%d.txt", time.Now().UnixNano())), []byte(lastDeath), 0o644)
}

var (
	chMu sync.Mutex
	ch   *child
)

func workDir() string {
	d := os.Getenv("VERIF_WORK")
	if d == "" {
		d = "/verif/.work"
	}
	d = filepath.Join(d, "c15")
	os.MkdirAll(d, 0o755)
	return d
}

func startChild() (*child, error) {
	dir, err := os.MkdirTemp(workDir(), "child-")
	if err != nil {
		return nil, err
	}
	exe, _ := os.Executable()
	cmd := exec.Command(exe, "c15child", dir)
	cmd.Env = append(os.Environ(), "GOMEMLIMIT=3GiB")
	cmd.SysProcAttr = &syscall.SysProcAttr{Pdeathsig: syscall.SIGKILL}
	in, _ := cmd.StdinPipe()
	outp, _ := cmd.StdoutPipe()
	// the child's stderr (a Go panic or fatal error is printed there) is kept next to its
	// directory so that a death can be diagnosed even when it is not reproduced
	errPath := dir + ".stderr"
	errFile, _ := os.Create(errPath)
	cmd.Stderr = errFile
	if err := cmd.Start(); err != nil {
		return nil, err
	}
	if errFile != nil {
		errFile.Close()
	}
	c := &child{cmd: cmd, dir: dir, in: in, dead: make(chan struct{}), errPath: errPath}
	sc := bufio.NewScanner(outp)
	got := make(chan string, 1)
	go func() {
		for sc.Scan() {
			if strings.HasPrefix(sc.Text(), "ADDR ") {
				got <- strings.TrimPrefix(sc.Text(), "ADDR ")
			}
		}
	}()
	go func() { cmd.Wait(); close(c.dead) }()
	select {
	case a := <-got:
		c.addr = a
	case <-c.dead:
		return nil, fmt.Errorf("child exited at start")
	case <-time.After(20 * time.Second):
		cmd.Process.Kill()
		return nil, fmt.Errorf("child did not start")
	}
	return c, nil
}

func (c *child) alive() bool {
	select {
	case <-c.dead:
		return false
	default:
		return true
	}
}

func (c *child) stop() {
	c.in.Close()
	c.cmd.Process.Kill()
	<-c.dead
	os.RemoveAll(c.dir)
	os.Remove(c.errPath)
}

func getChild() (*child, error) {
	if ch != nil && ch.alive() {
		return ch, nil
	}
	if ch != nil {
		os.RemoveAll(ch.dir)
		os.Remove(ch.errPath)
	}
	c, err := startChild()
	if err != nil {
		return nil, err
	}
	ch = c
	return c, nil
}

// Shutdown is called by main at exit.
func Shutdown() {
	chMu.Lock()
	defer chMu.Unlock()
	if ch != nil {
		ch.stop()
		ch = nil
	}
}

// ChildMain runs the node; never returns normally.
func ChildMain(dir string) {
	ln, err := node.Listen()
	if err != nil {
		fmt.Println("ERR", err)
		os.Exit(3)
	}
	n, err := node.New(dir, ln, node.Options{})
	if err != nil {
		fmt.Println("ERR", err)
		os.Exit(3)
	}
	// metadata with one database, one policy, this node as the only data node and one shard
	// group (shard 1, owned here) so that well-formed requests reach the processors' cores
	d := &meta.Data{}
	if err := d.CreateDatabase("db0"); err != nil {
		fmt.Println("ERR", err)
		os.Exit(3)
	}
	if err := d.CreateDataNode(n.Addr, n.Addr); err != nil {
		fmt.Println("ERR", err)
		os.Exit(3)
	}
	rpi := meta.NewRetentionPolicyInfo("rp0")
	rpi.ReplicaN = 1
	if err := d.CreateRetentionPolicy("db0", rpi, true); err != nil {
		fmt.Println("ERR", err)
		os.Exit(3)
	}
	if err := d.CreateShardGroup("db0", "rp0", time.Unix(0, 1600000000000000000)); err != nil {
		fmt.Println("ERR", err)
		os.Exit(3)
	}
	n.SetData(d)
	if err := n.Store.CreateShard("db0", "rp0", 1, true); err != nil {
		fmt.Println("ERR", err)
		os.Exit(3)
	}
	fmt.Println("ADDR", n.Addr)
	io.Copy(io.Discard, os.Stdin) // parent closes stdin to stop us
	os.Exit(0)
}

// send writes the mux header + stream, half-closes, and reads reply frames until EOF/timeout.
func send(addr string, stream []byte) (types []int, status []string, err error) {
	conn, err := net.DialTimeout("tcp", addr, 2*time.Second)
	if err != nil {
		return nil, nil, err
	}
	defer conn.Close()
	conn.SetDeadline(time.Now().Add(3 * time.Second))
	if _, err := conn.Write(append([]byte{coordinator.MuxHeader}, stream...)); err != nil {
		return nil, nil, nil
	}
	if tc, ok := conn.(*net.TCPConn); ok {
		tc.CloseWrite()
	}
	br := bufio.NewReader(conn)
	for {
		typ, e := br.ReadByte()
		if e != nil {
			return types, status, nil
		}
		var sz int64
		if e := binary.Read(br, binary.BigEndian, &sz); e != nil {
			return types, status, nil
		}
		if sz < 0 || sz > 64<<20 {
			return append(types, int(typ)), append(status, "?"), nil
		}
		payload := make([]byte, sz)
		if _, e := io.ReadFull(br, payload); e != nil {
			return append(types, int(typ)), append(status, "?"), nil
		}
		types = append(types, int(typ))
		status = append(status, replyStatus(int(typ), payload))
	}
}

func runOp(op string) (out string) {
	defer func() {
		if r := recover(); r != nil {
			out = "panic"
		}
	}()
	f := strings.Fields(op)
	switch f[0] {
	case "lv":
		b := unhx(f[1])
		rd := bytes.NewReader(b)
		p, err := coordinator.ReadLV(rd)
		if err != nil {
			return "err"
		}
		return fmt.Sprintf("ok %d rest=%d", len(p), rd.Len())
	case "tlv":
		t, _ := strconv.Atoi(f[1])
		var w bytes.Buffer
		if err := coordinator.WriteTLV(&w, byte(t), unhx(f[2])); err != nil {
			return "err"
		}
		return "ok " + hx(w.Bytes())
	case "conn", "ping":
		chMu.Lock()
		defer chMu.Unlock()
		c, err := getChild()
		if err != nil {
			return "nochild:" + strings.ReplaceAll(err.Error(), " ", "_")
		}
		var stream []byte
		if f[0] == "ping" {
			p := writeReq(0)
			stream = frame(1, int64(len(p)), p)
		} else {
			stream = unhx(f[1])
		}
		types, status, _ := send(c.addr, stream)
		if os.Getenv("C15_DEBUG") != "" {
			fmt.Fprintln(os.Stderr, "DEBUG", op[:min(len(op), 60)], types)
		}
		// give a crashing child a moment to go down
		deadline := time.Now().Add(40 * time.Millisecond)
		for time.Now().Before(deadline) && c.alive() {
			if len(types) > 0 || f[0] == "ping" {
				break
			}
			time.Sleep(10 * time.Millisecond)
		}
		time.Sleep(5 * time.Millisecond)
		if !c.alive() {
			c.noteDeath()
			return "DEAD"
		}
		// only the replies to the two requests handleConn frames itself are predicted by the
		// model; processors behind the other types do not always answer (e.g. a sketch response
		// that cannot be marshalled), which the property does not require
		var ts []string
		for _, t := range types {
			if t == tStoreReadFilter+1 || t == tStoreReadGroup+1 || t == tCreateIterator+1 || t == tBackupShard+1 {
				break // what follows such a response is a data stream with its own framing
			}
			if t == 2 || t == 4 {
				ts = append(ts, fmt.Sprint(t))
			}
		}
		s := "-"
		if len(ts) > 0 {
			s = strings.Join(ts, ",")
		}
		// a first frame that is complete but does not decode as its request type must not be
		// answered with a success response
		if len(stream) >= 9 && len(types) > 0 {
			ft := int(stream[0])
			sz := int64(binary.BigEndian.Uint64(stream[1:9]))
			if sz >= 0 && sz <= int64(len(stream)-9) && types[0] == ft+1 && status[0] == "ok" {
				if known, ok := requestDecodes(ft, stream[9:9+sz]); known && !ok {
					return fmt.Sprintf("replies %s MALFORMED-ACCEPTED type=%d len=%d", s, ft, sz)
				}
			}
		}
		return "replies " + s
	case "rt":
		return roundTrips(f[1])
	case "rt2":
		return roundTrips2(f[1])
	}
	return "bad-op"
}

func (Prop) RunImpl(c fw.Case) []string {
	out := make([]string, len(c.Ops))
	for i, op := range c.Ops {
		out[i] = runOp(op)
	}
	return out
}

func (Prop) Oracle(c fw.Case, out []string) fw.Verdict {
	for i, op := range c.Ops {
		if i >= len(out) {
			break
		}
		f := strings.Fields(op)
		o := out[i]
		switch {
		case o == "DEAD":
			return fw.Verdict{OK: false, Why: fmt.Sprintf("the node process died after %.200s: %.1500s", op, lastDeath), Signature: "node crashed by " + classify(f)}
		case strings.Contains(o, "MALFORMED-ACCEPTED"):
			return fw.Verdict{OK: false, Why: fmt.Sprintf("%.200s: a request that does not decode was answered with success: %s", op, o), Signature: "malformed request answered with success: " + classify(f)}
		case f[0] == "lv" && strings.HasPrefix(o, "ok"):
			// ReadLV may only succeed when the announced number of bytes was really there
			b := unhx(f[1])
			if len(b) >= 8 {
				sz := int64(binary.BigEndian.Uint64(b[:8]))
				if sz < 0 || sz > int64(len(b)-8) {
					return fw.Verdict{OK: false, Why: fmt.Sprintf("ReadLV accepted a frame announcing %d bytes with %d present: %s", sz, len(b)-8, o), Signature: "ReadLV accepts a truncated or negative-length frame"}
				}
			}
		case o == "panic":
			return fw.Verdict{OK: false, Why: fmt.Sprintf("%.200s panics", op), Signature: "panic in " + f[0]}
		case f[0] == "ping" && o != "replies 2":
			return fw.Verdict{OK: false, Why: "a valid write request was not answered after the previous streams: " + o, Signature: "node no longer serves valid requests"}
		case (f[0] == "rt" || f[0] == "rt2") && o != "rt ok":
			return fw.Verdict{OK: false, Why: op + " => " + o, Signature: "message round trip: " + strings.Fields(o + " ?")[1]}
		}
	}
	return fw.Verdict{OK: true}
}

func classify(f []string) string {
	if f[0] != "conn" {
		return f[0]
	}
	b := unhx(f[1])
	if len(b) < 9 {
		return "short stream"
	}
	sz := int64(binary.BigEndian.Uint64(b[1:9]))
	kind := "frame"
	if sz < 0 {
		kind = "negative length"
	} else if b[0] == 1 {
		kind = "write request content"
	}
	return fmt.Sprintf("type %d %s", b[0], kind)
}

func (Prop) Trivial(c fw.Case, out []string) bool {
	for _, o := range out {
		if o == "err" || o == "replies -" || strings.Contains(o, "DEAD") {
			return false
		}
	}
	return true
}
