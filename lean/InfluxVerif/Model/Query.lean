/-
C11 — the meaning of the covered SELECT statements over the raw points: the reference
evaluation the real query engine is compared with under every physical layout.
Core Lean only.  Numeric values are integers in the model: integer fields as they are, float
fields as multiples of 1/1024 (the generators only produce such values, so every sum is exact
and only `mean`/`median`/`linear` results need a division, done by the driver in IEEE doubles).
-/
namespace InfluxVerif.Query

structure Pt where
  host : String        -- value of the only tag, "" when absent
  t : Int
  v : Int              -- scaled value (see above)
  deriving Repr, DecidableEq, Inhabited

inductive Fn
  | raw | count | sum | mean | min | max | first | last | spread | median
  deriving Repr, DecidableEq, Inhabited

inductive Fill
  | none | null | number (n : Int) | previous | linear
  deriving Repr, DecidableEq, Inhabited

structure Stmt where
  fn : Fn := .raw
  lo : Int := 0
  hi : Int := 0
  host : Option String := none     -- WHERE host = '…'
  interval : Nat := 0              -- GROUP BY time(interval, offset); 0 = none
  offset : Nat := 0
  byHost : Bool := false           -- GROUP BY host
  fill : Fill := .null
  desc : Bool := false
  limit : Nat := 0                 -- 0 = none
  off : Nat := 0
  slimit : Nat := 0
  deriving Repr, Inhabited

/-- a cell of a result row -/
inductive Cell
  | null
  | int (n : Int)                  -- an exact scaled value (or a count)
  | ratio (num : Int) (den : Int)  -- num/den of scaled values (mean, median)
  | lin (real : Bool) (a b : Int × Int) (tp tn t : Int) -- the point at time t on the line through (tp, a) and (tn, b); a, b as num/den; `real`: the endpoints are real-valued results (mean, median)
  deriving Repr, DecidableEq, Inhabited

structure Row where
  t : Int
  c : Cell
  deriving Repr, DecidableEq, Inhabited

def insertSorted (p : Pt) : List Pt → List Pt
  | [] => [p]
  | q :: rest => if p.t < q.t then p :: q :: rest else q :: insertSorted p rest

/-- points in time order (stable for equal times) -/
def sortByTime (l : List Pt) : List Pt := l.foldr insertSorted []

def insertVal (x : Int) : List Int → List Int
  | [] => [x]
  | y :: rest => if x ≤ y then x :: y :: rest else y :: insertVal x rest

def sortVals (l : List Int) : List Int := l.foldr insertVal []

/-- the selected point of a selector: `better a b` says that `a` beats `b` -/
def selectBy (better : Pt → Pt → Bool) : List Pt → Option Pt
  | [] => none
  | p :: rest => some (rest.foldl (fun best q => if better q best then q else best) p)

/-- value (and, for selectors, time) of a function over the points of one window, in time order -/
def apply (f : Fn) (pts : List Pt) : Option (Option Int × Cell) :=
  if pts.isEmpty then none else
  let vals := pts.map (·.v)
  match f with
  | .raw => none
  | .count => some (none, .int pts.length)
  | .sum => some (none, .int (vals.foldl (· + ·) 0))
  | .mean => some (none, .ratio (vals.foldl (· + ·) 0) pts.length)
  | .spread =>
    let s := sortVals vals
    some (none, .int (s.getLastD 0 - s.headD 0))
  | .median =>
    let s := sortVals vals
    let n := s.length
    if n % 2 == 1 then some (none, .ratio (s.getD (n / 2) 0) 1)
    else some (none, .ratio (s.getD (n / 2 - 1) 0 + s.getD (n / 2) 0) 2)
  | .min => (selectBy (fun a b => a.v < b.v) pts).map fun p => (some p.t, .int p.v)
  | .max => (selectBy (fun a b => a.v > b.v) pts).map fun p => (some p.t, .int p.v)
  -- two series of one group may carry the same timestamp: the reducers then take the larger
  -- value (FloatFirstReduce / FloatLastReduce and their integer twins)
  | .first => (selectBy (fun a b => a.t < b.t || (a.t == b.t && a.v > b.v)) pts).map fun p => (some p.t, .int p.v)
  | .last => (selectBy (fun a b => a.t > b.t || (a.t == b.t && a.v > b.v)) pts).map fun p => (some p.t, .int p.v)

/-- start of the bucket containing `t` -/
def bucketStart (interval offset : Nat) (t : Int) : Int :=
  let i : Int := interval
  let o : Int := (offset % interval : Nat)
  (t - o) - (t - o) % i + o

/-- bucket starts covering `[lo, hi]` -/
def buckets (interval offset : Nat) (lo hi : Int) : List Int :=
  let b0 := bucketStart interval offset lo
  let n := ((hi - b0) / (interval : Int)).toNat + 1
  (List.range n).map fun (k : Nat) => b0 + (k : Int) * (interval : Int)

def fillRows (fill : Fill) (isCount : Bool) (rows : List (Int × Option Cell)) : List Row :=
  match fill with
  | .none => rows.filterMap fun (t, c) => c.map fun c => ⟨t, c⟩
  | .null => rows.map fun (t, c) => ⟨t, c.getD (if isCount then .int 0 else .null)⟩
  | .number n => rows.map fun (t, c) => ⟨t, c.getD (.int n)⟩
  | .previous =>
    (rows.foldl (fun (acc : List Row × Cell) (t, c) =>
      match c with
      | some c => (acc.1 ++ [⟨t, c⟩], c)
      | Option.none => (acc.1 ++ [⟨t, acc.2⟩], acc.2)) ([], .null)).1
  | .linear =>
    -- interpolate between the neighbouring windows that have a value; null at the edges
    let arr := rows.toArray
    (List.range arr.size).map fun i =>
      let (t, c) := arr[i]!
      match c with
      | some c => ⟨t, c⟩
      | Option.none =>
        let prev := ((List.range i).reverse.filterMap fun j => (arr[j]!).2.map fun c => (j, c)).head?
        let next := ((List.range (arr.size - i - 1)).filterMap fun k => (arr[i + 1 + k]!).2.map fun c => (i + 1 + k, c)).head?
        let num : Cell → Option (Int × Int)
          | .int x => some (x, 1)
          | .ratio n d => some (n, d)
          | _ => Option.none
        match prev, next with
        | some (j, a), some (k, b) =>
          match num a, num b with
          | some a', some b' =>
            let real := match a, b with | .int _, .int _ => false | _, _ => true
            ⟨t, .lin real a' b' (arr[j]!).1 (arr[k]!).1 t⟩
          | _, _ => ⟨t, .null⟩
        | _, _ => ⟨t, .null⟩

/-- rows of one series (the points already restricted to it) -/
def evalSeries (s : Stmt) (pts : List Pt) : List Row :=
  let pts := sortByTime (pts.filter fun p => s.lo ≤ p.t && p.t ≤ s.hi)
  let rows : List Row :=
    if s.fn == .raw then pts.map fun p => ⟨p.t, .int p.v⟩
    else if pts.isEmpty then []
    else if s.interval == 0 then
      match apply s.fn pts with
      | some (some t, c) => [⟨t, c⟩]
      | some (Option.none, c) => [⟨s.lo, c⟩]
      | Option.none => []
    else
      let bs := buckets s.interval s.offset s.lo s.hi
      let raw := bs.map fun b =>
        let w := pts.filter fun p => b ≤ p.t && p.t < b + (s.interval : Int)
        (b, (apply s.fn w).map (·.2))
      -- windows are filled in the order they are emitted: "previous" is the window emitted
      -- before, which under ORDER BY time DESC is the later one
      let raw := if s.desc then raw.reverse else raw
      fillRows s.fill (s.fn == .count) raw
  let rows := if s.desc && !(s.fn != .raw && s.interval != 0 && !pts.isEmpty) then rows.reverse else rows
  let rows := rows.drop s.off
  if s.limit == 0 then rows else rows.take s.limit

def insertStr (x : String) : List String → List String
  | [] => [x]
  | y :: rest => if x ≤ y then x :: y :: rest else y :: insertStr x rest

/-- the whole statement: series (tag value, rows) in tag order -/
def eval (s : Stmt) (data : List Pt) : List (Option String × List Row) :=
  let data := match s.host with
    | some h => data.filter (·.host == h)
    | Option.none => data
  if !s.byHost then
    let rows := evalSeries s data
    if rows.isEmpty then [] else [(Option.none, rows)]
  else
    let hosts := (data.map (·.host)).eraseDups.foldr insertStr []
    let out := hosts.filterMap fun h =>
      let rows := evalSeries s (data.filter (·.host == h))
      if rows.isEmpty then Option.none else some (some h, rows)
    -- ORDER BY time DESC also reverses the order of the series
    let out := if s.desc then out.reverse else out
    if s.slimit == 0 then out else out.take s.slimit

end InfluxVerif.Query
