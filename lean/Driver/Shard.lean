import Driver.Util
import InfluxVerif.Spec.Shard
import InfluxVerif.Model.Meta
namespace Driver.ShardD
open InfluxVerif.ShardSpec

def parseField (s : String) : Option FieldW :=
  match s.splitOn "=" with
  | [n, v] => if v.isEmpty then none else some ⟨n, v.front, v⟩
  | _ => none

def parsePt (s : String) : Option Pt :=
  match s.splitOn "|" with
  | [meas, tags, t, fs] =>
    match t.toInt?, allSome ((fs.splitOn ",").map parseField) with
    -- the harness builds the point with models.NewPoint from a field map, which marshals the
    -- fields sorted by name: that, not the order written on the op line, is the order in
    -- which the shard meets them (it decides which fields exist after an in-batch conflict)
    | some t, some fields => some { series := meas ++ "|" ++ tags, meas := meas, t := t,
                                    fields := fields.mergeSort (fun a b => decide (a.name ≤ b.name)) }
    | _, _ => none
  | _ => none

def fnvStep (h : Nat) (c : UInt8) : Nat := ((h ^^^ c.toNat) * 1099511628211) % 18446744073709551616

def render (tvs : List (Int × Val)) : String :=
  let items := tvs.map fun (t, v) => s!"{t}:{v}"
  let h := items.foldl (fun h it => (it ++ ",").toUTF8.foldl fnvStep h) 14695981039346656037
  let shown := if items.length > 40 then items.take 3 ++ ["…"] ++ items.drop (items.length - 3) else items
  s!"n={items.length} h={h} {if shown.isEmpty then "-" else ",".intercalate shown}"

def hasTag (series pred : String) : Bool :=
  match series.splitOn "|" with
  | [_, tags] => (tags.splitOn ",").contains pred
  | _ => false

def sortStrs (l : List String) : List String := (l.toArray.qsort (· < ·)).toList
def semi (l : List String) : String := if l.isEmpty then "-" else ";".intercalate l

def showWrite : WriteRes → String
  | .ok => "ok" | .partialWrite n => s!"partial {n}" | .failed => "err"

def parseTVs (s : String) : Option (List (Int × String)) :=
  if s == "-" then some [] else
  allSome ((s.splitOn ",").map fun it => match it.splitOn ":" with
    | [t, v] => t.toInt?.map fun t => (t, v)
    | _ => none)

def showTVs (l : List (Int × String)) : String :=
  if l.isEmpty then "-" else ",".intercalate (l.map fun (t, v) => s!"{t}:{v}")

partial def step (s : St) (line : String) : St × String :=
  match splitWs line with
  | ["vmerge", a, b] =>
    match parseTVs a, parseTVs b with
    | some a, some b => (s, showTVs (InfluxVerif.Values.mergeFull a b))
    | _, _ => (s, "bad-op")
  | ["vdedup", a] =>
    match parseTVs a with
    | some a => (s, showTVs (InfluxVerif.Values.dedup a))
    | none => (s, "bad-op")
  | ["vexcl", a, lo, hi] =>
    match parseTVs a, lo.toInt?, hi.toInt? with
    | some a, some lo, some hi => (s, showTVs (InfluxVerif.Values.exclude a lo hi))
    | _, _, _ => (s, "bad-op")
  | ["vincl", a, lo, hi] =>
    match parseTVs a, lo.toInt?, hi.toInt? with
    | some a, some lo, some hi => (s, showTVs (InfluxVerif.Values.include_ a lo hi))
    | _, _, _ => (s, "bad-op")
  | "reset" :: _ => ({}, "ok")
  | ["wbig"] => (s, "ok")     -- filler under a measurement nothing reads (rolls the WAL segment over)
  | ["w", arg] =>
    match allSome ((arg.splitOn ";").map parsePt) with
    | some pts => let (s', r) := write s pts; (s', showWrite r)
    | none => (s, "bad-op")
  | ["wr", meas, tags, field, ty, t0, stp, n, vbase] =>
    -- range write: n points at t0 + i*step with integer values vbase + i
    match t0.toInt?, stp.toInt?, n.toNat?, vbase.toInt? with
    | some t0, some stp, some n, some vb =>
      if ty != "i" then (s, "bad-op") else
      let pts := (List.range n).map fun (i : Nat) =>
        ({ series := meas ++ "|" ++ tags, meas := meas, t := t0 + (i : Int) * stp,
           fields := [⟨field, 'i', s!"i{vb + (i : Int)}"⟩] } : Pt)
      let (s', r) := write s pts
      (s', showWrite r)
    | _, _, _, _ => (s, "bad-op")
  | ["snap"] => (s, "ok")
  | ["cowner", owners, node] =>
    match (if owners = "-" then some [] else allSome ((owners.splitOn ",").map String.toNat?)), node.toNat? with
    | some os, some n =>
      let r := InfluxVerif.Meta.insertOwner n os
      (s, "owners " ++ (if r.isEmpty then "-" else ",".intercalate (r.map toString)))
    | _, _ => (s, "bad-op")
  | ["tarfault", n, k] =>
    match n.toNat?, k.toNat? with
    | some n, some k => (s, if k < n then "refused" else "complete")
    | _, _ => (s, "bad-op")
  | ["snapfail"] => (s, "ok")       -- a snapshot attempt that fails changes nothing
  | ["bk", mode, series, fields] =>
    -- the restored shard reads like the source at the time of the backup (restricted to the
    -- window for a time-bounded export)
    let (lo, hi) : Int × Int := match mode.splitOn ":" with
      | ["export", a, b] => (a.toInt?.getD 0, b.toInt?.getD 0)
      | _ => (-(2:Int)^70, (2:Int)^70)
    let parts := (series.splitOn ";").flatMap fun sr => (fields.splitOn ",").map fun f =>
      match splitWs (render (read s sr f lo hi true)) with
      | n :: h :: _ => s!"{n}:{h}"
      | _ => "?"
    (s, " ".intercalate parts)
  | "creset" :: _ => ({}, "ok")
  | ["cw", arg] => step s s!"w {arg}"
  | ["csnap"] => (s, "ok")
  | ["cdel", meas, lo, hi] => step s s!"del {meas} - {lo} {hi}"
  | ["copyagain", _, series, fields] =>
    -- the second, undisturbed copy to the same destination is a complete one
    step s s!"bk full {series} {fields}"
  | ["copy", cut, series, fields] =>
    -- only a complete stream may be reported as a successful copy
    if cut == "full" then step s s!"bk full {series} {fields}" else (s, "refused")
  | "crash" :: _ => (s, "ok")
  | "crashat" :: _ :: "snap" :: _ => (s, "ok")
  | "crashat" :: _ :: "compact" :: _ => (s, "ok")
  | ["crashat", _, "del", meas, pred, tmin, tmax] => step s s!"del {meas} {pred} {tmin} {tmax}"
  | ["crashat", _, "dropm", meas] => step s s!"dropm {meas}"
  | ["snaphold"] => (s, "ok")
  | ["snaprelease"] => (s, "ok")
  | "compact" :: _ => (s, "ok")
  | ["reopen"] => (s, "ok")
  | ["seriesby", meas, key, op, vals] =>
    (s, semi (sortStrs (seriesBy s meas key op vals)))
  | ["measin", vals] => (s, semi (sortStrs ((measurements s).filter fun m => (vals.splitOn ",").contains m)))
  | ["card"] => (s, s!"card {s.index.length}")
  | ["sidew", _] => (s, "ok")    -- points of another shard of the database: nothing here changes
  | ["sidedel"] => (s, "ok")
  | ["sidelist", _] => (s, "ok")
  | ["idxcompact"] => (s, "ok")
  | ["sfcompact"] => (s, "ok")
  | ["drops", meas, key, op, vals] =>
    let sel := fun series => (series.splitOn "|").head? == some meas && (key == "-" || tagPred series key op vals)
    (deleteRange s sel (-(2:Int)^70) ((2:Int)^70), "ok")
  | [op, meas, pred, tmin, tmax] =>
    if op != "del" && op != "snapdel" && op != "delprobe" && op != "delmon" && op != "delheld" then (s, "bad-op") else
    -- open ends: beyond any int64 timestamp
    let lo := if tmin == "-inf" then some (-(2:Int)^70) else tmin.toInt?
    let hi := if tmax == "+inf" then some ((2:Int)^70) else tmax.toInt?
    match lo, hi with
    | some a, some b =>
      let sel := fun series => (meas == "*" || (series.splitOn "|").head? == some meas) && (pred == "-" || hasTag series pred)
      (deleteRange s sel a b, "ok")
    | _, _ => (s, "bad-op")
  | ["dropm", meas] =>
    let sel := fun series => (series.splitOn "|").head? == some meas
    (deleteRange s sel (-(2:Int)^70) ((2:Int)^70), "ok")
  | ["series"] => (s, semi (sortStrs (seriesList s)))
  | ["meas"] => (s, semi (sortStrs (measurements s)))
  | ["tagkeys", meas] =>
    (s, semi (sortStrs (tagKeys s meas)))
  | ["tagvals", meas, key] =>
    (s, semi (sortStrs (tagValues s meas key)))
  | ["read", meas, tags, field, tmin, tmax, dir] =>
    match tmin.toInt?, tmax.toInt? with
    | some a, some b => (s, render (read s (meas ++ "|" ++ tags) field a b (dir == "asc")))
    | _, _ => (s, "bad-op")
  | _ => (s, "bad-op")

end Driver.ShardD
