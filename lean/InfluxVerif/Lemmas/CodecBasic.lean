/- Helper lemmas for Props/C13.lean: primitives. -/
import InfluxVerif.Model.Codec.Basic
import Mathlib.Tactic.Ring

namespace InfluxVerif.Codec

theorem be64_roundtrip (v : Nat) (hv : v < M64) (r : Bytes) :
    be64dec (be64 v ++ r) = some (v, r) := by
  unfold M64 at hv
  simp only [be64, be64dec, List.cons_append, List.nil_append]
  congr 2
  omega

theorem be32_roundtrip (v : Nat) (hv : v < 4294967296) (r : Bytes) :
    be32dec (be32 v ++ r) = some (v, r) := by
  simp only [be32, be32dec, List.cons_append, List.nil_append]
  congr 2
  omega

theorem be64_length (v : Nat) : (be64 v).length = 8 := rfl
theorem be32_length (v : Nat) : (be32 v).length = 4 := rfl

theorem zigzag_roundtrip (v : Nat) (hv : v < M64) : zigzagDec (zigzagEnc v) = v := by
  unfold zigzagDec zigzagEnc M64 M63 at *
  split <;> split <;> omega

theorem zigzagEnc_lt (v : Nat) (hv : v < M64) : zigzagEnc v < M64 := by
  unfold zigzagEnc M64 M63 at *
  split <;> omega

theorem zigzag_roundtrip' (v : Nat) (hv : v < M64) : zigzagEnc (zigzagDec v) = v := by
  unfold zigzagDec zigzagEnc M64 M63 at *
  split <;> split <;> omega

/-- general statement for the uvarint loop: after `i` groups the rest fits in `64 - 7i` bits -/
theorem uvarintAux_put (fuel : Nat) (x : Nat) (i s acc : Nat) (r : Bytes)
    (hi : i + fuel = 9) (hx : x < 2 ^ (64 - 7 * i)) :
    uvarintAux i s acc (putUvarintAux fuel x ++ r)
      = some (acc + x * 2 ^ s, i + (putUvarintAux fuel x).length, r) := by
  induction fuel generalizing x i s acc with
  | zero =>
    have hi9 : i = 9 := by omega
    subst hi9
    have hx1 : x < 2 := by simpa using hx
    have : x % 128 = x := by omega
    simp only [putUvarintAux, List.cons_append, List.nil_append, uvarintAux, this]
    have hlt : x < 128 := by omega
    have h9 : ¬ (x > 1) := by omega
    simp [hlt, h9]
  | succ fuel ih =>
    unfold putUvarintAux
    have h10 : ¬ (i = 10) := by omega
    by_cases hlt : x < 128
    · simp only [hlt, if_true, List.cons_append, List.nil_append, uvarintAux]
      have h9 : ¬ (i = 9 ∧ x > 1) := by omega
      simp [h10, h9]
    · simp only [hlt, if_false, List.cons_append, uvarintAux]
      have hb : ¬ (x % 128 + 128 < 128) := by omega
      simp only [h10, hb, if_false]
      have hdiv : x / 128 < 2 ^ (64 - 7 * (i + 1)) := by
        have : 2 ^ (64 - 7 * i) = 128 * 2 ^ (64 - 7 * (i + 1)) := by
          rw [show 64 - 7 * i = 7 + (64 - 7 * (i + 1)) by omega, Nat.pow_add]
        rw [this] at hx
        rw [Nat.div_lt_iff_lt_mul (by omega)]
        omega
      rw [ih (x / 128) (i + 1) (s + 7) _ (by omega) hdiv]
      have hm : (x % 128 + 128) % 128 = x % 128 := by omega
      have key : acc + (x % 128 + 128) % 128 * 2 ^ s + x / 128 * 2 ^ (s + 7) = acc + x * 2 ^ s := by
        rw [hm, Nat.pow_add]
        have := Nat.div_add_mod x 128
        generalize 2 ^ s = p at *
        calc acc + x % 128 * p + x / 128 * (p * 2 ^ 7)
            = acc + (128 * (x / 128) + x % 128) * p := by ring
          _ = acc + x * p := by rw [this]
      simp only [key, List.length_cons]
      rw [show i + 1 + List.length (putUvarintAux fuel (x / 128)) = i + (List.length (putUvarintAux fuel (x / 128)) + 1) by omega]

theorem uvarint_roundtrip (v : Nat) (hv : v < M64) (r : Bytes) :
    uvarint (putUvarint v ++ r) = some (v, (putUvarint v).length, r) := by
  unfold uvarint putUvarint
  rw [uvarintAux_put 9 v 0 0 0 r (by omega) (by simpa [M64] using hv)]
  simp

end InfluxVerif.Codec
