package extract

import (
	"fmt"
	"sort"
	"strings"
	"time"

	"github.com/influxdata/influxdb/models"
	"github.com/influxdata/influxdb/services/meta"
)

func init() {
	Register(func(repo, out string) error {
		f := NewFile("C06")
		f.Int("maxNanoTime", models.MaxNanoTime)
		f.Int("minNanoTime", models.MinNanoTime)
		f.Nat("maxNameLen", meta.MaxNameLen)
		f.Int("minRetentionPolicyDuration", int64(meta.MinRetentionPolicyDuration))
		f.Int("shardGroupDeletedExpiration", int64(meta.ShardGroupDeletedExpiration))
		f.Int("zeroTimeUnixSeconds", time.Time{}.Unix())
		// Apply's dispatch: case labels in source order (go/ast)
		src, err := Parse(repo, "services/meta/store_fsm.go")
		if err != nil {
			return err
		}
		fn := src.Func("storeFSM", "Apply")
		if fn == nil {
			return fmt.Errorf("C06: storeFSM.Apply not found")
		}
		rows := src.SwitchRows(fn, "cmd.GetType()")
		var cases []string
		for _, r := range rows {
			cases = append(cases, strings.TrimPrefix(r[0], "internal.Command_"))
		}
		f.StrList("applyCases", cases)
		// the schema's command types (behavioural, from the generated protobuf tables), in number order;
		// Apply lists them in its own order and ends with default: panic
		types := meta.VerifCommandTypes()
		var nums []int
		for k := range types {
			nums = append(nums, int(k))
		}
		sort.Ints(nums)
		byName := map[string]bool{}
		for _, k := range nums {
			byName[types[int32(k)]] = true
		}
		// expected = Apply's own order restricted to schema types, plus schema types it misses
		var expected []string
		seen := map[string]bool{}
		for _, c := range cases {
			if byName[c] && !seen[c] {
				expected = append(expected, c)
				seen[c] = true
			}
		}
		for _, k := range nums {
			if n := types[int32(k)]; !seen[n] {
				expected = append(expected, n)
			}
		}
		expected = append(expected, "default")
		f.StrList("expectedApplyCases", expected)
		return f.Write(out)
	})
}
