/-
C08 — model of `coordinator.sgList` and `PointsWriter.MapShards`
(coordinator/points_writer.go) on top of the metadata model.  Core Lean only.
-/
import InfluxVerif.Model.Meta
namespace InfluxVerif.Routing
open InfluxVerif.Meta

/-- the per-request list of shard groups; `earliest`/`latest` are the zero time until the first `Add` -/
structure SgList where
  items : List SG := []
  earliest : Option Int := none
  latest : Option Int := none
  deriving Repr, Inhabited

/-- `sgList.Add` -/
def SgList.add (l : SgList) (g : SG) : SgList :=
  { items := l.items ++ [g],
    earliest := match l.earliest with
      | none => some g.start
      | some e => if e > g.start then some g.start else some e,
    latest := match l.latest with
      | none => some g.stop
      | some e => if e < g.stop then some g.stop else some e }

/-- the group's effective range `[start, effEnd)` holds `t` -/
def containsEff (g : SG) (t : Int) : Bool := g.start ≤ t && t < g.effEnd

/-- `sgList.ShardGroupAt`: sort by (effective end, start); `sort.Search` for the first group
whose effective end is after `t` (the predicate is monotone on the sorted list, so binary
search returns the first such index); check the start; otherwise, if `t` lies within
`[earliest, latest]`, a linear scan. -/
def SgList.shardGroupAt (l : SgList) (t : Int) : Option SG :=
  if l.items.isEmpty then none else
  let sorted := sortBy sgLt l.items
  match sorted.find? (fun g => g.effEnd > t) with
  | some g => if t < g.start then fallback sorted else some g
  | none => fallback sorted
where
  fallback (sorted : List SG) : Option SG :=
    match l.earliest, l.latest with
    | some e, some la => if t < e || t > la then none else sorted.find? (containsEff · t)
    | _, _ => none

def SgList.covers (l : SgList) (t : Int) : Bool := (l.shardGroupAt t).isSome

structure Pt where
  t : Int
  hash : Nat
  deriving Repr, Inhabited, DecidableEq

/-- `ShardGroupInfo.ShardFor` -/
def shardFor (g : SG) (hash : Nat) : Option Shard :=
  if g.shards.length = 1 then g.shards.head? else g.shards[hash % g.shards.length]?

/-- `meta.Client.CreateShardGroup`: return the group holding the timestamp, creating it
through the FSM if there is none; `none` result = nil shard group. The command is applied
with the next index (term unchanged) exactly as the harness does. The metadata is returned
in every case: a command that was applied stays applied when the caller fails afterwards. -/
def clientCreateShardGroup (auto : Bool) (d : Data) (dbn rpn : String) (t : Int) :
    Data × Except String (Option SG) :=
  match (findDB d dbn).bind (·.findRP rpn) with
  | some rp =>
    match rp.groupAt t with
    | some g => (d, .ok (some g))
    | none => create
  | none => create
where
  create : Data × Except String (Option SG) :=
    let (d', e) := step auto d (.createSG dbn rpn t) d.term (d.index + 1)
    match e with
    | some e => (d', .error e)
    | none =>
      match (findDB d' dbn).bind (·.findRP rpn) with
      | none => (d', .error (errRPNotFound rpn))
      | some rp' => (d', .ok (rp'.groupAt t))

/-- first loop of `MapShards`: make sure every point within retention has a group in the list -/
def ensureGroups (auto : Bool) (dbn rpn : String) (minT : Int) :
    List Pt → Data → SgList → Data × Except String SgList
  | [], d, l => (d, .ok l)
  | p :: ps, d, l =>
    if p.t < minT || l.covers p.t then ensureGroups auto dbn rpn minT ps d l
    else match clientCreateShardGroup auto d dbn rpn p.t with
      | (d', .error e) => (d', .error e)
      | (d', .ok none) => (d', .error "nil shard group")
      | (d', .ok (some g)) => ensureGroups auto dbn rpn minT ps d' (l.add g)

/-- where one point goes: `none` = dropped -/
def routeOne (l : SgList) (minT : Int) (p : Pt) : Option (Nat × Nat) :=
  if p.t < minT then none            -- older than the retention period: dropped, whatever else is in the batch
  else match l.shardGroupAt p.t with
    | none => none
    | some g => (shardFor g p.hash).map fun s => (g.id, s.id)

/-- `MapShards`: the (possibly extended) metadata and, per point in batch order, its
(group id, shard id) or `none` for dropped. `now` is the coordinator's clock. -/
def mapShards (auto : Bool) (now : Int) (d : Data) (dbn rpn : String) (pts : List Pt) :
    Data × Except String (List (Option (Nat × Nat))) :=
  match (findDB d dbn).bind (·.findRP rpn) with
  | none => (d, .error (errRPNotFound rpn))
  | some rp =>
    let minT := if rp.duration > 0 then now - rp.duration else minNanoTime
    match ensureGroups auto dbn rpn minT pts d {} with
    | (d', .error e) => (d', .error e)
    | (d', .ok l) => (d', .ok (pts.map (routeOne l minT)))

end InfluxVerif.Routing
