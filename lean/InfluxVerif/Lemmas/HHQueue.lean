/- Helper lemmas for Props/C04.lean -/
import InfluxVerif.Model.HHQueue
import Mathlib.Data.List.Basic

namespace InfluxVerif.HH

def Seg.pend (s : Seg) : List Block := s.blocks.drop s.pos ++ s.buf
def Seg.WF (s : Seg) : Prop := s.pos ≤ s.blocks.length

/-- every segment's offset lies within its blocks; only the tail segment buffers -/
def Q.WF (q : Q) : Prop := (∀ s ∈ q.segs, s.WF) ∧ (∀ s ∈ q.segs.dropLast, s.buf = [])

theorem pending_eq (q : Q) : q.pending = q.segs.flatMap Seg.pend := rfl

theorem flush_pend (s : Seg) (h : s.WF) : s.flush.pend = s.pend ∧ s.flush.WF ∧ s.flush.buf = [] := by
  unfold Seg.flush
  split
  · rename_i hb
    exact ⟨rfl, h, by simpa using hb⟩
  · refine ⟨?_, ?_, rfl⟩
    · simp only [Seg.pend, List.append_nil]
      unfold Seg.WF at h
      rw [List.drop_append_of_le_length h]
    · unfold Seg.WF at *
      simp only [List.length_append]
      omega

theorem updLast_append (f : Seg → Seg) (init : List Seg) (t : Seg) :
    updLast f (init ++ [t]) = init ++ [f t] := by
  induction init with
  | nil => rfl
  | cons s rest ih =>
    cases rest with
    | nil => simp [updLast]
    | cons r rs =>
      simp only [List.cons_append] at ih ⊢
      rw [updLast]
      · rw [ih]
      · simp

theorem segs_split (l : List Seg) (t : Seg) (h : l.getLast? = some t) : l = l.dropLast ++ [t] := by
  have hne : l ≠ [] := by intro e; simp [e] at h
  have := List.dropLast_append_getLast hne
  rw [List.getLast?_eq_some_getLast hne] at h
  simp only [Option.some.injEq] at h
  rw [h] at this
  exact this.symm

theorem flatMap_snoc (init : List Seg) (t : Seg) :
    (init ++ [t]).flatMap Seg.pend = init.flatMap Seg.pend ++ t.pend := by
  simp [List.flatMap_append]

theorem wf_snoc (q : Q) (init : List Seg) (t : Seg) (hs : q.segs = init ++ [t]) :
    q.WF ↔ (∀ s ∈ init, s.WF ∧ s.buf = []) ∧ t.WF := by
  unfold Q.WF
  rw [hs, List.dropLast_concat]
  constructor
  · rintro ⟨h1, h2⟩
    exact ⟨fun s hs => ⟨h1 s (by simp [hs]), h2 s hs⟩, h1 t (by simp)⟩
  · rintro ⟨h1, h2⟩
    refine ⟨?_, fun s hs => (h1 s hs).2⟩
    intro s hs
    simp only [List.mem_append, List.mem_singleton] at hs
    rcases hs with hs | rfl
    · exact (h1 s hs).1
    · exact h2

/-- one segment's `append` -/
theorem seg_append_spec (s : Seg) (b : Block) (buffered : Bool) (h : s.WF) :
    let r := s.append b buffered
    r.1.WF ∧ (r.2 = true → r.1.pend = s.pend ++ [b]) ∧ (r.2 = false → r.1.pend = s.pend ∧ r.1.buf = []) := by
  simp only [Seg.append]
  split
  · obtain ⟨hp, hw, hb⟩ := flush_pend s h
    exact ⟨hw, by simp, fun _ => ⟨hp, hb⟩⟩
  · have hw' : ({ s with buf := s.buf ++ [b] } : Seg).WF := h
    have hp' : ({ s with buf := s.buf ++ [b] } : Seg).pend = s.pend ++ [b] := by
      simp [Seg.pend, List.append_assoc]
    cases buffered with
    | true => simp only [if_true]; exact ⟨hw', fun _ => hp', by simp⟩
    | false =>
      simp only [Bool.false_eq_true, if_false]
      obtain ⟨hp, hw, _⟩ := flush_pend _ hw'
      exact ⟨hw, fun _ => by rw [hp, hp'], by simp⟩

end InfluxVerif.HH

namespace InfluxVerif.HH

/-! ### the head of the queue under appends (for the sender, `sendWrite`) -/

/-- `s'` is `s` with more blocks behind the ones it had: same offset, same blocks up to there -/
def Seg.Ext (s s' : Seg) : Prop := s'.pos = s.pos ∧ ∃ extra, s'.blocks = s.blocks ++ extra

theorem Seg.Ext.refl (s : Seg) : s.Ext s := ⟨rfl, [], by simp⟩

theorem flush_ext (s : Seg) : s.Ext s.flush := by
  unfold Seg.flush
  split
  · exact Seg.Ext.refl s
  · exact ⟨rfl, s.buf, rfl⟩

theorem seg_append_ext (s : Seg) (b : Block) (buffered : Bool) : s.Ext (s.append b buffered).1 := by
  unfold Seg.append
  split
  · exact flush_ext s
  · cases buffered with
    | true => exact ⟨rfl, [], by simp⟩
    | false =>
      simp only [Bool.false_eq_true, if_false]
      have := flush_ext ({ s with buf := s.buf ++ [b] } : Seg)
      exact ⟨this.1, this.2⟩

theorem ext_getElem (s s' : Seg) (h : s.Ext s') (b : Block) (hb : s.blocks[s.pos]? = some b) :
    s'.blocks[s'.pos]? = some b := by
  obtain ⟨hp, extra, he⟩ := h
  rw [hp, he]
  have hlt : s.pos < s.blocks.length := by
    by_contra hge
    rw [List.getElem?_eq_none (by omega)] at hb
    cases hb
  rw [List.getElem?_append_left hlt]
  exact hb

/-- the head of `updLast f l` is the old head, or `f` of it when it is also the last -/
theorem updLast_head (f : Seg → Seg) (h : Seg) (rest : List Seg) :
    ∃ rest', updLast f (h :: rest) = (if rest = [] then f h else h) :: rest' := by
  cases rest with
  | nil => exact ⟨[], by simp [updLast]⟩
  | cons r rs => exact ⟨updLast f (r :: rs), by simp [updLast]⟩

def curOf (segs : List Seg) : Res :=
  match segs with
  | [] => .notOpen
  | h :: _ => match h.blocks[h.pos]? with
    | none => .eof
    | some b => .block b

theorem current_eq (q : Q) : q.current = curOf q.segs := by
  unfold Q.current curOf
  cases q.segs <;> rfl

/-- replacing the last segment by an extension of it, and adding segments behind, keeps the
block the head of the queue points at -/
theorem curOf_updLast (segs : List Seg) (t' : Seg) (more : List Seg) (b : Block)
    (hext : ∀ t, segs.getLast? = some t → t.Ext t') (hc : curOf segs = .block b) :
    curOf (updLast (fun _ => t') segs ++ more) = .block b := by
  cases segs with
  | nil => simp [curOf] at hc
  | cons h rest =>
    obtain ⟨rest', hr⟩ := updLast_head (fun _ => t') h rest
    rw [hr]
    simp only [curOf, List.cons_append] at hc ⊢
    cases hb : h.blocks[h.pos]? with
    | none => simp [hb] at hc
    | some b' =>
      simp only [hb, Res.block.injEq] at hc
      subst hc
      by_cases hrest : rest = []
      · subst hrest
        simp only [if_true]
        have := ext_getElem h t' (hext h (by simp)) b' hb
        simp [this]
      · simp only [hrest, if_false, hb]

end InfluxVerif.HH

namespace InfluxVerif.HH

/-- an append (accepted or not) does not change the block the head of the queue points at -/
theorem append_current (q : Q) (b x : Block) (buffered : Bool) (hc : q.current = .block b) :
    (q.append x buffered).1.current = .block b := by
  rw [current_eq] at hc ⊢
  unfold Q.append
  cases hl : q.segs.getLast? with
  | none => simpa using hc
  | some tail =>
    simp only
    split
    · exact hc
    · have hext : ∀ t, q.segs.getLast? = some t → t.Ext (tail.append x buffered).1 := by
        intro t ht
        rw [hl] at ht
        cases ht
        exact seg_append_ext tail x buffered
      have h1 := curOf_updLast q.segs (tail.append x buffered).1 [] b hext hc
      simp only [List.append_nil] at h1
      cases hok : (tail.append x buffered).2 with
      | true => simpa [hok] using h1
      | false =>
        simp only [hok, Bool.false_eq_true, if_false]
        -- a fresh segment becomes the tail
        have hsegs : ({ q with segs := updLast (fun _ => (tail.append x buffered).1) q.segs } : Q).addSegment.segs
            = updLast (fun _ => (tail.append x buffered).1) q.segs ++ [newSeg q.nextID q.maxSegSize] := by
          simp [Q.addSegment]
        have hl2 : (({ q with segs := updLast (fun _ => (tail.append x buffered).1) q.segs } : Q).addSegment).segs.getLast?
            = some (newSeg q.nextID q.maxSegSize) := by rw [hsegs]; simp
        rw [hl2]
        simp only
        have hext2 : ∀ t, (updLast (fun _ => (tail.append x buffered).1) q.segs ++ [newSeg q.nextID q.maxSegSize]).getLast? = some t →
            t.Ext ((newSeg q.nextID q.maxSegSize).append x buffered).1 := by
          intro t ht
          simp at ht
          subst ht
          exact seg_append_ext _ x buffered
        have h2 := curOf_updLast _ ((newSeg q.nextID q.maxSegSize).append x buffered).1 [] b hext2
          (by have := curOf_updLast q.segs (tail.append x buffered).1 [newSeg q.nextID q.maxSegSize] b hext hc; exact this)
        simp only [List.append_nil] at h2
        rw [hsegs]
        exact h2

end InfluxVerif.HH
