/-
Lemmas for the float block codec (Model/Codec/Float.lean): bit-stream round trip, leading /
trailing zero counts, the significant-bit window, packing to bytes.
-/
import InfluxVerif.Model.Codec.Float
namespace InfluxVerif.Codec.Float
open InfluxVerif.Codec

/-! ### bit stream -/

@[simp] theorem length_writeBits (v n : Nat) : (writeBits v n).length = n := by
  induction n with
  | zero => rfl
  | succ n ih => simp [writeBits, ih]

theorem bitsVal_writeBits (v n : Nat) (rest : Bits) :
    bitsVal n (writeBits v n ++ rest) = v % 2 ^ n := by
  induction n with
  | zero => simp [bitsVal, Nat.mod_one]
  | succ n ih =>
    simp only [writeBits, List.cons_append, bitsVal, ih]
    rw [Nat.mod_pow_succ]
    have h2 : v / 2 ^ n % 2 = 0 ∨ v / 2 ^ n % 2 = 1 := by omega
    rcases h2 with h | h <;> simp [h] <;> omega

theorem drop_writeBits (v n : Nat) (rest : Bits) : (writeBits v n ++ rest).drop n = rest := by
  have := length_writeBits v n
  rw [List.drop_append_of_le_length (by omega)]
  simp [List.drop_eq_nil_of_le, this]

theorem readBits_writeBits (v n : Nat) (hn : 0 < n) (rest : Bits) :
    readBits n (writeBits v n ++ rest) = some (v % 2 ^ n, rest) := by
  unfold readBits
  have hne : (writeBits v n ++ rest).isEmpty = false := by
    cases n with
    | zero => omega
    | succ n => simp [writeBits]
  simp [hne, bitsVal_writeBits, drop_writeBits]

/-! ### trailing and leading zeros -/

theorem ctzAux_dvd (f d : Nat) (hd : d ≠ 0) : 2 ^ ctzAux f d ∣ d := by
  induction f generalizing d with
  | zero => simp [ctzAux]
  | succ f ih =>
    unfold ctzAux
    split
    · simp
    · rename_i h
      have hd2 : d / 2 ≠ 0 := by omega
      have := ih (d / 2) hd2
      rw [Nat.add_comm, Nat.pow_succ]
      have h2 : d = d / 2 * 2 := by omega
      have h3 : 2 ^ ctzAux f (d / 2) * 2 ∣ d / 2 * 2 := Nat.mul_dvd_mul_right this 2
      rw [← h2] at h3
      exact h3

theorem ctz_dvd (d : Nat) (hd : d ≠ 0) : 2 ^ ctz d ∣ d := ctzAux_dvd 64 d hd

theorem ctz_le (d : Nat) (hd : d ≠ 0) : 2 ^ ctz d ≤ d :=
  Nat.le_of_dvd (by omega) (ctz_dvd d hd)

theorem lt_pow_clz (d : Nat) (hd : d ≠ 0) (h64 : d < M64) : d < 2 ^ (64 - clz64 d) := by
  unfold clz64
  have h1 : Nat.log2 d < 64 := (Nat.log2_lt hd).2 (by simpa [M64] using h64)
  have h2 : d < 2 ^ (Nat.log2 d + 1) := Nat.lt_log2_self
  have : 64 - (63 - Nat.log2 d) = Nat.log2 d + 1 := by omega
  rw [this]; exact h2

theorem clampLeading_le (l : Nat) : clampLeading l ≤ l ∧ clampLeading l ≤ 31 := by
  unfold clampLeading
  have : l % 32 < 32 := Nat.mod_lt _ (by decide)
  have : l % 32 ≤ l := Nat.mod_le _ _
  split <;> omega

/-! ### the significant-bit window -/

/-- what the decoder rebuilds from the `64 - l - t` bits the encoder wrote is the XOR delta
itself, whenever the window covers it: no one bit above bit `64 - l`, none below bit `t`. -/
theorem window_roundtrip (d l t : Nat) (hlt : d < 2 ^ (64 - l)) (hdvd : 2 ^ t ∣ d) (hsum : l + t ≤ 64) :
    ((d >>> t) % 2 ^ (64 - l - t)) <<< t % M64 = d := by
  rw [Nat.shiftRight_eq_div_pow, Nat.shiftLeft_eq]
  have hsplit : 2 ^ (64 - l) = 2 ^ t * 2 ^ (64 - l - t) := by
    rw [← Nat.pow_add]; congr 1; omega
  have h1 : d / 2 ^ t < 2 ^ (64 - l - t) := by
    apply Nat.div_lt_of_lt_mul
    rw [← hsplit]; exact hlt
  rw [Nat.mod_eq_of_lt h1, Nat.div_mul_cancel hdvd]
  apply Nat.mod_eq_of_lt
  have : 2 ^ (64 - l) ≤ 2 ^ 64 := Nat.pow_le_pow_right (by decide) (by omega)
  have h64 : (2 : Nat) ^ 64 = M64 := by decide
  omega

theorem xor_lt_M64 (a b : Nat) (ha : a < M64) (hb : b < M64) : a ^^^ b < M64 := by
  have h64 : M64 = 2 ^ 64 := by decide
  rw [h64] at *
  exact Nat.xor_lt_two_pow ha hb

theorem xor_cancel_right' (v p : Nat) : p ^^^ (v ^^^ p) = v := by
  rw [Nat.xor_comm v p, ← Nat.xor_assoc, Nat.xor_self, Nat.zero_xor]

theorem eq_of_xor_eq_zero (v p : Nat) (h : v ^^^ p = 0) : v = p := by
  have := xor_cancel_right' v p
  rw [h, Nat.xor_zero] at this
  exact this.symm

/-! ### one value through the encoder and the decoder -/

theorem sub64_small (a b : Nat) (hb : b ≤ a) (ha : a < M64) : sub64 a b = a - b := by
  unfold sub64
  have hb' : b % M64 = b := Nat.mod_eq_of_lt (by omega)
  rw [hb']
  have : a + M64 - b = (a - b) + M64 := by omega
  rw [this, Nat.add_mod_right]
  exact Nat.mod_eq_of_lt (by omega)

/-- the decoder's window is the encoder's, and it fits in a word -/
def Win (e : Enc) (s : Dec) : Prop :=
  ∀ sl, e.leading = some sl → s.leading = sl ∧ s.trailing = e.trailing ∧ sl + e.trailing ≤ 63 ∧ sl ≤ 31

/-- the compressed value: the decoder, given the window `(l, t)` the delta fits in, reads the
delta back and XORs it onto the previous value -/
theorem readWindow (d l t : Nat) (tail : Bits) (_hlt : d < 2 ^ (64 - l)) (_hdvd : 2 ^ t ∣ d)
    (hsum : l + t ≤ 63) :
    readBits (sub64 (sub64 64 l) t) (writeBits (d >>> t) (64 - l - t) ++ tail)
      = some ((d >>> t) % 2 ^ (64 - l - t), tail) := by
  have h64 : (64 : Nat) < M64 := by decide
  rw [sub64_small 64 l (by omega) h64, sub64_small (64 - l) t (by omega) (by omega)]
  exact readBits_writeBits _ _ (by omega) _

theorem decStep_encVal (e : Enc) (s : Dec) (v : Nat) (tail : Bits)
    (hval : s.val = e.prev) (hp : e.prev < M64) (hpn : e.prev ≠ uvnan) (hw : Win e s) (hv : v < M64) :
    ∃ s', s'.val = v ∧ Win (encVal e v).1 s' ∧ (encVal e v).1.prev = v ∧
      decStep s ((encVal e v).2 ++ tail) = if v = uvnan then Step.done else Step.value s' tail := by
  unfold encVal
  by_cases hd : v ^^^ e.prev = 0
  · have hvp : v = e.prev := eq_of_xor_eq_zero _ _ hd
    have hvn : v ≠ uvnan := by rw [hvp]; exact hpn
    refine ⟨s, by rw [hval, hvp], ?_, ?_, ?_⟩
    · simp only [hd, if_true]; exact hw
    · simp only [hd, if_true]
    · simp only [hd, if_true, hvn, if_false, List.cons_append, List.nil_append, decStep]
  · simp only [hd, if_false]
    -- facts about the delta
    have hdlt : v ^^^ e.prev < M64 := xor_lt_M64 v e.prev hv hp
    have hclz := lt_pow_clz _ hd hdlt
    have hcl := clampLeading_le (clz64 (v ^^^ e.prev))
    have hctz := ctz_dvd _ hd
    have hctzle := ctz_le _ hd
    have hlog : Nat.log2 (v ^^^ e.prev) < 64 := (Nat.log2_lt hd).2 (by simpa [M64] using hdlt)
    -- trailing zeros lie below the top bit
    have htl : ctz (v ^^^ e.prev) ≤ Nat.log2 (v ^^^ e.prev) := by
      have h1 : 2 ^ ctz (v ^^^ e.prev) < 2 ^ (Nat.log2 (v ^^^ e.prev) + 1) :=
        Nat.lt_of_le_of_lt hctzle Nat.lt_log2_self
      have := (Nat.pow_lt_pow_iff_right (by decide : 1 < 2)).mp h1
      omega
    have hclzv : clz64 (v ^^^ e.prev) = 63 - Nat.log2 (v ^^^ e.prev) := rfl
    have hxor : e.prev ^^^ (v ^^^ e.prev) = v := xor_cancel_right' v e.prev
    generalize hdd : v ^^^ e.prev = d at *
    generalize hll : clampLeading (clz64 d) = l at *
    generalize htt : ctz d = t at *
    have hlt31 : l ≤ 31 := hcl.2
    have hsum : l + t ≤ 63 := by omega
    have hfit : d < 2 ^ (64 - l) :=
      Nat.lt_of_lt_of_le hclz (Nat.pow_le_pow_right (by decide) (by omega))
    cases hel : e.leading with
    | none =>
      simp only [Bool.false_eq_true, if_false]
      refine ⟨{ val := v, leading := l, trailing := t }, rfl, ?_, by first | rfl | trivial, ?_⟩
      · intro sl hsl
        simp only [Option.some.injEq] at hsl
        subst hsl
        exact ⟨rfl, rfl, hsum, hlt31⟩
      · simp only [List.cons_append, List.append_assoc, decStep, decWindow, Bool.not_true,
          Bool.false_eq_true, if_false]
        rw [readBits_writeBits l 5 (by decide)]
        simp only []
        rw [readBits_writeBits (64 - l - t) 6 (by decide)]
        simp only []
        have hl5 : l % 2 ^ 5 = l := Nat.mod_eq_of_lt (by omega)
        have hm : (if (64 - l - t) % 2 ^ 6 = 0 then 64 else (64 - l - t) % 2 ^ 6) = 64 - l - t := by
          by_cases h0 : l + t = 0
          · have : 64 - l - t = 64 := by omega
            rw [this]; decide
          · have : (64 - l - t) % 2 ^ 6 = 64 - l - t := Nat.mod_eq_of_lt (by omega)
            rw [this]; split <;> omega
        have h64 : (64 : Nat) < M64 := by decide
        rw [hl5, hm, sub64_small 64 l (by omega) h64,
          sub64_small (64 - l) (64 - l - t) (by omega) (by omega)]
        have htr : 64 - l - (64 - l - t) = t := by omega
        rw [htr, sub64_small (64 - l) t (by omega) (by omega)]
        rw [readBits_writeBits _ _ (by omega)]
        simp only []
        have ht64 : ¬ t ≥ 64 := by omega
        rw [if_neg ht64, window_roundtrip d l t hfit hctz (by omega), hval, hxor]
    | some sl =>
      obtain ⟨hsl1, hsl2, hsl3, hsl4⟩ := hw sl hel
      by_cases hre : l ≥ sl ∧ t ≥ e.trailing
      · simp only [hre, and_self, decide_true, if_true]
        refine ⟨{ val := v, leading := sl, trailing := e.trailing }, rfl, ?_, by first | rfl | trivial, ?_⟩
        · intro sl' hsl'
          simp only [Option.some.injEq] at hsl'
          subst hsl'
          exact ⟨rfl, rfl, hsl3, hsl4⟩
        · simp only [List.cons_append, decStep, decWindow, Bool.not_false, if_true, Option.getD_some]
          rw [hsl1, hsl2]
          have hfit' : d < 2 ^ (64 - sl) :=
            Nat.lt_of_lt_of_le hfit (Nat.pow_le_pow_right (by decide) (by omega))
          have hdvd' : 2 ^ e.trailing ∣ d := Nat.dvd_trans (Nat.pow_dvd_pow 2 hre.2) hctz
          rw [readWindow d sl e.trailing tail hfit' hdvd' hsl3]
          simp only []
          have ht64 : ¬ e.trailing ≥ 64 := by omega
          rw [if_neg ht64, window_roundtrip d sl e.trailing hfit' hdvd' (by omega), hval, hxor]
      · simp only [hre, decide_false, Bool.false_eq_true, if_false]
        refine ⟨{ val := v, leading := l, trailing := t }, rfl, ?_, by first | rfl | trivial, ?_⟩
        · intro sl' hsl'
          simp only [Option.some.injEq] at hsl'
          subst hsl'
          exact ⟨rfl, rfl, hsum, hlt31⟩
        · simp only [List.cons_append, List.append_assoc, decStep, decWindow, Bool.not_true,
            Bool.false_eq_true, if_false]
          rw [readBits_writeBits l 5 (by decide)]
          simp only []
          rw [readBits_writeBits (64 - l - t) 6 (by decide)]
          simp only []
          have hl5 : l % 2 ^ 5 = l := Nat.mod_eq_of_lt (by omega)
          have hm : (if (64 - l - t) % 2 ^ 6 = 0 then 64 else (64 - l - t) % 2 ^ 6) = 64 - l - t := by
            by_cases h0 : l + t = 0
            · have : 64 - l - t = 64 := by omega
              rw [this]; decide
            · have : (64 - l - t) % 2 ^ 6 = 64 - l - t := Nat.mod_eq_of_lt (by omega)
              rw [this]; split <;> omega
          have h64 : (64 : Nat) < M64 := by decide
          rw [hl5, hm, sub64_small 64 l (by omega) h64,
            sub64_small (64 - l) (64 - l - t) (by omega) (by omega)]
          have htr : 64 - l - (64 - l - t) = t := by omega
          rw [htr, sub64_small (64 - l) t (by omega) (by omega)]
          rw [readBits_writeBits _ _ (by omega)]
          simp only []
          have ht64 : ¬ t ≥ 64 := by omega
          rw [if_neg ht64, window_roundtrip d l t hfit hctz (by omega), hval, hxor]

/-! ### the whole stream -/

theorem uvnan_lt : uvnan < M64 := by decide

theorem decLoop_encVals (vs : List Nat) (e : Enc) (s : Dec) (tail : Bits) (fuel : Nat)
    (hval : s.val = e.prev) (hp : e.prev < M64) (hpn : e.prev ≠ uvnan) (hw : Win e s)
    (hvs : ∀ v ∈ vs, v < M64 ∧ v ≠ uvnan) (hfuel : vs.length + 1 ≤ fuel) :
    decLoop fuel s (encVals e (vs ++ [uvnan]) ++ tail) = some vs := by
  induction vs generalizing e s fuel with
  | nil =>
    obtain ⟨f, rfl⟩ : ∃ f, fuel = f + 1 := ⟨fuel - 1, by simp at hfuel; omega⟩
    obtain ⟨s', _, _, _, hstep⟩ := decStep_encVal e s uvnan tail hval hp hpn hw uvnan_lt
    simp only [List.nil_append, encVals, List.append_nil, decLoop, hstep, if_true]
  | cons v vs ih =>
    obtain ⟨f, rfl⟩ : ∃ f, fuel = f + 1 := ⟨fuel - 1, by simp at hfuel; omega⟩
    have hv := hvs v (by simp)
    obtain ⟨s', hs'val, hs'win, hs'prev, hstep⟩ :=
      decStep_encVal e s v (encVals (encVal e v).1 (vs ++ [uvnan]) ++ tail) hval hp hpn hw hv.1
    simp only [List.cons_append, encVals, List.append_assoc, decLoop, hstep, if_neg hv.2]
    rw [ih (encVal e v).1 s' f (by rw [hs'val, hs'prev]) (by rw [hs'prev]; exact hv.1)
      (by rw [hs'prev]; exact hv.2) hs'win (fun w hw' => hvs w (by simp [hw']))
      (by simp at hfuel; omega)]
    simp [hs'val]

theorem isNaN_uvnan : isNaN uvnan = true := by decide

theorem length_encVal_pos (e : Enc) (v : Nat) : 0 < (encVal e v).2.length := by
  unfold encVal
  simp only []
  by_cases hd : v ^^^ e.prev = 0
  · simp [hd]
  · simp only [hd, if_false]
    split
    · split <;> simp
    · simp

theorem length_encVals (e : Enc) (vs : List Nat) : vs.length ≤ (encVals e vs).length := by
  induction vs generalizing e with
  | nil => simp [encVals]
  | cons v vs ih =>
    simp only [encVals, List.length_append, List.length_cons]
    have := length_encVal_pos e v
    have := ih (encVal e v).1
    omega

/-- the bit stream of a block decodes to the block, whatever follows it (the zero bits that
fill the last byte) -/
theorem decodeBits_encodeBits (vs : List Nat) (pad : Bits)
    (hvs : ∀ v ∈ vs, v < M64 ∧ v ≠ uvnan) : decodeBits (encodeBits vs ++ pad) = some vs := by
  cases vs with
  | nil =>
    simp only [encodeBits, List.nil_append, encVals, List.append_nil, decodeBits]
    rw [readBits_writeBits uvnan 64 (by decide)]
    have : uvnan % 2 ^ 64 = uvnan := by decide
    simp [this]
  | cons v vs =>
    have hv := hvs v (by simp)
    simp only [encodeBits, List.cons_append, List.append_assoc, decodeBits]
    rw [readBits_writeBits v 64 (by decide)]
    have h64 : (2 : Nat) ^ 64 = M64 := by decide
    have hmod : v % 2 ^ 64 = v := by rw [h64]; exact Nat.mod_eq_of_lt hv.1
    simp only [hmod, if_neg hv.2]
    rw [decLoop_encVals vs _ _ pad _ rfl hv.1 hv.2 (by intro sl h; simp at h)
      (fun w hw' => hvs w (by simp [hw']))]
    · simp
    · have := length_encVals { prev := v, leading := none, trailing := 0 } (vs ++ [uvnan])
      simp only [List.length_append, List.length_cons, List.length_nil] at this ⊢
      omega

/-! ### bits to bytes and back -/

theorem bitsVal_lt (n : Nat) (bs : Bits) : bitsVal n bs < 2 ^ n := by
  induction n generalizing bs with
  | zero => simp [bitsVal]
  | succ n ih =>
    cases bs with
    | nil => simp [bitsVal, Nat.two_pow_pos]
    | cons b bs =>
      have := ih bs
      simp only [bitsVal, Nat.pow_succ]
      split <;> omega

theorem writeBits_congr (x y n : Nat) (h : x % 2 ^ n = y % 2 ^ n) : writeBits x n = writeBits y n := by
  induction n with
  | zero => rfl
  | succ n ih =>
    have hx := Nat.mod_pow_succ (x := x) (b := 2) (k := n)
    have hy := Nat.mod_pow_succ (x := y) (b := 2) (k := n)
    have hlow : x % 2 ^ n = y % 2 ^ n := by
      have h1 : x % 2 ^ (n + 1) % 2 ^ n = x % 2 ^ n := Nat.mod_mod_of_dvd _ (Nat.pow_dvd_pow 2 (by omega))
      have h2 : y % 2 ^ (n + 1) % 2 ^ n = y % 2 ^ n := Nat.mod_mod_of_dvd _ (Nat.pow_dvd_pow 2 (by omega))
      rw [← h1, ← h2, h]
    have hhigh : x / 2 ^ n % 2 = y / 2 ^ n % 2 := by
      rw [hx, hy, hlow] at h
      have h3 : 2 ^ n * (x / 2 ^ n % 2) = 2 ^ n * (y / 2 ^ n % 2) := by omega
      exact Nat.eq_of_mul_eq_mul_left (Nat.two_pow_pos n) h3
    simp only [writeBits, hhigh, ih hlow]

theorem writeBits_zero (n : Nat) : writeBits 0 n = List.replicate n false := by
  induction n with
  | zero => rfl
  | succ n ih => simp [writeBits, ih, List.replicate_succ]

/-- writing back the number some bits spell gives the bits, followed by zeros -/
theorem writeBits_bitsVal (n : Nat) (bs : Bits) (h : bs.length ≤ n) :
    writeBits (bitsVal n bs) n = bs ++ List.replicate (n - bs.length) false := by
  induction n generalizing bs with
  | zero =>
    have : bs = [] := List.length_eq_zero_iff.mp (by omega)
    subst this; rfl
  | succ n ih =>
    cases bs with
    | nil => simp [bitsVal, writeBits_zero]
    | cons b bs =>
      have hlen : bs.length ≤ n := by simpa using h
      have hy := bitsVal_lt n bs
      have hpos : 0 < 2 ^ n := Nat.two_pow_pos n
      simp only [bitsVal, writeBits, List.cons_append, List.length_cons, Nat.add_sub_add_right]
      congr 1
      · cases b with
        | false => simp [Nat.div_eq_of_lt hy]
        | true =>
          have : (2 ^ n + bitsVal n bs) / 2 ^ n = 1 :=
            Nat.div_eq_of_lt_le (by omega) (by omega)
          simp [this]
      · rw [← ih bs hlen]
        apply writeBits_congr
        cases b with
        | false => simp
        | true => simp [Nat.add_mod_left]

theorem unpackBits_cons (x : Nat) (b : Bytes) : unpackBits (x :: b) = writeBits x 8 ++ unpackBits b := by
  simp [unpackBits]

/-- packing pads the stream with fewer than eight zero bits and loses nothing -/
theorem unpack_pack : ∀ bs : Bits, ∃ k, unpackBits (packBits bs) = bs ++ List.replicate k false
  | [] => ⟨0, rfl⟩
  | [a] => ⟨7, by simp only [packBits]; rw [unpackBits_cons, byteOf, writeBits_bitsVal 8 _ (by simp)]; simp [unpackBits]⟩
  | [a, b] => ⟨6, by simp only [packBits]; rw [unpackBits_cons, byteOf, writeBits_bitsVal 8 _ (by simp)]; simp [unpackBits]⟩
  | [a, b, c] => ⟨5, by simp only [packBits]; rw [unpackBits_cons, byteOf, writeBits_bitsVal 8 _ (by simp)]; simp [unpackBits]⟩
  | [a, b, c, d] => ⟨4, by simp only [packBits]; rw [unpackBits_cons, byteOf, writeBits_bitsVal 8 _ (by simp)]; simp [unpackBits]⟩
  | [a, b, c, d, e] => ⟨3, by simp only [packBits]; rw [unpackBits_cons, byteOf, writeBits_bitsVal 8 _ (by simp)]; simp [unpackBits]⟩
  | [a, b, c, d, e, f] => ⟨2, by simp only [packBits]; rw [unpackBits_cons, byteOf, writeBits_bitsVal 8 _ (by simp)]; simp [unpackBits]⟩
  | [a, b, c, d, e, f, g] => ⟨1, by simp only [packBits]; rw [unpackBits_cons, byteOf, writeBits_bitsVal 8 _ (by simp)]; simp [unpackBits]⟩
  | b7 :: b6 :: b5 :: b4 :: b3 :: b2 :: b1 :: b0 :: rest => by
    obtain ⟨k, hk⟩ := unpack_pack rest
    refine ⟨k, ?_⟩
    rw [packBits, unpackBits_cons, byteOf, writeBits_bitsVal 8 _ (by simp), hk]
    simp

end InfluxVerif.Codec.Float
