// dbg: run the implementation side of one replay file and print op => output (development aid).
package main

import (
	"encoding/json"
	"fmt"
	"os"

	"verifharness/fw"
	"verifharness/props/c02"
	"verifharness/props/c04"
	"verifharness/props/c05"
	"verifharness/props/c09"
	"verifharness/props/c11"
)

func main() {
	var d struct {
		Ops []string `json:"ops"`
	}
	b, _ := os.ReadFile(os.Args[2])
	json.Unmarshal(b, &d)
	var out []string
	switch os.Args[1] {
	case "C02":
		out = c02.RunOps(d.Ops)
	case "C04":
		out = c04.Prop{}.RunImpl(fw.Case{Ops: d.Ops})
	case "C09":
		out = c09.RunOps(d.Ops)
	case "C05":
		out = c05.RunOps(d.Ops)
	case "C11":
		out = c11.RunOps(d.Ops)
	}
	for i, op := range d.Ops {
		fmt.Printf("%.150s\n    => %.600s\n", op, out[i])
	}
}
