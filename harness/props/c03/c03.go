// Package c03: exhaustive correspondence of coordinator.PointsWriter's per-shard write
// against the Lean model InfluxVerif.Consistency, plus the property oracle.
package c03

import (
	"errors"
	"fmt"
	"os"
	"path/filepath"
	"regexp"
	"strconv"
	"strings"
	"sync"
	"time"

	"github.com/influxdata/influxdb/coordinator"
	"github.com/influxdata/influxdb/models"
	"github.com/influxdata/influxdb/services/hh"
	"github.com/influxdata/influxdb/services/meta"
	"github.com/influxdata/influxdb/toml"
	"github.com/influxdata/influxdb/tsdb"
	"verifharness/clusterh"
	"verifharness/fw"
	"verifharness/shardh"
)

type Prop struct{}

func (Prop) ID() string    { return "C03" }
func (Prop) Model() string { return "c03" }
func (Prop) Parallel() int { return 64 }

var remoteOutcomes = []string{"remoteStored", "retryHHok", "retryHHrefused", "permanent", "queuedOk", "queuedRefused", "remoteSilent"}
var localOutcomes = []string{"localStored", "localFailed", "localSilent"}
var levels = []string{"any", "one", "quorum", "all"}

func silent(o string) bool { return strings.HasSuffix(o, "Silent") }

func perms(xs []int) [][]int {
	if len(xs) <= 1 {
		return [][]int{append([]int(nil), xs...)}
	}
	var out [][]int
	for i := range xs {
		rest := append(append([]int(nil), xs[:i]...), xs[i+1:]...)
		for _, p := range perms(rest) {
			out = append(out, append([]int{xs[i]}, p...))
		}
	}
	return out
}

func e2eCases(tier string) []fw.Case {
	var cases []fw.Case
	for _, lv := range levels {
		for _, cfg := range [][3]int{{2, 1, 0}, {3, 2, 0}, {3, 2, 1}, {3, 3, 1}} {
			if tier != "thorough" && cfg[0] == 3 && cfg[1] == 2 && cfg[2] == 1 && lv != "quorum" {
				continue
			}
			cases = append(cases, fw.Case{Ops: []string{fmt.Sprintf("e2e %d %s %d %d", cfg[0], lv, cfg[1], cfg[2])}, Tags: []string{"e2e", "level=" + lv}})
			if lv == "one" || lv == "all" {
				cases = append(cases, fw.Case{Ops: []string{fmt.Sprintf("e2e %d %s %d %d lag", cfg[0], lv, cfg[1], cfg[2])}, Tags: []string{"e2e-lag", "level=" + lv}})
			}
		}
	}
	return cases
}

func (Prop) Generate(r *fw.Rand, tier string) []fw.Case {
	maxN := 3
	if tier == "thorough" {
		maxN = 4
	}
	var cases []fw.Case
	var rec func(n int, outs []string, localUsed bool)
	rec = func(n int, outs []string, localUsed bool) {
		if len(outs) == n {
			var nonSilent []int
			for i, o := range outs {
				if !silent(o) {
					nonSilent = append(nonSilent, i)
				}
			}
			ps := perms(nonSilent)
			for _, lv := range levels {
				for _, p := range ps {
					var ord []string
					for _, i := range p {
						ord = append(ord, fmt.Sprint(i))
					}
					os := "-"
					if len(ord) > 0 {
						os = strings.Join(ord, ",")
					}
					cases = append(cases, fw.Case{Ops: []string{fmt.Sprintf("w %s %s %s", lv, strings.Join(outs, ","), os)},
						Tags: []string{fmt.Sprintf("n=%d", n), "level=" + lv}})
				}
			}
			return
		}
		for _, o := range remoteOutcomes {
			rec(n, append(outs, o), localUsed)
		}
		if !localUsed {
			for _, o := range localOutcomes {
				rec(n, append(outs, o), true)
			}
		}
	}
	for n := 1; n <= maxN; n++ {
		rec(n, nil, false)
	}
	// larger replication factors, sampled
	extra := 300
	if tier == "thorough" {
		extra = 5000
	}
	for k := 0; k < extra; k++ {
		n := 5 + r.Intn(4)
		outs := make([]string, n)
		li := -1
		if r.Bool() {
			li = r.Intn(n)
		}
		for i := range outs {
			if i == li {
				outs[i] = localOutcomes[r.Intn(len(localOutcomes))]
			} else {
				outs[i] = remoteOutcomes[r.Intn(len(remoteOutcomes))]
			}
			// keep timeouts rare in the sampled part
			if silent(outs[i]) && r.Chance(0.8) {
				outs[i] = "remoteStored"
				if i == li {
					outs[i] = "localStored"
				}
			}
		}
		var ns []int
		for i, o := range outs {
			if !silent(o) {
				ns = append(ns, i)
			}
		}
		p := r.Perm(len(ns))
		var ord []string
		for _, j := range p {
			ord = append(ord, fmt.Sprint(ns[j]))
		}
		os := "-"
		if len(ord) > 0 {
			os = strings.Join(ord, ",")
		}
		cases = append(cases, fw.Case{Ops: []string{fmt.Sprintf("w %s %s %s", levels[r.Intn(4)], strings.Join(outs, ","), os)},
			Tags: []string{fmt.Sprintf("n=%d", n), "sampled"}})
	}
	cases = append(cases, fw.Case{Ops: []string{"e2elate one"}, Tags: []string{"e2e-late"}})
	for _, lv := range []string{"any", "one", "quorum", "all"} {
		cases = append(cases, fw.Case{Ops: []string{"e2equeue " + lv}, Tags: []string{"e2e-queue"}})
	}
	if tier == "thorough" {
		cases = append(cases, fw.Case{Ops: []string{"e2elate all"}, Tags: []string{"e2e-late"}}, fw.Case{Ops: []string{"e2elate any"}, Tags: []string{"e2e-late"}})
	}
	return append(cases, e2eCases(tier)...)
}

// ---- mocks ----

type owner struct {
	outcome     string
	gate        chan struct{} // closed to let the owner's blocking call proceed
	done        chan struct{} // closed when the owner's last scripted call returned
	doneOnce    sync.Once
	mu          sync.Mutex
	stored      bool
	hhCalls     int
	hhAccepted  bool
	directCalls int
}

func (o *owner) finish() { o.doneOnce.Do(func() { close(o.done) }) }

type env struct {
	owners  []*owner // index i ↔ node id i+1
	localID uint64
	sg      meta.ShardGroupInfo
}

func (e *env) NodeID() uint64 { return e.localID }
func (e *env) Database(name string) *meta.DatabaseInfo {
	return &meta.DatabaseInfo{Name: name, DefaultRetentionPolicy: "rp"}
}
func (e *env) RetentionPolicy(database, policy string) (*meta.RetentionPolicyInfo, error) {
	return &meta.RetentionPolicyInfo{Name: "rp", ReplicaN: len(e.owners), Duration: 0, ShardGroupDuration: time.Hour}, nil
}
func (e *env) CreateShardGroup(database, policy string, timestamp time.Time) (*meta.ShardGroupInfo, error) {
	sg := e.sg
	return &sg, nil
}

var errConn = errors.New("dial tcp: connection refused")

type store struct{ e *env }

func (s store) CreateShard(database, retentionPolicy string, shardID uint64, enabled bool) error {
	return nil
}
func (s store) WriteToShard(shardID uint64, points []models.Point) error {
	o := s.e.owners[s.e.localID-1]
	<-o.gate
	defer o.finish()
	switch o.outcome {
	case "localStored":
		o.mu.Lock()
		o.stored = true
		o.mu.Unlock()
		return nil
	case "localFailed":
		return errors.New("engine: disk full")
	default: // silent: released only after the call under test returned
		return errors.New("released after timeout")
	}
}

type shardWriter struct{ e *env }

func (w shardWriter) WriteShard(shardID, ownerID uint64, points []models.Point) error {
	o := w.e.owners[ownerID-1]
	<-o.gate
	o.mu.Lock()
	o.directCalls++
	o.mu.Unlock()
	switch o.outcome {
	case "remoteStored":
		o.mu.Lock()
		o.stored = true
		o.mu.Unlock()
		o.finish()
		return nil
	case "retryHHok", "retryHHrefused":
		return errConn // handoff call follows
	case "permanent":
		o.finish()
		if ownerID%2 == 0 {
			return tsdb.PartialWriteError{Reason: "field type conflict", Dropped: 1}
		}
		return errors.New("partial write: points beyond retention policy dropped=1")
	default:
		// silent owner, released only after the call under test has returned; what a real
		// node would do later is outside the op, so answer with a non-retryable error
		o.finish()
		return errors.New("partial write: released after timeout")
	}
}

type handoff struct{ e *env }

func (h handoff) Empty(shardID, ownerID uint64) bool {
	o := h.e.owners[ownerID-1]
	return !(o.outcome == "queuedOk" || o.outcome == "queuedRefused")
}
func (h handoff) WriteShard(shardID, ownerID uint64, points []models.Point) error {
	o := h.e.owners[ownerID-1]
	if o.outcome == "queuedOk" || o.outcome == "queuedRefused" {
		<-o.gate
	}
	defer o.finish()
	o.mu.Lock()
	defer o.mu.Unlock()
	o.hhCalls++
	if o.outcome == "retryHHok" || o.outcome == "queuedOk" {
		o.hhAccepted = true
		return nil
	}
	return errors.New("hinted handoff queue is full")
}

func classify(err error) string {
	switch {
	case err == nil:
		return "ok"
	case err == coordinator.ErrPartialWrite:
		return "partial"
	case err == coordinator.ErrTimeout:
		return "timeout"
	case err == coordinator.ErrWriteFailed || strings.HasPrefix(err.Error(), "write failed"):
		return "failed"
	}
	return "other:" + strings.ReplaceAll(err.Error(), " ", "_")
}

func parseOp(op string) (level string, outs []string, order []int, ok bool) {
	f := strings.Fields(op)
	if len(f) != 4 || f[0] != "w" {
		return
	}
	level = f[1]
	outs = strings.Split(f[2], ",")
	if f[3] != "-" {
		for _, s := range strings.Split(f[3], ",") {
			var i int
			if _, err := fmt.Sscan(s, &i); err != nil {
				return
			}
			order = append(order, i)
		}
	}
	ok = true
	return
}

// runOne runs one scripted write. With an owner that never answers the write ends by its
// timeout, which is kept short; if the machine was so slow that the scripted answers could not
// be released well before that timeout the run says nothing about the code, and it is repeated
// with a longer one.
func runOne(op string) string {
	timeout := 40 * time.Millisecond
	for attempt := 0; ; attempt++ {
		res, released := runOnce(op, timeout)
		if attempt >= 3 || !strings.HasPrefix(res, "timeout") || 2*released < timeout {
			return res
		}
		timeout *= 8
	}
}

func runOnce(op string, silentTimeout time.Duration) (string, time.Duration) {
	res, d := runOnce1(op, silentTimeout)
	return res, d
}

func runOnce1(op string, silentTimeout time.Duration) (string, time.Duration) {
	level, outs, order, ok := parseOp(op)
	if !ok {
		return "bad-op", 0
	}
	lv, err := models.ParseConsistencyLevel(level)
	if err != nil {
		return "bad-op", 0
	}
	e := &env{localID: 1000}
	hasSilent := false
	for i, o := range outs {
		e.owners = append(e.owners, &owner{outcome: o, gate: make(chan struct{}), done: make(chan struct{})})
		if strings.HasPrefix(o, "local") {
			e.localID = uint64(i + 1)
		}
		if silent(o) {
			hasSilent = true
		}
	}
	sh := meta.ShardInfo{ID: 7}
	for i := range outs {
		sh.Owners = append(sh.Owners, meta.ShardOwner{NodeID: uint64(i + 1)})
	}
	e.sg = meta.ShardGroupInfo{ID: 3, StartTime: time.Unix(0, 0), EndTime: time.Unix(3600, 0), Shards: []meta.ShardInfo{sh}}

	w := coordinator.NewPointsWriter()
	w.MetaClient = e
	w.TSDBStore = store{e}
	w.ShardWriter = shardWriter{e}
	w.HintedHandoff = handoff{e}
	w.WriteTimeout = 5 * time.Second
	if hasSilent {
		w.WriteTimeout = silentTimeout
	}
	w.Open()
	defer w.Close()
	pt := models.MustNewPoint("cpu", models.NewTags(map[string]string{"h": "a"}), models.Fields{"v": 1.0}, time.Unix(10, 0))
	resCh := make(chan error, 1)
	t0 := time.Now()
	go func() { resCh <- w.WritePointsPrivileged("db", "rp", lv, []models.Point{pt}) }()

	var result error
	got := false
	for _, i := range order {
		if i < 0 || i >= len(e.owners) {
			return "bad-op", 0
		}
		close(e.owners[i].gate)
		select {
		case <-e.owners[i].done:
		case <-time.After(3 * time.Second):
		}
		// let the owner goroutine hand its result to the collector before the next release
		time.Sleep(150 * time.Microsecond)
		if !got {
			select {
			case result = <-resCh:
				got = true
			default:
			}
		}
	}
	released := time.Since(t0) // every scripted answer has been released by now
	if !got {
		select {
		case result = <-resCh:
		case <-time.After(8*time.Second + silentTimeout):
			return "hang", released
		}
	}
	wasReleased := map[int]bool{}
	for _, i := range order {
		wasReleased[i] = true
	}
	for i, o := range e.owners {
		if !wasReleased[i] {
			close(o.gate)
		}
	}
	for _, o := range e.owners {
		select {
		case <-o.done:
		case <-time.After(2 * time.Second):
		}
	}
	time.Sleep(100 * time.Microsecond)
	var st, hh, hhok []string
	for _, o := range e.owners {
		o.mu.Lock()
		st = append(st, b01(o.stored))
		hh = append(hh, fmt.Sprint(o.hhCalls))
		hhok = append(hhok, b01(o.hhAccepted))
		o.mu.Unlock()
	}
	return fmt.Sprintf("%s stored=%s hh=%s hhok=%s", classify(result), strings.Join(st, ","), strings.Join(hh, ","), strings.Join(hhok, ",")), released
}

func b01(b bool) string {
	if b {
		return "1"
	}
	return "0"
}

// recHH records what the coordinator hands to hinted handoff.
type recHH struct {
	mu    sync.Mutex
	calls map[uint64]int
}

func (h *recHH) WriteShard(shardID, ownerID uint64, points []models.Point) error {
	h.mu.Lock()
	defer h.mu.Unlock()
	h.calls[ownerID]++
	return nil
}
func (h *recHH) Empty(shardID, ownerID uint64) bool { return true }

var e2eMu sync.Mutex

// runE2E: `e2e <nodes> <level> <rf> <loc>` — real data nodes (coordinator service, shard
// writer, store on each); a shard group whose one shard is owned by rf nodes (the coordinator
// among them iff loc = 1) and that none of them has opened yet; one point written through the
// coordinator's PointsWriter at the given level. Every owner is healthy, so the write must
// succeed, every owner must hold the point and nothing may go to hinted handoff.
func runE2E(f []string) (res string) {
	defer func() {
		if r := recover(); r != nil {
			res = "panic:" + strings.ReplaceAll(fmt.Sprint(r), " ", "_")
		}
	}()
	e2eMu.Lock() // a few real nodes at a time are enough
	defer e2eMu.Unlock()
	n, _ := strconv.Atoi(f[1])
	rf, _ := strconv.Atoi(f[3])
	lv, err := models.ParseConsistencyLevel(f[2])
	if err != nil || rf < 1 || rf > n {
		return "bad-op"
	}
	dir, _ := os.MkdirTemp(shardh.WorkDir("c03"), "e2e-")
	defer os.RemoveAll(dir)
	c, err := clusterh.New(dir, n, "inmem")
	if err != nil {
		return "err:" + strings.ReplaceAll(err.Error(), " ", "_")
	}
	defer c.Close()
	var owners []int
	first := 1
	if f[4] == "1" {
		first = 0
	}
	for i := 0; i < rf; i++ {
		owners = append(owners, (first+i)%n)
	}
	const base = int64(1600000000000000000)
	if len(f) > 5 && f[5] == "lag" {
		// the remote owners have not heard of the new shard group yet when its first write
		// reaches them (the coordinator has): they must take the write all the same
		for _, o := range owners {
			if o != 0 {
				c.SetLagging(o, true)
			}
		}
	}
	ids := c.AddShardGroup(base, base+1000000, [][]int{owners})
	hh := &recHH{calls: map[uint64]int{}}
	c.Nodes[0].PointsWriter.HintedHandoff = hh
	pt := models.MustNewPoint("m", models.NewTags(map[string]string{"h": "a"}), models.Fields{"v": int64(7)}, time.Unix(0, base+5))
	werr := c.Nodes[0].PointsWriter.WritePointsPrivileged(clusterh.DB, clusterh.RP, lv, []models.Point{pt})
	// what every owner holds afterwards (a level below `all` returns before the last owner
	// answered: give the stragglers a moment)
	var st, hc []string
	for _, o := range owners {
		have := "0"
		for try := 0; try < 200 && have == "0"; try++ {
			if sh := c.Nodes[o].Store.Shard(ids[0]); sh != nil {
				if names, _ := sh.MeasurementNamesByRegex(regexp.MustCompile(".*")); len(names) == 1 {
					have = "1"
				}
			}
			if have == "0" {
				time.Sleep(5 * time.Millisecond)
			}
		}
		st = append(st, have)
		hh.mu.Lock()
		hc = append(hc, fmt.Sprint(hh.calls[c.IDs[o]]))
		hh.mu.Unlock()
	}
	return fmt.Sprintf("%s stored=%s hh=%s", classify(werr), strings.Join(st, ","), strings.Join(hc, ","))
}

// runLate: `e2elate <level>` — two real nodes with a 1.2 s RPC timeout, one shard owned by the
// remote node only. Write A reaches an owner that answers after 2 s: the coordinator gives up
// on it. Then the owner is healthy again but its shard is disabled, so write B is refused by
// it: B must be reported as failed (and offered to hinted handoff) — the late answer to A
// must not be taken for the answer to B.
func runLate(f []string) (res string) {
	defer func() {
		if r := recover(); r != nil {
			res = "panic:" + strings.ReplaceAll(fmt.Sprint(r), " ", "_")
		}
	}()
	e2eMu.Lock()
	defer e2eMu.Unlock()
	lv, err := models.ParseConsistencyLevel(f[1])
	if err != nil {
		return "bad-op"
	}
	dir, _ := os.MkdirTemp(shardh.WorkDir("c03"), "late-")
	defer os.RemoveAll(dir)
	c, err := clusterh.NewWithTimeout(dir, 2, "inmem", clusterh.SlowTimeout)
	if err != nil {
		return "err:" + strings.ReplaceAll(err.Error(), " ", "_")
	}
	defer c.Close()
	const base = int64(1600000000000000000)
	ids := c.AddShardGroup(base, base+1000000, [][]int{{1}})
	hh := &recHH{calls: map[uint64]int{}}
	c.Nodes[0].PointsWriter.HintedHandoff = hh
	// a first write opens the shard on the owner
	p0 := models.MustNewPoint("m", models.NewTags(map[string]string{"h": "a"}), models.Fields{"v": int64(1)}, time.Unix(0, base+1))
	if err := c.Nodes[0].PointsWriter.WritePointsPrivileged(clusterh.DB, clusterh.RP, lv, []models.Point{p0}); err != nil {
		return "err:first_write:" + strings.ReplaceAll(err.Error(), " ", "_")
	}
	c.SetFault(1, clusterh.Fault{Kind: "slow"})
	pa := models.MustNewPoint("m", models.NewTags(map[string]string{"h": "a"}), models.Fields{"v": int64(2)}, time.Unix(0, base+2))
	c.Nodes[0].PointsWriter.WritePointsPrivileged(clusterh.DB, clusterh.RP, lv, []models.Point{pa}) // times out
	time.Sleep(clusterh.SlowDelay + 300*time.Millisecond)                                           // A's answer is on its way back by now
	c.SetFault(1, clusterh.Fault{})
	if err := c.Nodes[1].Store.SetShardEnabled(ids[0], false); err != nil {
		return "err:disable:" + strings.ReplaceAll(err.Error(), " ", "_")
	}
	hh.mu.Lock()
	before := hh.calls[c.IDs[1]]
	hh.mu.Unlock()
	pb := models.MustNewPoint("m", models.NewTags(map[string]string{"h": "a"}), models.Fields{"v": int64(3)}, time.Unix(0, base+3))
	werr := c.Nodes[0].PointsWriter.WritePointsPrivileged(clusterh.DB, clusterh.RP, lv, []models.Point{pb})
	hh.mu.Lock()
	offered := hh.calls[c.IDs[1]] - before
	hh.mu.Unlock()
	if werr == nil && lv != models.ConsistencyLevelAny {
		return "LATE-ANSWER-TAKEN the write the owner refused was reported as successful"
	}
	if offered == 0 {
		return "LATE-ANSWER-TAKEN the write the owner refused was not offered to hinted handoff"
	}
	return "late-answer-ignored"
}

// countHH is the real hinted-handoff service with its offers counted.
type countHH struct {
	*hh.Service
	mu     sync.Mutex
	offers map[uint64]int
}

func (h *countHH) WriteShard(shardID, ownerID uint64, points []models.Point) error {
	h.mu.Lock()
	h.offers[ownerID]++
	h.mu.Unlock()
	return h.Service.WriteShard(shardID, ownerID, points)
}

// runQueued: `e2equeue <level>` — two real nodes and the real hinted-handoff service behind
// the coordinator's PointsWriter; the second shard group's shard is owned by the remote node
// only. The owner refuses write A (its shard is disabled), so A goes to the owner's handoff
// queue, which does not retry for an hour. The owner is healthy again: write B must wait
// behind the queue — offered to hinted handoff exactly once, not sent around the queued A —
// and is reported as the level says (success only at level any).
func runQueued(f []string) (res string) {
	defer func() {
		if r := recover(); r != nil {
			res = "panic:" + strings.ReplaceAll(fmt.Sprint(r), " ", "_")
		}
	}()
	e2eMu.Lock()
	defer e2eMu.Unlock()
	lv, err := models.ParseConsistencyLevel(f[1])
	if err != nil {
		return "bad-op"
	}
	dir, _ := os.MkdirTemp(shardh.WorkDir("c03"), "queue-")
	defer os.RemoveAll(dir)
	c, err := clusterh.New(dir, 2, "inmem")
	if err != nil {
		return "err:" + strings.ReplaceAll(err.Error(), " ", "_")
	}
	defer c.Close()
	const base = int64(1600000000000000000)
	c.AddShardGroup(base-1000000, base, [][]int{{0}, {0}, {0}}) // (shard ids that are no node ids)
	ids := c.AddShardGroup(base, base+1000000, [][]int{{1}})
	cfg := hh.NewConfig()
	cfg.Dir = filepath.Join(dir, "hh")
	cfg.RetryInterval = toml.Duration(time.Hour)
	cfg.RetryMaxInterval = toml.Duration(time.Hour)
	svc := hh.NewService(cfg, c.Nodes[0].ShardWriter)
	svc.MetaClient = c.Nodes[0].Meta
	if err := svc.Open(); err != nil {
		return "err:hh_open:" + strings.ReplaceAll(err.Error(), " ", "_")
	}
	defer svc.Close()
	h := &countHH{Service: svc, offers: map[uint64]int{}}
	c.Nodes[0].PointsWriter.HintedHandoff = h
	pt := func(v int64) []models.Point {
		return []models.Point{models.MustNewPoint("m", models.NewTags(map[string]string{"h": "a"}), models.Fields{"v": v}, time.Unix(0, base+v))}
	}
	// a first write opens the shard on the owner
	if err := c.Nodes[0].PointsWriter.WritePointsPrivileged(clusterh.DB, clusterh.RP, lv, pt(1)); err != nil {
		return "err:first_write:" + strings.ReplaceAll(err.Error(), " ", "_")
	}
	if err := c.Nodes[1].Store.SetShardEnabled(ids[0], false); err != nil {
		return "err:disable:" + strings.ReplaceAll(err.Error(), " ", "_")
	}
	c.Nodes[0].PointsWriter.WritePointsPrivileged(clusterh.DB, clusterh.RP, lv, pt(2)) // refused: queued
	if h.Empty(ids[0], c.IDs[1]) {
		return "QUEUE the refused write is not in the owner's handoff queue"
	}
	if err := c.Nodes[1].Store.SetShardEnabled(ids[0], true); err != nil {
		return "err:enable:" + strings.ReplaceAll(err.Error(), " ", "_")
	}
	h.mu.Lock()
	before := h.offers[c.IDs[1]]
	h.mu.Unlock()
	werr := c.Nodes[0].PointsWriter.WritePointsPrivileged(clusterh.DB, clusterh.RP, lv, pt(3))
	h.mu.Lock()
	offered := h.offers[c.IDs[1]] - before
	h.mu.Unlock()
	if offered != 1 {
		return fmt.Sprintf("QUEUE a write for an owner with a non-empty handoff queue was offered to hinted handoff %d times", offered)
	}
	if (werr == nil) != (lv == models.ConsistencyLevelAny) {
		return fmt.Sprintf("QUEUE a write that only reached the handoff queue was reported as %s at level %s", classify(werr), f[1])
	}
	return "queued-behind"
}

func (Prop) RunImpl(c fw.Case) []string {
	out := make([]string, len(c.Ops))
	for i, op := range c.Ops {
		if strings.HasPrefix(op, "e2elate ") {
			out[i] = runLate(strings.Fields(op))
			continue
		}
		if strings.HasPrefix(op, "e2equeue ") {
			out[i] = runQueued(strings.Fields(op))
			continue
		}
		if strings.HasPrefix(op, "e2e ") {
			out[i] = runE2E(strings.Fields(op))
			continue
		}
		out[i] = runOne(op)
	}
	return out
}

// Oracle: the property itself, judged from the scripted environment and the observed
// result/effects — no reference to the Lean model.
func (Prop) Oracle(c fw.Case, implOut []string) fw.Verdict {
	for k, op := range c.Ops {
		if strings.HasPrefix(op, "e2equeue ") && k < len(implOut) {
			if o := implOut[k]; o != "queued-behind" {
				return fw.Verdict{OK: false, Why: op + " => " + o, Signature: "a write for an owner with a non-empty handoff queue does not wait behind it"}
			}
			continue
		}
		if strings.HasPrefix(op, "e2elate ") && k < len(implOut) {
			if o := implOut[k]; o != "late-answer-ignored" {
				return fw.Verdict{OK: false, Why: op + " => " + o, Signature: "a late answer to an earlier write is taken for the answer to the next"}
			}
			continue
		}
		if strings.HasPrefix(op, "e2e ") && k < len(implOut) {
			// every owner is healthy: the write succeeds at every level, every owner holds the
			// point, nothing is handed to hinted handoff
			o := implOut[k]
			f := strings.Fields(o)
			bad := len(f) != 3 || f[0] != "ok" || strings.Contains(f[1], "0") || strings.Trim(strings.TrimPrefix(f[2], "hh="), "0,") != ""
			if bad {
				return fw.Verdict{OK: false, Why: op + " (all owners healthy, shard not yet opened on them) => " + o, Signature: "end-to-end write with healthy owners: " + strings.Fields(o + " ?")[0]}
			}
			continue
		}
		level, outs, order, ok := parseOp(op)
		if !ok || k >= len(implOut) {
			continue
		}
		f := strings.Fields(implOut[k])
		if len(f) != 4 {
			return fw.Verdict{OK: false, Why: "unparsable impl output " + implOut[k], Signature: "harness"}
		}
		class := f[0]
		st := strings.Split(strings.TrimPrefix(f[1], "stored="), ",")
		hh := strings.Split(strings.TrimPrefix(f[2], "hh="), ",")
		hhok := strings.Split(strings.TrimPrefix(f[3], "hhok="), ",")
		n := len(outs)
		required := n
		switch level {
		case "any", "one":
			required = 1
		case "quorum":
			required = n/2 + 1
		}
		arrived := map[int]bool{}
		for _, i := range order {
			arrived[i] = true
		}
		met, answered := 0, 0
		for i, o := range outs {
			if silent(o) || !arrived[i] {
				continue
			}
			answered++
			if st[i] == "1" || (level == "any" && hhok[i] == "1") {
				met++
			}
		}
		want := ""
		switch {
		case met >= required:
			want = "ok"
		case answered < n:
			want = "timeout"
		case met > 0:
			want = "partial"
		default:
			want = "failed"
		}
		if class != want {
			sig := fmt.Sprintf("level=%s want=%s got=%s", level, want, class)
			if level == "any" && want == "ok" {
				// which owners' handoff made the level count as met?
				sig += " via-handoff"
				for i, o := range outs {
					if hhok[i] == "1" && st[i] == "0" {
						sig += ":" + o
						break
					}
				}
			}
			return fw.Verdict{OK: false, Why: fmt.Sprintf("op %q: %d of %d required owners satisfied the level among %d answers, expected %s, got %s", op, met, required, answered, want, class), Signature: sig}
		}
		for i, o := range outs {
			wantHH := "0"
			if o == "retryHHok" || o == "retryHHrefused" || o == "queuedOk" || o == "queuedRefused" {
				wantHH = "1"
			}
			if hh[i] != wantHH {
				return fw.Verdict{OK: false, Why: fmt.Sprintf("op %q: owner %d (%s) offered to handoff %s times, expected %s", op, i, o, hh[i], wantHH),
					Signature: fmt.Sprintf("handoff-count %s got=%s", o, hh[i])}
			}
		}
	}
	return fw.Verdict{OK: true}
}

func (Prop) Trivial(c fw.Case, implOut []string) bool {
	if strings.HasPrefix(c.Ops[0], "e2e ") {
		return false
	}
	_, outs, _, ok := parseOp(c.Ops[0])
	if !ok {
		return true
	}
	// trivial: every owner simply stored
	for _, o := range outs {
		if o != "remoteStored" && o != "localStored" {
			return false
		}
	}
	return true
}

func (Prop) Describe(cfg *fw.Config) {
	cfg.Exhaustive = true
	cfg.Rule = "(plus a dozen end-to-end writes through real data nodes — coordinator service, shard writer, store — to a shard its healthy owners have not opened yet, at every level: success, the point on every owner, nothing to hinted handoff) exhaustive: every owner-outcome vector (7 remote outcomes, 3 local outcomes, at most one local owner) x 4 levels x every arrival permutation of the answering owners for n<=3 (thorough n<=4), plus seeded samples with n in 5..8; a case is non-trivial unless every owner simply stored; distinct = distinct op line"
}
