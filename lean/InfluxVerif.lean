-- This module serves as the root of the `InfluxVerif` library.
-- Import modules here that should be built as part of the library.
import InfluxVerif.Basic
