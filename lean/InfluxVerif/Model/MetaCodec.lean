/-
C07 — what `Data.MarshalBinary` / `UnmarshalBinary` (the raft snapshot image) preserve.
Every field is carried by protobuf unchanged except times, which go through
`MarshalTime` (`UnixNano`, wrapping outside the int64 range; zero time ↦ 0) and back.
-/
import InfluxVerif.Model.Meta
namespace InfluxVerif.Meta

def two63 : Int := 9223372036854775808
def two64 : Int := 18446744073709551616

/-- `time.Time.UnixNano` of an instant `t` ns from the epoch: wraps into int64 -/
def wrap64 (t : Int) : Int := (t + two63) % two64 - two63

/-- StartTime/EndTime: `MarshalTime` then `UnmarshalTime` (0 ↦ `time.Unix(0,0)`) -/
def codecTime (t : Int) : Int := wrap64 t

/-- TruncatedAt: present iff non-zero time; decoded as the instant it encodes -/
def codecTrunc : Option Int → Option Int
  | none => none
  | some t => some (wrap64 t)

def codecSG (g : SG) : SG :=
  { g with start := codecTime g.start, stop := codecTime g.stop, trunc := codecTrunc g.trunc }

/-- restore ∘ persist -/
def snapshotRoundtrip (d : Data) : Data := mapGroups d codecSG

def inInt64 (t : Int) : Prop := -two63 ≤ t ∧ t < two63

instance (t : Int) : Decidable (inInt64 t) := by unfold inInt64; exact inferInstance

/-- every stored instant is representable as int64 nanoseconds -/
def wfTimes (d : Data) : Prop :=
  ∀ db ∈ d.dbs, ∀ rp ∈ db.rps, ∀ g ∈ rp.groups,
    inInt64 g.start ∧ inInt64 g.stop ∧ (∀ t, g.trunc = some t → inInt64 t)

def wfTimesB (d : Data) : Bool :=
  d.dbs.all fun db => db.rps.all fun rp => rp.groups.all fun g =>
    decide (inInt64 g.start) && decide (inInt64 g.stop) &&
      (match g.trunc with | some t => decide (inInt64 t) | none => true)

end InfluxVerif.Meta

namespace InfluxVerif.Meta

/-! ### request bodies: `validateCommand` (handler) and what `Apply` does with an accepted body -/

inductive RawOutcome | rejected | applied | panic
  deriving DecidableEq, Repr

/-- `validateCommand`: the type has a case in `Apply` and the body carries that type's own
extension (`ext = 0` stands for "no extension", otherwise the type number it belongs to) -/
def validateRaw (cases : List String) (tname : Option String) (t ext : Nat) : Bool :=
  (match tname with | some n => cases.contains n | none => false) && ext == t

/-- `storeFSM.Apply` on a body: `default: panic` for a type without a case; the
`ext.(*internal.X)` assertion panics when the type's own extension is absent, except in
the three cases that never read it -/
def applyRaw (cases : List String) (tname : Option String) (t ext : Nat) : RawOutcome :=
  match tname with
  | none => .panic
  | some n =>
    if !cases.contains n then .panic
    else if ext == t then .applied
    else if n = "DeleteNodeCommand" || n = "UpdateNodeCommand" then .applied
    else .panic

def serveRaw (cases : List String) (tname : Option String) (t ext : Nat) : RawOutcome :=
  if validateRaw cases tname t ext then applyRaw cases tname t ext else .rejected

end InfluxVerif.Meta
