/-
C10 — Deletes remove exactly the targeted data, permanently.
Theorems over the shard specification (Spec/Shard.lean): the state invariant that every
reachable state satisfies, what a read returns after a range delete, what the listings show.
Snapshot, compaction and restart are not operations of the specification at all (they are the
identity on it), so "never reappears after a restart, a snapshot or a compaction" is the
statement that the real shard, compared with this specification after every such step, keeps
agreeing with it (the correspondence in harness/props/c02/c10.go).
-/
import InfluxVerif.Spec.Shard
import InfluxVerif.Props.C02

namespace InfluxVerif.ShardSpec
open InfluxVerif

def keyOf (c : Col) : String × String := (c.series, c.field)

/-- what every reachable state satisfies -/
structure Inv (s : St) : Prop where
  nodup : (s.cols.map keyOf).Nodup
  nonempty : ∀ c ∈ s.cols, c.pts ≠ []
  sorted : ∀ c ∈ s.cols, Values.Sorted c.pts
  indexed : ∀ c ∈ s.cols, c.series ∈ s.index.map (·.1)

theorem inv_init : Inv {} := ⟨by simp, by simp, by simp, by simp⟩

/-! ### lookups in a duplicate-free column list -/

theorem matches_iff (c : Col) (sr f : String) : (c.series == sr && c.field == f) = true ↔ keyOf c = (sr, f) := by
  simp [keyOf, Prod.ext_iff]

theorem find_of_mem {cols : List Col} (hn : (cols.map keyOf).Nodup) {c : Col} (hc : c ∈ cols) :
    cols.find? (fun x => x.series == c.series && x.field == c.field) = some c := by
  induction cols with
  | nil => simp at hc
  | cons x xs ih =>
    simp only [List.map_cons, List.nodup_cons] at hn
    simp only [List.mem_cons] at hc
    rcases hc with rfl | hc
    · simp [List.find?_cons]
    · have hne : keyOf x ≠ keyOf c := by
        intro e
        exact hn.1 (e ▸ List.mem_map_of_mem hc)
      have : (x.series == c.series && x.field == c.field) = false := by
        cases h : (x.series == c.series && x.field == c.field)
        · rfl
        · exact absurd ((matches_iff x c.series c.field).1 h) hne
      rw [List.find?_cons, this]
      exact ih hn.2 hc

theorem find_none_of_no_key {cols : List Col} {sr f : String} (h : ∀ c ∈ cols, keyOf c ≠ (sr, f)) :
    cols.find? (fun x => x.series == sr && x.field == f) = none := by
  rw [List.find?_eq_none]
  intro c hc hm
  exact h c hc ((matches_iff c sr f).1 hm)

/-! ### `deleteRange` -/

def cut (sel : String → Bool) (a b : Int) (c : Col) : Col :=
  if sel c.series then { c with pts := c.pts.filter fun p => p.1 < a || p.1 > b } else c

theorem cut_key (sel : String → Bool) (a b : Int) (c : Col) : keyOf (cut sel a b c) = keyOf c := by
  unfold cut; split <;> rfl

theorem cut_series (sel : String → Bool) (a b : Int) (c : Col) : (cut sel a b c).series = c.series := by
  unfold cut; split <;> rfl

theorem deleteRange_cols (s : St) (sel : String → Bool) (a b : Int) :
    (deleteRange s sel a b).cols = (s.cols.map (cut sel a b)).filter fun c => !c.pts.isEmpty := rfl

theorem deleteRange_index (s : St) (sel : String → Bool) (a b : Int) :
    (deleteRange s sel a b).index
      = s.index.filter fun e => !(sel e.1 && !(deleteRange s sel a b).cols.any (·.series == e.1)) := rfl

/-- the invariant survives a delete -/
theorem deleteRange_inv (s : St) (sel : String → Bool) (a b : Int) (h : Inv s) : Inv (deleteRange s sel a b) := by
  have hsub : ((deleteRange s sel a b).cols.map keyOf).Sublist (s.cols.map keyOf) := by
    rw [deleteRange_cols]
    have h1 : ((s.cols.map (cut sel a b)).map keyOf) = s.cols.map keyOf := by
      rw [List.map_map]; congr 1; funext c; exact cut_key sel a b c
    rw [← h1]
    exact List.Sublist.map _ List.filter_sublist
  refine ⟨hsub.nodup h.nodup, ?_, ?_, ?_⟩
  · intro c hc
    rw [deleteRange_cols, List.mem_filter] at hc
    intro e; simp [e] at hc
  · intro c hc
    rw [deleteRange_cols, List.mem_filter, List.mem_map] at hc
    obtain ⟨⟨c0, hc0, rfl⟩, _⟩ := hc
    unfold cut
    split
    · exact Values.exclude_sorted c0.pts a b (h.sorted c0 hc0)
    · exact h.sorted c0 hc0
  · intro c hc
    rw [deleteRange_index]
    have hc' := hc
    rw [deleteRange_cols, List.mem_filter, List.mem_map] at hc
    obtain ⟨⟨c0, hc0, rfl⟩, _⟩ := hc
    have hidx := h.indexed c0 hc0
    rw [List.mem_map] at hidx ⊢
    obtain ⟨e, he, hes⟩ := hidx
    refine ⟨e, ?_, by rw [hes, cut_series]⟩
    rw [List.mem_filter]
    refine ⟨he, ?_⟩
    have hany : (deleteRange s sel a b).cols.any (·.series == e.1) = true := by
      rw [List.any_eq_true]
      exact ⟨_, hc', by simp [cut_series, hes]⟩
    simp [hany]

theorem filter_window_comm (l : List (Int × Val)) (a b lo hi : Int) :
    ((l.filter fun p => p.1 < a || p.1 > b).filter fun p => lo ≤ p.1 && p.1 ≤ hi)
      = ((l.filter fun p => lo ≤ p.1 && p.1 ≤ hi).filter fun p => p.1 < a || p.1 > b) := by
  rw [List.filter_filter, List.filter_filter]
  congr 1; funext p; exact Bool.and_comm _ _

/-- **A delete removes exactly the targeted points**: a read of a selected series returns what
it returned before minus the timestamps in the closed range; a read of any other series is
unchanged. -/
theorem deleteRange_read (s : St) (sel : String → Bool) (a b : Int) (h : Inv s)
    (sr f : String) (lo hi : Int) (asc : Bool) :
    read (deleteRange s sel a b) sr f lo hi asc
      = if sel sr then (read s sr f lo hi asc).filter (fun p => p.1 < a || p.1 > b)
        else read s sr f lo hi asc := by
  have h' := deleteRange_inv s sel a b h
  by_cases hex : ∃ c ∈ s.cols, keyOf c = (sr, f)
  · obtain ⟨c, hc, hk⟩ := hex
    have hsr : c.series = sr := by simpa [keyOf] using congrArg Prod.fst hk
    have hf : c.field = f := by simpa [keyOf] using congrArg Prod.snd hk
    have hfind : s.cols.find? (fun x => x.series == sr && x.field == f) = some c := by
      have := find_of_mem h.nodup hc; rwa [hsr, hf] at this
    by_cases hemp : (cut sel a b c).pts = []
    · -- the column disappears
      have hnone : (deleteRange s sel a b).cols.find? (fun x => x.series == sr && x.field == f) = none := by
        apply find_none_of_no_key
        intro c' hc' hk'
        rw [deleteRange_cols, List.mem_filter, List.mem_map] at hc'
        obtain ⟨⟨c0, hc0, rfl⟩, hne⟩ := hc'
        have : keyOf c0 = keyOf c := by rw [← cut_key sel a b c0, hk', hk]
        have hc0c : c0 = c := by
          have h1 := find_of_mem h.nodup hc0
          have h2 := find_of_mem h.nodup hc
          have e1 : c0.series = c.series := by simpa [keyOf] using congrArg Prod.fst this
          have e2 : c0.field = c.field := by simpa [keyOf] using congrArg Prod.snd this
          rw [e1, e2, h2] at h1
          exact (Option.some.inj h1).symm
        subst hc0c
        simp [hemp] at hne
      unfold read
      rw [hnone, hfind]
      unfold cut at hemp
      by_cases hs : sel sr
      · rw [hsr] at hemp
        simp only [hs, if_true] at hemp ⊢
        cases asc
        · simp only [Bool.false_eq_true, if_false]
          rw [List.filter_reverse, ← filter_window_comm, hemp]; simp
        · simp only [if_true]
          rw [← filter_window_comm, hemp]; simp
      · rw [hsr] at hemp
        simp only [hs, Bool.false_eq_true, if_false] at hemp ⊢
        exact absurd hemp (h.nonempty c hc)
    · -- the column stays, cut
      have hmem : cut sel a b c ∈ (deleteRange s sel a b).cols := by
        rw [deleteRange_cols, List.mem_filter]
        refine ⟨List.mem_map_of_mem hc, ?_⟩
        cases hp : (cut sel a b c).pts with
        | nil => exact absurd hp hemp
        | cons _ _ => rfl
      have hfind' : (deleteRange s sel a b).cols.find? (fun x => x.series == sr && x.field == f) = some (cut sel a b c) := by
        have := find_of_mem h'.nodup hmem
        have hk2 : keyOf (cut sel a b c) = (sr, f) := by rw [cut_key, hk]
        have e1 : (cut sel a b c).series = sr := by simpa [keyOf] using congrArg Prod.fst hk2
        have e2 : (cut sel a b c).field = f := by simpa [keyOf] using congrArg Prod.snd hk2
        rwa [e1, e2] at this
      unfold read
      rw [hfind', hfind]
      unfold cut
      rw [hsr]
      by_cases hs : sel sr
      · simp only [hs, if_true]
        cases asc
        · simp only [Bool.false_eq_true, if_false]
          rw [List.filter_reverse, filter_window_comm]
        · simp only [if_true]
          rw [filter_window_comm]
      · simp only [hs, Bool.false_eq_true, if_false]
  · -- no such column before or after
    have hno : ∀ c ∈ s.cols, keyOf c ≠ (sr, f) := fun c hc hk => hex ⟨c, hc, hk⟩
    have hno' : ∀ c ∈ (deleteRange s sel a b).cols, keyOf c ≠ (sr, f) := by
      intro c' hc' hk'
      rw [deleteRange_cols, List.mem_filter, List.mem_map] at hc'
      obtain ⟨⟨c0, hc0, rfl⟩, _⟩ := hc'
      exact hno c0 hc0 (by rw [← cut_key sel a b c0, hk'])
    have r1 : read s sr f lo hi asc = [] := by unfold read; rw [find_none_of_no_key hno]
    have r2 : read (deleteRange s sel a b) sr f lo hi asc = [] := by unfold read; rw [find_none_of_no_key hno']
    rw [r1, r2]; split <;> simp

/-- **Listings, safety**: a series that still has points is listed (in every state satisfying
the invariant, in particular after any delete). -/
theorem listed_of_points (s : St) (h : Inv s) (c : Col) (hc : c ∈ s.cols) : c.series ∈ seriesList s :=
  h.indexed c hc

/-- **Listings, completeness**: a selected series left without any point by the delete is no
longer listed. -/
theorem unlisted_after_delete (s : St) (sel : String → Bool) (a b : Int) (sr : String)
    (hsel : sel sr = true) (hnone : ∀ c ∈ (deleteRange s sel a b).cols, c.series ≠ sr) :
    sr ∉ seriesList (deleteRange s sel a b) := by
  unfold seriesList
  rw [deleteRange_index, List.mem_map]
  rintro ⟨e, he, rfl⟩
  rw [List.mem_filter] at he
  have hany : (deleteRange s sel a b).cols.any (·.series == e.1) = false := by
    rw [Bool.eq_false_iff]
    intro ht
    rw [List.any_eq_true] at ht
    obtain ⟨c, hc, hce⟩ := ht
    exact hnone c hc (by simpa using hce)
  simp [hsel, hany] at he

/-- a delete never lists something new, and never touches a series it does not select -/
theorem delete_keeps_unselected (s : St) (sel : String → Bool) (a b : Int) (e : String × String)
    (he : e ∈ s.index) (hns : sel e.1 = false) : e ∈ (deleteRange s sel a b).index := by
  rw [deleteRange_index, List.mem_filter]
  exact ⟨he, by simp [hns]⟩

/-- deleting twice is deleting once -/
theorem deleteRange_read_idem (s : St) (sel : String → Bool) (a b : Int) (h : Inv s)
    (sr f : String) (lo hi : Int) (asc : Bool) :
    read (deleteRange (deleteRange s sel a b) sel a b) sr f lo hi asc = read (deleteRange s sel a b) sr f lo hi asc := by
  rw [deleteRange_read _ sel a b (deleteRange_inv s sel a b h), deleteRange_read s sel a b h]
  split
  · rw [List.filter_filter]; congr 1; funext p; simp
  · rfl

/-! ### `write` keeps the invariant: every reachable state satisfies it -/

/-- the part of the invariant that concerns the columns alone -/
structure ColsOK (cols : List Col) : Prop where
  nodup : (cols.map keyOf).Nodup
  nonempty : ∀ c ∈ cols, c.pts ≠ []
  sorted : ∀ c ∈ cols, Values.Sorted c.pts

theorem upsert_ne_nil (t : Int) (v : Val) (l : List (Int × Val)) : Values.upsert t v l ≠ [] := by
  cases l with
  | nil => simp [Values.upsert]
  | cons x xs =>
    obtain ⟨t', v'⟩ := x
    simp only [Values.upsert]
    split
    · simp
    · split <;> simp

theorem writeCol_ok (cols : List Col) (series meas field : String) (t : Int) (v : Val) (h : ColsOK cols) :
    ColsOK (writeCol cols series meas field t v) ∧
    ∀ c ∈ writeCol cols series meas field t v, c.series = series ∨ ∃ c0 ∈ cols, c0.series = c.series := by
  unfold writeCol
  split
  · -- an existing column is updated
    refine ⟨⟨?_, ?_, ?_⟩, ?_⟩
    · have : (cols.map fun c => if c.series == series && c.field == field then { c with pts := upsert t v c.pts } else c).map keyOf
          = cols.map keyOf := by
        rw [List.map_map]; apply List.map_congr_left; intro c _
        simp only [Function.comp]; split <;> rfl
      rw [this]; exact h.nodup
    · intro c hc
      rw [List.mem_map] at hc
      obtain ⟨c0, hc0, rfl⟩ := hc
      split
      · exact upsert_ne_nil t v c0.pts
      · exact h.nonempty c0 hc0
    · intro c hc
      rw [List.mem_map] at hc
      obtain ⟨c0, hc0, rfl⟩ := hc
      split
      · exact Values.upsert_sorted t v c0.pts (h.sorted c0 hc0)
      · exact h.sorted c0 hc0
    · intro c hc
      rw [List.mem_map] at hc
      obtain ⟨c0, hc0, rfl⟩ := hc
      right
      refine ⟨c0, hc0, ?_⟩
      split <;> rfl
  · -- a new column is appended
    rename_i hno
    have hno' : ∀ c ∈ cols, keyOf c ≠ (series, field) := by
      intro c hc hk
      apply hno
      rw [List.any_eq_true]
      exact ⟨c, hc, (matches_iff c series field).2 hk⟩
    refine ⟨⟨?_, ?_, ?_⟩, ?_⟩
    · rw [List.map_append, List.nodup_append]
      refine ⟨h.nodup, by simp, ?_⟩
      intro k hk k' hk'
      simp only [List.map_cons, List.map_nil, List.mem_singleton] at hk'
      rw [List.mem_map] at hk
      obtain ⟨c, hc, rfl⟩ := hk
      subst hk'
      exact hno' c hc
    · intro c hc
      rw [List.mem_append, List.mem_singleton] at hc
      rcases hc with hc | rfl
      · exact h.nonempty c hc
      · simp
    · intro c hc
      rw [List.mem_append, List.mem_singleton] at hc
      rcases hc with hc | rfl
      · exact h.sorted c hc
      · trivial
    · intro c hc
      rw [List.mem_append, List.mem_singleton] at hc
      rcases hc with hc | rfl
      · exact Or.inr ⟨c, hc, rfl⟩
      · exact Or.inl rfl

theorem writePoint_ok (cols : List Col) (p : Pt) (fs : List FieldW) (h : ColsOK cols) :
    ColsOK (fs.foldl (fun cols f => writeCol cols p.series p.meas f.name p.t f.val) cols) ∧
    ∀ c ∈ fs.foldl (fun cols f => writeCol cols p.series p.meas f.name p.t f.val) cols,
      c.series = p.series ∨ ∃ c0 ∈ cols, c0.series = c.series := by
  induction fs generalizing cols with
  | nil => exact ⟨h, fun c hc => Or.inr ⟨c, hc, rfl⟩⟩
  | cons f rest ih =>
    rw [List.foldl_cons]
    obtain ⟨h1, s1⟩ := writeCol_ok cols p.series p.meas f.name p.t f.val h
    obtain ⟨h2, s2⟩ := ih _ h1
    refine ⟨h2, ?_⟩
    intro c hc
    rcases s2 c hc with e | ⟨c1, hc1, e1⟩
    · exact Or.inl e
    · rcases s1 c1 hc1 with e | ⟨c0, hc0, e0⟩
      · exact Or.inl (e1 ▸ e)
      · exact Or.inr ⟨c0, hc0, e0.trans e1⟩

theorem writePoints_ok (cols : List Col) (ps : List Pt) (h : ColsOK cols) :
    ColsOK (ps.foldl (fun cols p => p.fields.foldl (fun cols f => writeCol cols p.series p.meas f.name p.t f.val) cols) cols) ∧
    ∀ c ∈ ps.foldl (fun cols p => p.fields.foldl (fun cols f => writeCol cols p.series p.meas f.name p.t f.val) cols) cols,
      (∃ p ∈ ps, c.series = p.series) ∨ ∃ c0 ∈ cols, c0.series = c.series := by
  induction ps generalizing cols with
  | nil => exact ⟨h, fun c hc => Or.inr ⟨c, hc, rfl⟩⟩
  | cons p rest ih =>
    rw [List.foldl_cons]
    obtain ⟨h1, s1⟩ := writePoint_ok cols p p.fields h
    obtain ⟨h2, s2⟩ := ih _ h1
    refine ⟨h2, ?_⟩
    intro c hc
    rcases s2 c hc with ⟨q, hq, e⟩ | ⟨c1, hc1, e1⟩
    · exact Or.inl ⟨q, by simp [hq], e⟩
    · rcases s1 c1 hc1 with e | ⟨c0, hc0, e0⟩
      · exact Or.inl ⟨p, by simp, e1 ▸ e⟩
      · exact Or.inr ⟨c0, hc0, e0.trans e1⟩

theorem addIndex_mono (idx : List (String × String)) (ps : List Pt) :
    (∀ x ∈ idx.map (·.1), x ∈ (ps.foldl addIndex idx).map (·.1)) ∧
    (∀ p ∈ ps, p.series ∈ (ps.foldl addIndex idx).map (·.1)) := by
  induction ps generalizing idx with
  | nil => exact ⟨fun x hx => hx, by simp⟩
  | cons p rest ih =>
    rw [List.foldl_cons]
    obtain ⟨m1, m2⟩ := ih (addIndex idx p)
    have hstep : ∀ x ∈ idx.map (·.1), x ∈ (addIndex idx p).map (·.1) := by
      intro x hx; unfold addIndex; split
      · exact hx
      · rw [List.map_append, List.mem_append]; exact Or.inl hx
    have hp : p.series ∈ (addIndex idx p).map (·.1) := by
      unfold addIndex; split
      · rename_i hany
        rw [List.any_eq_true] at hany
        obtain ⟨e, he, hes⟩ := hany
        rw [List.mem_map]; exact ⟨e, he, by simpa using hes⟩
      · simp
    refine ⟨fun x hx => m1 x (hstep x hx), ?_⟩
    intro q hq
    simp only [List.mem_cons] at hq
    rcases hq with rfl | hq
    · exact m1 _ hp
    · exact m2 q hq

/-- the invariant survives a write, whatever the batch and whatever its outcome -/
theorem write_inv (s : St) (batch : List Pt) (h : Inv s) : Inv (write s batch).1 := by
  obtain ⟨m1, m2⟩ := addIndex_mono s.index batch
  unfold write
  simp only
  split
  · -- failed: columns untouched, index grown
    exact ⟨h.nodup, h.nonempty, h.sorted, fun c hc => m1 _ (h.indexed c hc)⟩
  · obtain ⟨hok, hser⟩ := writePoints_ok s.cols (batch.filter (validPt s)) ⟨h.nodup, h.nonempty, h.sorted⟩
    refine ⟨hok.nodup, hok.nonempty, hok.sorted, ?_⟩
    intro c hc
    rcases hser c hc with ⟨p, hp, e⟩ | ⟨c0, hc0, e0⟩
    · rw [e]; exact m2 p (List.mem_filter.1 hp).1
    · rw [← e0]; exact m1 _ (h.indexed c0 hc0)

/-- operations of the specification -/
inductive Op
  | write (batch : List Pt)
  | delete (sel : String → Bool) (tmin tmax : Int)

def apply (s : St) : Op → St
  | .write b => (write s b).1
  | .delete sel a b => deleteRange s sel a b

/-- **Every reachable state satisfies the invariant**, for every history of writes and deletes -/
theorem reachable_inv (ops : List Op) : Inv (ops.foldl apply {}) := by
  suffices h : ∀ s, Inv s → Inv (ops.foldl apply s) from h {} inv_init
  induction ops with
  | nil => exact fun s hs => hs
  | cons op rest ih =>
    intro s hs
    rw [List.foldl_cons]
    apply ih
    cases op with
    | write b => exact write_inv s b hs
    | delete sel a b => exact deleteRange_inv s sel a b hs

/-- **Along every history, a delete removes exactly the targeted points** (corollary of
`deleteRange_read` and `reachable_inv`) -/
theorem delete_exact_everywhere (ops : List Op) (sel : String → Bool) (a b : Int)
    (sr f : String) (lo hi : Int) (asc : Bool) :
    read (deleteRange (ops.foldl apply {}) sel a b) sr f lo hi asc
      = if sel sr then (read (ops.foldl apply {}) sr f lo hi asc).filter (fun p => p.1 < a || p.1 > b)
        else read (ops.foldl apply {}) sr f lo hi asc :=
  deleteRange_read _ sel a b (reachable_inv ops) sr f lo hi asc

/-! ### Non-vacuity -/

def exampleSt : St :=
  { cols := [⟨"m|host=a", "m", "v", [(1, "f1"), (5, "f5"), (9, "f9")]⟩, ⟨"m|host=b", "m", "v", [(5, "f0")]⟩],
    index := [("m|host=a", "m"), ("m|host=b", "m")], ftypes := [(("m", "v"), 'f')] }

example : Inv exampleSt := by
  refine ⟨by decide, by decide, ?_, by decide⟩
  intro c hc
  simp only [exampleSt, List.mem_cons, List.not_mem_nil, or_false] at hc
  rcases hc with rfl | rfl <;> simp [Values.Sorted]

example : read (deleteRange exampleSt (fun _ => true) 5 5) "m|host=a" "v" 0 10 true = [(1, "f1"), (9, "f9")] := by decide
example : seriesList (deleteRange exampleSt (fun _ => true) 5 5) = ["m|host=a"] := by decide

end InfluxVerif.ShardSpec
