// Package c05: distributed queries on an in-process multi-node cluster read every shard
// exactly once or fail.  Shard ownership layouts, coordinating node, down nodes and serving
// faults are chosen by the generator; the result of a query on any node is compared with the
// Lean model InfluxVerif.Cluster (the same statement over the union of the shards' data, each
// shard once; an error when some needed shard cannot be served completely).
package c05

import (
	"fmt"
	"os"
	"sort"
	"strconv"
	"strings"
	"time"

	"github.com/influxdata/influxdb/models"
	"verifharness/clusterh"
	"verifharness/fw"
	"verifharness/shardh"
)

type Prop struct{}

func (Prop) ID() string                   { return "C05" }
func (Prop) Model() string                { return "cluster" }
func (Prop) Parallel() int                { return 4 }
func (Prop) Stateful() bool               { return true }
func (Prop) KeepOp(i int, op string) bool { return i == 0 || strings.HasPrefix(op, "sg ") }

func i64(s string) int64 { v, _ := strconv.ParseInt(s, 10, 64); return v }

func stmt(kind string, lo, hi int64) string {
	where := fmt.Sprintf(" WHERE time >= %d AND time <= %d", lo, hi)
	switch kind {
	case "raw":
		return "SELECT v FROM m" + where
	case "rawdesc":
		return "SELECT v FROM m" + where + " ORDER BY time DESC"
	case "count":
		return "SELECT count(v) FROM m" + where
	case "sum":
		return "SELECT sum(v) FROM m" + where + " GROUP BY host"
	case "star": // wildcard expansion: a field/tag metadata lookup on every needed shard
		return "SELECT * FROM m" + where
	case "star2":
		return "SELECT * FROM m2" + where
	case "both": // two measurement sources over the same shards
		return "SELECT * FROM m, m2" + where
	case "count2":
		return "SELECT count(w) FROM m2" + where
	case "showtv": // a tag metadata lookup: fans out to every node, over every shard of the database
		return "SHOW TAG VALUES FROM m WITH KEY = host"
	case "explain": // cost estimation: fans out like the select it explains
		return "EXPLAIN SELECT v FROM m" + where
	}
	return ""
}

// sources is the number of measurement sources of a statement kind: every needed remote shard
// is requested once per source
func sources(kind string) int {
	if kind == "both" {
		return 2
	}
	return 1
}

func RunOps(ops []string) []string {
	dir, _ := os.MkdirTemp(shardh.WorkDir("cluster"), "c-")
	defer os.RemoveAll(dir)
	var c *clusterh.Cluster
	defer func() {
		if c != nil {
			c.Close()
		}
	}()
	var shards []uint64
	st := &runState{hasData: map[uint64]bool{}}
	out := make([]string, len(ops))
	nth := 0
	slowOK := false
	for i, op := range ops {
		if strings.HasPrefix(op, "fault ") && strings.HasSuffix(op, " slow") && !slowOK {
			out[i] = "bad-op" // a slow node needs the cluster made with the short RPC timeout
			continue
		}
		f := strings.Fields(op)
		if f[0] == "creset" {
			if c != nil {
				c.Close()
			}
			nth++
			var err error
			var to time.Duration
			if len(f) > 2 && f[2] == "slow" {
				to = clusterh.SlowTimeout
			}
			c, err = clusterh.NewWithTimeout(fmt.Sprintf("%s/%d", dir, nth), int(i64(f[1])), "inmem", to)
			slowOK = to > 0
			shards = nil
			st = &runState{hasData: map[uint64]bool{}}
			if err != nil {
				out[i] = "err:" + strings.ReplaceAll(err.Error(), " ", "_")
				return out
			}
			out[i] = "ok"
			continue
		}
		if c == nil {
			out[i] = "bad-op"
			continue
		}
		out[i] = step(c, &shards, st, f)
	}
	return out
}

type runState struct {
	hasData map[uint64]bool
	q       bool
	coord   int
	lo, hi  int64
	sources int
}

func step(c *clusterh.Cluster, shards *[]uint64, st *runState, f []string) (res string) {
	defer func() {
		if r := recover(); r != nil {
			res = "panic:" + strings.ReplaceAll(fmt.Sprint(r), " ", "_")
		}
	}()
	switch f[0] {
	case "sg":
		var owners [][]int
		for _, sh := range strings.Split(f[3], "/") {
			var os []int
			for _, o := range strings.Split(sh, ",") {
				os = append(os, int(i64(o)))
			}
			owners = append(owners, os)
		}
		*shards = append(*shards, c.AddShardGroup(i64(f[1]), i64(f[2]), owners)...)
		return "ok"
	case "data":
		idx := int(i64(f[1]))
		if idx < 0 || idx >= len(*shards) {
			return "bad-op"
		}
		n, t0, stp, vb := int(i64(f[2])), i64(f[3]), i64(f[4]), i64(f[5])
		tags := models.NewTags(map[string]string{"host": fmt.Sprintf("h%d", idx%2)})
		var pts []models.Point
		for i := 0; i < n; i++ {
			p, err := models.NewPoint("m", tags, models.Fields{"v": vb + int64(i)}, time.Unix(0, t0+int64(i)*stp))
			if err != nil {
				return "bad-op"
			}
			// the second measurement carries the same points under another field name
			p2, err := models.NewPoint("m2", tags, models.Fields{"w": vb + int64(i)}, time.Unix(0, t0+int64(i)*stp))
			if err != nil {
				return "bad-op"
			}
			pts = append(pts, p, p2)
		}
		if err := c.WriteShard((*shards)[idx], pts); err != nil {
			return "err:" + strings.ReplaceAll(err.Error(), " ", "_")
		}
		st.hasData[(*shards)[idx]] = true
		return "ok"
	case "trunc":
		// influxd-ctl truncate-shards: the groups reaching beyond t stop taking new points at t;
		// what they hold stays where it is and has to be read
		c.Truncate(i64(f[1]))
		return "ok"
	case "down":
		i := int(i64(f[1]))
		if i < 0 || i >= len(c.Nodes) {
			return "bad-op"
		}
		c.SetDown(i)
		return "ok"
	case "fault":
		i := int(i64(f[1]))
		if i < 0 || i >= len(c.Nodes) {
			return "bad-op"
		}
		switch {
		case f[2] == "none":
			c.SetFault(i, clusterh.Fault{})
		case f[2] == "err":
			c.SetFault(i, clusterh.Fault{Kind: "err"})
		case f[2] == "cut":
			c.SetFault(i, clusterh.Fault{Kind: "cut"})
		case f[2] == "slow":
			c.SetFault(i, clusterh.Fault{Kind: "slow"})
		case strings.HasPrefix(f[2], "mid:"):
			c.SetFault(i, clusterh.Fault{Kind: "mid", K: int(i64(f[2][4:]))})
		default:
			return "bad-op"
		}
		return "ok"
	case "q":
		i := int(i64(f[1]))
		if i < 0 || i >= len(c.Nodes) || c.Down[i] {
			return "bad-op"
		}
		c.Served()
		st.q, st.coord, st.lo, st.hi, st.sources = f[2] != "explain" && f[2] != "showtv", i, i64(f[3]), i64(f[4]), sources(f[2]) // a cost estimate reads nothing
		rows, err := c.Query(i, stmt(f[2], i64(f[3]), i64(f[4])))
		if err != nil {
			if os.Getenv("VERIF_DEBUG") != "" {
				fmt.Fprintf(os.Stderr, "C05 %v: %v\n", f, err)
			}
			return "error"
		}
		if rows == "" {
			rows = "-"
		}
		if f[2] == "explain" {
			// the cost estimate counts every needed shard that exists once
			k := 0 // no plan at all: nobody knows the field, nothing would be read
			if i := strings.Index(rows, "NUMBER OF SHARDS: "); i >= 0 {
				fmt.Sscanf(rows[i+len("NUMBER OF SHARDS: "):], "%d", &k)
			}
			return fmt.Sprintf("ok shards=%d", k)
		}
		return "ok " + rows
	case "served":
		log := c.Served()
		wasQuery := st.q
		st.q = false // the log belongs to the query just before
		if c.AnyUnhealthy() {
			return "served ?"
		}
		// with every node healthy: every needed shard that exists and is not held by the
		// coordinator is requested from exactly one node, once, and only from an owner
		count := map[uint64]int{}
		for node, lists := range log {
			for _, l := range lists {
				inReq := map[uint64]bool{}
				for _, id := range l {
					if inReq[id] {
						return fmt.Sprintf("served SHARD-%d-TWICE-IN-ONE-REQUEST", id)
					}
					inReq[id] = true
					count[id]++
					owner := false
					for _, o := range c.Owners(id) {
						if o == node {
							owner = true
						}
					}
					if !owner {
						return fmt.Sprintf("served SHARD-%d-FROM-NON-OWNER-%d", id, node)
					}
				}
			}
		}
		if !wasQuery {
			return "served ok"
		}
		for _, id := range c.Needed(st.lo, st.hi) {
			local := false
			for _, o := range c.Owners(id) {
				if o == st.coord {
					local = true
				}
			}
			switch {
			case local && count[id] > 0:
				return fmt.Sprintf("served LOCAL-SHARD-%d-ALSO-READ-REMOTELY", id)
			case !local && st.hasData[id] && count[id] == 0:
				return fmt.Sprintf("served SHARD-%d-NOT-READ", id)
			case count[id] > st.sources:
				return fmt.Sprintf("served SHARD-%d-READ-%d-TIMES", id, count[id])
			}
		}
		return "served ok"
	}
	return "bad-op"
}

func (Prop) RunImpl(c fw.Case) []string { return RunOps(c.Ops) }

// ---- generator ------------------------------------------------------------------------

const base = int64(1600000000000000000)
const groupLen = int64(100000)

func genCase(r *fw.Rand) fw.Case {
	n := 2 + r.Intn(4)
	ops := []string{fmt.Sprintf("creset %d", n)}
	type shard struct {
		g      int
		owners []int
	}
	var shards []shard
	ngroups := 1 + r.Intn(4)
	for g := 0; g < ngroups; g++ {
		ns := 1 + r.Intn(3)
		repl := 1 + r.Intn(n)
		if repl > 3 {
			repl = 3
		}
		var specs []string
		for k := 0; k < ns; k++ {
			perm := r.Perm(n)[:repl]
			var os []string
			for _, o := range perm {
				os = append(os, fmt.Sprint(o))
			}
			specs = append(specs, strings.Join(os, ","))
			shards = append(shards, shard{g, perm})
		}
		lo := base + int64(g)*groupLen
		ops = append(ops, fmt.Sprintf("sg %d %d %s", lo, lo+groupLen, strings.Join(specs, "/")))
	}
	for i, sh := range shards {
		if r.Intn(6) == 0 {
			continue // an empty shard
		}
		lo := base + int64(sh.g)*groupLen
		for w := 0; w < 1+r.Intn(2); w++ {
			ops = append(ops, fmt.Sprintf("data %d %d %d %d %d", i, 1+r.Intn(12), lo+int64(i)+int64(r.Intn(5))*100, 100*(1+int64(r.Intn(3)))*10, r.Intn(1000)-300))
		}
	}
	if r.Intn(3) == 0 {
		// the shard groups are truncated somewhere in the range written (every group after
		// that instant at its start)
		ops = append(ops, fmt.Sprintf("trunc %d", base+int64(r.Intn(ngroups))*groupLen+int64(r.Intn(4))*100))
	}
	query := func() {
		c := r.Intn(n)
		glo, ghi := r.Intn(ngroups), r.Intn(ngroups)
		if glo > ghi {
			glo, ghi = ghi, glo
		}
		lo := base + int64(glo)*groupLen + int64(r.Intn(3))*20000
		hi := base + int64(ghi+1)*groupLen - 1 - int64(r.Intn(3))*20000
		if hi < lo {
			hi = lo
		}
		if r.Intn(3) == 0 {
			lo, hi = base, base+int64(ngroups)*groupLen
		}
		kind := []string{"raw", "rawdesc", "count", "sum", "star", "star2", "both", "count2", "explain", "explain", "showtv"}[r.Intn(11)]
		ops = append(ops, fmt.Sprintf("q %d %s %d %d", c, kind, lo, hi), "served")
	}
	for i := 0; i < 2+r.Intn(3); i++ {
		query()
	}
	// faults: downs and refusing nodes anywhere; a node that fails part-way only where it is
	// the sole owner of a shard (otherwise the outcome depends on which owner gets picked)
	soleOwner := map[int]bool{}
	multi := map[int]bool{}
	for _, sh := range shards {
		if len(sh.owners) == 1 {
			soleOwner[sh.owners[0]] = true
		} else {
			for _, o := range sh.owners {
				multi[o] = true
			}
		}
	}
	for round := 0; round < 1+r.Intn(3); round++ {
		i := r.Intn(n)
		switch r.Intn(4) {
		case 0:
			ops = append(ops, fmt.Sprintf("down %d", i))
		case 1:
			ops = append(ops, fmt.Sprintf("fault %d err", i))
		case 2:
			if soleOwner[i] && !multi[i] {
				ops = append(ops, fmt.Sprintf("fault %d %s", i, []string{"mid:0", "cut"}[r.Intn(2)]))
			} else {
				ops = append(ops, fmt.Sprintf("fault %d err", i))
			}
		default:
			ops = append(ops, fmt.Sprintf("fault %d none", i))
		}
		for k := 0; k < 1+r.Intn(3); k++ {
			query()
		}
	}
	return fw.Case{Ops: ops, Tags: []string{fmt.Sprintf("nodes=%d", n)}}
}

// genSlowCase: a cluster made with a short RPC timeout (so that the case takes seconds), a
// node S that answers later than that, a coordinator C and the rest healthy. Group 0 holds
// shards that S shares with healthy owners (the query must fail over and still answer);
// group 1, when present, holds a shard only S owns (a query over it must fail while S is
// slow). After S is healthy again the lookups must not be mixed up with the answers that
// arrived too late.
func genSlowCase(r *fw.Rand, n int) fw.Case {
	if n < 3 {
		n = 3
	}
	perm := r.Perm(n)
	C, S, H := perm[0], perm[1], perm[2]
	ops := []string{fmt.Sprintf("creset %d slow", n)}
	shared := fmt.Sprintf("%d,%d", S, H)
	if r.Intn(2) == 0 {
		shared = fmt.Sprintf("%d,%d", H, S)
	}
	specs := []string{shared}
	if r.Intn(2) == 0 {
		specs = append(specs, fmt.Sprint(H))
	}
	if r.Intn(3) == 0 {
		specs = append(specs, fmt.Sprintf("%d,%d", C, S))
	}
	ops = append(ops, fmt.Sprintf("sg %d %d %s", base, base+groupLen, strings.Join(specs, "/")))
	nshards := len(specs)
	sole := r.Intn(3) != 0
	if sole {
		ops = append(ops, fmt.Sprintf("sg %d %d %d", base+groupLen, base+2*groupLen, S))
		nshards++
	}
	for i := 0; i < nshards; i++ {
		g := int64(0)
		if sole && i == nshards-1 {
			g = 1
			if r.Intn(2) == 0 {
				continue // the shard only S owns is empty
			}
		}
		ops = append(ops, fmt.Sprintf("data %d %d %d %d %d", i, 1+r.Intn(8), base+g*groupLen+int64(i)+int64(r.Intn(5))*100, 1000*(1+int64(r.Intn(3))), r.Intn(1000)-300))
	}
	q := func(kind string, groups int64) {
		ops = append(ops, fmt.Sprintf("q %d %s %d %d", C, kind, base, base+groups*groupLen-1), "served")
	}
	kinds := []string{"star", "star2", "both", "raw", "count2", "sum"}
	all := int64(1)
	if sole {
		all = 2
	}
	q(kinds[r.Intn(3)], all)
	ops = append(ops, fmt.Sprintf("fault %d slow", S))
	for k := 0; k < 2+r.Intn(2); k++ {
		q(kinds[r.Intn(len(kinds))], 1)
	}
	if sole {
		q([]string{"star", "both"}[r.Intn(2)], 2)
	}
	ops = append(ops, fmt.Sprintf("fault %d none", S))
	q("star2", all)
	q("star", all)
	q(kinds[r.Intn(3)], all)
	return fw.Case{Ops: ops, Tags: []string{fmt.Sprintf("nodes=%d", n), "slow"}}
}

// genDoubleFailover: five nodes; a coordinator that owns nothing; one group with a shard owned
// by three nodes (two of them down) and a shard that shares its first choice with it: the
// fall-back takes more than one round, and a round may succeed for one shard while it fails
// for the other. Everything is still servable: every statement must answer, each shard once.
func genDoubleFailover(r *fw.Rand) fw.Case {
	p := r.Perm(5)
	C, a, b, c, d := p[0], p[1], p[2], p[3], p[4]
	ops := []string{"creset 5"}
	perm3 := [][]int{{a, b, c}, {b, a, c}, {a, c, b}, {c, a, b}}[r.Intn(4)]
	ops = append(ops, fmt.Sprintf("sg %d %d %d,%d,%d/%d,%d", base, base+groupLen, perm3[0], perm3[1], perm3[2], a, d))
	if r.Intn(2) == 0 {
		ops = append(ops, fmt.Sprintf("sg %d %d %d,%d", base+groupLen, base+2*groupLen, b, d))
	}
	for i := 0; i < 3; i++ {
		g := int64(0)
		if i == 2 {
			g = 1
		}
		if i == 2 && len(ops) < 3 {
			break
		}
		ops = append(ops, fmt.Sprintf("data %d %d %d %d %d", i, 1+r.Intn(8), base+g*groupLen+int64(i)+int64(r.Intn(5))*100, 1000*(1+int64(r.Intn(3))), r.Intn(1000)-300))
	}
	ops = append(ops, fmt.Sprintf("down %d", a), fmt.Sprintf("down %d", b))
	for k := 0; k < 10; k++ {
		kind := []string{"explain", "explain", "star", "count", "raw", "sum"}[r.Intn(6)]
		ops = append(ops, fmt.Sprintf("q %d %s %d %d", C, kind, base, base+2*groupLen-1), "served")
	}
	return fw.Case{Ops: ops, Tags: []string{"nodes=5", "double-failover"}}
}

func (Prop) Generate(r *fw.Rand, tier string) []fw.Case {
	n := 40
	if tier == "thorough" {
		n = 1200
	}
	var cases []fw.Case
	for i := 0; i < n; i++ {
		if i%8 == 3 { // one case in eight has a node that answers more slowly than the RPC timeout
			f := r.Fork()
			cases = append(cases, genSlowCase(f, 3+f.Intn(3)))
			continue
		}
		cases = append(cases, genCase(r.Fork()))
		if i%8 == 5 {
			cases = append(cases, genDoubleFailover(r.Fork()))
		}
	}
	return cases
}

func (Prop) Describe(cfg *fw.Config) {
	cfg.Rule = "seeded in-process clusters of 2-5 real data nodes sharing one metadata value: 1-4 shard groups of 1-3 shards with 1-3 owners each in arbitrary placement, integer points written under two measurements (m field v, m2 field w) to every owner of a shard (some shards empty), statements (raw ascending/descending, count, sum grouped by tag, SELECT * on either measurement = field/tag lookup on every needed shard, SELECT * FROM m, m2 = two sources over the same shards; whole range or a sub-range selecting some groups) issued on every node; then nodes are taken down, made to refuse iterator creation, or (sole owners only) made to fail part-way through the point stream, and the statements repeated from live nodes; one case in eight runs on a cluster with a 1.2 s RPC timeout where one owner answers after 2 s (fail-over from it must still answer, a shard only it owns must fail the query, and after it is healthy again the lookups must not be mixed up with the late answers); compared with the model: the statement over the union of the needed shards each counted once when every needed shard has a local or healthy owner, an error otherwise; with all nodes healthy the per-node serving log must show every non-local needed shard once per source, never twice in one request, never from a non-owner; non-trivial = at least one query ran with a fault or a down node; distinct = distinct op list"
}

func (Prop) Trivial(c fw.Case, out []string) bool {
	for _, op := range c.Ops {
		if strings.HasPrefix(op, "down") || strings.HasPrefix(op, "fault") {
			return false
		}
	}
	return true
}

// ---- reference (independent of the Lean model) and oracle --------------------------------

type rpt struct {
	host int
	t, v int64
}

type rshard struct {
	lo, hi int64
	owners []int
	pts    map[[2]int64]int64 // (host, t) -> v
}

type ref struct {
	n      int
	shards []*rshard
	status []string // up | down | err | mid | cut
}

func (r *ref) servable(c int, sh *rshard) (bool, string) {
	for _, o := range sh.owners {
		if o == c {
			return true, ""
		}
	}
	for _, o := range sh.owners {
		if r.status[o] == "up" {
			return true, ""
		}
	}
	why := "every owner down, refusing or slower than the RPC timeout"
	for _, o := range sh.owners {
		switch r.status[o] {
		case "mid":
			if len(sh.pts) == 0 {
				return true, ""
			}
			why = "the only reachable owner fails part-way through the stream"
		case "cut":
			if len(sh.pts) == 0 {
				return true, ""
			}
			why = "the connection to the only reachable owner drops between two frames of the stream"
		}
	}
	return false, why
}

func (r *ref) query(c int, kind string, lo, hi int64) (string, string) {
	if kind == "showtv" {
		// every shard of the database that holds something must be answered for by the
		// coordinator itself or by an owner that answers; then the values are those of all data
		hosts := map[int]bool{}
		for _, sh := range r.shards {
			if len(sh.pts) == 0 {
				continue
			}
			ok := false
			for _, o := range sh.owners {
				if o == c || (r.status[o] != "down" && r.status[o] != "slow") {
					ok = true
				}
			}
			if !ok {
				return "error", "a shard holding tag values has no owner that answers"
			}
			for k := range sh.pts {
				hosts[int(k[0])] = true
			}
		}
		var hs []string
		for _, h := range []int{0, 1} {
			if hosts[h] {
				hs = append(hs, fmt.Sprintf("host,h%d", h))
			}
		}
		if len(hs) == 0 {
			return "ok -", ""
		}
		return "ok [m{}(key,value) " + strings.Join(hs, " ") + "]", ""
	}
	if kind == "explain" {
		// the cost estimate: complete (every needed shard that exists counted once) or an
		// error; when no needed shard holds anything there is nothing to count
		n, unreachable := 0, false
		for _, sh := range r.shards {
			if !(sh.lo <= hi && sh.hi > lo) {
				continue
			}
			if len(sh.pts) > 0 {
				n++
			}
			ok := false
			for _, o := range sh.owners {
				if o == c || (r.status[o] != "down" && r.status[o] != "slow") {
					ok = true
				}
			}
			if !ok {
				unreachable = true
			}
		}
		if n > 0 && unreachable {
			return "error", "a needed shard has no owner that answers"
		}
		return fmt.Sprintf("ok shards=%d", n), ""
	}
	var pts []rpt
	var needed []*rshard
	known := false
	for _, sh := range r.shards {
		if !(sh.lo <= hi && sh.hi > lo) {
			continue
		}
		needed = append(needed, sh)
		if len(sh.pts) > 0 {
			known = true
		}
		// the field types must be learnable: from the coordinator's own store or from an owner
		// that answers at all
		metaOK := false
		for _, o := range sh.owners {
			if o == c || (r.status[o] != "down" && r.status[o] != "slow") {
				metaOK = true
			}
		}
		if !metaOK {
			return "error", "every owner down or refusing"
		}
	}
	if kind == "explain" {
		// the cost estimate counts every needed shard that exists once
		n := 0
		for _, sh := range needed {
			if len(sh.pts) > 0 {
				n++
			}
		}
		return fmt.Sprintf("ok shards=%d", n), ""
	}
	if !known && kind != "count" && kind != "count2" {
		return "ok -", "" // nobody knows the field: nothing is iterated anywhere
	}
	// (count counts values of any type: it builds its iterators even for a field nobody has,
	// so every needed shard must be servable)
	for _, sh := range needed {
		if ok, why := r.servable(c, sh); !ok {
			return "error", why
		}
		for k, v := range sh.pts {
			if k[1] >= lo && k[1] <= hi {
				pts = append(pts, rpt{int(k[0]), k[1], v})
			}
		}
	}
	if len(pts) == 0 {
		return "ok -", ""
	}
	switch kind {
	case "raw", "rawdesc":
		sort.Slice(pts, func(i, j int) bool {
			if kind == "raw" {
				return pts[i].t < pts[j].t
			}
			return pts[i].t > pts[j].t
		})
		var sb strings.Builder
		sb.WriteString("ok [m{}(time,v)")
		for _, p := range pts {
			fmt.Fprintf(&sb, " %d,%d", p.t, p.v)
		}
		sb.WriteString("]")
		return sb.String(), ""
	case "count":
		return fmt.Sprintf("ok [m{}(time,count) %d,%d]", lo, len(pts)), ""
	case "count2":
		return fmt.Sprintf("ok [m2{}(time,count) %d,%d]", lo, len(pts)), ""
	case "star", "star2", "both":
		sort.Slice(pts, func(i, j int) bool { return pts[i].t < pts[j].t })
		series := func(name, cols string, cell func(p rpt) string) string {
			var sb strings.Builder
			sb.WriteString("[" + name + "{}(" + cols + ")")
			for _, p := range pts {
				sb.WriteString(" " + cell(p))
			}
			sb.WriteString("]")
			return sb.String()
		}
		switch kind {
		case "star":
			return "ok " + series("m", "time,host,v", func(p rpt) string { return fmt.Sprintf("%d,h%d,%d", p.t, p.host, p.v) }), ""
		case "star2":
			return "ok " + series("m2", "time,host,w", func(p rpt) string { return fmt.Sprintf("%d,h%d,%d", p.t, p.host, p.v) }), ""
		}
		return "ok " + series("m", "time,host,v,w", func(p rpt) string { return fmt.Sprintf("%d,h%d,%d,null", p.t, p.host, p.v) }) +
			series("m2", "time,host,v,w", func(p rpt) string { return fmt.Sprintf("%d,h%d,null,%d", p.t, p.host, p.v) }), ""
	case "sum":
		sums := map[int]int64{}
		for _, p := range pts {
			sums[p.host] += p.v
		}
		var hosts []int
		for h := range sums {
			hosts = append(hosts, h)
		}
		sort.Ints(hosts)
		out := "ok "
		for _, h := range hosts {
			out += fmt.Sprintf("[m{host=h%d}(time,sum) %d,%d]", h, lo, sums[h])
		}
		return out, ""
	}
	return "?", ""
}

// Oracle: the property itself, from the ops alone — a query answers with the statement over
// the union of the needed shards (each once) when every needed shard can be read completely
// from the coordinator itself or a healthy owner, and with an error otherwise; never with
// anything else.
func (Prop) Oracle(c fw.Case, out []string) fw.Verdict {
	r := &ref{}
	slowOK := false
	for i, op := range c.Ops {
		if i >= len(out) {
			break
		}
		o := out[i]
		f := strings.Fields(op)
		if strings.HasPrefix(o, "panic") {
			return fw.Verdict{OK: false, Why: op + " => " + o, Signature: "panic in " + f[0]}
		}
		switch f[0] {
		case "creset":
			slowOK = len(f) > 2 && f[2] == "slow"
			r = &ref{n: int(i64(f[1]))}
			for k := 0; k < r.n; k++ {
				r.status = append(r.status, "up")
			}
		case "sg":
			for _, sh := range strings.Split(f[3], "/") {
				var os []int
				for _, x := range strings.Split(sh, ",") {
					os = append(os, int(i64(x)))
				}
				r.shards = append(r.shards, &rshard{lo: i64(f[1]), hi: i64(f[2]), owners: os, pts: map[[2]int64]int64{}})
			}
		case "data":
			idx := int(i64(f[1]))
			if idx < 0 || idx >= len(r.shards) {
				continue
			}
			n, t0, stp, vb := int(i64(f[2])), i64(f[3]), i64(f[4]), i64(f[5])
			for k := 0; k < n; k++ {
				r.shards[idx].pts[[2]int64{int64(idx % 2), t0 + int64(k)*stp}] = vb + int64(k)
			}
		case "down":
			if k := int(i64(f[1])); k >= 0 && k < r.n {
				r.status[k] = "down"
			}
		case "fault":
			k := int(i64(f[1]))
			if k < 0 || k >= r.n || r.status[k] == "down" {
				continue
			}
			switch {
			case f[2] == "none":
				r.status[k] = "up"
			case f[2] == "err":
				r.status[k] = "err"
			case f[2] == "cut":
				r.status[k] = "cut"
			case f[2] == "slow":
				if slowOK {
					r.status[k] = "slow"
				}
			case strings.HasPrefix(f[2], "mid:"):
				r.status[k] = "mid"
			}
		case "q":
			k := int(i64(f[1]))
			if k < 0 || k >= r.n || r.status[k] == "down" {
				continue
			}
			want, why := r.query(k, f[2], i64(f[3]), i64(f[4]))
			if o == want {
				continue
			}
			switch {
			case want == "error":
				sig := "a query answers although a needed shard could not be read completely"
				if strings.Contains(why, "drops between two frames") {
					sig = "a query answers with the part of a remote stream received before the connection dropped"
				}
				if f[2] == "showtv" {
					sig = "a tag values listing is silently incomplete when the only owners of a shard do not answer"
				}
				if f[2] == "explain" && o == "ok shards=0" {
					sig = "a cost estimate is empty although the only shards that know the field have no owner that answers"
				}
				return fw.Verdict{OK: false, Why: fmt.Sprintf("%s answered %.300s but %s: it must fail", op, o, why), Signature: sig}
			case o == "error":
				return fw.Verdict{OK: false, Why: fmt.Sprintf("%s failed although every needed shard has a local or healthy owner; expected %.300s", op, want), Signature: "a query fails although every needed shard can be served"}
			default:
				return fw.Verdict{OK: false, Why: fmt.Sprintf("%s answered %.400s, the union of the needed shards gives %.400s", op, o, want), Signature: "a query result differs from the union of the shards"}
			}
		case "served":
			if o != "served ?" && o != "served ok" {
				return fw.Verdict{OK: false, Why: "with every node healthy the serving log of the last query shows: " + o, Signature: "serving log: " + strings.Join(strings.FieldsFunc(strings.TrimPrefix(o, "served "), func(r rune) bool { return r >= '0' && r <= '9' }), "")}
			}
		}
	}
	return fw.Verdict{OK: true}
}
