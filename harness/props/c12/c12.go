// Package c12: line protocol parser and binary point form. Escape helpers, MakeKey/HashID and
// the binary framing are compared with the Lean model InfluxVerif.Points; the parser itself is
// judged by an oracle against the *intended meaning* of generated lines (the generator builds
// a point value first and prints it), plus re-parse identity, binary round trip, tag-order
// independence and no-panic on arbitrary bytes.
package c12

import (
	"encoding/hex"
	"fmt"
	"math"
	"math/big"
	"sort"
	"strconv"
	"strings"
	"time"

	"github.com/influxdata/influxdb/models"
	"github.com/influxdata/influxdb/pkg/escape"
	"verifharness/fw"
)

type Prop struct{}

func (Prop) ID() string    { return "C12" }
func (Prop) Model() string { return "c12" }
func (Prop) Parallel() int { return 16 }
func (Prop) Describe(cfg *fw.Config) {
	cfg.Rule = "points built from structured values (names/tags/field keys with commas, spaces, equals, quotes, backslashes before ordinary characters, UTF-8; empty and duplicate tags; all numeric forms incl. int64/uint64 extremes, exponents, +/-0; booleans in all spellings; strings with quotes, backslashes and newlines; all six precisions; extreme timestamps), printed as line protocol and parsed by the real parser: result compared with the intended value; the same points re-parsed from String(), sent through MarshalBinary/NewPointFromBytes, re-ordered tags; requests mixing valid and malformed lines; byte-level mutations and random bytes into ParsePoints and NewPointFromBytes (no panic); escape/key/hash/binary-framing functions vs the model on the same strings; non-trivial = a line needing escapes or an extreme, or a malformed request; distinct = distinct op list"
}

func hx(b []byte) string {
	if len(b) == 0 {
		return "-"
	}
	return hex.EncodeToString(b)
}
func unhx(s string) []byte {
	if s == "-" {
		return nil
	}
	b, _ := hex.DecodeString(s)
	return b
}

// ---- intended points ----

type field struct {
	key  string
	kind byte // f i u b s
	f    float64
	i    int64
	u    uint64
	b    bool
	s    string
	text string // how it is written
}

type ipoint struct {
	name   string
	tags   [][2]string
	fields []field
	hasT   bool
	t      int64 // in units of the precision
}

var alphabet = []string{"a", "b", "cpu", "host", "x1", ",", " ", "=", "\"", "\\q", "é", "日本", "_", "-", ".", "0", "T", "\\a"}

func genIdent(r *fw.Rand, allowQuote bool) string {
	n := 1 + r.Intn(4)
	var s string
	for i := 0; i < n; i++ {
		a := alphabet[r.Intn(len(alphabet))]
		if a == "\"" && !allowQuote {
			a = "q"
		}
		s += a
	}
	// the text format cannot represent a backslash right before a separator or at the end
	s = strings.TrimRight(s, "\\")
	for _, bad := range []string{"\\,", "\\ ", "\\=", "\\\""} {
		s = strings.ReplaceAll(s, bad, "z")
	}
	if s == "" {
		s = "m"
	}
	return s
}

func genField(r *fw.Rand, key string) field {
	f := field{key: key}
	switch r.Intn(9) {
	case 0, 1:
		f.kind = 'f'
		vals := []float64{0, 1, -1, 1.5, -2.25, 1e10, 1e-10, 123456789.125, math.MaxFloat64, math.SmallestNonzeroFloat64, -0.0, 3.0,
			-math.MaxFloat64, 1e308, -1e308, 1.5e308, 1e25, 1e26, 123456789012345678901234567.0, 1e-300}
		f.f = vals[r.Intn(len(vals))]
		if r.Chance(0.3) {
			f.f = float64(int64(r.U64()>>12)) / 1024
		}
		switch r.Intn(3) {
		case 0:
			f.text = strconv.FormatFloat(f.f, 'g', -1, 64)
		case 1:
			f.text = strconv.FormatFloat(f.f, 'e', -1, 64)
		default:
			f.text = strconv.FormatFloat(f.f, 'f', -1, 64)
		}
	case 2, 3:
		f.kind = 'i'
		vals := []int64{0, 1, -1, math.MaxInt64, math.MinInt64, 42, -9000}
		f.i = vals[r.Intn(len(vals))]
		if r.Chance(0.3) {
			f.i = int64(r.U64())
		}
		f.text = strconv.FormatInt(f.i, 10) + "i"
	case 4:
		// (unsigned fields need a build with the uint tag; the default build rejects the suffix)
		f.kind = 'i'
		f.i = int64(r.Intn(1000)) - 500
		f.text = strconv.FormatInt(f.i, 10) + "i"
	case 5:
		f.kind = 'b'
		f.b = r.Bool()
		if f.b {
			f.text = []string{"t", "T", "true", "True", "TRUE"}[r.Intn(5)]
		} else {
			f.text = []string{"f", "F", "false", "False", "FALSE"}[r.Intn(5)]
		}
	default:
		f.kind = 's'
		parts := []string{"hello", " ", ",", "=", "\"", "\\", "\n", "é", "", "a b", "\\\\", "\"\""}
		n := r.Intn(4)
		for i := 0; i < n; i++ {
			f.s += parts[r.Intn(len(parts))]
		}
		f.text = `"` + strings.NewReplacer(`"`, `\"`, `\`, `\\`).Replace(f.s) + `"`
	}
	return f
}

func genPoint(r *fw.Rand, prec string) ipoint {
	p := ipoint{name: genIdent(r, true)}
	if strings.HasPrefix(p.name, "#") {
		p.name = "m" + p.name
	}
	nt := r.Intn(4)
	seen := map[string]bool{}
	for i := 0; i < nt; i++ {
		k := genIdent(r, true)
		if seen[k] {
			continue
		}
		seen[k] = true
		p.tags = append(p.tags, [2]string{k, genIdent(r, true)})
	}
	nf := 1 + r.Intn(3)
	fseen := map[string]bool{}
	for i := 0; i < nf; i++ {
		k := genIdent(r, true)
		if fseen[k] {
			continue
		}
		fseen[k] = true
		p.fields = append(p.fields, genField(r, k))
	}
	if r.Chance(0.8) {
		p.hasT = true
		mult := models.GetPrecisionMultiplier(prec)
		switch r.Intn(7) {
		case 0:
			p.t = models.MaxNanoTime / mult
		case 1:
			p.t = models.MinNanoTime/mult + 1
		case 2:
			p.t = 0
		case 3:
			// a timestamp from the boundary set that is in range at this precision
			p.t = 0
			if in, _ := boundaryTimes(prec); len(in) > 0 {
				p.t = in[r.Intn(len(in))]
			}
		default:
			p.t = int64(1600000000)*int64(time.Second)/mult + int64(r.Intn(100000))
		}
	}
	return p
}

var tagEsc = strings.NewReplacer(",", "\\,", " ", "\\ ", "=", "\\=")
var measEsc = strings.NewReplacer(",", "\\,", " ", "\\ ")

// boundaryTimes: timestamps around the limits of the precision — those whose value in
// nanoseconds lies in [MinNanoTime, MaxNanoTime] and those outside (computed without overflow).
func boundaryTimes(prec string) (in, out []int64) {
	mult := models.GetPrecisionMultiplier(prec)
	cand := []int64{models.MaxNanoTime / mult, models.MaxNanoTime/mult + 1, models.MaxNanoTime/mult + 2, models.MinNanoTime / mult, models.MinNanoTime/mult - 1,
		math.MaxInt64, math.MinInt64, math.MaxInt64 / 2, 1<<31 - 1, -(1 << 31), 1 << 31, 1 << 32, 1 << 40, -(1 << 40), 1 << 53, 1 << 62,
		1700000000, 1700000000000, 1700000000000000, 153722867, 153722868, 2562047, 2562048, 5124096, 9223372036, 9223372037, 9223372036854, 9223372036855}
	lo, hi := big.NewInt(models.MinNanoTime), big.NewInt(models.MaxNanoTime)
	for _, c := range cand {
		v := new(big.Int).Mul(big.NewInt(c), big.NewInt(mult))
		if v.Cmp(lo) >= 0 && v.Cmp(hi) <= 0 {
			in = append(in, c)
		} else {
			out = append(out, c)
		}
	}
	return
}

// badNumberLines: lines that must be refused because a number does not fit its type: a
// timestamp out of range at this precision, a float beyond MaxFloat64 written in plain decimal
// (309 and 310 digits) or with an exponent, an integer beyond int64.
func badNumberLines(r *fw.Rand, prec string) []string {
	var out []string
	if _, o := boundaryTimes(prec); len(o) > 0 {
		for k := 0; k < 3; k++ {
			out = append(out, fmt.Sprintf("m v=1 %d", o[r.Intn(len(o))]))
		}
	}
	z := strings.Repeat("0", 308)
	out = append(out, "m v=2"+z, "m v=-2"+z, "m v="+strings.Repeat("9", 309), "m v=-"+strings.Repeat("9", 309), "m v=18"+z[:307], "m v=1"+z+"0",
		"m v=1e309", "m v=-1e309", "m v=1.8e308", "m v=2"+z+".5", "m v=9223372036854775808i", "m v=-9223372036854775809i")
	return out
}

func (p ipoint) line(r *fw.Rand) string {
	var b strings.Builder
	b.WriteString(measEsc.Replace(p.name))
	tags := append([][2]string(nil), p.tags...)
	if r != nil { // any order in the input
		for i := len(tags) - 1; i > 0; i-- {
			j := r.Intn(i + 1)
			tags[i], tags[j] = tags[j], tags[i]
		}
	}
	for _, t := range tags {
		b.WriteString("," + tagEsc.Replace(t[0]) + "=" + tagEsc.Replace(t[1]))
	}
	b.WriteString(" ")
	for i, f := range p.fields {
		if i > 0 {
			b.WriteString(",")
		}
		b.WriteString(tagEsc.Replace(f.key) + "=" + f.text)
	}
	if p.hasT {
		b.WriteString(" " + strconv.FormatInt(p.t, 10))
	}
	return b.String()
}

// canonical meaning: name|sorted tags|sorted fields with type and bits|time in ns
func (p ipoint) canon(prec string) string {
	tags := append([][2]string(nil), p.tags...)
	sort.Slice(tags, func(i, j int) bool { return tags[i][0] < tags[j][0] })
	var ts []string
	for _, t := range tags {
		ts = append(ts, hx([]byte(t[0]))+"="+hx([]byte(t[1])))
	}
	var fs []string
	for _, f := range p.fields {
		v := ""
		switch f.kind {
		case 'f':
			v = fmt.Sprintf("f:%016x", math.Float64bits(f.f))
		case 'i':
			v = fmt.Sprintf("i:%d", f.i)
		case 'u':
			v = fmt.Sprintf("u:%d", f.u)
		case 'b':
			v = fmt.Sprintf("b:%v", f.b)
		default:
			v = "s:" + hx([]byte(f.s))
		}
		fs = append(fs, hx([]byte(f.key))+"="+v)
	}
	sort.Strings(fs)
	t := strconv.FormatInt(defTime.Truncate(time.Duration(models.GetPrecisionMultiplier(prec))).UnixNano(), 10)
	if p.hasT {
		t = strconv.FormatInt(p.t*models.GetPrecisionMultiplier(prec), 10)
	}
	return hx([]byte(p.name)) + "|" + strings.Join(ts, ",") + "|" + strings.Join(fs, ",") + "|" + t
}

var defTime = time.Unix(0, 1234567890123456789).UTC()

func canonOf(p models.Point, defaultTime time.Time) (string, error) {
	var ts []string
	ptags := p.Tags().Clone()
	sort.Slice(ptags, func(i, j int) bool { return string(ptags[i].Key) < string(ptags[j].Key) })
	for _, t := range ptags {
		ts = append(ts, hx(t.Key)+"="+hx(t.Value))
	}
	fields, err := p.Fields()
	if err != nil {
		return "", err
	}
	var fs []string
	for k, v := range fields {
		s := ""
		switch x := v.(type) {
		case float64:
			s = fmt.Sprintf("f:%016x", math.Float64bits(x))
		case int64:
			s = fmt.Sprintf("i:%d", x)
		case uint64:
			s = fmt.Sprintf("u:%d", x)
		case bool:
			s = fmt.Sprintf("b:%v", x)
		case string:
			s = "s:" + hx([]byte(x))
		}
		fs = append(fs, hx([]byte(k))+"="+s)
	}
	sort.Strings(fs)
	t := strconv.FormatInt(p.UnixNano(), 10)
	return hx(p.Name()) + "|" + strings.Join(ts, ",") + "|" + strings.Join(fs, ",") + "|" + t, nil
}

var precisions = []string{"n", "u", "ms", "s", "m", "h"}

// genFieldKey: field keys may hold a backslash in front of any byte (they are escaped
// without being unescaped first), but not at the very end.
func genFieldKey(r *fw.Rand) string {
	parts := []string{"a", "k", "\\", ",", " ", "=", "\"", "é", "x1", "\\\\", "\\,", "\\\"", "\\ ", "\\="}
	var s string
	for i := 0; i < 1+r.Intn(4); i++ {
		s += parts[r.Intn(len(parts))]
	}
	s = strings.TrimRight(s, "\\")
	if s == "" {
		s = "k"
	}
	return s
}

func genNP(r *fw.Rand) string {
	name := genIdent(r, false)
	tagm := map[string]string{}
	for i := r.Intn(4); i > 0; i-- {
		tagm[genIdent(r, false)] = genIdent(r, false)
	}
	var tkeys []string
	for k := range tagm {
		tkeys = append(tkeys, k)
	}
	sort.Strings(tkeys)
	var tg []string
	for _, k := range tkeys {
		tg = append(tg, hx([]byte(k))+":"+hx([]byte(tagm[k])))
	}
	tags := "-"
	if len(tg) > 0 {
		tags = strings.Join(tg, ",")
	}
	fm := map[string]string{}
	for i := 1 + r.Intn(4); i > 0; i-- {
		k := genFieldKey(r)
		switch r.Intn(6) {
		case 0:
			vals := []float64{0, 1, -1, 1.5, -2.25, 1e10, 1e-10, 123456789.125, math.MaxFloat64, math.SmallestNonzeroFloat64, 3.0}
			fm[k] = fmt.Sprintf("f:%016x", math.Float64bits(vals[r.Intn(len(vals))]))
		case 1:
			vals := []int64{0, 1, -1, math.MaxInt64, math.MinInt64, 42}
			fm[k] = fmt.Sprintf("i:%d", vals[r.Intn(len(vals))])
		case 2:
			vals := []uint64{0, 1, 42, math.MaxInt64, 1 << 63, math.MaxUint64, 1<<63 + 5}
			fm[k] = fmt.Sprintf("u:%d", vals[r.Intn(len(vals))])
		case 3:
			fm[k] = "b:" + []string{"T", "F"}[r.Intn(2)]
		default:
			parts := []string{"hello", " ", ",", "=", "\"", "\\", "\n", "é", "a b", "\\\\", "\"\""}
			var v string
			for j := r.Intn(4); j > 0; j-- {
				v += parts[r.Intn(len(parts))]
			}
			fm[k] = "s:" + hx([]byte(v))
		}
	}
	var fkeys []string
	for k := range fm {
		fkeys = append(fkeys, k)
	}
	sort.Strings(fkeys)
	var fl []string
	for _, k := range fkeys {
		fl = append(fl, hx([]byte(k))+":"+fm[k])
	}
	t := []int64{0, 1, -1, 1600000000000000000, models.MinNanoTime, models.MaxNanoTime}[r.Intn(6)]
	return fmt.Sprintf("np %s %s %s %d", hx([]byte(name)), tags, strings.Join(fl, ","), t)
}

func (Prop) Generate(r *fw.Rand, tier string) []fw.Case {
	n := 600
	if tier == "thorough" {
		n = 300000
	}
	var cases []fw.Case
	for i := 0; i < n; i++ {
		prec := precisions[r.Intn(len(precisions))]
		var ops []string
		switch r.Intn(5) {
		case 0, 1, 2:
			// request of 1-4 lines, possibly with a malformed one in the middle
			k := 1 + r.Intn(4)
			var lines, canons []string
			badAt := -1
			if r.Chance(0.35) {
				badAt = r.Intn(k + 1)
			}
			for j := 0; j <= k; j++ {
				if j == badAt {
					bad := []string{"cpu", "cpu value", "cpu,host value=1", "cpu value=", "cpu value=1 notatime", ",a=b v=1", "cpu,=b v=1", "cpu v=1i2", "cpu,a=1,a=2 v=1", "cpu v=1e9999", "cpu v=99999999999999999999i", "m v=1 1 1", "m,t v=1"}
					if r.Intn(2) == 0 {
						bad = badNumberLines(r, prec)
					}
					lines = append(lines, bad[r.Intn(len(bad))])
					continue
				}
				if j == k {
					break
				}
				p := genPoint(r, prec)
				lines = append(lines, p.line(r))
				canons = append(canons, p.canon(prec))
			}
			nbad := 0
			if badAt >= 0 && badAt <= k {
				nbad = 1
			}
			ops = append(ops, fmt.Sprintf("line %s %s %d %s", prec, hx([]byte(strings.Join(lines, "\n"))), nbad, hx([]byte(strings.Join(canons, "\n")))))
		case 3:
			// escape / key / binary functions on the same strings
			s := []byte(genIdent(r, true) + alphabet[r.Intn(len(alphabet))] + "\\")
			if r.Chance(0.5) {
				s = []byte(genIdent(r, true))
			}
			for _, k := range []string{"m", "t", "s", "k"} {
				ops = append(ops, "esc "+k+" "+hx(s), "unesc "+k+" "+hx(s))
			}
			ops = append(ops, genNP(r))
			p := genPoint(r, "n")
			var tg []string
			for _, t := range p.tags {
				tg = append(tg, hx([]byte(t[0]))+":"+hx([]byte(t[1])))
			}
			tags := "-"
			if len(tg) > 0 {
				tags = strings.Join(tg, ",")
			}
			ops = append(ops, "key "+hx([]byte(p.name))+" "+tags)
			// binary framing of a parsed point, and of its truncations
			pts, err := models.ParsePointsWithPrecision([]byte(p.line(nil)), time.Unix(0, 0), "n")
			if err == nil && len(pts) == 1 {
				if b, err := pts[0].MarshalBinary(); err == nil {
					k, f, tb := sections(pts[0])
					_, _, _ = k, f, tb
					ops = append(ops, "unbin "+hx(b))
					cut := r.Intn(len(b))
					if cut < len(b)-15 || cut == len(b) {
						ops = append(ops, "unbin "+hx(b[:cut]))
					}
				}
			}
		default:
			// arbitrary bytes / mutations
			p := genPoint(r, prec)
			l := []byte(p.line(r))
			for m := 0; m < 1+r.Intn(3); m++ {
				if len(l) == 0 {
					break
				}
				switch r.Intn(4) {
				case 0:
					l[r.Intn(len(l))] = byte(r.U64())
				case 1:
					l = l[:r.Intn(len(l))]
				case 2:
					i := r.Intn(len(l))
					l = append(l[:i], append([]byte{[]byte(",= \"\\\n\x00\xff")[r.Intn(8)]}, l[i:]...)...)
				default:
					l = append(l, byte(r.U64()))
				}
			}
			ops = append(ops, "fuzz "+hx(l))
			rb := make([]byte, r.Intn(60))
			for j := range rb {
				rb[j] = byte(r.U64())
			}
			ops = append(ops, "fuzz "+hx(rb))
		}
		cases = append(cases, fw.Case{Ops: ops})
	}
	return cases
}

// sections returns key, fields text and time bytes of a point, using only its public API.
func sections(p models.Point) (key, fields, tb []byte) {
	key = p.Key()
	s := p.String() // "<key> <fields> <unixnano>"
	rest := s[len(key)+1:]
	idx := strings.LastIndexByte(rest, ' ')
	fields = []byte(rest[:idx])
	tb, _ = p.Time().MarshalBinary()
	return
}

func runOp(op string) (out string) {
	defer func() {
		if r := recover(); r != nil {
			out = strings.Fields(op)[0] + " PANIC:" + strings.ReplaceAll(fmt.Sprint(r), " ", "_")
		}
	}()
	f := strings.Fields(op)
	switch f[0] {
	case "esc":
		b := unhx(f[2])
		switch f[1] {
		case "m":
			return "ok " + hx(models.EscapeMeasurement(append([]byte(nil), b...)))
		case "t":
			return "ok " + hx(models.VerifEscapeTag(b))
		case "k":
			return "ok " + hx(escape.Bytes(append([]byte(nil), b...)))
		default:
			return "ok " + hx([]byte(models.EscapeStringField(string(b))))
		}
	case "np":
		return npOp(f)
	case "unesc":
		b := unhx(f[2])
		switch f[1] {
		case "m":
			return "ok " + hx(models.VerifUnescapeMeasurement(b))
		case "t":
			return "ok " + hx(models.VerifUnescapeTag(b))
		case "k":
			return "ok " + hx(escape.AppendUnescaped(nil, b))
		default:
			return "ok " + hx([]byte(models.VerifUnescapeStringField(string(b))))
		}
	case "key":
		m := map[string]string{}
		if f[2] != "-" {
			for _, kv := range strings.Split(f[2], ",") {
				p := strings.Split(kv, ":")
				m[string(unhx(p[0]))] = string(unhx(p[1]))
			}
		}
		key := models.MakeKey(unhx(f[1]), models.NewTags(m))
		h := models.NewInlineFNV64a()
		h.Write(key)
		return fmt.Sprintf("ok %s %d", hx(key), h.Sum64())
	case "bin":
		// the marshalled form of the point whose sections these are: rebuild via the text form
		k, fl, tb := unhx(f[1]), unhx(f[2]), unhx(f[3])
		var t time.Time
		if err := t.UnmarshalBinary(tb); err != nil {
			return "err"
		}
		pts, err := models.ParsePointsWithPrecision([]byte(string(k)+" "+string(fl)+" "+strconv.FormatInt(t.UnixNano(), 10)), time.Unix(0, 0), "n")
		if err != nil || len(pts) != 1 {
			return "err"
		}
		b, err := pts[0].MarshalBinary()
		if err != nil {
			return "err"
		}
		return "ok " + hx(b)
	case "unbin":
		p, err := models.NewPointFromBytes(unhx(f[1]))
		if err != nil {
			return "err"
		}
		k, fl, tb := sections(p)
		return "ok " + hx(k) + " " + hx(fl) + " " + hx(tb)
	case "line":
		return lineOracle(f)
	case "fuzz":
		b := unhx(f[1])
		pts, _ := models.ParsePoints(b)
		for _, p := range pts {
			exercise(p)
		}
		if p, err := models.NewPointFromBytes(b); err == nil && p != nil {
			exercise(p)
		}
		return "fuzz ok"
	}
	return "bad-op"
}

// npOp: a point built through the API (as the collectd/graphite/opentsdb/udp inputs and the
// cluster's own forwarding do) must come back exactly as given from its text form and from its
// binary form.
func npOp(f []string) string {
	name := string(unhx(f[1]))
	tags := map[string]string{}
	if f[2] != "-" {
		for _, kv := range strings.Split(f[2], ",") {
			p := strings.Split(kv, ":")
			tags[string(unhx(p[0]))] = string(unhx(p[1]))
		}
	}
	fields := models.Fields{}
	hasUint := false
	for _, kv := range strings.Split(f[3], ",") {
		p := strings.Split(kv, ":")
		k := string(unhx(p[0]))
		switch p[1] {
		case "f":
			bits, _ := strconv.ParseUint(p[2], 16, 64)
			fields[k] = math.Float64frombits(bits)
		case "i":
			v, _ := strconv.ParseInt(p[2], 10, 64)
			fields[k] = v
		case "u":
			v, _ := strconv.ParseUint(p[2], 10, 64)
			fields[k] = v
			hasUint = true
		case "b":
			fields[k] = p[2] == "T"
		default:
			fields[k] = string(unhx(p[2]))
		}
	}
	t, _ := strconv.ParseInt(f[4], 10, 64)
	pt, err := models.NewPoint(name, models.NewTags(tags), fields, time.Unix(0, t))
	if err != nil {
		return "np err:" + strings.ReplaceAll(err.Error(), " ", "_")
	}
	render := func(p models.Point) string {
		// tags in the order of their unescaped keys (models.NewTags): the text parser orders
		// them by their escaped keys, which differs when a key starts with an escaped byte;
		// that difference between the two input paths is recorded as an observation in
		// DESIGN.md and is not part of this comparison
		tagList := append(models.Tags(nil), p.Tags()...)
		sort.Sort(tagList)
		var tg []string
		for _, x := range tagList {
			tg = append(tg, hx(x.Key)+":"+hx(x.Value))
		}
		ts := "-"
		if len(tg) > 0 {
			ts = strings.Join(tg, ",")
		}
		fs, err := p.Fields()
		if err != nil {
			return "fields-err:" + strings.ReplaceAll(err.Error(), " ", "_")
		}
		var keys []string
		for k := range fs {
			keys = append(keys, k)
		}
		sort.Strings(keys)
		var fl []string
		for _, k := range keys {
			switch v := fs[k].(type) {
			case float64:
				fl = append(fl, fmt.Sprintf("%s:f:%016x", hx([]byte(k)), math.Float64bits(v)))
			case int64:
				fl = append(fl, fmt.Sprintf("%s:i:%d", hx([]byte(k)), v))
			case uint64:
				fl = append(fl, fmt.Sprintf("%s:u:%d", hx([]byte(k)), v))
			case bool:
				b := "F"
				if v {
					b = "T"
				}
				fl = append(fl, hx([]byte(k))+":b:"+b)
			case string:
				fl = append(fl, hx([]byte(k))+":s:"+hx([]byte(v)))
			}
		}
		return fmt.Sprintf("ok %s %s %s %d", hx(p.Name()), ts, strings.Join(fl, ","), p.UnixNano())
	}
	b, err := pt.MarshalBinary()
	if err != nil {
		return "np marshal-err"
	}
	q, err := models.NewPointFromBytes(b)
	if err != nil {
		return "np BINARY-REJECTED:" + strings.ReplaceAll(err.Error(), " ", "_")
	}
	viaBin := render(q)
	// the text form cannot carry a field key with a backslash right in front of a separator
	// (the line scanner reads any backslash as escaping the next byte), and the text parser of
	// the default build has no unsigned suffix: those points are checked through the binary
	// form only
	textOK := !hasUint
	for k := range fields {
		for _, bad := range []string{"\\,", "\\ ", "\\=", "\\\""} {
			if strings.Contains(k, bad) {
				textOK = false
			}
		}
	}
	if textOK {
		ps, err := models.ParsePointsWithPrecision([]byte(pt.String()), time.Unix(0, 0), "n")
		if err != nil || len(ps) != 1 {
			return fmt.Sprintf("np TEXT-REJECTED:%q", pt.String())
		}
		if viaText := render(ps[0]); viaText != viaBin {
			return "np TEXT-DIFFERS text=" + viaText + " binary=" + viaBin
		}
	}
	return viaBin
}

func exercise(p models.Point) {
	_ = p.String()
	_, _ = p.Fields()
	_ = p.Tags()
	_ = p.HashID()
	it := p.FieldIterator()
	for it.Next() {
		switch it.Type() {
		case models.String:
			_ = it.StringValue()
		case models.Float:
			_, _ = it.FloatValue()
		case models.Integer:
			_, _ = it.IntegerValue()
		case models.Unsigned:
			_, _ = it.UnsignedValue()
		case models.Boolean:
			_, _ = it.BooleanValue()
		}
	}
	if b, err := p.MarshalBinary(); err == nil {
		if q, err := models.NewPointFromBytes(b); err == nil {
			_ = q.String()
		}
	}
}

func lineOracle(f []string) string {
	prec := f[1]
	text := unhx(f[2])
	nbad, _ := strconv.Atoi(f[3])
	want := strings.Split(string(unhx(f[4])), "\n")
	if f[4] == "-" {
		want = nil
	}
	def := defTime
	pts, err := models.ParsePointsWithPrecision(text, def, prec)
	if nbad == 0 && err != nil {
		return "line REJECTED-VALID:" + strings.ReplaceAll(err.Error(), " ", "_")
	}
	if nbad > 0 && err == nil {
		return "line ACCEPTED-MALFORMED"
	}
	if len(pts) != len(want) {
		return fmt.Sprintf("line COUNT:%d_want_%d", len(pts), len(want))
	}
	for i, p := range pts {
		got, err := canonOf(p, def)
		if err != nil {
			return "line FIELDS-ERR"
		}
		if got != want[i] {
			return "line MEANING:" + got + "_want_" + want[i]
		}
		// written back as text and parsed again: the same point
		again, err := models.ParsePointsWithPrecision([]byte(p.String()), def, "n")
		if err != nil || len(again) != 1 {
			return "line REPARSE-ERR"
		}
		g2, _ := canonOf(again[0], def)
		w2 := got
		if g2 != w2 || string(again[0].Key()) != string(p.Key()) {
			return "line REPARSE:" + g2 + "_want_" + w2
		}
		// binary form
		b, err := p.MarshalBinary()
		if err != nil {
			return "line MARSHAL-ERR"
		}
		q, err := models.NewPointFromBytes(b)
		if err != nil {
			return "line UNMARSHAL-ERR:" + strings.ReplaceAll(err.Error(), " ", "_")
		}
		g3, _ := canonOf(q, def)
		if g3 != got || q.HashID() != p.HashID() || string(q.Key()) != string(p.Key()) {
			return "line BINARY:" + g3
		}
		// canonical key: whatever order the tags came in, the key and the hash are the same
		tags := p.Tags()
		if len(tags) > 1 {
			var b strings.Builder
			b.WriteString(measEsc.Replace(string(p.Name())))
			for j := len(tags) - 1; j >= 0; j-- {
				b.WriteString("," + tagEsc.Replace(string(tags[j].Key)) + "=" + tagEsc.Replace(string(tags[j].Value)))
			}
			b.WriteString(" v=1 1")
			rev, err := models.ParsePointsWithPrecision([]byte(b.String()), def, "n")
			if err != nil || len(rev) != 1 {
				return "line REORDER-ERR"
			}
			if string(rev[0].Key()) != string(p.Key()) || rev[0].HashID() != p.HashID() {
				return "line KEY-DEPENDS-ON-TAG-ORDER:" + hx(rev[0].Key()) + "_vs_" + hx(p.Key())
			}
		}
	}
	return "line ok"
}

func (Prop) RunImpl(c fw.Case) []string {
	out := make([]string, len(c.Ops))
	for i, op := range c.Ops {
		out[i] = runOp(op)
	}
	return out
}

func (Prop) Oracle(c fw.Case, out []string) fw.Verdict {
	for i, o := range out {
		f := strings.Fields(c.Ops[i])
		switch {
		case strings.Contains(o, "PANIC"):
			return fw.Verdict{OK: false, Why: fmt.Sprintf("%.300s => %.200s", c.Ops[i], o), Signature: "panic in " + f[0]}
		case f[0] == "line" && o != "line ok":
			text := string(unhx(f[2]))
			return fw.Verdict{OK: false, Why: fmt.Sprintf("request %q (precision %s): %.400s", text, f[1], o), Signature: "line " + strings.SplitN(strings.TrimPrefix(o, "line "), ":", 2)[0]}
		case f[0] == "np" && o != "ok "+strings.Join(f[1:], " "):
			// the round trip of a point built through the API is the identity
			sig := "np " + strings.SplitN(strings.TrimPrefix(o, "np "), ":", 2)[0]
			if strings.HasPrefix(o, "ok ") {
				sig = "np comes back different through the binary form"
			}
			return fw.Verdict{OK: false, Why: fmt.Sprintf("%.400s came back as %.600s", c.Ops[i], o), Signature: sig}
		case f[0] == "esc" && f[1] == "k" && i+1 < len(out) && strings.HasPrefix(o, "ok "):
			// field keys: reading back what was written gives the key (escape.String then
			// escape.AppendUnescaped), for every byte string
			if back := hx(escape.AppendUnescaped(nil, unhx(strings.TrimPrefix(o, "ok ")))); back != f[2] {
				return fw.Verdict{OK: false, Why: fmt.Sprintf("field key %q is written as %q and read back as %q", unhx(f[2]), unhx(strings.TrimPrefix(o, "ok ")), unhx(back)), Signature: "field key does not read back"}
			}
		}
	}
	return fw.Verdict{OK: true}
}

func (Prop) Trivial(c fw.Case, out []string) bool {
	for _, op := range c.Ops {
		if strings.HasPrefix(op, "fuzz") || strings.HasPrefix(op, "esc") {
			return false
		}
		if strings.HasPrefix(op, "line") {
			f := strings.Fields(op)
			if f[3] != "0" || strings.Contains(string(unhx(f[2])), "\\") {
				return false
			}
		}
	}
	return true
}
