/-
C08 — Every point is routed to exactly one, well-defined shard.
Theorems over `InfluxVerif.Routing` (sgList + MapShards) and the metadata model.
-/
import InfluxVerif.Model.Routing
import InfluxVerif.Props.C06
import Mathlib.Data.List.Basic

namespace InfluxVerif.Routing
open InfluxVerif.Meta

theorem mem_insertSorted {α} (lt : α → α → Bool) (x y : α) (l : List α) :
    y ∈ insertSorted lt x l ↔ y = x ∨ y ∈ l := by
  induction l with
  | nil => simp [insertSorted]
  | cons z zs ih =>
    simp only [insertSorted]
    split
    · simp
    · simp only [List.mem_cons, ih]
      constructor
      · rintro (h | h | h)
        · exact Or.inr (Or.inl h)
        · exact Or.inl h
        · exact Or.inr (Or.inr h)
      · rintro (h | h | h)
        · exact Or.inr (Or.inl h)
        · exact Or.inl h
        · exact Or.inr (Or.inr h)

theorem mem_sortBy {α} (lt : α → α → Bool) (y : α) (l : List α) : y ∈ sortBy lt l ↔ y ∈ l := by
  unfold sortBy
  have : ∀ acc : List α, y ∈ l.foldl (fun acc x => insertSorted lt x acc) acc ↔ y ∈ acc ∨ y ∈ l := by
    induction l with
    | nil => simp
    | cons x xs ih =>
      intro acc
      simp only [List.foldl_cons, ih, mem_insertSorted, List.mem_cons]
      constructor
      · rintro ((h | h) | h)
        · exact Or.inr (Or.inl h)
        · exact Or.inl h
        · exact Or.inr (Or.inr h)
      · rintro (h | h | h)
        · exact Or.inl (Or.inr h)
        · exact Or.inl (Or.inl h)
        · exact Or.inr h
  simpa using this []

/-- **Soundness of the lookup.** Whatever is in the list, in whatever order it was added:
the group returned for `t` is one of the list's groups and `t` lies in its *effective*
range — never at or after a truncation time. No disjointness assumption is needed. -/
theorem shardGroupAt_sound (l : SgList) (t : Int) (g : SG) (h : l.shardGroupAt t = some g) :
    g ∈ l.items ∧ g.start ≤ t ∧ t < g.effEnd := by
  unfold SgList.shardGroupAt at h
  split at h
  · cases h
  · have hfb : ∀ g, SgList.shardGroupAt.fallback l t (sortBy sgLt l.items) = some g →
        g ∈ l.items ∧ g.start ≤ t ∧ t < g.effEnd := by
      intro g hg
      unfold SgList.shardGroupAt.fallback at hg
      split at hg
      · split at hg
        · cases hg
        · have hm := List.mem_of_find?_eq_some hg
          have hp := List.find?_some hg
          simp only [containsEff, Bool.and_eq_true, decide_eq_true_eq] at hp
          exact ⟨(mem_sortBy _ _ _).1 hm, hp.1, hp.2⟩
      · cases hg
    simp only at h
    split at h
    · rename_i g' hfind
      split at h
      · exact hfb g h
      · rename_i hst
        simp only [Option.some.injEq] at h
        subst h
        have hm := List.mem_of_find?_eq_some hfind
        have hp := List.find?_some hfind
        simp only [gt_iff_lt, decide_eq_true_eq] at hp
        exact ⟨(mem_sortBy _ _ _).1 hm, by omega, hp⟩
    · exact hfb g h

/-- `earliest`/`latest` bracket every group added so far -/
def SgList.Bracketed (l : SgList) : Prop :=
  ∀ g ∈ l.items, (∃ e, l.earliest = some e ∧ e ≤ g.start) ∧ (∃ la, l.latest = some la ∧ g.stop ≤ la)

theorem bracketed_empty : SgList.Bracketed {} := by
  intro g hg; simp at hg

theorem bracketed_add (l : SgList) (g : SG) (h : l.Bracketed) : (l.add g).Bracketed := by
  intro g' hg'
  simp only [SgList.add, List.mem_append, List.mem_singleton] at hg'
  rcases hg' with hg' | rfl
  · obtain ⟨⟨e, he, hle⟩, ⟨la, hla, hge⟩⟩ := h g' hg'
    simp only [SgList.add, he, hla]
    constructor
    · split
      · exact ⟨_, rfl, by omega⟩
      · exact ⟨_, rfl, hle⟩
    · split
      · exact ⟨_, rfl, by omega⟩
      · exact ⟨_, rfl, hge⟩
  · simp only [SgList.add]
    constructor
    · cases l.earliest with
      | none => exact ⟨_, rfl, Int.le_refl _⟩
      | some e => simp only; split
                  · exact ⟨_, rfl, Int.le_refl _⟩
                  · exact ⟨_, rfl, by omega⟩
    · cases l.latest with
      | none => exact ⟨_, rfl, Int.le_refl _⟩
      | some e => simp only; split
                  · exact ⟨_, rfl, Int.le_refl _⟩
                  · exact ⟨_, rfl, by omega⟩

/-- **Completeness of the lookup: no silent drop.** If some group of the list holds `t` in
its effective range (and truncation lies within the group's nominal range), a group is found. -/
theorem shardGroupAt_complete (l : SgList) (hb : l.Bracketed) (t : Int) (g : SG)
    (hg : g ∈ l.items) (hs : g.start ≤ t) (he : t < g.effEnd) (hte : g.effEnd ≤ g.stop) :
    (l.shardGroupAt t).isSome = true := by
  unfold SgList.shardGroupAt
  have hne : l.items.isEmpty = false := by
    cases hl : l.items with
    | nil => rw [hl] at hg; simp at hg
    | cons _ _ => rfl
  simp only [hne, Bool.false_eq_true, if_false]
  have hfb : (SgList.shardGroupAt.fallback l t (sortBy sgLt l.items)).isSome = true := by
    obtain ⟨⟨e, hee, hle⟩, ⟨la, hla, hge⟩⟩ := hb g hg
    unfold SgList.shardGroupAt.fallback
    simp only [hee, hla]
    have : ¬ (t < e ∨ t > la) := by omega
    simp only [Bool.or_eq_true, decide_eq_true_eq, this, if_false]
    rw [List.find?_isSome]
    exact ⟨g, (mem_sortBy _ _ _).2 hg, by simp [containsEff, hs, he]⟩
  split
  · split
    · exact hfb
    · rfl
  · exact hfb

/-- the metadata's own lookup returns a live group whose effective range holds `t` -/
theorem groupAt_sound (rp : RP) (t : Int) (g : SG) (h : rp.groupAt t = some g) :
    g ∈ rp.groups ∧ g.deleted = false ∧ g.start ≤ t ∧ t < g.effEnd ∧ t < g.stop := by
  unfold RP.groupAt at h
  have hm := List.mem_of_find?_eq_some h
  have hp := List.find?_some h
  simp only [SG.contains, Bool.and_eq_true, decide_eq_true_eq, Bool.not_eq_true'] at hp
  obtain ⟨⟨⟨h1, h2⟩, h3⟩, h4⟩ := hp
  refine ⟨hm, h3, h1, ?_, h2⟩
  unfold SG.effEnd
  cases ht : g.trunc with
  | none => simpa [ht] using h2
  | some tr => simpa [ht] using h4

/-- live groups of a policy have pairwise disjoint effective ranges (C06's invariant) -/
def Disjoint (groups : List SG) : Prop :=
  ∀ a ∈ groups, ∀ b ∈ groups, a.deleted = false → b.deleted = false →
    ∀ t, a.start ≤ t → t < a.effEnd → b.start ≤ t → t < b.effEnd → a = b

/-- **The routed group is the metadata's group.** Under the invariant, a live group of the
policy whose effective range holds `t` *is* what `ShardGroupByTimestamp` designates — hence
routing cannot depend on the rest of the batch or on the order groups entered the list. -/
theorem routed_group_is_meta_group (rp : RP) (hd : Disjoint rp.groups) (t : Int) (g : SG)
    (hg : g ∈ rp.groups) (hl : g.deleted = false) (hs : g.start ≤ t) (he : t < g.effEnd)
    (hte : g.effEnd ≤ g.stop) : rp.groupAt t = some g := by
  have hex : (rp.groupAt t).isSome = true := by
    unfold RP.groupAt
    rw [List.find?_isSome]
    refine ⟨g, hg, ?_⟩
    have h2 : t < g.stop := by omega
    simp only [SG.contains, hs, h2, hl, decide_true, Bool.and_self, Bool.not_false, Bool.true_and]
    unfold SG.effEnd at he
    cases ht : g.trunc with
    | none => rfl
    | some tr => simpa [ht] using he
  cases hga : rp.groupAt t with
  | none => simp [hga] at hex
  | some g' =>
    obtain ⟨hm, hdel, hs', he', _⟩ := groupAt_sound rp t g' hga
    rw [hd g' hm g hg hdel hl t hs' he' hs he]

/-- C06's invariant (no two groups of a policy serve one instant) gives the premise -/
theorem disjoint_of_groupsOK (gs : List SG) (h : GroupsOK gs) : Disjoint gs := by
  intro a ha b hb hda hdb t h1 h2 h3 h4
  by_contra hne
  haveI : Std.Symm Apart := ⟨fun _ _ hxy => Apart.symm hxy⟩
  have hap : Apart a b := h.2.forall ha hb hne
  exact hap t ⟨covers_of a (h.1 a ha) t hda h1 h2, covers_of b (h.1 b hb) t hdb h3 h4⟩

theorem effEnd_le_stop (g : SG) (h : g.WF) : g.effEnd ≤ g.stop := by
  unfold SG.effEnd
  cases ht : g.trunc with
  | none => simp
  | some tr => exact (h.2 tr ht).2

/-- **The routed group is the metadata's group, along every command log.** After any
sequence of valid metadata commands, in every retention policy, a live group whose effective
range holds `t` is what `ShardGroupByTimestamp` designates: the premise of
`routed_group_is_meta_group` is discharged by `groups_never_overlap`. -/
theorem routed_group_is_meta_group_always (auto : Bool) (d : Data) (log : Log)
    (hv : ∀ e ∈ log, e.1.valid) (hok : DataOK d)
    (db : DB) (hdb : db ∈ (run auto d log).dbs) (rp : RP) (hrp : rp ∈ db.rps)
    (t : Int) (g : SG) (hg : g ∈ rp.groups) (hl : g.deleted = false) (hs : g.start ≤ t) (he : t < g.effEnd) :
    rp.groupAt t = some g := by
  have hok' := groups_never_overlap auto d log hv hok db hdb rp hrp
  exact routed_group_is_meta_group rp (disjoint_of_groupsOK _ hok'.2) t g hg hl hs he
    (effEnd_le_stop g (hok'.2.1 g hg))

/-- the shard inside the group is chosen by the series key's hash alone -/
theorem shard_by_key_only (g : SG) (h₁ h₂ : Nat) (h : h₁ = h₂) : shardFor g h₁ = shardFor g h₂ := by
  rw [h]

/-- **No loss, no duplication**: the mapping has exactly one entry per point of the batch,
in batch order (`none` = reported as dropped). -/
theorem mapping_one_entry_per_point (auto : Bool) (now : Int) (d d' : Data) (dbn rpn : String)
    (pts : List Pt) (m : List (Option (Nat × Nat)))
    (h : mapShards auto now d dbn rpn pts = (d', .ok m)) : m.length = pts.length := by
  unfold mapShards at h
  split at h
  · simp at h
  · simp only at h
    split at h
    · simp at h
    · simp only [Prod.mk.injEq, Except.ok.injEq] at h
      rw [← h.2]; simp

/-- a point older than the retention period is dropped, whatever else is in the batch; a
point is dropped *only* if it is older or no group holds it -/
theorem dropped_iff (l : SgList) (minT : Int) (p : Pt) :
    routeOne l minT p = none ↔
      p.t < minT ∨ l.shardGroupAt p.t = none ∨
        (∃ g, l.shardGroupAt p.t = some g ∧ shardFor g p.hash = none) := by
  unfold routeOne
  by_cases h : p.t < minT
  · simp [h]
  · simp only [h, if_false, false_or]
    cases hg : l.shardGroupAt p.t with
    | none => simp
    | some g => simp

/-! ### Non-vacuity -/

def gA : SG := { id := 1, start := 0, stop := 100, del := .live, trunc := some 60, shards := [⟨1, [1]⟩] }
def gB : SG := { id := 2, start := 60, stop := 100, del := .live, trunc := none, shards := [⟨2, [1]⟩, ⟨3, [1]⟩] }
def lAB : SgList := (({} : SgList).add gB).add gA

example : (lAB.shardGroupAt 70).map (·.id) = some 2 := by decide
example : (lAB.shardGroupAt 59).map (·.id) = some 1 := by decide
example : lAB.shardGroupAt 100 = none := by decide
example : routeOne lAB 0 ⟨70, 5⟩ = some (2, 3) := by decide
example : routeOne lAB 80 ⟨70, 5⟩ = none := by decide

end InfluxVerif.Routing
