/-
C15 — inter-node framing (coordinator/service.go: ReadType, ReadLV, WriteTLV) and the
connection loop `handleConn` as a parser of the incoming byte stream.  Core Lean only.
A Go panic (which nothing in `handleConn` recovers, so it kills the node) is an explicit
outcome of the model wherever the code allocates or indexes with an unchecked value.
-/
import InfluxVerif.Model.Codec.Basic
namespace InfluxVerif.TLV
open InfluxVerif.Codec

def maxMessageSize : Nat := 1073741824      -- MaxMessageSize (Gen-checked)

/-- the 8-byte big-endian length as the *signed* int64 the code reads -/
def toInt64 (u : Nat) : Int := if u < M63 then (u : Int) else (u : Int) - (M64 : Int)

inductive LV
  | ok (payload rest : Bytes)
  | shortHeader            -- binary.Read failed: fewer than 8 bytes
  | rejected               -- length negative or ≥ MaxMessageSize: error returned
  | shortValue             -- io.ReadFull failed: fewer than `sz` bytes arrived
  | panic                  -- make([]byte, sz) with a negative sz
  deriving Repr, DecidableEq

/-- `make([]byte, sz)`: `none` = run-time panic -/
def makeSlice (sz : Int) : Option Nat := if sz < 0 then none else some sz.toNat

/-- `ReadLV`; also returns the number of bytes the call allocated for the value -/
def readLV (b : Bytes) : LV × Nat :=
  match be64dec b with
  | none => (.shortHeader, 0)
  | some (u, rest) =>
    let sz := toInt64 u
    if sz < 0 ∨ sz ≥ maxMessageSize then (.rejected, 0)
    else match makeSlice sz with
      | none => (.panic, 0)
      | some n => if rest.length < n then (.shortValue, n) else (.ok (rest.take n) (rest.drop n), n)

/-- `WriteTLV` -/
def writeTLV (typ : Nat) (payload : Bytes) : Bytes := typ :: be64 payload.length ++ payload

/-- what `handleConn` does with a request type (table regenerated from the source) -/
inductive Action
  | inline          -- handleConn reads the LV itself; on a read error it returns without replying
  | continue_       -- a processor reads the LV and always answers; the loop goes on
  | return_         -- a processor reads the LV and always answers; handleConn returns
  | unknown         -- logged, loop goes on
  deriving Repr, DecidableEq

inductive Event
  | reply (typ : Nat)     -- a response frame of this type is written
  | panic
  deriving Repr, DecidableEq

/-- bytes left on the connection after a failed LV read: a rejected length leaves the
stream right after the 8 length bytes; short reads consumed everything -/
def afterLV (b : Bytes) : LV → Bytes
  | .ok _ rest => rest
  | .rejected => b.drop 8
  | _ => []

/-- the connection loop over the bytes that will ever arrive (`fuel` ≥ their number) -/
def serve (action : Nat → Action) : Nat → Bytes → List Event
  | 0, _ => []
  | _, [] => []                                   -- ReadType: EOF
  | fuel + 1, typ :: b =>
    match action typ with
    | .unknown => serve action fuel b
    | .inline =>
      match (readLV b).1 with
      | .ok _ rest => .reply (typ + 1) :: serve action fuel rest
      | .panic => [.panic]
      | _ => []                                   -- logged, connection closed, no reply
    | .continue_ =>
      match (readLV b).1 with
      | .panic => [.panic]
      | r => .reply (typ + 1) :: serve action fuel (afterLV b r)
    | .return_ =>
      match (readLV b).1 with
      | .panic => [.panic]
      | _ => [.reply (typ + 1)]

end InfluxVerif.TLV
