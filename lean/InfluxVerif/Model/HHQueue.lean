/-
C04 — logical model of the hinted-handoff queue (services/hh/queue.go) and of
`NodeProcessor.WriteShard`'s batch splitting (services/hh/node_processor.go).
Core Lean only.  A block is its payload; a segment file is the list of blocks written to
it, the index of the block the head offset points at, and the unflushed write buffer.
Byte offsets are derived: `size = 8 + Σ (8 + len)` (8-byte length prefix per block, 8-byte
footer holding the head offset).
-/
namespace InfluxVerif.HH

abbrev Block := List Nat   -- payload bytes

structure Seg where
  id : Nat
  blocks : List Block        -- blocks on disk, in file order
  pos : Nat                  -- number of blocks already consumed (the footer's offset, as an index)
  buf : List Block           -- appended under the buffered path, not yet flushed
  maxSize : Nat
  old : Bool                 -- file modification time is before the purge cut-off
  deriving Repr, Inhabited, DecidableEq

def footer : Nat := 8

def blocksSize (bs : List Block) : Nat := (bs.map fun b => 8 + b.length).sum

/-- `segment.size` -/
def Seg.size (s : Seg) : Nat := footer + blocksSize s.blocks
/-- `l.buf.Len()` -/
def Seg.bufLen (s : Seg) : Nat := blocksSize s.buf

structure Q where
  segs : List Seg            -- head first; empty = closed
  nextID : Nat               -- highest segment id in the directory + 1
  maxSegSize : Nat
  maxSize : Nat
  closedSegs : List Seg      -- what `Close` left on disk
  deriving Repr, Inhabited

inductive Res
  | ok | notOpen | full | segmentFull | eof | block (b : Block) | bool (b : Bool)
  deriving Repr, DecidableEq, Inhabited

def newSeg (id maxSize : Nat) : Seg := { id := id, blocks := [], pos := 0, buf := [], maxSize := maxSize, old := false }

/-- `segment.flush`: the buffer goes to disk (and the file is modified) -/
def Seg.flush (s : Seg) : Seg :=
  if s.buf.isEmpty then s else { s with blocks := s.blocks ++ s.buf, buf := [], old := false }

def Q.diskUsage (q : Q) : Nat := (q.segs.map Seg.size).sum

def Q.addSegment (q : Q) : Q :=
  { q with segs := q.segs ++ [newSeg q.nextID q.maxSegSize], nextID := q.nextID + 1 }

def updLast (f : Seg → Seg) : List Seg → List Seg
  | [] => []
  | [s] => [f s]
  | s :: rest => s :: updLast f rest

/-- `segment.append`: `none` = ErrSegmentFull (after flushing what was buffered) -/
def Seg.append (s : Seg) (b : Block) (buffered : Bool) : Seg × Bool :=
  if s.size + s.bufLen + b.length > s.maxSize then (s.flush, false)
  else
    let s' := { s with buf := s.buf ++ [b] }
    (if buffered then s' else s'.flush, true)

/-- `queue.Append` (the limiter decision `buffered` is an argument) -/
def Q.append (q : Q) (b : Block) (buffered : Bool) : Q × Res :=
  match q.segs.getLast? with
  | none => (q, .notOpen)
  | some tail =>
    if q.diskUsage + b.length > q.maxSize then (q, .full)
    else
      let (t1, ok) := tail.append b buffered
      let q1 := { q with segs := updLast (fun _ => t1) q.segs }
      if ok then (q1, .ok)
      else
        let q2 := q1.addSegment
        match q2.segs.getLast? with
        | none => (q2, .notOpen)
        | some t2 =>
          let (t3, ok2) := t2.append b buffered
          ({ q2 with segs := updLast (fun _ => t3) q2.segs }, if ok2 then .ok else .segmentFull)

/-- `queue.trimHead` -/
def Q.trimHead (q : Q) : Q :=
  match q.segs with
  | _ :: s2 :: rest => { q with segs := s2 :: rest }
  | _ => q

/-- `queue.Current` -/
def Q.current (q : Q) : Res :=
  match q.segs with
  | [] => .notOpen
  | h :: _ => match h.blocks[h.pos]? with
    | none => .eof
    | some b => .block b

/-- `queue.Advance` (after `Current`, as the processor does) -/
def Q.advance (q : Q) : Q × Res :=
  match q.segs with
  | [] => (q, .notOpen)
  | h :: rest =>
    if h.pos ≥ h.blocks.length then (Q.trimHead q, Res.ok)          -- already at the end: EOF ⇒ trim
    else
      let h' := { h with pos := h.pos + 1, old := false }
      let q' := { q with segs := h' :: rest }
      if h'.pos ≥ h'.blocks.length then (Q.trimHead q', Res.ok) else (q', Res.ok)

/-- `segment.drained`: every block delivered, nothing buffered -/
def Seg.drained (s : Seg) : Bool := s.pos ≥ s.blocks.length && s.buf.isEmpty

/-- `queue.skipDrainedHead`: drop the head segment only if it is drained (and another segment
follows); never moves past a block -/
def Q.skipDrainedHead (q : Q) : Q :=
  match q.segs with
  | [] => q
  | h :: _ => if h.drained then q.trimHead else q

/-- what one `NodeProcessor.SendWrite` round does to the queue, with the appends `mid`
(block, buffered?) that other goroutines get in between its look at the head
(`queue.Current`) and its reaction.  `sent` is the block handed to the shard writer;
`writerOK = false` is a retryable failure of the writer (the block stays). -/
def applyAppends (q : Q) (mid : List (Block × Bool)) : Q :=
  mid.foldl (fun q a => (q.append a.1 a.2).1) q

def sendWrite (q : Q) (mid : List (Block × Bool)) (writerOK : Bool) : Q × Option Block :=
  match q.current with
  | .block b =>
    let q1 := applyAppends q mid
    if writerOK then (q1.advance.1, some b) else (q1, none)
  | .eof => ((applyAppends q mid).skipDrainedHead, none)
  | _ => (applyAppends q mid, none)

/-- the sender as it was: `Advance` on end-of-queue -/
def sendWriteOld (q : Q) (mid : List (Block × Bool)) (writerOK : Bool) : Q × Option Block :=
  match q.current with
  | .block b =>
    let q1 := applyAppends q mid
    if writerOK then (q1.advance.1, some b) else (q1, none)
  | .eof => ((applyAppends q mid).advance.1, none)
  | _ => (applyAppends q mid, none)

/-- `queue.Empty`: nothing pending — on disk or in a write buffer — in any segment -/
def Q.empty (q : Q) : Bool :=
  q.segs.all fun s => s.pos ≥ s.blocks.length && s.buf.isEmpty

/-- `queue.SetMaxSegmentSize` -/
def Q.setMaxSegmentSize (q : Q) (n : Nat) : Q :=
  let q1 := { q with maxSegSize := n, segs := q.segs.map fun (s : Seg) => { s with maxSize := n } }
  match q1.segs.getLast? with
  | none => q1
  | some t =>
    -- the old tail is flushed before it stops being the tail
    if t.size ≥ n then ({ q1 with segs := updLast Seg.flush q1.segs }).addSegment else q1

/-- `queue.PurgeOlderThan`: drop head segments whose file is older than the cut-off; the
queue always keeps one segment (fuel = number of segments + 1) -/
def Q.purge : Nat → Q → Q
  | 0, q => q
  | fuel + 1, q =>
    match q.segs with
    | [] => q
    | h :: rest =>
      if !h.old then q
      else
        let q1 := if rest.isEmpty then q.addSegment else q
        Q.purge fuel q1.trimHead

/-- `queue.Close`: buffered blocks are flushed before the files are closed -/
def Q.close (q : Q) : Q :=
  { q with closedSegs := q.segs.map Seg.flush, segs := [] }

/-- `queue.Open` on what `Close` left: segments in id order; an exhausted head is trimmed -/
def Q.open_ (q : Q) : Q :=
  let segs := q.closedSegs.map fun (s : Seg) => { s with maxSize := q.maxSegSize }
  let q1 := { q with segs := segs, closedSegs := [] }
  let q2 := if q1.segs.isEmpty then q1.addSegment else q1
  match q2.segs with
  | h :: _ => if h.pos ≥ h.blocks.length then q2.trimHead else q2
  | [] => q2

/-- **Crash and restart.** What a crash leaves is what is on disk: every segment's flushed
blocks and its head offset (`advance` and `flush` sync the file before they return); what sat
in a segment's write buffer is gone. The restart is `Open` on that. -/
def Q.crash (q : Q) : Q :=
  let disk := if q.segs.isEmpty then q.closedSegs else q.segs.map fun (s : Seg) => { s with buf := [] }
  ({ q with segs := [], closedSegs := disk }).open_

/-- **A crash that tears the flush of one more block.** `flush` writes the block over the
newest segment's footer (the head offset) and the footer again behind it; `k` bytes of that
write reach the file. With fewer than 8 the footer is intact (for the small offsets and
lengths of the checks its leading bytes are zero either way) and nothing happened. From 8 on
the head offset is gone: the restart keeps the segment's complete records and delivers them
again from the first (`segment.recoverRecords`); the torn block is among them if all of it
arrived (`k ≥ 8 + length`). -/
def Q.crashTorn (q : Q) (b : Block) (k : Nat) : Q :=
  let disk := if q.segs.isEmpty then q.closedSegs else q.segs.map fun (s : Seg) => { s with buf := [] }
  -- the torn bytes are a write to the newest segment's file: it is not old any more
  let disk := updLast (fun (s : Seg) =>
    if k < 8 then { s with old := false }
    else { s with old := false, pos := 0, blocks := s.blocks ++ (if k ≥ 8 + b.length then [b] else []) }) disk
  ({ q with segs := [], closedSegs := disk }).open_

/-- **The abstraction**: pending blocks in FIFO order -/
def Q.pending (q : Q) : List Block :=
  q.segs.flatMap fun s => s.blocks.drop s.pos ++ s.buf

/-! ### `NodeProcessor.WriteShard`: bisection of a batch that does not fit one block -/

/-- marshalled size of points `i..j`: 8-byte shard id + 4-byte length + payload per point -/
def marshalSize (sizes : List Nat) (i j : Nat) : Nat :=
  8 + (((sizes.drop i).take (j - i)).map (4 + ·)).sum

/-- shrink `j` by halving until the chunk `i..j` fits `limit`; `none` = a single point is too big -/
def shrink (sizes : List Nat) (limit i : Nat) : Nat → Nat → Option Nat
  | 0, _ => none
  | fuel + 1, j =>
    if marshalSize sizes i j ≤ limit then some j
    else if j = i + 1 then none
    else shrink sizes limit i fuel ((i + j + 1) / 2)

/-- the chunks `[i, j)` appended, in order; `none` = ErrSegmentFull -/
def splitChunks (sizes : List Nat) (limit : Nat) : Nat → Nat → Option (List (Nat × Nat))
  | 0, _ => none
  | fuel + 1, i =>
    if i ≥ sizes.length then some []
    else match shrink sizes limit i (sizes.length + 1) sizes.length with
      | none => none
      | some j =>
        if j ≤ i then none
        else if j = sizes.length then some [(i, j)]
        else (splitChunks sizes limit fuel j).map ((i, j) :: ·)

end InfluxVerif.HH
