package extract

import (
	"fmt"
	"go/ast"
	"go/token"
	"strings"
)

// C18: the time-bounded export's per-file decision, translated from the source:
// in tsm1.(*Engine).timeStampFilterTarFile the condition of the `if` that calls
// filterFileToBackup (the file is rewritten block by block) and the condition of the `if`
// that calls intar.StreamFile on a TSM file (the file is streamed as it is) become Lean
// functions of the window [lo, hi] and the file's range [mn, mx]; the theorems of
// Props/C18.lean are proved about these generated definitions.
func init() {
	Register(func(repo, out string) error {
		f := NewFile("C18")
		filt, plain, why := c18Conds(repo)
		ok := why == ""
		if !ok {
			filt, plain = "false", "false"
		}
		fmt.Fprintf(&f.buf, "/-- %s -/\n", strings.ReplaceAll(map[bool]string{true: "translated from tsdb/engine/tsm1/engine.go timeStampFilterTarFile", false: "NOT translated: " + why}[ok], "-/", "- /"))
		f.Bool("translated", ok)
		f.Def("fileFiltered (lo hi mn mx : Int)", "Bool", filt)
		f.Def("filePlain (lo hi mn mx : Int)", "Bool", plain)
		return f.Write(out)
	})
}

func c18Conds(repo string) (filt, plain, why string) {
	src, err := Parse(repo, "tsdb/engine/tsm1/engine.go")
	if err != nil {
		return "", "", err.Error()
	}
	fn := src.Func("Engine", "timeStampFilterTarFile")
	if fn == nil {
		return "", "", "timeStampFilterTarFile not found"
	}
	// names: `min, max := r.TimeRange()`, `stun := start.UnixNano()`, `eun := end.UnixNano()`
	names := map[string]string{"start.UnixNano()": "lo", "end.UnixNano()": "hi"}
	ast.Inspect(fn, func(n ast.Node) bool {
		as, ok := n.(*ast.AssignStmt)
		if !ok || as.Tok != token.DEFINE {
			return true
		}
		if len(as.Lhs) == 2 && len(as.Rhs) == 1 && strings.HasSuffix(src.Text(as.Rhs[0]), ".TimeRange()") {
			names[src.Text(as.Lhs[0])] = "mn"
			names[src.Text(as.Lhs[1])] = "mx"
		}
		if len(as.Lhs) == 1 && len(as.Rhs) == 1 {
			if v, ok := names[src.Text(as.Rhs[0])]; ok {
				names[src.Text(as.Lhs[0])] = v
			}
		}
		return true
	})
	var tr func(e ast.Expr) (string, bool)
	tr = func(e ast.Expr) (string, bool) {
		if v, ok := names[src.Text(e)]; ok {
			return v, true
		}
		switch x := e.(type) {
		case *ast.ParenExpr:
			s, ok := tr(x.X)
			return "(" + s + ")", ok
		case *ast.UnaryExpr:
			if x.Op == token.NOT {
				s, ok := tr(x.X)
				return "(!" + s + ")", ok
			}
		case *ast.BinaryExpr:
			a, ok1 := tr(x.X)
			b, ok2 := tr(x.Y)
			if !ok1 || !ok2 {
				return "", false
			}
			switch x.Op {
			case token.LAND:
				return "(" + a + " && " + b + ")", true
			case token.LOR:
				return "(" + a + " || " + b + ")", true
			case token.GEQ:
				return "decide (" + a + " ≥ " + b + ")", true
			case token.LEQ:
				return "decide (" + a + " ≤ " + b + ")", true
			case token.GTR:
				return "decide (" + a + " > " + b + ")", true
			case token.LSS:
				return "decide (" + a + " < " + b + ")", true
			case token.EQL:
				return "decide (" + a + " = " + b + ")", true
			case token.NEQ:
				return "decide (" + a + " ≠ " + b + ")", true
			}
		}
		return "", false
	}
	calls := func(body *ast.BlockStmt, name string) bool {
		found := false
		ast.Inspect(body, func(n ast.Node) bool {
			if c, ok := n.(*ast.CallExpr); ok && src.Text(c.Fun) == name {
				found = true
			}
			return true
		})
		return found
	}
	var filts, plains []string
	bad := ""
	// visit handles one if statement under `guard` (the negated conditions of the
	// branches of an if / else-if chain before it)
	var visit func(is *ast.IfStmt, guard string)
	visit = func(is *ast.IfStmt, guard string) {
		isFilt := calls(is.Body, "e.filterFileToBackup")
		// the plain copy of a TSM file: StreamFile under a condition on the time range
		// (the early `!strings.HasSuffix(fi.Name(), ".tsm")` branch concerns other files)
		isPlain := !isFilt && calls(is.Body, "intar.StreamFile") && !strings.Contains(src.Text(is.Cond), "HasSuffix")
		s, ok := tr(is.Cond)
		if isFilt || isPlain {
			if !ok || is.Init != nil {
				bad = "condition not in the translated fragment: " + src.Text(is.Cond)
				return
			}
			c := s
			if guard != "" {
				c = "(" + guard + " && " + s + ")"
			}
			if isFilt {
				filts = append(filts, c)
			} else {
				plains = append(plains, c)
			}
		}
		if e, isIf := is.Else.(*ast.IfStmt); isIf && ok {
			g := "(!" + s + ")"
			if guard != "" {
				g = "(" + guard + " && " + g + ")"
			}
			visit(e, g)
		} else if is.Else != nil && (isFilt || isPlain) {
			if blk, isBlk := is.Else.(*ast.BlockStmt); isBlk && (calls(blk, "e.filterFileToBackup") || calls(blk, "intar.StreamFile")) {
				bad = "a plain else branch streams a file"
			}
		}
	}
	for _, st := range fnBody(fn) {
		if is, ok := st.(*ast.IfStmt); ok {
			visit(is, "")
		}
	}
	if bad != "" {
		return "", "", bad
	}
	if len(filts) != 1 || len(plains) != 1 {
		return "", "", fmt.Sprintf("expected one filtered and one plain branch, found %d and %d", len(filts), len(plains))
	}
	return filts[0], plains[0], ""
}

// fnBody: the statements of the function literal that timeStampFilterTarFile returns
func fnBody(fn *ast.FuncDecl) []ast.Stmt {
	var out []ast.Stmt
	ast.Inspect(fn, func(n ast.Node) bool {
		if fl, ok := n.(*ast.FuncLit); ok && out == nil {
			out = fl.Body.List
			return false
		}
		return true
	})
	return out
}
