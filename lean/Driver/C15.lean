import Driver.Util
import InfluxVerif.Model.TLV
import InfluxVerif.Gen.C15
namespace Driver.C15
open InfluxVerif.TLV

def hexNat? (s : String) : Option (List Nat) := (hexToBytes? s).map (·.map UInt8.toNat)
def natHex (b : List Nat) : String := bytesToHex (b.map UInt8.ofNat)

/-- dispatch table from the generated facts -/
def action (typ : Nat) : Action :=
  if InfluxVerif.Gen.C15.inlineTypes.contains typ then .inline
  else if InfluxVerif.Gen.C15.returnTypes.contains typ then .return_
  else if InfluxVerif.Gen.C15.continueTypes.contains typ then .continue_
  else .unknown

def showEvents (es : List Event) : String :=
  if es.contains .panic then "DEAD" else
  "replies " ++ joinCsv (es.filterMap fun e => match e with
    | .reply t => if t = 2 || t = 4 then some (toString t) else none
    | .panic => none)

def handle (line : String) : String :=
  match splitWs line with
  | ["lv", h] => match hexNat? h with
    | some b => match (readLV b).1 with
      | .ok p rest => s!"ok {p.length} rest={rest.length}"
      | .panic => "panic"
      | _ => "err"
    | none => "bad-op"
  | ["tlv", t, h] => match t.toNat?, hexNat? h with
    | some t, some p => "ok " ++ natHex (writeTLV t p)
    | _, _ => "bad-op"
  | "conn" :: h :: _ => match hexNat? h with
    | some b => showEvents (serve action (b.length + 1) b)
    | none => "bad-op"
  | ["ping"] => "replies 2"          -- a valid write request is always answered
  | ["rt2", _] => "rt ok"
  | ["rt", _] => "rt ok"             -- message round trips: judged on the Go side, required by the model
  | _ => "bad-op"

end Driver.C15
