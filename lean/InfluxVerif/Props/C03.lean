/-
C03 — Cluster write honours the requested consistency level.
Property theorems only (helper lemmas in Lemmas/Consistency.lean).
All statements quantify over every replication factor `n = outs.length`, every owner
outcome vector, every level and every arrival order / arrival subset.
-/
import InfluxVerif.Lemmas.Consistency
import InfluxVerif.Gen.C03

namespace InfluxVerif.Consistency

/-- Number of owners that satisfy the level's notion of success
(stored; or, for `any`, stored or durably queued for handoff). -/
def metCount (level : Level) (outs : List Outcome) : Nat :=
  outs.countP fun o => counts level (ownerStep level o).2

/-- **Soundness.** Whatever subset of owners answered, in whatever order: if the write
reports success then at least `required` owners actually satisfy the level. -/
theorem ok_sound (level : Level) (outs arrived : List Outcome)
    (hsub : arrived.Subperm outs)
    (hok : writeToShardA level outs.length arrived = .ok) :
    required level outs.length ≤ metCount level outs := by
  have h1 := (collect_ok_iff _ _ _).1 hok
  have h2 := okCount_le_metCount level arrived
  have h3 : metCount level arrived ≤ metCount level outs :=
    List.Subperm.countP_le _ hsub
  unfold metCount at *
  omega

/-- Under every level except `any`, success means that many owners *stored* the points. -/
theorem ok_sound_stored (level : Level) (outs arrived : List Outcome)
    (hne : level ≠ .any) (hsub : arrived.Subperm outs)
    (hok : writeToShardA level outs.length arrived = .ok) :
    required level outs.length ≤ outs.countP (fun o => (ownerStep level o).2.stored) := by
  have h := ok_sound level outs arrived hsub hok
  have : metCount level outs = outs.countP (fun o => (ownerStep level o).2.stored) := by
    unfold metCount counts
    congr 1; funext o
    cases level <;> simp_all
  omega

/-- **Completeness.** If enough owners that satisfy the level answered before the
timeout (they are in `arrived`), success is reported — in every arrival order. -/
theorem ok_complete (level : Level) (n : Nat) (arrived : List Outcome)
    (hn : 1 ≤ n)
    (hmet : required level n ≤ metCount level arrived) :
    writeToShardA level n arrived = .ok := by
  have h1 := metCount_le_okCount level arrived
  have h2 := required_pos level n hn
  unfold metCount at hmet
  exact (collect_ok_iff _ _ _).2 h2 (by omega)

/-- The reported class depends only on the multiset of results that arrived. -/
theorem order_irrelevant (level : Level) (n : Nat) (a₁ a₂ : List Outcome)
    (h : a₁.Perm a₂) :
    writeToShardA level n a₁ = writeToShardA level n a₂ := by
  unfold writeToShardA
  apply collect_perm
  exact h.filterMap _

/-- Too few successful owners (and everyone answered) ⇒ partial write; none ⇒ failure;
somebody silent and level not met ⇒ timeout. -/
theorem classification (level : Level) (n : Nat) (arrived : List Outcome)
    (_hn : 1 ≤ n)
    (hlt : metCount level arrived < required level n) :
    writeToShardA level n arrived =
      if (arrivalsOf level arrived).length < n then .timeout
      else if 0 < metCount level arrived then .partialWrite else .failed := by
  have hc := okCount_eq_metCount level arrived
  unfold metCount at *
  unfold writeToShardA
  rw [collect_not_ok _ _ _ (by omega), hc]

/-- Handoff is offered exactly once for a retryable failure or a non-empty queue, and
never otherwise — for every level. -/
theorem handoff_exactly_once (level : Level) (o : Outcome) :
    (ownerStep level o).2.hhCalls = if needsHandoff o then 1 else 0 := by
  cases o <;> rfl

/-- An owner whose handoff was refused, or who rejected permanently, never counts. -/
theorem refused_never_counts (level : Level) (o : Outcome)
    (h : o = .retryHHrefused ∨ o = .queuedRefused ∨ o = .permanent ∨ o = .localFailed) :
    counts level (ownerStep level o).2 = false := by
  rcases h with h | h | h | h <;> subst h <;> cases level <;> rfl

/-- The index-based entry point used by the driver is an instance of the above:
a duplicate-free arrival order yields a sub-permutation of the owners. -/
theorem order_is_subperm (outs : List Outcome) (order : List Nat) (hnd : order.Nodup) :
    (order.filterMap (outs[·]?)).Subperm outs :=
  filterMap_getElem?_subperm outs order hnd

theorem writeToShard_sound (level : Level) (outs : List Outcome) (order : List Nat)
    (hnd : order.Nodup) (hok : writeToShard level outs order = .ok) :
    required level outs.length ≤ metCount level outs :=
  ok_sound level outs _ (order_is_subperm outs order hnd) hok

/-! ### Tie to the code: facts regenerated from /repo on every run (Gen/C03.lean) -/

/-- The model's `required` is the switch the code has (go/ast of `writeToShardWithContext`);
the default branch leaves `required = len(shard.Owners)`. -/
theorem gen_required_switch :
    Gen.C03.requiredSwitch =
      [("models.ConsistencyLevelAny|models.ConsistencyLevelOne", "required = 1"),
       ("models.ConsistencyLevelQuorum", "required = required/2 + 1")] := by decide

theorem gen_level_enum :
    Gen.C03.levelEnum = [("any", "0"), ("one", "1"), ("quorum", "2"), ("all", "3")] := by decide

/-- `hh.IsRetryable`, executed on the error shapes of the write path, agrees with the model. -/
theorem gen_isRetryable :
    Gen.C03.isRetryable.all (fun r => isRetryable r.1 == r.2) = true ∧
    Gen.C03.isRetryableNil = false := by decide +kernel

/-- The two errors the collector skips when remembering the first error. -/
theorem gen_skipped_errors :
    Gen.C03.errQueueNotEmpty = "hinted handoff queue not empty" ∧
    Gen.C03.errQueueBlocked = "queue is blocked" := by decide

/-! ### Non-vacuity: concrete instances meeting the hypotheses -/

example : writeToShard .quorum [.remoteStored, .retryHHok, .localStored] [2, 0, 1] = .ok := by decide
example : writeToShard .quorum [.remoteStored, .retryHHok, .permanent] [2, 0, 1] = .partialWrite := by decide
example : writeToShard .any [.queuedOk, .queuedRefused] [1, 0] = .ok := by decide
example : writeToShard .one [.queuedOk, .queuedRefused] [1, 0] = .failed := by decide
example : writeToShard .all [.remoteStored, .remoteSilent] [0, 1] = .timeout := by decide
example : metCount .any [.queuedOk, .queuedRefused] = 1 := by decide

end InfluxVerif.Consistency
