/- Helper lemmas for Props/C13.lean: WAL segment framing. -/
import InfluxVerif.Model.Codec.Wal
import InfluxVerif.Lemmas.CodecBasic

namespace InfluxVerif.Codec

def framesLen (fs : List Frame) : Nat := (segmentBytes fs).length

theorem frameBytes_length (f : Frame) : (frameBytes f).length = 5 + f.payload.length := by
  simp [frameBytes, be32_length]; omega

theorem framesLen_cons (f : Frame) (fs : List Frame) :
    framesLen (f :: fs) = 5 + f.payload.length + framesLen fs := by
  simp [framesLen, segmentBytes, frameBytes_length]

theorem be32dec_short (l : Bytes) (h : l.length < 4) : be32dec l = none := by
  match l, h with
  | [], _ => rfl
  | [_], _ => rfl
  | [_, _], _ => rfl
  | [_, _, _], _ => rfl
  | _ :: _ :: _ :: _ :: _, h => simp at h; omega

/-- a frame cut strictly inside yields nothing -/
theorem walReplay_cut_inside (valid : Nat → Bytes → Bool) (fuel : Nat) (f : Frame) (rest : Bytes)
    (hl : f.payload.length < 4294967296) (k : Nat) (hk : k < 5 + f.payload.length) :
    walReplay valid fuel ((frameBytes f ++ rest).take k) = ([], 0) := by
  cases fuel with
  | zero => rfl
  | succ fuel =>
    have hfl := frameBytes_length f
    rw [List.take_append_of_le_length (by omega)]
    unfold frameBytes
    cases k with
    | zero => simp [walReplay]
    | succ k =>
      simp only [List.cons_append, List.take_succ_cons, walReplay]
      by_cases hk4 : k < 4
      · rw [be32dec_short _ (by simp [be32_length]; omega)]
      · have h4 : 4 ≤ k := by omega
        rw [List.take_append, be32_length, List.take_of_length_le (by simp [be32_length]; omega),
          be32_roundtrip _ hl]
        simp only
        simp only [List.length_take]
        have : min (k - 4) f.payload.length < f.payload.length := by omega
        simp only [this, if_true]

theorem walReplay_step (valid : Nat → Bytes → Bool) (fuel : Nat) (f : Frame) (rest : Bytes)
    (hl : f.payload.length < 4294967296) (hv : valid f.ty f.payload = true) :
    walReplay valid (fuel + 1) (frameBytes f ++ rest) =
      (f :: (walReplay valid fuel rest).1, 5 + f.payload.length + (walReplay valid fuel rest).2) := by
  unfold frameBytes
  simp only [List.cons_append, List.append_assoc, walReplay]
  rw [be32_roundtrip _ hl]
  simp only [List.length_append]
  have h1 : ¬ (f.payload.length + rest.length < f.payload.length) := by omega
  simp only [h1, if_false, List.take_left, List.drop_left, hv, if_true]

/-- **torn prefix**: cutting a segment of valid frames at any byte offset `k` replays
exactly the frames that lie completely before the cut, and reports their byte length. -/
theorem wal_torn_prefix_aux (valid : Nat → Bytes → Bool) (fs : List Frame)
    (hv : ∀ f ∈ fs, valid f.ty f.payload = true ∧ f.payload.length < 4294967296)
    (k fuel : Nat) (hf : fs.length < fuel) :
    ∃ j, j ≤ fs.length ∧
      walReplay valid fuel ((segmentBytes fs).take k) = (fs.take j, framesLen (fs.take j)) ∧
      framesLen (fs.take j) ≤ k ∧
      (j < fs.length → k < framesLen (fs.take (j + 1))) := by
  induction fs generalizing k fuel with
  | nil =>
    refine ⟨0, by simp, ?_, by simp [framesLen, segmentBytes], by simp⟩
    cases fuel with
    | zero => omega
    | succ fuel => simp [segmentBytes, walReplay, framesLen]
  | cons f fs ih =>
    obtain ⟨hvf, hlf⟩ := hv f (by simp)
    have hv' : ∀ g ∈ fs, valid g.ty g.payload = true ∧ g.payload.length < 4294967296 :=
      fun g hg => hv g (by simp [hg])
    cases fuel with
    | zero => omega
    | succ fuel =>
      have hseg : segmentBytes (f :: fs) = frameBytes f ++ segmentBytes fs := by
        simp [segmentBytes]
      by_cases hk : k < 5 + f.payload.length
      · refine ⟨0, by simp, ?_, by simp [framesLen, segmentBytes], ?_⟩
        · rw [hseg, walReplay_cut_inside valid _ f _ hlf k hk]
          simp [framesLen, segmentBytes]
        · intro _
          simp only [Nat.zero_add, List.take_succ_cons, List.take_zero]
          rw [framesLen_cons]; simp [framesLen, segmentBytes]; omega
      · have hfl := frameBytes_length f
        obtain ⟨j, hj, hrep, hle, hmax⟩ := ih hv' (k - (5 + f.payload.length)) fuel
          (by simp at hf; omega)
        refine ⟨j + 1, by simp; omega, ?_, ?_, ?_⟩
        · rw [hseg, List.take_append, List.take_of_length_le (by omega), hfl,
            walReplay_step valid fuel f _ hlf hvf, hrep]
          simp only [List.take_succ_cons, framesLen_cons]
        · simp only [List.take_succ_cons, framesLen_cons]; omega
        · intro hlt
          have := hmax (by simp at hlt; omega)
          simp only [List.take_succ_cons, framesLen_cons] at this ⊢
          omega

theorem walReplay_full (valid : Nat → Bytes → Bool) (fs : List Frame)
    (hv : ∀ f ∈ fs, valid f.ty f.payload = true ∧ f.payload.length < 4294967296)
    (fuel : Nat) (hf : fs.length < fuel) :
    walReplay valid fuel (segmentBytes fs) = (fs, framesLen fs) := by
  induction fs generalizing fuel with
  | nil =>
    cases fuel with
    | zero => omega
    | succ fuel => simp [segmentBytes, walReplay, framesLen]
  | cons f fs ih =>
    obtain ⟨hvf, hlf⟩ := hv f (by simp)
    cases fuel with
    | zero => omega
    | succ fuel =>
      have hseg : segmentBytes (f :: fs) = frameBytes f ++ segmentBytes fs := by
        simp [segmentBytes]
      rw [hseg, walReplay_step valid fuel f _ hlf hvf,
        ih (fun g hg => hv g (by simp [hg])) fuel (by simp at hf; omega), framesLen_cons]

end InfluxVerif.Codec
