package c09

import (
	"encoding/json"
	"fmt"
	"os"
	"strings"
	"testing"
)

func TestDbg(t *testing.T) {
	var d struct {
		Ops []string `json:"ops"`
	}
	b, _ := os.ReadFile(os.Getenv("REPLAY"))
	json.Unmarshal(b, &d)
	dir, _ := os.MkdirTemp("", "c09")
	defer os.RemoveAll(dir)
	e := &env{dir: dir, size: 1000}
	rf := &ref{}
	for _, op := range d.Ops {
		f := strings.Fields(op)
		var want map[string]map[int64]string
		if f[0] == "compact" {
			want = rf.merged(rf.files)
		}
		o := step(e, op)
		w := rf.step(f)
		if o != w {
			fmt.Println("DIFF at", fmt.Sprintf("%.20s", op))
			for _, fl := range e.files {
				n := fl.r.KeyCount()
				for i := 0; i < n; i++ {
					kb, _ := fl.r.KeyAt(i)
					vals, _ := fl.r.ReadAll(kb)
					for _, v := range vals {
						if wv := want[string(kb)][v.UnixNano()]; wv != valTok(v) {
							fmt.Printf("  key %s t=%d got %s want %s\n", kb, v.UnixNano(), valTok(v), wv)
						}
					}
				}
			}
		}
	}
}
