// Package extract regenerates lean/InfluxVerif/Gen/*.lean from /repo's current tree:
// syntactic facts via go/ast, behavioural facts by executing repo code.
package extract

import (
	"bytes"
	"fmt"
	"go/ast"
	"go/parser"
	"go/printer"
	"go/token"
	"os"
	"path/filepath"
	"sort"
	"strings"
)

type File struct {
	name string
	buf  bytes.Buffer
}

func NewFile(mod string) *File {
	f := &File{name: mod}
	fmt.Fprintf(&f.buf, "/- GENERATED from /repo by harness/extract on every run — do not edit. -/\nnamespace InfluxVerif.Gen.%s\n\n", mod)
	return f
}

func LeanStr(s string) string {
	var b strings.Builder
	b.WriteByte('"')
	for _, r := range s {
		switch r {
		case '"':
			b.WriteString("\\\"")
		case '\\':
			b.WriteString("\\\\")
		case '\n':
			b.WriteString("\\n")
		case '\t':
			b.WriteString("\\t")
		default:
			b.WriteRune(r)
		}
	}
	b.WriteByte('"')
	return b.String()
}

func (f *File) Def(name, typ, val string) {
	fmt.Fprintf(&f.buf, "def %s : %s := %s\n\n", name, typ, val)
}
func (f *File) Nat(name string, v uint64) { f.Def(name, "Nat", fmt.Sprint(v)) }
func (f *File) Int(name string, v int64) {
	if v < 0 {
		f.Def(name, "Int", fmt.Sprintf("(%d)", v))
	} else {
		f.Def(name, "Int", fmt.Sprint(v))
	}
}
func (f *File) Str(name, v string)       { f.Def(name, "String", LeanStr(v)) }
func (f *File) Bool(name string, v bool) { f.Def(name, "Bool", fmt.Sprint(v)) }
func (f *File) StrList(name string, xs []string) {
	q := make([]string, len(xs))
	for i, x := range xs {
		q[i] = LeanStr(x)
	}
	f.Def(name, "List String", "["+strings.Join(q, ", ")+"]")
}
func (f *File) NatList(name string, xs []uint64) {
	q := make([]string, len(xs))
	for i, x := range xs {
		q[i] = fmt.Sprint(x)
	}
	f.Def(name, "List Nat", "["+strings.Join(q, ", ")+"]")
}

// StrPairs emits List (String × String)
func (f *File) StrPairs(name string, xs [][2]string) {
	q := make([]string, len(xs))
	for i, x := range xs {
		q[i] = "(" + LeanStr(x[0]) + ", " + LeanStr(x[1]) + ")"
	}
	f.Def(name, "List (String × String)", "[\n  "+strings.Join(q, ",\n  ")+"]")
}

// StrBools emits List (String × Bool)
func (f *File) StrBools(name string, xs []string, bs []bool) {
	q := make([]string, len(xs))
	for i := range xs {
		q[i] = "(" + LeanStr(xs[i]) + ", " + fmt.Sprint(bs[i]) + ")"
	}
	f.Def(name, "List (String × Bool)", "[\n  "+strings.Join(q, ",\n  ")+"]")
}

func (f *File) Write(dir string) error {
	fmt.Fprintf(&f.buf, "end InfluxVerif.Gen.%s\n", f.name)
	return os.WriteFile(filepath.Join(dir, f.name+".lean"), f.buf.Bytes(), 0o644)
}

// ---- go/ast helpers ----

type Src struct {
	Fset *token.FileSet
	File *ast.File
}

func Parse(repo, rel string) (*Src, error) {
	fset := token.NewFileSet()
	f, err := parser.ParseFile(fset, filepath.Join(repo, rel), nil, parser.ParseComments)
	if err != nil {
		return nil, err
	}
	return &Src{fset, f}, nil
}

func (s *Src) Text(n ast.Node) string {
	var b bytes.Buffer
	printer.Fprint(&b, s.Fset, n)
	return strings.Join(strings.Fields(b.String()), " ")
}

// Func finds a function or method (recv "" = any) by name.
func (s *Src) Func(recv, name string) *ast.FuncDecl {
	for _, d := range s.File.Decls {
		fd, ok := d.(*ast.FuncDecl)
		if !ok || fd.Name.Name != name {
			continue
		}
		if recv == "" {
			return fd
		}
		if fd.Recv != nil && len(fd.Recv.List) == 1 {
			t := s.Text(fd.Recv.List[0].Type)
			if strings.TrimPrefix(t, "*") == recv {
				return fd
			}
		}
	}
	return nil
}

// SwitchRows returns for the first switch statement inside fn whose tag prints as `tag`
// the rows (case expressions joined by "|", body text); default is row "default".
func (s *Src) SwitchRows(fn *ast.FuncDecl, tag string) [][2]string {
	var rows [][2]string
	found := false
	ast.Inspect(fn, func(n ast.Node) bool {
		if found {
			return false
		}
		sw, ok := n.(*ast.SwitchStmt)
		if !ok || sw.Tag == nil || s.Text(sw.Tag) != tag {
			return true
		}
		found = true
		for _, c := range sw.Body.List {
			cc := c.(*ast.CaseClause)
			var labels []string
			for _, e := range cc.List {
				labels = append(labels, s.Text(e))
			}
			lab := strings.Join(labels, "|")
			if cc.List == nil {
				lab = "default"
			}
			var body []string
			for _, st := range cc.Body {
				body = append(body, s.Text(st))
			}
			rows = append(rows, [2]string{lab, strings.Join(body, "; ")})
		}
		return false
	})
	return rows
}

// TypeSwitchCases lists the case type names of the first type switch in fn.
func (s *Src) TypeSwitchCases(fn *ast.FuncDecl) []string {
	var out []string
	ast.Inspect(fn, func(n ast.Node) bool {
		ts, ok := n.(*ast.TypeSwitchStmt)
		if !ok {
			return true
		}
		for _, c := range ts.Body.List {
			cc := c.(*ast.CaseClause)
			for _, e := range cc.List {
				out = append(out, s.Text(e))
			}
		}
		return false
	})
	return out
}

func SortedKeys(m map[string]bool) []string {
	var ks []string
	for k := range m {
		ks = append(ks, k)
	}
	sort.Strings(ks)
	return ks
}

// Extractor is one property's fact generator.
type Extractor func(repo, out string) error

var All []Extractor

func Register(e Extractor) { All = append(All, e) }

func Run(repo, out string) error {
	for _, e := range All {
		if err := e(repo, out); err != nil {
			return err
		}
	}
	return nil
}
