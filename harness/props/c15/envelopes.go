package c15

import (
	"encoding"
	"fmt"
	"reflect"
	"time"

	"github.com/gogo/protobuf/types"
	"github.com/influxdata/influxdb/coordinator"
	"github.com/influxdata/influxdb/query"
	"github.com/influxdata/influxdb/services/storage"
	"github.com/influxdata/influxdb/storage/reads/datatypes"
	"github.com/influxdata/influxql"
	"verifharness/fw"
)

// Request message types of the inter-node protocol (coordinator/service.go's iota block;
// the regenerated facts in Gen/C15 pin the same numbering on every run). A response is its
// request's type + 1.
const (
	tWriteShard           = 1
	tExecuteStatement     = 3
	tTaskManager          = 5
	tMeasurementNames     = 7
	tTagKeys              = 9
	tTagValues            = 11
	tSeriesSketches       = 13
	tMeasurementsSketches = 15
	tStoreReadFilter      = 17
	tStoreReadGroup       = 19
	tCreateIterator       = 21
	tIteratorCost         = 23
	tFieldDimensions      = 25
	tMapType              = 27
	tExpandSources        = 29
	tBackupShard          = 31
	tCopyShard            = 33
	tRemoveShard          = 35
	tListShards           = 37
	tJoinCluster          = 39
	tLeaveCluster         = 41
	tRemoveHintedHandoff  = 43
)

type binMsg interface {
	encoding.BinaryMarshaler
	encoding.BinaryUnmarshaler
}

// newRequest returns an empty request value for a message type (nil: the type carries no
// decodable request or is not a request).
func newRequest(typ int) binMsg {
	switch typ {
	case tWriteShard:
		return &coordinator.WriteShardRequest{}
	case tExecuteStatement:
		return &coordinator.ExecuteStatementRequest{}
	case tTaskManager:
		return &coordinator.TaskManagerStatementRequest{}
	case tMeasurementNames:
		return &coordinator.MeasurementNamesRequest{}
	case tTagKeys:
		return &coordinator.TagKeysRequest{}
	case tTagValues:
		return &coordinator.TagValuesRequest{}
	case tSeriesSketches:
		return &coordinator.SeriesSketchesRequest{}
	case tMeasurementsSketches:
		return &coordinator.MeasurementsSketchesRequest{}
	case tStoreReadFilter:
		return &coordinator.StoreReadFilterRequest{}
	case tStoreReadGroup:
		return &coordinator.StoreReadGroupRequest{}
	case tCreateIterator:
		return &coordinator.CreateIteratorRequest{}
	case tIteratorCost:
		return &coordinator.IteratorCostRequest{}
	case tFieldDimensions:
		return &coordinator.FieldDimensionsRequest{}
	case tMapType:
		return &coordinator.MapTypeRequest{}
	case tExpandSources:
		return &coordinator.ExpandSourcesRequest{}
	case tBackupShard:
		return &coordinator.BackupShardRequest{}
	case tCopyShard:
		return &coordinator.CopyShardRequest{}
	case tRemoveShard:
		return &coordinator.RemoveShardRequest{}
	case tJoinCluster:
		return &coordinator.JoinClusterRequest{}
	case tRemoveHintedHandoff:
		return &coordinator.RemoveHintedHandoffRequest{}
	}
	return nil
}

func newResponse(typ int) encoding.BinaryUnmarshaler {
	switch typ - 1 {
	case tWriteShard:
		return &coordinator.WriteShardResponse{}
	case tExecuteStatement:
		return &coordinator.ExecuteStatementResponse{}
	case tTaskManager:
		return &coordinator.TaskManagerStatementResponse{}
	case tMeasurementNames:
		return &coordinator.MeasurementNamesResponse{}
	case tTagKeys:
		return &coordinator.TagKeysResponse{}
	case tTagValues:
		return &coordinator.TagValuesResponse{}
	case tSeriesSketches:
		return &coordinator.SeriesSketchesResponse{}
	case tMeasurementsSketches:
		return &coordinator.MeasurementsSketchesResponse{}
	case tStoreReadFilter:
		return &coordinator.StoreReadFilterResponse{}
	case tStoreReadGroup:
		return &coordinator.StoreReadGroupResponse{}
	case tCreateIterator:
		return &coordinator.CreateIteratorResponse{}
	case tIteratorCost:
		return &coordinator.IteratorCostResponse{}
	case tFieldDimensions:
		return &coordinator.FieldDimensionsResponse{}
	case tMapType:
		return &coordinator.MapTypeResponse{}
	case tExpandSources:
		return &coordinator.ExpandSourcesResponse{}
	case tCopyShard:
		return &coordinator.CopyShardResponse{}
	case tRemoveShard:
		return &coordinator.RemoveShardResponse{}
	case tListShards:
		return &coordinator.ListShardsResponse{}
	case tJoinCluster:
		return &coordinator.JoinClusterResponse{}
	case tLeaveCluster:
		return &coordinator.LeaveClusterResponse{}
	case tRemoveHintedHandoff:
		return &coordinator.RemoveHintedHandoffResponse{}
	}
	return nil
}

// replyStatus decodes a response payload: "ok", "err" (the response carries an error) or
// "?" (no decoder for the type, or the payload does not decode).
func replyStatus(typ int, payload []byte) string {
	r := newResponse(typ)
	if r == nil {
		return "?"
	}
	if err := r.UnmarshalBinary(payload); err != nil {
		return "?"
	}
	v := reflect.ValueOf(r).Elem()
	if f := v.FieldByName("Err"); f.IsValid() {
		if f.IsNil() {
			return "ok"
		}
		return "err"
	}
	if m := reflect.ValueOf(r).MethodByName("Code"); m.IsValid() {
		if m.Call(nil)[0].Int() == 0 {
			return "ok"
		}
		return "err"
	}
	return "?"
}

// requestDecodes reports whether the payload is a well-formed request of the type, judged by
// the request type's own UnmarshalBinary.
func requestDecodes(typ int, payload []byte) (known, ok bool) {
	r := newRequest(typ)
	if r == nil {
		return false, false
	}
	defer func() {
		if recover() != nil {
			ok = false
		}
	}()
	return true, r.UnmarshalBinary(payload) == nil
}

func readSource(db, rp string) *types.Any {
	a, err := types.MarshalAny(&storage.ReadSource{Database: db, RetentionPolicy: rp})
	if err != nil {
		return nil
	}
	return a
}

// genEnvelope: a well-formed request of a random type whose content may refer to things that
// do not exist (databases, shards, nodes, time ranges without shards, unparsable statements).
func genEnvelope(r *fw.Rand) (int, []byte, string) {
	db := []string{"db0", "db0", "db0", "nodb", ""}[r.Intn(5)]
	rp := []string{"rp0", "rp0", "", "autogen"}[r.Intn(4)]
	shardIDs := [][]uint64{nil, nil, {1}, {1}, {999}, {1, 2, 999}, {0}}[r.Intn(7)]
	meas := influxql.Measurement{Database: db, RetentionPolicy: rp, Name: []string{"cpu", "m", ""}[r.Intn(3)]}
	var cond influxql.Expr
	if r.Bool() {
		cond, _ = influxql.ParseExpr([]string{"host = 'a'", "_name = 'cpu'", "time > 0", "v > 1.5"}[r.Intn(4)])
	}
	rng := datatypes.TimestampRange{Start: []int64{0, -1 << 62, 1 << 61, 1600000000000000000}[r.Intn(4)], End: []int64{1, 1 << 62, 1<<63 - 1, 1600000000000001000}[r.Intn(4)]}
	opt := query.IteratorOptions{
		Expr:       &influxql.VarRef{Val: "v", Type: influxql.Float},
		Dimensions: []string{"host"},
		StartTime:  influxql.MinTime,
		EndTime:    influxql.MaxTime,
		Ascending:  r.Bool(),
		Ordered:    true,
		Condition:  cond,
	}
	if r.Intn(3) == 0 {
		opt.Expr = &influxql.Call{Name: "mean", Args: []influxql.Expr{&influxql.VarRef{Val: "v", Type: influxql.Float}}}
		opt.Interval = query.Interval{Duration: time.Minute}
	}
	types := []int{tExecuteStatement, tTaskManager, tMeasurementNames, tTagKeys, tTagValues, tSeriesSketches, tMeasurementsSketches,
		tStoreReadFilter, tStoreReadGroup, tCreateIterator, tIteratorCost, tFieldDimensions, tMapType, tExpandSources, tBackupShard,
		tCopyShard, tRemoveShard, tListShards, tRemoveHintedHandoff}
	typ := types[r.Intn(len(types))]
	var m encoding.BinaryMarshaler
	switch typ {
	case tExecuteStatement:
		var req coordinator.ExecuteStatementRequest
		req.SetStatement([]string{"DROP MEASUREMENT nothing", "DROP SERIES FROM cpu", "this is not influxql", "DROP DATABASE nodb", "DROP SHARD 999", "DROP RETENTION POLICY x ON nodb", ""}[r.Intn(7)])
		req.SetDatabase(db)
		m = &req
	case tTaskManager:
		m = &coordinator.TaskManagerStatementRequest{Statement: []string{"SHOW QUERIES", "KILL QUERY 12345", "KILL QUERY 1 ON \"x\"", "not a statement", ""}[r.Intn(5)]}
	case tMeasurementNames:
		m = &coordinator.MeasurementNamesRequest{Database: db, RetentionPolicy: rp, Condition: cond}
	case tTagKeys:
		m = &coordinator.TagKeysRequest{ShardIDs: shardIDs, Condition: cond}
	case tTagValues:
		m = &coordinator.TagValuesRequest{ShardIDs: shardIDs, Condition: cond}
	case tSeriesSketches:
		m = &coordinator.SeriesSketchesRequest{Database: db}
	case tMeasurementsSketches:
		m = &coordinator.MeasurementsSketchesRequest{Database: db}
	case tStoreReadFilter:
		m = &coordinator.StoreReadFilterRequest{ShardIDs: shardIDs, Request: datatypes.ReadFilterRequest{ReadSource: readSource(db, rp), Range: rng}}
	case tStoreReadGroup:
		req := datatypes.ReadGroupRequest{ReadSource: readSource(db, rp), Range: rng, Group: datatypes.ReadGroupRequest_Group(r.Intn(2) * 2)}
		if r.Bool() {
			req.GroupKeys = []string{"host"}
		}
		if r.Bool() {
			req.Aggregate = &datatypes.Aggregate{Type: datatypes.Aggregate_AggregateType(r.Intn(3))}
		}
		m = &coordinator.StoreReadGroupRequest{ShardIDs: shardIDs, Request: req}
	case tCreateIterator:
		m = &coordinator.CreateIteratorRequest{ShardIDs: shardIDs, Measurement: meas, Opt: opt}
	case tIteratorCost:
		m = &coordinator.IteratorCostRequest{ShardIDs: shardIDs, Measurement: meas, Opt: opt}
	case tFieldDimensions:
		m = &coordinator.FieldDimensionsRequest{ShardIDs: shardIDs, Measurement: meas}
	case tMapType:
		m = &coordinator.MapTypeRequest{ShardIDs: shardIDs, Measurement: meas, Field: []string{"v", "host", ""}[r.Intn(3)]}
	case tExpandSources:
		m = &coordinator.ExpandSourcesRequest{ShardIDs: shardIDs, Sources: influxql.Sources{&meas}}
	case tBackupShard:
		m = &coordinator.BackupShardRequest{ShardID: []uint64{1, 999, 0}[r.Intn(3)], Since: time.Unix(0, int64(r.Intn(2))*1e18)}
	case tCopyShard:
		m = &coordinator.CopyShardRequest{Host: []string{"127.0.0.1:1", "nohost:8088", ""}[r.Intn(3)], Database: db, Policy: rp, ShardID: []uint64{1, 999}[r.Intn(2)], Since: time.Unix(0, 0)}
	case tRemoveShard:
		m = &coordinator.RemoveShardRequest{ShardID: []uint64{999, 12345, 0}[r.Intn(3)]}
	case tListShards:
		return typ, nil, "env-ListShards"
	case tRemoveHintedHandoff:
		m = &coordinator.RemoveHintedHandoffRequest{NodeID: []uint64{999, 0, 7}[r.Intn(3)]}
	}
	b, err := m.MarshalBinary()
	if err != nil {
		return typ, nil, fmt.Sprintf("env-%d-unmarshalable", typ)
	}
	return typ, b, fmt.Sprintf("env-%d", typ)
}
