/-
C09 — what a compaction (and a cache snapshot) must produce, per series key:
the newest-file-wins merge of the inputs minus each file's tombstoned ranges, cut into
blocks of at most `size` points.  Built on the block algebra of Model/Values.lean.
Core Lean only.
-/
import InfluxVerif.Model.Values
namespace InfluxVerif.Compact
open InfluxVerif.Values

/-- one key's share of one TSM file: the values of its blocks in index order, and the file's
tombstone ranges for the key -/
structure KeyData (α : Type) where
  vals : List (TV α)
  tombs : List (Int × Int)
  deriving Repr, Inhabited

/-- what a reader of the file sees for the key: tombstoned ranges are hidden -/
def visible {α} (k : KeyData α) : List (TV α) :=
  k.tombs.foldl (fun v r => exclude v r.1 r.2) k.vals

/-- oldest file first; a newer file's value replaces an older one's at the same timestamp -/
def mergeFiles {α} (fs : List (KeyData α)) : List (TV α) :=
  fs.foldl (fun acc f => merge acc (visible f)) []

/-- what a read of timestamp `t` over the file set returns: the newest file in which `t` is
present and not tombstoned -/
def readFiles {α} (fs : List (KeyData α)) (t : Int) : Option α :=
  fs.foldl (fun r f => lookup (visible f) t <|> r) none

/-- cut into consecutive blocks of `size` points (the last may be shorter) -/
def chunk {α} (size : Nat) (l : List α) : List (List α) :=
  if h : l = [] then [] else if hs : size = 0 then [l] else l.take size :: chunk size (l.drop size)
termination_by l.length
decreasing_by
  have : 0 < l.length := List.length_pos_iff.2 h
  simp only [List.length_drop]; omega

/-- the output blocks of a compaction for one key -/
def compactKey {α} (size : Nat) (fs : List (KeyData α)) : List (List (TV α)) :=
  chunk size (mergeFiles fs)

/-- a cache snapshot: writes in arrival order, last write wins, then cut into blocks -/
def snapshotKey {α} (size : Nat) (writes : List (TV α)) : List (List (TV α)) :=
  chunk size (dedup writes)

end InfluxVerif.Compact
