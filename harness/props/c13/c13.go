// Package c13: block codecs and WAL framing — real encoders/decoders (both families)
// against the Lean model InfluxVerif.Codec, plus the round-trip oracle on the Go side alone.
package c13

import (
	"bytes"
	"encoding/binary"
	"encoding/hex"
	"fmt"
	"io"
	"math"
	"sort"
	"strconv"
	"strings"

	"github.com/golang/snappy"
	"github.com/influxdata/influxdb/tsdb/engine/tsm1"
	"github.com/jwilder/encoding/simple8b"
	"verifharness/fw"
)

type Prop struct{}

func (Prop) ID() string    { return "C13" }
func (Prop) Model() string { return "c13" }
func (Prop) Parallel() int { return 16 }
func (Prop) Describe(cfg *fw.Config) {
	cfg.Rule = "seeded sequences per codec (lengths 1,2,3,59-61,119-121,239-241,999-1001,…; constant, arithmetic, random, alternating, deltas at 2^60-1/2^60, power-of-ten divisors, int64 extremes, runs of ones of 120/240) encoded by Go (streaming and batch encoders) and by the model with bytes compared, decoded by both Go decoders and the model; mutated/truncated encodings decoded by all; WAL segments of random entries cut at chosen offsets; non-trivial = more than one value or a cut inside a frame; distinct = distinct op lines"
}

const capVals = 200000

func csv(xs []uint64) string {
	if len(xs) == 0 {
		return "-"
	}
	var b strings.Builder
	for i, x := range xs {
		if i > 0 {
			b.WriteByte(',')
		}
		b.WriteString(strconv.FormatUint(x, 10))
	}
	return b.String()
}
func parseCsv(s string) []uint64 {
	if s == "-" || s == "" {
		return nil
	}
	var out []uint64
	for _, f := range strings.Split(s, ",") {
		v, _ := strconv.ParseUint(f, 10, 64)
		out = append(out, v)
	}
	return out
}
func hx(b []byte) string {
	if len(b) == 0 {
		return "-"
	}
	return hex.EncodeToString(b)
}
func unhx(s string) []byte {
	if s == "-" {
		return nil
	}
	b, _ := hex.DecodeString(s)
	return b
}

// ---- generators ----

var lens = []int{1, 1, 2, 2, 3, 3, 4, 5, 7, 8, 9, 16, 59, 60, 61, 119, 120, 121, 122, 127, 128, 129, 239, 240, 241, 242, 255, 256, 257, 300, 384, 480, 481, 512, 999, 1000, 1001, 1024}

func genLen(r *fw.Rand, tier string) int {
	if r.Chance(0.5) {
		return 1 + r.Intn(40)
	}
	n := lens[r.Intn(len(lens))]
	if tier == "thorough" && r.Chance(0.05) {
		n = 1000 + r.Intn(2500)
	}
	return n
}

func pow10(k int) uint64 {
	v := uint64(1)
	for i := 0; i < k; i++ {
		v *= 10
	}
	return v
}

// genDeltas produces a delta sequence; values are prefix sums mod 2^64
func genSeq(r *fw.Rand, tier string) ([]uint64, string) {
	n := genLen(r, tier)
	xs := make([]uint64, n)
	start := r.U64()
	switch r.Intn(4) {
	case 0:
		start = uint64(1500000000000000000 + r.Intn(1000000))
	case 1:
		start = uint64(r.Intn(1000))
	case 2:
		start = uint64(1<<63) - uint64(r.Intn(3)) // around MaxInt64
	}
	kind := r.Intn(14)
	tag := ""
	cur := start
	for i := range xs {
		var d uint64
		switch kind {
		case 0:
			tag = "constant"
			d = 0
		case 1:
			tag = "arith-pow10"
			d = pow10(r.Intn(13)) * uint64(1+(int(start)&7))
			if i > 0 {
				d = xs[0] // overwritten below
			}
		case 2:
			tag = "random-small"
			d = uint64(r.Intn(1 << uint(1+r.Intn(20))))
		case 3:
			tag = "random-div"
			d = uint64(r.Intn(5000)) * pow10(int(start%13))
		case 4:
			tag = "ones-runs"
			d = 1
			if r.Chance(0.004) {
				d = uint64(2 + r.Intn(3))
			}
		case 5:
			tag = "boundary-2^60"
			d = []uint64{1<<60 - 1, 1 << 60, 1<<60 - 2, 1, 0, 1<<59 + 5}[r.Intn(6)]
		case 6:
			tag = "random-u64"
			d = r.U64()
		case 7:
			tag = "alternating"
			if i%2 == 0 {
				d = uint64(r.Intn(100))
			} else {
				d = ^uint64(r.Intn(100)) + 1 // negative delta
			}
		case 8:
			tag = "selector-mix"
			bits := []uint{1, 2, 3, 4, 5, 6, 7, 8, 10, 12, 15, 20, 30, 60}[r.Intn(14)]
			d = r.U64() & (1<<bits - 1)
		case 9:
			tag = "mostly-equal"
			d = 1000
			if r.Chance(0.02) {
				d = 1000 + uint64(r.Intn(3))*1000
			}
		case 10:
			tag = "ones-then-other"
			d = 1
			if i > n-3 {
				d = uint64(r.Intn(4))
			}
		case 12, 13:
			// one gap (the first, or a later one) is ragged while all others share a power of
			// ten: the divisor of the packed scheme has to give way to that one gap
			tag = "one-ragged-gap"
			d = uint64(1+r.Intn(5000)) * pow10(3+int(start%7))
			if (kind == 12 && i == 1) || (kind == 13 && n > 3 && i == 1+int(start%uint64(n-1))) {
				d += uint64(1 + r.Intn(9))
			}
		default:
			tag = "blocks-of-bits"
			bits := uint(1 + (i/17)%60)
			d = r.U64() & (1<<bits - 1)
		}
		if i == 0 {
			xs[i] = start
		} else {
			cur += d
			xs[i] = cur
		}
		if kind == 1 && i == 0 {
			xs[0] = start
		}
	}
	if kind == 1 {
		step := pow10(r.Intn(13)) * uint64(1+r.Intn(9))
		for i := 1; i < n; i++ {
			xs[i] = xs[i-1] + step
		}
	}
	return xs, tag
}

func mutate(r *fw.Rand, b []byte) []byte {
	if len(b) == 0 {
		return b
	}
	c := append([]byte(nil), b...)
	switch r.Intn(4) {
	case 0:
		return c[:r.Intn(len(c))]
	case 1:
		c[r.Intn(len(c))] ^= 1 << uint(r.Intn(8))
	case 2:
		c[0] = byte(r.Intn(256))
	default:
		i := r.Intn(len(c))
		c[i] = byte(r.Intn(256))
	}
	return c
}

type walFrame struct {
	ty      byte
	payload []byte
	valid   bool
	canon   uint64 // hash of the entry as it was handed to the encoder
}

func canonHash(e tsm1.WALEntry) uint64 {
	h := uint64(14695981039346656037)
	for _, c := range []byte(canonEntry(e)) {
		h = (h ^ uint64(c)) * 1099511628211
	}
	return h
}

func genWal(r *fw.Rand) ([]walFrame, []byte) {
	nf := 1 + r.Intn(6)
	var frames []walFrame
	var seg bytes.Buffer
	for i := 0; i < nf; i++ {
		var e tsm1.WALEntry
		switch r.Intn(4) {
		case 0:
			keys := [][]byte{[]byte("cpu,host=a#!~#v"), []byte("mem#!~#f")}
			e = &tsm1.DeleteWALEntry{Keys: keys[:1+r.Intn(2)]}
		case 1:
			e = &tsm1.DeleteRangeWALEntry{Keys: [][]byte{[]byte("cpu,host=b#!~#v")}, Min: int64(r.U64()), Max: int64(r.U64())}
		default:
			vals := map[string][]tsm1.Value{}
			nk := 1 + r.Intn(3)
			for k := 0; k < nk; k++ {
				key := fmt.Sprintf("m%d,t=%d#!~#f%d", r.Intn(3), r.Intn(3), k)
				nv := 1 + r.Intn(5)
				var vs []tsm1.Value
				typ := r.Intn(5)
				for j := 0; j < nv; j++ {
					ts := int64(r.U64())
					switch typ {
					case 0:
						vs = append(vs, tsm1.NewFloatValue(ts, float64(r.Intn(1000))/8))
					case 1:
						vs = append(vs, tsm1.NewIntegerValue(ts, int64(r.U64())))
					case 2:
						vs = append(vs, tsm1.NewUnsignedValue(ts, r.U64()))
					case 3:
						vs = append(vs, tsm1.NewBooleanValue(ts, r.Bool()))
					default:
						vs = append(vs, tsm1.NewStringValue(ts, strings.Repeat("x", r.Intn(20))))
					}
				}
				vals[key] = vs
			}
			e = &tsm1.WriteWALEntry{Values: vals}
		}
		// (the WAL hands the encoder a recycled buffer: every byte of the entry must be written)
		dirty := bytes.Repeat([]byte{[]byte{0x01, 0xff, 0xaa, 0x00}[r.Intn(4)]}, 1<<16)
		raw, err := e.Encode(dirty)
		if err != nil {
			continue
		}
		comp := snappy.Encode(nil, raw)
		f := walFrame{ty: byte(e.Type()), payload: comp, valid: true, canon: canonHash(e)}
		if r.Chance(0.08) { // a frame whose payload does not decode
			f.payload = bytes.Repeat([]byte{0xff}, 1+r.Intn(8))
			f.valid = false
		} else if r.Chance(0.04) {
			f.ty = byte(4 + r.Intn(200))
			f.valid = false
		}
		frames = append(frames, f)
		var hdr [5]byte
		hdr[0] = f.ty
		binary.BigEndian.PutUint32(hdr[1:], uint32(len(f.payload)))
		seg.Write(hdr[:])
		seg.Write(f.payload)
	}
	return frames, seg.Bytes()
}

func (Prop) Generate(r *fw.Rand, tier string) []fw.Case {
	n := 1500
	if tier == "thorough" {
		n = 40000
	}
	var cases []fw.Case
	for i := 0; i < n; i++ {
		xs, tag := genSeq(r, tier)
		switch i % 5 {
		case 0, 1: // timestamps
			enc, _ := timeEnc(xs)
			ops := []string{"tenc " + csv(xs)}
			if enc != nil {
				ops = append(ops, "tdec "+hx(enc), "tbatch "+csv(xs))
				m := mutate(r, enc)
				if decodableWithinCap(m, 't') {
					ops = append(ops, "tdec "+hx(m))
				}
			}
			cases = append(cases, fw.Case{Ops: ops, Tags: []string{"time", "time/" + tag}})
		case 2, 3: // integers: values are the sequence itself as int64 patterns
			enc, _ := intEnc(xs)
			ops := []string{"ienc " + csv(xs)}
			if enc != nil {
				ops = append(ops, "idec "+hx(enc), "ibatch "+csv(xs))
				m := mutate(r, enc)
				if decodableWithinCap(m, 'i') {
					ops = append(ops, "idec "+hx(m))
				}
			}
			cases = append(cases, fw.Case{Ops: ops, Tags: []string{"int", "int/" + tag}})
		case 4:
			// booleans + simple8b words + uvarint + zigzag
			var bits strings.Builder
			for _, x := range xs {
				if len(xs) > 300 {
					break
				}
				bits.WriteByte('0' + byte(x&1))
			}
			bs := bits.String()
			if bs == "" {
				bs = "-"
			}
			benc := boolEnc(bs)
			ops := []string{"benc " + bs, "bdec " + hx(benc), "bbatch " + bs}
			m := mutate(r, benc)
			if decodableWithinCap(m, 'b') {
				ops = append(ops, "bdec "+hx(m))
			}
			// deltas as simple8b input
			ds := make([]uint64, 0, len(xs))
			for j := 1; j < len(xs); j++ {
				ds = append(ds, xs[j]-xs[j-1])
			}
			ops = append(ops, "s8s "+csv(ds), "s8a "+csv(ds))
			if ws, err := simple8b.EncodeAll(append([]uint64(nil), ds...)); err == nil {
				ops = append(ops, "s8d "+csv(ws))
			}
			ops = append(ops, fmt.Sprintf("uv %d", xs[0]), fmt.Sprintf("zz %d", xs[0]), fmt.Sprintf("zzd %d", xs[len(xs)-1]))
			var ub [10]byte
			k := binary.PutUvarint(ub[:], xs[0])
			ops = append(ops, "uvd "+hx(mutate(r, ub[:k])))
			cases = append(cases, fw.Case{Ops: ops, Tags: []string{"bool+s8b", "s8b/" + tag}})
		}
	}
	// WAL segments
	nw := 300
	if tier == "thorough" {
		nw = 3000
	}
	for i := 0; i < nw; i++ {
		frames, seg := genWal(r)
		if len(frames) == 0 {
			continue
		}
		var fs []string
		for _, f := range frames {
			v := 0
			if f.valid {
				v = 1
			}
			fs = append(fs, fmt.Sprintf("%d:%d:%d:%x", f.ty, len(f.payload), v, f.canon))
		}
		var cuts []int
		if tier == "thorough" || len(seg) < 200 {
			for k := 0; k <= len(seg); k++ {
				cuts = append(cuts, k)
			}
		} else {
			// every offset of the last two frames, a sample of the rest
			last2 := len(seg)
			for j := len(frames) - 1; j >= 0 && j >= len(frames)-2; j-- {
				last2 -= 5 + len(frames[j].payload)
			}
			for k := last2; k <= len(seg); k++ {
				cuts = append(cuts, k)
			}
			for j := 0; j < 30; j++ {
				cuts = append(cuts, r.Intn(last2+1))
			}
		}
		var ops []string
		for _, k := range cuts {
			ops = append(ops, fmt.Sprintf("wal %d %s %s", k, strings.Join(fs, ","), hx(seg)))
		}
		cases = append(cases, fw.Case{Ops: ops, Tags: []string{"wal"}})
	}
	// floats: bit patterns a parser admits (finite), with both zeros, denormals, repeats,
	// small and large xors; strings: empty, short, long, arbitrary bytes
	nf := 150
	if tier == "thorough" {
		nf = 4000
	}
	for i := 0; i < nf; i++ {
		n := genLen(r, tier)
		if n > 400 {
			n = 400
		}
		var hs []string
		var prev uint64
		for k := 0; k < n; k++ {
			var u uint64
			switch r.Intn(10) {
			case 0:
				u = 0 // +0
			case 1:
				u = 1 << 63 // -0
			case 2:
				u = prev // repeat
			case 3:
				u = prev ^ 1<<uint(r.Intn(64)) // one bit away
			case 4:
				u = uint64(r.Intn(1 << 20)) // denormals
			case 5:
				u = math.Float64bits(float64(r.Intn(1000)) / 8)
			case 6:
				u = math.Float64bits(float64(int64(r.U64()>>12)) * 1e-3)
			case 7:
				u = prev ^ (r.U64() >> uint(r.Intn(64)) << uint(r.Intn(32)))
			default:
				u = r.U64()
			}
			if f := math.Float64frombits(u); math.IsNaN(f) || math.IsInf(f, 0) {
				u = prev
			}
			hs = append(hs, strconv.FormatUint(u, 16))
			prev = u
		}
		cases = append(cases, fw.Case{Ops: []string{"fbatch " + strings.Join(hs, ",")}, Tags: []string{"float"}})
		// the same patterns (rarely a NaN, which the encoders must refuse) against the model: encoder bytes, decoder on the encoding and on damaged ones
		{
			var us []uint64
			var ds []string
			for _, h := range hs {
				u, _ := strconv.ParseUint(h, 16, 64)
				// (infinities are not generated: the parser admits none, and the batch encoder
				// takes a block holding both infinities for one holding a NaN)
				if r.Intn(400) == 0 {
					u = []uint64{0x7FF8000000000001, 0x7FF0000000000001, 0xFFF8000000000000, 0x7FFFFFFFFFFFFFFF}[r.Intn(4)]
				}
				us = append(us, u)
				ds = append(ds, strconv.FormatUint(u, 10))
			}
			if r.Intn(40) == 0 {
				us, ds = nil, []string{"-"}
			}
			ops := []string{"fenc " + strings.Join(ds, ",")}
			var src []float64
			for _, u := range us {
				src = append(src, math.Float64frombits(u))
			}
			if fb, err := tsm1.FloatArrayEncodeAll(src, nil); err == nil {
				ops = append(ops, "fdec "+hx(fb))
				for k := 0; k < 3; k++ {
					if m := mutate(r, fb); len(m) > 0 {
						ops = append(ops, "fdec "+hx(m))
					} else {
						ops = append(ops, "fdec -")
					}
				}
			}
			cases = append(cases, fw.Case{Ops: ops, Tags: []string{"float-model"}})
		}
		if i%3 == 0 {
			var ss []string
			for k := 0; k < 1+n/8; k++ {
				l := []int{0, 0, 1, 3, 17, 300, 70000}[r.Intn(7)]
				if l == 0 {
					ss = append(ss, "-")
					continue
				}
				b := make([]byte, l)
				for j := range b {
					b[j] = byte(r.Intn(256))
				}
				ss = append(ss, hx(b))
			}
			cases = append(cases, fw.Case{Ops: []string{"sbatch " + strings.Join(ss, ",")}, Tags: []string{"string"}})
		}
	}
	// the reader's buffer while an entry is read whose header claims n bytes and of which p
	// are there: around the chunk size, far beyond it, and the 4 GiB a torn header can spell
	const chunk = 1 << 20
	for i := 0; i < 6; i++ {
		var ops []string
		for j := 0; j < 12; j++ {
			p := []int{0, 1, r.Intn(4096), chunk - 1, chunk, chunk + 1, r.Intn(3 * chunk), 2*chunk + r.Intn(chunk)}[r.Intn(8)]
			n := []int{p, p + 1, p + r.Intn(chunk), p + chunk, p + chunk + 1, 4294967295, r.Intn(p + 1), 0}[r.Intn(8)]
			ops = append(ops, fmt.Sprintf("walgrow %d %d", p, n))
		}
		cases = append(cases, fw.Case{Ops: ops, Tags: []string{"walgrow"}})
	}
	return cases
}

// ---- implementation side ----

func timeEnc(xs []uint64) ([]byte, error) {
	e := tsm1.NewTimeEncoder(len(xs))
	for _, x := range xs {
		e.Write(int64(x))
	}
	b, err := e.Bytes()
	return append([]byte(nil), b...), err
}
func intEnc(xs []uint64) ([]byte, error) {
	e := tsm1.NewIntegerEncoder(len(xs))
	for _, x := range xs {
		e.Write(int64(x))
	}
	b, err := e.Bytes()
	return append([]byte(nil), b...), err
}
func boolEnc(bits string) []byte {
	e := tsm1.NewBooleanEncoder(len(bits))
	if bits != "-" {
		for _, c := range bits {
			e.Write(c == '1')
		}
	}
	b, _ := e.Bytes()
	return append([]byte(nil), b...)
}

func timeDecIter(b []byte) ([]uint64, error, bool) {
	var d tsm1.TimeDecoder
	d.Init(b)
	var out []uint64
	for d.Next() {
		out = append(out, uint64(d.Read()))
		if len(out) > capVals {
			return nil, nil, true
		}
	}
	return out, d.Error(), false
}
func intDecIter(b []byte) ([]uint64, error, bool) {
	var d tsm1.IntegerDecoder
	d.SetBytes(b)
	var out []uint64
	for d.Next() {
		out = append(out, uint64(d.Read()))
		if len(out) > capVals {
			return nil, nil, true
		}
	}
	return out, d.Error(), false
}
func boolDecIter(b []byte) (string, error, bool) {
	var d tsm1.BooleanDecoder
	d.SetBytes(b)
	var out strings.Builder
	n := 0
	for d.Next() {
		if d.Read() {
			out.WriteByte('1')
		} else {
			out.WriteByte('0')
		}
		n++
		if n > capVals {
			return "", nil, true
		}
	}
	s := out.String()
	if s == "" {
		s = "-"
	}
	return s, d.Error(), false
}

func decodableWithinCap(b []byte, kind byte) (ok bool) {
	defer func() {
		if recover() != nil {
			ok = true // a panic is an observation we want, keep the case
		}
	}()
	switch kind {
	case 't':
		_, _, over := timeDecIter(b)
		return !over
	case 'i':
		_, _, over := intDecIter(b)
		return !over
	default:
		_, _, over := boolDecIter(b)
		return !over
	}
}

func i64s(xs []uint64) []int64 {
	out := make([]int64, len(xs))
	for i, x := range xs {
		out[i] = int64(x)
	}
	return out
}
func u64s(xs []int64) []uint64 {
	out := make([]uint64, len(xs))
	for i, x := range xs {
		out[i] = uint64(x)
	}
	return out
}
func eqU(a, b []uint64) bool {
	if len(a) != len(b) {
		return false
	}
	for i := range a {
		if a[i] != b[i] {
			return false
		}
	}
	return true
}

func runOp(op string) (out string) {
	defer func() {
		if r := recover(); r != nil {
			out = fmt.Sprintf("panic %v", r)
			out = strings.ReplaceAll(out, "\n", " ")
		}
	}()
	f := strings.Fields(op)
	switch f[0] {
	case "tenc":
		b, err := timeEnc(parseCsv(f[1]))
		if err != nil {
			return "err"
		}
		return "ok " + hx(b)
	case "tdec":
		b := unhx(f[1])
		vals, err, _ := timeDecIter(b)
		if err != nil {
			return "err"
		}
		return "ok " + csv(vals)
	case "tbatch":
		// batch encoder + both decoders: judged by the oracle (round trip), reported as a flag
		xs := parseCsv(f[1])
		b, err := tsm1.TimeArrayEncodeAll(i64s(xs), nil)
		if err != nil {
			return "batch err"
		}
		s, _ := timeEnc(xs)
		same := bytes.Equal(b, s)
		v1, e1, _ := timeDecIter(b)
		v2, e2 := tsm1.TimeArrayDecodeAll(b, dirtyI64(len(xs)))
		v3, e3 := tsm1.TimeArrayDecodeAll(s, dirtyI64(len(xs)))
		rt := e1 == nil && e2 == nil && e3 == nil && eqU(v1, xs) && eqU(u64s(v2), xs) && eqU(u64s(v3), xs)
		_ = same
		return fmt.Sprintf("batch rt=%v", rt)
	case "ienc":
		b, err := intEnc(parseCsv(f[1]))
		if err != nil {
			return "err"
		}
		return "ok " + hx(b)
	case "idec":
		vals, err, _ := intDecIter(unhx(f[1]))
		if err != nil {
			return "err"
		}
		return "ok " + csv(vals)
	case "ibatch":
		xs := parseCsv(f[1])
		b, err := tsm1.IntegerArrayEncodeAll(i64s(xs), nil)
		if err != nil {
			return "batch err"
		}
		s, _ := intEnc(xs)
		same := bytes.Equal(b, s)
		v1, e1, _ := intDecIter(b)
		v2, e2 := tsm1.IntegerArrayDecodeAll(b, dirtyI64(len(xs)))
		v3, e3 := tsm1.IntegerArrayDecodeAll(s, dirtyI64(len(xs)))
		ub, e4 := tsm1.UnsignedArrayEncodeAll(append([]uint64(nil), xs...), nil)
		v4, e5 := tsm1.UnsignedArrayDecodeAll(ub, dirtyU64(len(xs)))
		rt := e1 == nil && e2 == nil && e3 == nil && e4 == nil && e5 == nil && eqU(v1, xs) && eqU(u64s(v2), xs) && eqU(u64s(v3), xs) && eqU(v4, xs)
		_ = same
		return fmt.Sprintf("batch rt=%v", rt)
	case "benc":
		return "ok " + hx(boolEnc(f[1]))
	case "bdec":
		s, err, _ := boolDecIter(unhx(f[1]))
		if err != nil {
			return "err"
		}
		return "ok " + s
	case "fenc":
		// floats as 64-bit patterns in decimal ("-" = none): the iterator encoder's bytes; the
		// batch encoder must give the same bytes or refuse the same input
		var src []float64
		if f[1] != "-" {
			for _, u := range parseCsv(f[1]) {
				src = append(src, math.Float64frombits(u))
			}
		}
		enc := tsm1.NewFloatEncoder()
		for _, v := range src {
			enc.Write(v)
		}
		enc.Flush()
		b1, e1 := enc.Bytes()
		b2, e2 := tsm1.FloatArrayEncodeAll(src, nil)
		if (e1 != nil) != (e2 != nil) || e1 == nil && !bytes.Equal(b1, b2) {
			return fmt.Sprintf("encoders-differ %v %v", e1, e2)
		}
		if e1 != nil {
			return "err"
		}
		return "ok " + hx(b1)
	case "fdec":
		var b []byte
		if f[1] != "-" {
			b = unhx(f[1])
		}
		var dec tsm1.FloatDecoder
		if err := dec.SetBytes(b); err != nil {
			return "err"
		}
		var got []uint64
		for dec.Next() {
			got = append(got, math.Float64bits(dec.Values()))
		}
		if dec.Error() != nil {
			return "err"
		}
		return "ok " + csv(got)
	case "fbatch":
		// floats as 64-bit patterns (hex csv): the iterator encoder and the batch encoder, each
		// read back by the iterator decoder and by the array decoder, bit for bit
		var src []float64
		for _, h := range strings.Split(f[1], ",") {
			u, _ := strconv.ParseUint(h, 16, 64)
			src = append(src, math.Float64frombits(u))
		}
		enc := tsm1.NewFloatEncoder()
		for _, v := range src {
			enc.Write(v)
		}
		enc.Flush()
		b1, e1 := enc.Bytes()
		b2, e2 := tsm1.FloatArrayEncodeAll(src, nil)
		if e1 != nil || e2 != nil {
			return "batch err"
		}
		rt := true
		for _, b := range [][]byte{b1, b2} {
			var dec tsm1.FloatDecoder
			if err := dec.SetBytes(b); err != nil {
				rt = false
				continue
			}
			var got []float64
			for dec.Next() {
				got = append(got, dec.Values())
			}
			arr, err := tsm1.FloatArrayDecodeAll(b, dirtyF64(len(src)))
			if dec.Error() != nil || err != nil || len(got) != len(src) || len(arr) != len(src) {
				rt = false
				continue
			}
			for i := range src {
				if math.Float64bits(got[i]) != math.Float64bits(src[i]) || math.Float64bits(arr[i]) != math.Float64bits(src[i]) {
					rt = false
				}
			}
		}
		return fmt.Sprintf("batch rt=%v same=%v", rt, bytes.Equal(b1, b2))
	case "sbatch":
		// strings (hex csv, "-" = empty): both encoders, both decoders
		var src []string
		for _, h := range strings.Split(f[1], ",") {
			if h == "-" {
				src = append(src, "")
			} else {
				src = append(src, string(unhx(h)))
			}
		}
		enc := tsm1.NewStringEncoder(len(src))
		for _, v := range src {
			enc.Write(v)
		}
		b1, e1 := enc.Bytes()
		b2, e2 := tsm1.StringArrayEncodeAll(src, nil)
		if e1 != nil || e2 != nil {
			return "batch err"
		}
		rt := true
		for _, b := range [][]byte{b1, b2} {
			var dec tsm1.StringDecoder
			if err := dec.SetBytes(b); err != nil {
				rt = false
				continue
			}
			var got []string
			for dec.Next() {
				got = append(got, dec.Read())
			}
			arr, err := tsm1.StringArrayDecodeAll(b, dirtyStr(len(src)))
			if dec.Error() != nil || err != nil || len(got) != len(src) || len(arr) != len(src) {
				rt = false
				continue
			}
			for i := range src {
				if got[i] != src[i] || arr[i] != src[i] {
					rt = false
				}
			}
		}
		return fmt.Sprintf("batch rt=%v same=%v", rt, bytes.Equal(b1, b2))
	case "bbatch":
		var src []bool
		if f[1] != "-" {
			for _, c := range f[1] {
				src = append(src, c == '1')
			}
		}
		b, err := tsm1.BooleanArrayEncodeAll(src, nil)
		if err != nil {
			return "batch err"
		}
		s := boolEnc(f[1])
		v1, e1, _ := boolDecIter(b)
		v2, e2 := tsm1.BooleanArrayDecodeAll(s, dirtyBool(len(src)))
		var sb strings.Builder
		for _, x := range v2 {
			if x {
				sb.WriteByte('1')
			} else {
				sb.WriteByte('0')
			}
		}
		s2 := sb.String()
		if s2 == "" {
			s2 = "-"
		}
		rt := e1 == nil && e2 == nil && v1 == f[1] && s2 == f[1]
		return fmt.Sprintf("batch rt=%v", rt)
	case "s8s":
		e := simple8b.NewEncoder()
		for _, x := range parseCsv(f[1]) {
			if err := e.Write(x); err != nil {
				return "err"
			}
		}
		b, err := e.Bytes()
		if err != nil {
			return "err"
		}
		var ws []uint64
		for i := 0; i+8 <= len(b); i += 8 {
			ws = append(ws, binary.BigEndian.Uint64(b[i:]))
		}
		return "ok " + csv(ws)
	case "s8a":
		src := parseCsv(f[1])
		ws, err := simple8b.EncodeAll(src)
		if err != nil {
			return "err"
		}
		return "ok " + csv(ws)
	case "s8d":
		ws := parseCsv(f[1])
		var out []uint64
		var buf [240]uint64
		for _, w := range ws {
			n, err := simple8b.Decode(&buf, w)
			if err != nil {
				return "err"
			}
			out = append(out, buf[:n]...)
		}
		// the repo's own simple8b must agree
		return "ok " + csv(out)
	case "uv":
		v, _ := strconv.ParseUint(f[1], 10, 64)
		var b [10]byte
		n := binary.PutUvarint(b[:], v)
		return "ok " + hx(b[:n])
	case "uvd":
		v, n := binary.Uvarint(unhx(f[1]))
		if n <= 0 {
			return "err"
		}
		return fmt.Sprintf("ok %d %d", v, n)
	case "zz":
		v, _ := strconv.ParseUint(f[1], 10, 64)
		return fmt.Sprintf("ok %d", tsm1.ZigZagEncode(int64(v)))
	case "zzd":
		v, _ := strconv.ParseUint(f[1], 10, 64)
		return fmt.Sprintf("ok %d", uint64(tsm1.ZigZagDecode(v)))
	case "walgrow":
		// the WAL reader's growing read of an entry claimed to be n bytes long from a reader
		// holding p bytes: bytes read, capacity of the buffer, outcome
		p, _ := strconv.Atoi(f[1])
		n, _ := strconv.Atoi(f[2])
		l, c, err := tsm1.VerifReadFullGrowing(&zeroReader{left: p}, n)
		res := "full"
		switch {
		case err == io.EOF:
			res = "eof"
		case err == io.ErrUnexpectedEOF:
			res = "short"
		case err != nil:
			res = "err"
		}
		return fmt.Sprintf("ok %d %d %s", l, c, res)
	case "wal":
		k, _ := strconv.Atoi(f[1])
		seg := unhx(f[3])
		if k > len(seg) {
			k = len(seg)
		}
		r := tsm1.NewWALSegmentReader(io.NopCloser(bytes.NewReader(seg[:k])))
		n := 0
		var kept []tsm1.WALEntry
		for r.Next() {
			e, err := r.Read()
			if err != nil {
				break
			}
			kept = append(kept, e)
			n++
		}
		// what was read must still be what was written once the whole segment has been read
		// (the cache loader keeps the values of every entry): each kept entry against a
		// fresh decode of its own frame
		off := 0
		for i, e := range kept {
			if off+5 > len(seg) {
				break
			}
			l := int(binary.BigEndian.Uint32(seg[off+1 : off+5]))
			if off+5+l > len(seg) {
				break
			}
			raw, err := snappy.Decode(nil, seg[off+5:off+5+l])
			if err != nil {
				return fmt.Sprintf("WAL-CONTENT frame %d does not decompress", i)
			}
			var fresh tsm1.WALEntry
			switch seg[off] {
			case byte(tsm1.WriteWALEntryType):
				fresh = &tsm1.WriteWALEntry{Values: map[string][]tsm1.Value{}}
			case byte(tsm1.DeleteWALEntryType):
				fresh = &tsm1.DeleteWALEntry{}
			case byte(tsm1.DeleteRangeWALEntryType):
				fresh = &tsm1.DeleteRangeWALEntry{}
			}
			if fresh == nil || fresh.UnmarshalBinary(raw) != nil {
				return fmt.Sprintf("WAL-CONTENT frame %d does not decode", i)
			}
			if a, b := canonEntry(e), canonEntry(fresh); a != b {
				return fmt.Sprintf("WAL-CONTENT-DIFFERS entry %d reads %.80s after the segment was read through, its frame holds %.80s", i, a, b)
			}
			// and it is what was handed to the encoder
			if fr := strings.Split(f[2], ","); i < len(fr) {
				if p := strings.Split(fr[i], ":"); len(p) == 4 && p[3] != "0" && p[3] != fmt.Sprintf("%x", canonHash(e)) {
					return fmt.Sprintf("WAL-CONTENT-DIFFERS entry %d reads %.120s: not what was written", i, canonEntry(e))
				}
			}
			off += 5 + l
		}
		return fmt.Sprintf("ok %d %d", n, r.Count())
	}
	return "bad-op"
}

// dirty*: the destination slice an array decoder is handed by its callers — the previous
// block's values, longer than the block to decode
func dirtyI64(n int) []int64 {
	d := make([]int64, n+9)
	for i := range d {
		d[i] = -0x5eadbeef
	}
	return d
}
func dirtyU64(n int) []uint64 {
	d := make([]uint64, n+9)
	for i := range d {
		d[i] = 0xdeadbeefdeadbeef
	}
	return d
}
func dirtyF64(n int) []float64 {
	d := make([]float64, n+9)
	for i := range d {
		d[i] = -12345.678
	}
	return d
}
func dirtyStr(n int) []string {
	d := make([]string, n+9)
	for i := range d {
		d[i] = "stale"
	}
	return d
}
func dirtyBool(n int) []bool {
	d := make([]bool, n+9)
	for i := range d {
		d[i] = true
	}
	return d
}

// canonEntry renders a WAL entry with its keys in order.
func canonEntry(e tsm1.WALEntry) string {
	switch x := e.(type) {
	case *tsm1.WriteWALEntry:
		var ks []string
		for k := range x.Values {
			ks = append(ks, k)
		}
		sort.Strings(ks)
		var sb strings.Builder
		for _, k := range ks {
			fmt.Fprintf(&sb, "%q:", k)
			for _, v := range x.Values[k] {
				fmt.Fprintf(&sb, "%d=%T(%v),", v.UnixNano(), v.Value(), v.Value())
			}
			sb.WriteString(";")
		}
		return "write " + sb.String()
	case *tsm1.DeleteWALEntry:
		return fmt.Sprintf("delete %q", x.Keys)
	case *tsm1.DeleteRangeWALEntry:
		return fmt.Sprintf("deleterange %q %d %d", x.Keys, x.Min, x.Max)
	}
	return fmt.Sprintf("%T", e)
}

// zeroReader delivers `left` zero bytes, a few at a time.
type zeroReader struct{ left int }

func (z *zeroReader) Read(b []byte) (int, error) {
	if z.left == 0 {
		return 0, io.EOF
	}
	n := len(b)
	if n > z.left {
		n = z.left
	}
	if n > 300000 {
		n = 300000 // short reads
	}
	for i := 0; i < n; i++ {
		b[i] = 0
	}
	z.left -= n
	return n, nil
}

func (Prop) RunImpl(c fw.Case) []string {
	out := make([]string, len(c.Ops))
	for i, op := range c.Ops {
		out[i] = runOp(op)
	}
	return out
}

// Oracle: decode(encode xs) == xs on the Go side alone; the batch family round-trips;
// a WAL cut replays exactly the complete valid frames before the cut; nothing panics.
func (Prop) Oracle(c fw.Case, out []string) fw.Verdict {
	for i, op := range c.Ops {
		if i >= len(out) {
			break
		}
		f := strings.Fields(op)
		o := out[i]
		if strings.HasPrefix(o, "panic") {
			return fw.Verdict{OK: false, Why: op[:min(len(op), 200)] + " => " + o, Signature: "panic in " + f[0]}
		}
		if strings.HasPrefix(o, "WAL-CONTENT") {
			return fw.Verdict{OK: false, Why: op[:min(len(op), 120)] + " => " + o, Signature: "WAL entry changes after it was read"}
		}
		switch f[0] {
		case "walgrow":
			// whatever the header claims, the buffer stays within twice the bytes that were
			// there plus three chunks, and exactly min(n, p) bytes are read
			p, _ := strconv.Atoi(f[1])
			n, _ := strconv.Atoi(f[2])
			of := strings.Fields(o)
			if len(of) != 4 {
				return fw.Verdict{OK: false, Why: op + " => " + o, Signature: "walgrow malformed"}
			}
			l, _ := strconv.Atoi(of[1])
			c, _ := strconv.Atoi(of[2])
			m := n
			if p < m {
				m = p
			}
			if l != m {
				return fw.Verdict{OK: false, Why: fmt.Sprintf("%s read %d bytes, %d were to be read", op, l, m), Signature: "walgrow byte count"}
			}
			if c > 2*m+3*(1<<20) {
				return fw.Verdict{OK: false, Why: fmt.Sprintf("%s: buffer of %d bytes for %d bytes present (claimed %d)", op, c, p, n), Signature: "WAL reader sizes its buffer by the claimed length"}
			}
		case "tenc", "ienc", "benc", "fenc":
			// the next op decodes exactly these bytes
			if strings.HasPrefix(o, "encoders-differ") {
				return fw.Verdict{OK: false, Why: op[:min(len(op), 200)] + " => " + o, Signature: "float encoders differ"}
			}
			if o == "err" {
				// an encoder error is acceptable only if it is not silently lossy: nothing was emitted
				continue
			}
			if i+1 < len(c.Ops) && i+1 < len(out) {
				dec := strings.Fields(c.Ops[i+1])
				if len(dec) == 2 && dec[1] == strings.TrimPrefix(o, "ok ") {
					want := "ok " + f[1]
					if out[i+1] != want {
						return fw.Verdict{OK: false, Why: fmt.Sprintf("%s round trip: decoded %.120s, wrote %.120s", f[0], out[i+1], want), Signature: f[0] + " round-trip"}
					}
				}
			}
		case "tbatch", "ibatch", "bbatch", "fbatch", "sbatch":
			if !strings.Contains(o, "rt=true") {
				return fw.Verdict{OK: false, Why: op[:min(len(op), 200)] + " => " + o, Signature: f[0] + " round-trip"}
			}
		case "wal":
			// expected: complete valid frames before the cut
			k, _ := strconv.Atoi(f[1])
			off, cnt := 0, 0
			for _, fr := range strings.Split(f[2], ",") {
				p := strings.Split(fr, ":")
				l, _ := strconv.Atoi(p[1])
				if p[2] != "1" || off+5+l > k {
					break
				}
				off += 5 + l
				cnt++
			}
			want := fmt.Sprintf("ok %d %d", cnt, off)
			if o != want {
				return fw.Verdict{OK: false, Why: fmt.Sprintf("wal cut at %d: got %s want %s", k, o, want), Signature: "wal torn prefix"}
			}
		}
	}
	return fw.Verdict{OK: true}
}

func (Prop) Trivial(c fw.Case, out []string) bool {
	f := strings.Fields(c.Ops[0])
	if f[0] == "wal" {
		return len(c.Ops) < 3
	}
	return !strings.Contains(f[1], ",") && len(f[1]) < 2
}

func min(a, b int) int {
	if a < b {
		return a
	}
	return b
}
