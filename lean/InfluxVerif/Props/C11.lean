/-
C11 — Query results depend only on the data and the statement.
The reference evaluation (Model/Query.lean) is a function of the statement and the list of
logical points alone — there is no shard, file, cache or node in it — and the real engine is
compared with it under four physical layouts (harness/props/c11).  The theorems are the facts
about that evaluation which make "one shard or many" immaterial: the time windows partition
the time line, counts and sums over a partition of the points add up, the extreme of a
partition is the extreme of the parts' extremes, and `fill(none)` is `fill(null)` without
its empty windows.
-/
import InfluxVerif.Model.Query

namespace InfluxVerif.Query

/-! ### windows -/

/-- **Every instant lies in exactly the window that starts at `bucketStart`**: windows of
`interval` seconds aligned at `offset` partition the time line. -/
theorem bucket_contains (interval offset : Nat) (hi : 0 < interval) (t : Int) :
    bucketStart interval offset t ≤ t ∧ t < bucketStart interval offset t + (interval : Int) := by
  unfold bucketStart
  simp only
  have hpos : (0 : Int) < (interval : Int) := by exact_mod_cast hi
  have h1 := Int.emod_nonneg (t - ((offset % interval : Nat) : Int)) (Int.ne_of_gt hpos)
  have h2 := Int.emod_lt_of_pos (t - ((offset % interval : Nat) : Int)) hpos
  constructor <;> omega

/-- window starts are aligned: `start - offset` is a multiple of the interval -/
theorem bucket_aligned (interval offset : Nat) (t : Int) :
    (interval : Int) ∣ (bucketStart interval offset t - ((offset % interval : Nat) : Int)) := by
  unfold bucketStart
  simp only
  have h := Int.dvd_sub_self_of_emod_eq (a := t - ((offset % interval : Nat) : Int)) (b := (interval : Int)) rfl
  have e : t - ((offset % interval : Nat) : Int) - (t - ((offset % interval : Nat) : Int)) % (interval : Int)
      + ((offset % interval : Nat) : Int) - ((offset % interval : Nat) : Int)
      = t - ((offset % interval : Nat) : Int) - (t - ((offset % interval : Nat) : Int)) % (interval : Int) := by omega
  rw [e]
  have := Int.dvd_neg.2 h
  have e2 : -((t - ((offset % interval : Nat) : Int)) % (interval : Int) - (t - ((offset % interval : Nat) : Int)))
      = t - ((offset % interval : Nat) : Int) - (t - ((offset % interval : Nat) : Int)) % (interval : Int) := by omega
  rwa [e2] at this

/-! ### aggregates over a partition of the points (one shard or many) -/

def countOf (pts : List Pt) : Int := pts.length
def sumOf (pts : List Pt) : Int := (pts.map (·.v)).foldl (· + ·) 0

theorem foldl_add_shift (l : List Int) (a : Int) : l.foldl (· + ·) a = a + l.foldl (· + ·) 0 := by
  induction l generalizing a with
  | nil => simp
  | cons x xs ih => rw [List.foldl_cons, List.foldl_cons, ih, ih (0 + x)]; omega

/-- **count and sum over any split of the points are the sums of the parts** — in particular
over the split of a time range into shards -/
theorem count_sum_additive (a b : List Pt) :
    countOf (a ++ b) = countOf a + countOf b ∧ sumOf (a ++ b) = sumOf a + sumOf b := by
  constructor
  · simp [countOf]
  · unfold sumOf
    rw [List.map_append, List.foldl_append, foldl_add_shift]

/-- the reference evaluation of `count`/`sum` over one window is these totals -/
theorem apply_count (pts : List Pt) (h : pts ≠ []) : apply .count pts = some (none, .int (countOf pts)) := by
  unfold apply countOf
  cases pts with
  | nil => exact absurd rfl h
  | cons p ps => simp

theorem apply_sum (pts : List Pt) (h : pts ≠ []) : apply .sum pts = some (none, .int (sumOf pts)) := by
  unfold apply sumOf
  cases pts with
  | nil => exact absurd rfl h
  | cons p ps => simp

/-- the least value of a list -/
def minOf : List Int → Option Int
  | [] => none
  | x :: xs => some (xs.foldl min x)

theorem foldl_min_le (xs : List Int) (a : Int) : xs.foldl min a ≤ a ∧ ∀ x ∈ xs, xs.foldl min a ≤ x := by
  induction xs generalizing a with
  | nil => simp
  | cons y ys ih =>
    rw [List.foldl_cons]
    obtain ⟨h1, h2⟩ := ih (min a y)
    refine ⟨by omega, ?_⟩
    intro x hx
    simp only [List.mem_cons] at hx
    rcases hx with rfl | hx
    · omega
    · exact h2 x hx

theorem foldl_min_mem (xs : List Int) (a : Int) : xs.foldl min a = a ∨ xs.foldl min a ∈ xs := by
  induction xs generalizing a with
  | nil => simp
  | cons y ys ih =>
    rw [List.foldl_cons]
    rcases ih (min a y) with h | h
    · rw [h]
      by_cases hay : a ≤ y
      · left; omega
      · right; simp; omega
    · right; simp [h]

/-- **the minimum over a split is the minimum of the parts' minima** -/
theorem min_of_parts (a b : List Int) (x y : Int) (ha : minOf a = some x) (hb : minOf b = some y) :
    minOf (a ++ b) = some (min x y) := by
  cases a with
  | nil => simp [minOf] at ha
  | cons a0 as =>
    cases b with
    | nil => simp [minOf] at hb
    | cons b0 bs =>
      simp only [minOf, Option.some.injEq] at ha hb
      simp only [List.cons_append, minOf, List.foldl_append, List.foldl_cons, Option.some.injEq]
      rw [ha]
      -- foldl min (min x b0) bs = min x (foldl min b0 bs)
      have key : ∀ (l : List Int) (u w : Int), l.foldl min (min u w) = min u (l.foldl min w) := by
        intro l
        induction l with
        | nil => intro u w; rfl
        | cons z zs ih =>
          intro u w
          rw [List.foldl_cons, List.foldl_cons]
          have : min (min u w) z = min u (min w z) := by omega
          rw [this, ih]
      rw [key, hb]

/-- the greatest value of a list -/
def maxOf : List Int → Option Int
  | [] => none
  | x :: xs => some (xs.foldl max x)

/-- **the maximum over a split is the maximum of the parts' maxima** -/
theorem max_of_parts (a b : List Int) (x y : Int) (ha : maxOf a = some x) (hb : maxOf b = some y) :
    maxOf (a ++ b) = some (max x y) := by
  cases a with
  | nil => simp [maxOf] at ha
  | cons a0 as =>
    cases b with
    | nil => simp [maxOf] at hb
    | cons b0 bs =>
      simp only [maxOf, Option.some.injEq] at ha hb
      simp only [List.cons_append, maxOf, List.foldl_append, List.foldl_cons, Option.some.injEq]
      rw [ha]
      have key : ∀ (l : List Int) (u w : Int), l.foldl max (max u w) = max u (l.foldl max w) := by
        intro l
        induction l with
        | nil => intro u w; rfl
        | cons z zs ih =>
          intro u w
          rw [List.foldl_cons, List.foldl_cons]
          have : max (max u w) z = max u (max w z) := by omega
          rw [this, ih]
      rw [key, hb]

/-- **the mean over any split is the ratio of the summed partial sums and counts** — what a
merge of partial aggregates has to carry (sum *and* count per part) -/
theorem mean_of_parts (a b : List Pt) (h : a ++ b ≠ []) :
    apply .mean (a ++ b) = some (none, .ratio (sumOf a + sumOf b) ((countOf a + countOf b).toNat)) := by
  have hc := (count_sum_additive a b).1
  have hs := (count_sum_additive a b).2
  unfold apply
  cases hl : a ++ b with
  | nil => exact absurd hl h
  | cons p ps =>
    simp only [List.isEmpty_cons, Bool.false_eq_true, if_false]
    rw [← hl]
    unfold sumOf at hs
    unfold countOf at hc
    rw [hs]
    congr 3

/-- **a mean of the parts' means is not the mean** (the pinned merge carries the counts; a
merge that forgets them — seeded change c11-m1 — is wrong whenever the parts differ in size):
parts {10, 20, 30} and {100} have means 20 and 100, whose mean is 60; the mean of the union
is 40. Stated without division: (s₁/c₁ + s₂/c₂)/2 = (s₁+s₂)/(c₁+c₂) fails after clearing
denominators. -/
theorem mean_of_means_differs :
    ∃ a b : List Pt, a ≠ [] ∧ b ≠ [] ∧
      (sumOf a * countOf b + sumOf b * countOf a) * (countOf a + countOf b)
        ≠ 2 * (countOf a * countOf b) * (sumOf a + sumOf b) :=
  ⟨[⟨"", 1, 10⟩, ⟨"", 2, 20⟩, ⟨"", 3, 30⟩], [⟨"", 4, 100⟩], by simp, by simp, by decide⟩

/-! ### fill -/

theorem fillRows_none (rows : List (Int × Option Cell)) :
    fillRows .none false rows = rows.filterMap fun r => r.2.map fun c => ⟨r.1, c⟩ := by
  unfold fillRows; rfl

theorem fillRows_null (rows : List (Int × Option Cell)) :
    fillRows .null false rows = rows.map fun r => ⟨r.1, r.2.getD .null⟩ := by
  unfold fillRows; simp

/-- **`fill(none)` is `fill(null)` without the empty windows** (for functions other than count) -/
theorem fill_none_is_null_filtered (rows : List (Int × Option Cell)) (hnn : ∀ r ∈ rows, r.2 ≠ some .null) :
    fillRows .none false rows = (fillRows .null false rows).filter fun r => r.c != .null := by
  rw [fillRows_none, fillRows_null]
  induction rows with
  | nil => rfl
  | cons r rest ih =>
    obtain ⟨t, c⟩ := r
    have ih' := ih (fun x hx => hnn x (by simp [hx]))
    cases c with
    | none =>
      simp only [List.filterMap_cons, Option.map_none, List.map_cons, Option.getD_none]
      rw [List.filter_cons]
      simp only [bne_self_eq_false, Bool.false_eq_true, if_false]
      exact ih'
    | some c =>
      have hc : c ≠ .null := fun e => hnn (t, some c) (by simp) (by rw [e])
      simp only [List.filterMap_cons, Option.map_some, List.map_cons, Option.getD_some]
      rw [List.filter_cons]
      have : (c != Cell.null) = true := by simpa using hc
      simp only [this, if_true]
      rw [ih']

/-! ### limit and offset -/

theorem limit_offset_len (s : Stmt) (pts : List Pt) (hl : s.limit ≠ 0) : (evalSeries s pts).length ≤ s.limit := by
  unfold evalSeries
  simp only [hl, beq_iff_eq, if_false]
  exact List.length_take_le _ _

/-! ### Non-vacuity -/

example : bucketStart 7 2 1600000017 = 1600000012 := by decide
example : evalSeries { fn := .count, lo := 0, hi := 20, interval := 10 } [⟨"a", 3, 5⟩, ⟨"a", 14, 6⟩, ⟨"a", 15, 7⟩]
    = [⟨0, .int 1⟩, ⟨10, .int 2⟩, ⟨20, .int 0⟩] := by decide

end InfluxVerif.Query
