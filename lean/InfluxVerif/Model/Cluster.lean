/-
C05 — a distributed query reads every shard exactly once or fails.
The model: shards with their owners and data, the status of every node, the shards a query
needs (shard groups overlapping its time range), which of them can be served completely from
where, and the result of the statement over the union of the needed shards' data.
Core Lean only.
-/
namespace InfluxVerif.Cluster

/-- a point of the test measurement: host index (tag `host=h<i>`), time, integer value -/
structure Pt where
  host : Nat
  t : Int
  v : Int
  deriving Repr, DecidableEq, Inhabited

structure Shard where
  id : Nat
  lo : Int            -- shard group [lo, hi)
  hi : Int
  owners : List Nat   -- node indices
  pts : List Pt       -- one per (host, time): later writes replace earlier ones
  deriving Repr, Inhabited

inductive Status
  | up | down | errFault | midFault
  | slow      -- answers, but later than the coordinator's RPC timeout
  deriving Repr, DecidableEq, Inhabited

structure St where
  n : Nat := 0
  shards : List Shard := []
  status : List Status := []
  slowOK : Bool := false     -- made with the short RPC timeout: a node may be made slow
  deriving Repr, Inhabited

def statusOf (s : St) (i : Nat) : Status := s.status.getD i .down

/-- `ShardGroupInfo.Overlaps(min, max)`: starts at or before max and ends after min -/
def needed (s : St) (qlo qhi : Int) : List Shard :=
  s.shards.filter fun sh => sh.lo ≤ qhi && sh.hi > qlo

/-- a node answers metadata requests (field types) unless it is down or slower than the RPC
timeout -/
def reachable (s : St) (o : Nat) : Bool := statusOf s o != .down && statusOf s o != .slow

/-- the coordinator can learn the shard's field types: from its own store or from any owner
that answers -/
def metaOK (s : St) (c : Nat) (sh : Shard) : Bool :=
  sh.owners.contains c || sh.owners.any (reachable s)

/-- can the coordinating node `c` obtain all of the shard's points?  From its own store if it
is an owner (local reads bypass the network); otherwise from a healthy owner; an owner that
fails part-way through a stream (or whose connection drops) still serves a shard it holds no
data of; an owner that refuses to create iterators serves nothing. -/
def servable (s : St) (c : Nat) (sh : Shard) : Bool :=
  sh.owners.contains c || (sh.owners.any fun o => statusOf s o == .up) ||
    (sh.pts.isEmpty && sh.owners.any fun o => statusOf s o == .midFault)

/-- is the queried field known at all among the needed shards?  If not, the statement has
nothing to iterate over and no iterator is requested from anyone. -/
def fieldKnown (s : St) (qlo qhi : Int) : Bool := (needed s qlo qhi).any fun sh => !sh.pts.isEmpty

/-- the plan the property demands: the field types of every needed shard can be learned, and
(when there is anything to read) every needed shard is read from exactly one node that can
serve it completely. `always`: the statement builds its iterators whatever the field's type
(`count` does: it counts values of any type, so it asks every shard even for a field nobody
has); the others ask nobody when no needed shard knows the field. -/
def planOK (s : St) (c : Nat) (qlo qhi : Int) (always : Bool := false) : Bool :=
  (needed s qlo qhi).all (metaOK s c) &&
    (!(always || fieldKnown s qlo qhi) || (needed s qlo qhi).all (servable s c))

/-- the logical data the query ranges over: each needed shard once -/
def unionPts (s : St) (qlo qhi : Int) : List Pt :=
  ((needed s qlo qhi).flatMap (·.pts)).filter fun p => qlo ≤ p.t && p.t ≤ qhi

def upsertPt (p : Pt) : List Pt → List Pt
  | [] => [p]
  | q :: rest => if q.host == p.host && q.t == p.t then p :: rest else q :: upsertPt p rest

end InfluxVerif.Cluster

namespace InfluxVerif.Cluster

/-! ### the assignment of shards to nodes (`ClusterShardMapper.mapShards`, `remoteShardGroup.shuffleShards`) -/

abbrev Plan := List (Nat × List Shard)     -- node ↦ shards requested from it, in order of first use

/-- add a shard to the node's list (the plan is a map from node to shard list) -/
def Plan.add : Plan → Nat → Shard → Plan
  | [], node, sh => [(node, [sh])]
  | e :: rest, node, sh => if e.1 == node then (e.1, e.2 ++ [sh]) :: rest else e :: Plan.add rest node sh

/-- `mapShards`: a shard the coordinator owns is read locally; otherwise from a node already
in the plan that owns it; otherwise from the owner `pick` chooses (the code picks at random);
a shard without owners is skipped. -/
def assign (loc : Nat) (pick : Shard → Nat) : List Shard → Plan → Plan
  | [], p => p
  | sh :: rest, p =>
    if sh.owners.contains loc then assign loc pick rest (p.add loc sh)
    else if sh.owners.isEmpty then assign loc pick rest p
    else match sh.owners.find? (fun o => p.any (·.1 == o)) with
      | some o => assign loc pick rest (p.add o sh)
      | none => assign loc pick rest (p.add (pick sh) sh)

/-- `shuffleShards`: after some nodes failed (`dirty`), every shard goes to a node already in
the new plan that owns it, else to its first owner that has not failed; if some shard has no
such owner there is no plan (the request fails). -/
def shuffle (dirty : List Nat) : List Shard → Plan → Option Plan
  | [], p => some p
  | sh :: rest, p =>
    if sh.owners.isEmpty then shuffle dirty rest p
    else match sh.owners.find? (fun o => p.any (·.1 == o)) with
      | some o => shuffle dirty rest (p.add o sh)
      | none => match sh.owners.find? (fun o => !dirty.contains o) with
        | some o => shuffle dirty rest (p.add o sh)
        | none => none

def Plan.shards (p : Plan) : List Shard := p.flatMap (·.2)

end InfluxVerif.Cluster
