// Package metah drives the real meta FSM (through the verif hook) with the op lines of the
// "meta" driver model and renders the same canonical dump.
package metah

import (
	"fmt"
	"math/big"
	"sort"
	"strconv"
	"strings"
	"time"

	"github.com/influxdata/influxdb/services/meta"
)

type M struct {
	F    *meta.VerifFSM
	K    uint64
	Auto bool
}

func New(auto bool) *M { return &M{F: meta.VerifNewFSM(auto), Auto: auto} }

func Nm(s string) string {
	switch s {
	case "~":
		return ""
	case "~L":
		return strings.Repeat("x", 256)
	}
	return s
}
func UnNm(s string) string {
	if s == "" {
		return "~"
	}
	if len(s) == 256 {
		return "~L"
	}
	return s
}

func ns(t time.Time) string {
	// exact, also outside the int64 nanosecond range
	v := new(big.Int).Mul(big.NewInt(t.Unix()), big.NewInt(1000000000))
	v.Add(v, big.NewInt(int64(t.Nanosecond())))
	return v.String()
}

func delState(g *meta.ShardGroupInfo, now time.Time) string {
	if g.DeletedAt.IsZero() {
		return "L"
	}
	if now.Add(meta.ShardGroupDeletedExpiration).After(g.DeletedAt) {
		return "O"
	}
	return "R"
}

func effEnd(g *meta.ShardGroupInfo) time.Time {
	if g.Truncated() {
		return g.TruncatedAt
	}
	return g.EndTime
}

func Dump(d *meta.Data) string {
	now := time.Now()
	var b strings.Builder
	fmt.Fprintf(&b, "D t=%d i=%d c=%d mn=%d msg=%d ms=%d meta=[", d.Term, d.Index, d.ClusterID, d.MaxNodeID, d.MaxShardGroupID, d.MaxShardID)
	nodes := func(ns []meta.NodeInfo) {
		for i, n := range ns {
			if i > 0 {
				b.WriteByte(';')
			}
			fmt.Fprintf(&b, "%d:%s:%s", n.ID, UnNm(n.Addr), UnNm(n.TCPAddr))
		}
	}
	nodes(d.MetaNodes)
	b.WriteString("] data=[")
	nodes(d.DataNodes)
	b.WriteString("] dbs=[")
	for i, db := range d.Databases {
		if i > 0 {
			b.WriteByte(';')
		}
		fmt.Fprintf(&b, "%s{def=%s,rps=[", UnNm(db.Name), UnNm(db.DefaultRetentionPolicy))
		for j, rp := range db.RetentionPolicies {
			if j > 0 {
				b.WriteByte(';')
			}
			fmt.Fprintf(&b, "%s{r=%d,d=%d,s=%d,g=[", UnNm(rp.Name), rp.ReplicaN, int64(rp.Duration), int64(rp.ShardGroupDuration))
			gs := make([]*meta.ShardGroupInfo, len(rp.ShardGroups))
			for k := range rp.ShardGroups {
				gs[k] = &rp.ShardGroups[k]
			}
			sort.SliceStable(gs, func(x, y int) bool {
				ex, ey := effEnd(gs[x]), effEnd(gs[y])
				if !ex.Equal(ey) {
					return ex.Before(ey)
				}
				if !gs[x].StartTime.Equal(gs[y].StartTime) {
					return gs[x].StartTime.Before(gs[y].StartTime)
				}
				return gs[x].ID < gs[y].ID
			})
			for k, g := range gs {
				if k > 0 {
					b.WriteByte(';')
				}
				tr := "-"
				if g.Truncated() {
					tr = ns(g.TruncatedAt)
				}
				fmt.Fprintf(&b, "%d:%s:%s:%s:%s:{", g.ID, ns(g.StartTime), ns(g.EndTime), delState(g, now), tr)
				for si, s := range g.Shards {
					if si > 0 {
						b.WriteByte(' ')
					}
					var os []string
					for _, o := range s.Owners {
						os = append(os, strconv.FormatUint(o.NodeID, 10))
					}
					fmt.Fprintf(&b, "%d(%s)", s.ID, strings.Join(os, ","))
				}
				b.WriteString("}")
			}
			b.WriteString("],subs=[")
			for k, s := range rp.Subscriptions {
				if k > 0 {
					b.WriteByte(';')
				}
				fmt.Fprintf(&b, "%s:%s:%s", UnNm(s.Name), s.Mode, strings.Join(s.Destinations, "|"))
			}
			b.WriteString("]}")
		}
		b.WriteString("],cqs=[")
		for k, cq := range db.ContinuousQueries {
			if k > 0 {
				b.WriteByte(';')
			}
			fmt.Fprintf(&b, "%s:%s", UnNm(cq.Name), cq.Query)
		}
		b.WriteString("]}")
	}
	b.WriteString("] users=[")
	for i, u := range d.Users {
		if i > 0 {
			b.WriteByte(';')
		}
		var ps []string
		for db, p := range u.Privileges {
			ps = append(ps, fmt.Sprintf("%s=%d", UnNm(db), int(p)))
		}
		sort.Strings(ps)
		adm := 0
		if u.Admin {
			adm = 1
		}
		fmt.Fprintf(&b, "%s:%s:%d:{%s}", UnNm(u.Name), u.Hash, adm, strings.Join(ps, ","))
	}
	b.WriteString("]")
	return b.String()
}

func i64(s string) int64  { v, _ := strconv.ParseInt(s, 10, 64); return v }
func u64(s string) uint64 { v, _ := strconv.ParseUint(s, 10, 64); return v }
func u32(s string) uint32 { v, _ := strconv.ParseUint(s, 10, 32); return uint32(v) }
func optI64(s string) *int64 {
	if s == "-" {
		return nil
	}
	v := i64(s)
	return &v
}
func optU32(s string) *uint32 {
	if s == "-" {
		return nil
	}
	v := u32(s)
	return &v
}
func optStr(s string) *string {
	if s == "-" {
		return nil
	}
	v := Nm(s)
	return &v
}

// Build returns the protobuf command for an op line, the "age" to give groups deleted by
// it, and ok=false for lines that are not commands.
func Build(f []string) (cmd []byte, age string, ok bool) {
	defer func() {
		if recover() != nil {
			ok = false
		}
	}()
	ok = true
	switch f[0] {
	case "createdb":
		if len(f) == 2 {
			cmd = meta.VerifCmdCreateDatabase(Nm(f[1]))
		} else {
			cmd = meta.VerifCmdCreateDatabaseWithRP(Nm(f[1]), Nm(f[2]), u32(f[3]), i64(f[4]), i64(f[5]))
		}
	case "dropdb":
		cmd = meta.VerifCmdDropDatabase(Nm(f[1]))
	case "createrp":
		cmd = meta.VerifCmdCreateRP(Nm(f[1]), Nm(f[2]), u32(f[3]), i64(f[4]), i64(f[5]), f[6] == "1")
	case "droprp":
		cmd = meta.VerifCmdDropRP(Nm(f[1]), Nm(f[2]))
	case "updaterp":
		cmd = meta.VerifCmdUpdateRP(Nm(f[1]), Nm(f[2]), optStr(f[3]), optI64(f[4]), optU32(f[5]), optI64(f[6]), f[7] == "1")
	case "createsg":
		cmd = meta.VerifCmdCreateShardGroup(Nm(f[1]), Nm(f[2]), i64(f[3]))
	case "deletesg":
		cmd, age = meta.VerifCmdDeleteShardGroup(Nm(f[1]), Nm(f[2]), u64(f[3])), f[4]
	case "truncate":
		cmd = meta.VerifCmdTruncate(i64(f[1]))
	case "prune":
		cmd = meta.VerifCmdPrune()
	case "dropshard":
		cmd, age = meta.VerifCmdDropShard(u64(f[1])), f[2]
	case "copyowner":
		cmd = meta.VerifCmdCopyShardOwner(u64(f[1]), u64(f[2]))
	case "removeowner":
		cmd, age = meta.VerifCmdRemoveShardOwner(u64(f[1]), u64(f[2])), f[3]
	case "createdatanode":
		cmd = meta.VerifCmdCreateDataNode(Nm(f[1]), Nm(f[2]))
	case "deletedatanode":
		cmd, age = meta.VerifCmdDeleteDataNode(u64(f[1])), f[2]
	case "updatedatanode":
		cmd = meta.VerifCmdUpdateDataNode(u64(f[1]), Nm(f[2]), Nm(f[3]))
	case "createmetanode":
		cmd = meta.VerifCmdCreateMetaNode(Nm(f[1]), Nm(f[2]), u64(f[3]))
	case "deletemetanode":
		cmd = meta.VerifCmdDeleteMetaNode(u64(f[1]))
	case "setmetanode":
		cmd = meta.VerifCmdSetMetaNode(Nm(f[1]), Nm(f[2]), u64(f[3]))
	case "createuser":
		cmd = meta.VerifCmdCreateUser(Nm(f[1]), f[2], f[3] == "1")
	case "dropuser":
		cmd = meta.VerifCmdDropUser(Nm(f[1]))
	case "updateuser":
		cmd = meta.VerifCmdUpdateUser(Nm(f[1]), f[2])
	case "setpriv":
		cmd = meta.VerifCmdSetPrivilege(Nm(f[1]), Nm(f[2]), int32(i64(f[3])))
	case "setadmin":
		cmd = meta.VerifCmdSetAdmin(Nm(f[1]), f[2] == "1")
	case "createcq":
		cmd = meta.VerifCmdCreateCQ(Nm(f[1]), Nm(f[2]), f[3])
	case "dropcq":
		cmd = meta.VerifCmdDropCQ(Nm(f[1]), Nm(f[2]))
	case "createsub":
		var ds []string
		if f[5] != "-" {
			ds = strings.Split(f[5], ",")
		}
		cmd = meta.VerifCmdCreateSubscription(Nm(f[1]), Nm(f[2]), Nm(f[3]), f[4], ds)
	case "dropsub":
		cmd = meta.VerifCmdDropSubscription(Nm(f[1]), Nm(f[2]), Nm(f[3]))
	default:
		ok = false
	}
	return
}

func liveSet(d *meta.Data) map[uint64]bool {
	m := map[uint64]bool{}
	for _, db := range d.Databases {
		for _, rp := range db.RetentionPolicies {
			for _, g := range rp.ShardGroups {
				if !g.Deleted() {
					m[g.ID] = true
				}
			}
		}
	}
	return m
}

// setAges rewrites DeletedAt of the groups this command deleted (or re-stamped): the Go code
// takes it from the wall clock, the model knows only recent/old.
func setAges(d *meta.Data, before map[uint64]time.Time, age string) {
	for i := range d.Databases {
		for j := range d.Databases[i].RetentionPolicies {
			gs := d.Databases[i].RetentionPolicies[j].ShardGroups
			for k := range gs {
				if gs[k].DeletedAt.IsZero() {
					continue
				}
				if prev, ok := before[gs[k].ID]; ok && prev.Equal(gs[k].DeletedAt) {
					continue // untouched by this command
				}
				if age == "old" {
					gs[k].DeletedAt = time.Now().Add(-60 * 24 * time.Hour).UTC()
				} else {
					gs[k].DeletedAt = time.Now().Add(-time.Hour).UTC()
				}
			}
		}
	}
}

func deletedTimes(d *meta.Data) map[uint64]time.Time {
	m := map[uint64]time.Time{}
	for _, db := range d.Databases {
		for _, rp := range db.RetentionPolicies {
			for _, g := range rp.ShardGroups {
				m[g.ID] = g.DeletedAt
			}
		}
	}
	return m
}

func ErrText(res interface{}) string {
	if res == nil {
		return "ok"
	}
	if e, ok := res.(error); ok {
		return "err:" + strings.ReplaceAll(e.Error(), " ", "_")
	}
	return fmt.Sprintf("res:%v", res)
}

// Step executes one op line; returns the canonical result line.
func (m *M) Step(line string) string {
	f := strings.Fields(line)
	if len(f) == 0 {
		return "bad-op"
	}
	switch f[0] {
	case "reset":
		auto := true
		if len(f) > 1 {
			auto = f[1] == "1"
		}
		*m = *New(auto)
		return "ok"
	case "dump":
		return Dump(m.F.Data())
	}
	if f[0] == "deletesgid" && len(f) == 3 {
		// delete the group with this id wherever it lives (generators cannot know the policy)
		id := u64(f[1])
		found := false
		for _, db := range m.F.Data().Databases {
			for _, rp := range db.RetentionPolicies {
				for _, g := range rp.ShardGroups {
					if g.ID == id && !found {
						found = true
						f = []string{"deletesg", UnNm(db.Name), UnNm(rp.Name), f[1], f[2]}
					}
				}
			}
		}
		if !found {
			return "nogroup"
		}
	}
	cmd, age, ok := Build(f)
	if !ok {
		return "bad-op"
	}
	m.K++
	before := deletedTimes(m.F.Data())
	res, pan := m.F.Apply(cmd, m.K, 1+m.K/8)
	if pan != "" {
		return "panic:" + strings.ReplaceAll(pan, " ", "_")
	}
	if age != "" {
		setAges(m.F.Data(), before, age)
	}
	return ErrText(res)
}
