/-
C16 — Requests run only with valid credentials and sufficient grants.
Theorems over `InfluxVerif.Auth`: the authorisation decision for every user, grant set,
statement list and default database; the credential cache for every interleaving of
two-step authentications with metadata updates.
-/
import InfluxVerif.Model.Auth
import InfluxVerif.Gen.C16

namespace InfluxVerif.Auth
open InfluxVerif.Meta

/-- the user's grants cover privilege `p` on `db` -/
def covers (u : User) (p : Priv) (db : String) : Prop :=
  u.admin = true ∨ p = 0 ∨ ∃ q, u.privs.lookup db = some q ∧ (q = p ∨ q = 3)

theorem authorizeDatabase_iff (u : User) (p : Priv) (db : String) :
    authorizeDatabase u p db = true ↔ covers u p db := by
  unfold authorizeDatabase covers
  cases h : u.privs.lookup db with
  | none => simp
  | some q => simp [or_assoc]

/-- **Soundness of query authorisation (users exist).** A request is allowed only for an
existing user whose grants cover every privilege of every statement, on the database the
privilege names or else the request's default database; a statement demanding
administrator rights is allowed only for an administrator. -/
theorem authorized_sound (userCount : Nat) (hn : userCount ≠ 0) (u : Option User) (q : List Stmt)
    (db : String) (h : authorizeQuery userCount u q db = true) :
    ∃ usr, u = some usr ∧ ∀ s ∈ q, ∀ p ∈ s.privs,
      (p.admin = true → usr.admin = true) ∧ covers usr p.priv (if p.name = "" then db else p.name) := by
  unfold authorizeQuery at h
  simp only [hn, if_false] at h
  cases u with
  | none => simp at h
  | some usr =>
    refine ⟨usr, rfl, ?_⟩
    intro s hs p hp
    simp only [Bool.or_eq_true, List.all_eq_true] at h
    rcases h with hadm | hall
    · exact ⟨fun _ => hadm, Or.inl hadm⟩
    · have := hall s hs
      simp only [stmtAllowed, List.all_eq_true, Bool.and_eq_true, Bool.not_eq_true'] at this
      obtain ⟨hna, hdb⟩ := this p hp
      exact ⟨fun ha => by simp [hna] at ha, (authorizeDatabase_iff _ _ _).1 hdb⟩

/-- statements that need administrator rights run only for administrators -/
theorem admin_only (userCount : Nat) (hn : userCount ≠ 0) (usr : User) (q : List Stmt) (db : String)
    (s : Stmt) (hs : s ∈ q) (p : ReqPriv) (hp : p ∈ s.privs) (hadm : p.admin = true)
    (h : authorizeQuery userCount (some usr) q db = true) : usr.admin = true := by
  obtain ⟨u', hu, hall⟩ := authorized_sound userCount hn (some usr) q db h
  cases hu
  exact (hall s hs p hp).1 hadm

/-- no credentials, no execution (once any user exists) -/
theorem no_user_denied (userCount : Nat) (hn : userCount ≠ 0) (q : List Stmt) (db : String) :
    authorizeQuery userCount none q db = false := by
  simp [authorizeQuery, hn]

/-- **Bootstrap, as far as it holds.** Before any user exists a request is allowed only if its
*first* statement creates an administrator. The property asks for more — that the request
*consist of* that creation — which is false of the code (and of this model, by the witness
below): see known_findings.json `C16-bootstrap-multistatement`. -/
theorem bootstrap_first_statement_partial (u : Option User) (q : List Stmt) (db : String)
    (h : authorizeQuery 0 u q db = true) : ∃ s rest, q = s :: rest ∧ s.createsAdmin = true := by
  unfold authorizeQuery at h
  simp only [if_true] at h
  cases q with
  | nil => simp at h
  | cons s rest => exact ⟨s, rest, rfl, h⟩

/-- the full-strength bootstrap statement is refuted by a two-statement request -/
theorem bootstrap_only_create_admin_counterexample :
    ∃ q : List Stmt, authorizeQuery 0 none q "db0" = true ∧ ∃ s ∈ q, s.createsAdmin = false :=
  ⟨[⟨"CreateUserStatement", true, [⟨true, "", 3⟩]⟩, ⟨"DropDatabaseStatement", false, [⟨true, "", 3⟩]⟩],
    by decide, ⟨"DropDatabaseStatement", false, [⟨true, "", 3⟩]⟩, by simp, rfl⟩

/-- a write needs WRITE or ALL on the target database (or an administrator) -/
theorem write_needs_write_or_all (users : List User) (name db : String)
    (h : authorizeWrite users name db = true) :
    ∃ u ∈ users, u.name = name ∧ covers u 2 db := by
  unfold authorizeWrite at h
  cases hf : users.find? (·.name == name) with
  | none => simp [hf] at h
  | some u =>
    simp only [hf] at h
    have hm := List.mem_of_find?_eq_some hf
    have hp := List.find?_some hf
    exact ⟨u, hm, by simpa using hp, (authorizeDatabase_iff _ _ _).1 h⟩

/-! ### credential cache: all interleavings -/

/-- every cache entry and every pending store was verified against the hash it is bound to -/
def CacheInv (verify : Verify) (n : Node) : Prop :=
  (∀ e ∈ n.cache, verify e.pw e.bhash = true) ∧ (∀ p ∈ n.pending, verify p.pw p.bhash = true)

theorem cacheInv_init (verify : Verify) : CacheInv verify {} := by
  constructor <;> intro _ h <;> simp at h

theorem cacheInv_step (verify : Verify) (n : Node) (s : AuthStep) (h : CacheInv verify n) :
    CacheInv verify (authStep verify n s) := by
  obtain ⟨hc, hp⟩ := h
  cases s with
  | begin u pw =>
    simp only [authStep, authBegin]
    cases hu : lookupUser n u with
    | none => exact ⟨hc, hp⟩
    | some usr =>
      simp only
      split
      · exact ⟨hc, hp⟩
      · split
        · rename_i hv
          refine ⟨hc, ?_⟩
          intro p hpm
          simp only [List.mem_append, List.mem_singleton] at hpm
          rcases hpm with hpm | rfl
          · exact hp p hpm
          · exact hv
        · exact ⟨hc, hp⟩
  | finish =>
    simp only [authStep, authFinish]
    cases hpd : n.pending with
    | nil => simp only; exact ⟨hc, hp⟩
    | cons p rest =>
      simp only
      rw [hpd] at hp
      constructor
      · intro e he
        simp only [List.mem_cons, List.mem_filter] at he
        rcases he with rfl | ⟨he, _⟩
        · exact hp p (by simp)
        · exact hc e he
      · intro p' hp'
        exact hp p' (by simp [hp'])
  | poll us =>
    simp only [authStep, authPoll]
    exact ⟨fun e he => hc e (List.mem_filter.1 he).1, hp⟩

/-- the invariant holds after any sequence of steps, in any order -/
theorem cacheInv_run (verify : Verify) (steps : List AuthStep) :
    CacheInv verify (steps.foldl (authStep verify) {}) := by
  suffices ∀ n, CacheInv verify n → CacheInv verify (steps.foldl (authStep verify) n) from
    this {} (cacheInv_init verify)
  induction steps with
  | nil => intro n h; exact h
  | cons s rest ih => intro n h; exact ih _ (cacheInv_step verify n s h)

/-- **Cache soundness.** In every reachable state — whatever authentications and metadata
updates were interleaved before — a password is accepted for a user only if it verifies
against the hash the node *currently* holds for that user. So once a password change (or
the user's removal) has reached the node, the old password stops working there, also
through the cache. -/
theorem cache_sound (verify : Verify) (steps : List AuthStep) (user pw : String)
    (h : (authBegin verify (steps.foldl (authStep verify) {}) user pw).2 ≠ .rejected) :
    ∃ u, lookupUser (steps.foldl (authStep verify) {}) user = some u ∧ verify pw u.hash = true := by
  obtain ⟨hc, _⟩ := cacheInv_run verify steps
  generalize steps.foldl (authStep verify) {} = n at *
  unfold authBegin at h
  cases hu : lookupUser n user with
  | none => simp [hu] at h
  | some u =>
    refine ⟨u, rfl, ?_⟩
    simp only [hu] at h
    split at h
    · rename_i hany
      simp only [List.any_eq_true, Bool.and_eq_true, beq_iff_eq] at hany
      obtain ⟨e, he, ⟨⟨_, hpw⟩, hbh⟩⟩ := hany
      have := hc e he
      rw [hpw, hbh] at this
      exact this
    · split at h
      · rename_i hv; exact hv
      · simp at h

/-! ### the HTTP front -/

/-- **While no administrator exists no write is accepted**, whatever credentials the request
carries (the authentication middleware lets such a request through without a user; the write
handler must then refuse it). -/
theorem http_no_admin_no_write (verify : Verify) (n : Node) (c : Carrier) (user pw db : String) (dbExists : Bool)
    (h : n.users.any (·.admin) = false) : (httpWrite verify n c user pw db dbExists).2 ≠ 204 := by
  unfold httpWrite httpUser
  simp only [h, Bool.not_false, if_true]
  split <;> simp

/-- **A write is accepted only for a user the node knows who may write to the database**, and
if the request carried a password, only if that password was accepted for the user. -/
theorem http_write_needs_writer (verify : Verify) (n : Node) (c : Carrier) (user pw db : String) (dbExists : Bool)
    (h : (httpWrite verify n c user pw db dbExists).2 = 204) :
    ∃ n' u, (httpUser verify n c user pw) = (n', some (some u)) ∧ authorizeWrite n'.users u.name db = true := by
  unfold httpWrite at h
  cases hu : httpUser verify n c user pw with
  | mk n' ou =>
    simp only [hu] at h
    cases ou with
    | none => simp at h
    | some u =>
      simp only at h
      split at h
      · simp at h
      · cases u with
        | none => simp at h
        | some u =>
          simp only at h
          refine ⟨n', u, rfl, ?_⟩
          by_cases ha : authorizeWrite n'.users u.name db = true
          · exact ha
          · simp [ha] at h

/-- a request that carries a password runs as a user only if `Authenticate` accepted the
password for that name -/
theorem http_password_checked (verify : Verify) (n : Node) (user pw : String) (n' : Node) (u : User)
    (hadm : n.users.any (·.admin) = true)
    (h : httpUser verify n .password user pw = (n', some (some u))) :
    (authBegin verify n user pw).2 ≠ .rejected := by
  unfold httpUser at h
  simp only [hadm, Bool.not_true, Bool.false_eq_true, if_false] at h
  split at h
  · simp at h
  · intro hrej
    simp only [hrej] at h
    simp at h

/-- **A query request is executed only if it is authorised**: status 200 means the statements
passed `AuthorizeQuery` for the user the request runs as. -/
theorem http_query_needs_authorization (verify : Verify) (n : Node) (c : Carrier) (user pw : String)
    (q : List Stmt) (db : String) (h : (httpQuery verify n c user pw q db).2 = 200) :
    ∃ n' u, httpUser verify n c user pw = (n', some u) ∧ authorizeQuery n'.users.length u q db = true := by
  unfold httpQuery at h
  cases hu : httpUser verify n c user pw with
  | mk n' ou =>
    simp only [hu] at h
    cases ou with
    | none => simp at h
    | some u =>
      simp only at h
      refine ⟨n', u, rfl, ?_⟩
      by_cases ha : authorizeQuery n'.users.length u q db = true
      · exact ha
      · simp [ha] at h

/-! ### Tie to the code: Gen/C16.lean (RequiredPrivileges executed per statement kind) -/

/-- every statement kind of the linked influxql that defines `RequiredPrivileges` is
represented in the table the correspondence runs (the two names left are not parseable
statements) -/
theorem gen_statement_coverage : Gen.C16.uncoveredStatementTypes = ["DeleteStatement", "Sources"] := by decide

theorem gen_privilege_enum : Gen.C16.privilegeEnum = [0, 1, 2, 3] := by decide

/-- in the table, the only statement flagged as creating an administrator is CREATE USER … WITH ALL PRIVILEGES -/
theorem gen_create_admin_rows :
    (Gen.C16.statements.filter (·.2.1)).map (·.1) = ["CreateUserStatement"] := by decide

/-! ### Non-vacuity -/

def uR : User := { name := "u", hash := "h1", admin := false, privs := [("db0", 1)] }
example : authorizeQuery 1 (some uR) [⟨"SelectStatement", false, [⟨false, "", 1⟩]⟩] "db0" = true := by decide
example : authorizeQuery 1 (some uR) [⟨"SelectStatement", false, [⟨false, "", 1⟩]⟩] "db1" = false := by decide
example : authorizeQuery 1 (some uR) [⟨"DropDatabaseStatement", false, [⟨true, "", 3⟩]⟩] "db0" = false := by decide

end InfluxVerif.Auth
