// Package c16: QueryAuthorizer / WriteAuthorizer / Client.Authenticate (with its credential
// cache, including the two-step interleaving through the verif hook) against the Lean model
// InfluxVerif.Auth, over users and grants kept in the real meta FSM.
package c16

import (
	"github.com/influxdata/influxdb/prometheus/remote"
	"github.com/golang/snappy"
	"bytes"
	"fmt"
	"net/http"
	"net/http/httptest"
	"net/url"
	"strconv"
	"strings"
	"sync"
	"time"

	jwt "github.com/dgrijalva/jwt-go/v4"
	"github.com/influxdata/influxdb/models"
	"github.com/influxdata/influxdb/query"
	"github.com/influxdata/influxdb/services/httpd"
	"github.com/influxdata/influxdb/services/meta"
	"github.com/influxdata/influxql"
	"golang.org/x/crypto/bcrypt"
	"verifharness/extract"
	"verifharness/fw"
	"verifharness/metah"
)

type Prop struct{}

func (Prop) ID() string     { return "C16" }
func (Prop) Model() string  { return "meta" }
func (Prop) Parallel() int  { return 1 } // the step hook is process-global
func (Prop) Stateful() bool { return true }
func (Prop) Describe(cfg *fw.Config) {
	cfg.Rule = "(plus the same decisions through the HTTP front: a real httpd.Handler with authentication enabled over the node's meta client, query and write requests with every credential carrier — none, basic, u/p parameters, bearer token — current, wrong and absent passwords, unknown users, before any user or administrator exists; status and whether the executor / points writer was reached) histories of user/grant/password/admin-flag/database changes in the real meta FSM, `poll` delivering them to a data node's meta.Client, authorisation of every representative statement kind (54 statements, alone and in multi-statement requests, explicit and default database, nil user, unknown user, before any user exists) and of writes, and authentications with current/old/wrong passwords, atomically and split in two steps around metadata updates; non-trivial = at least one deny and one allow, or a split authentication; distinct = distinct op list"
}

func (Prop) KeepOp(i int, op string) bool { return i == 0 }

var hashes = func() map[string]string {
	m := map[string]string{}
	for i := 0; i < 5; i++ {
		h, err := bcrypt.GenerateFromPassword([]byte(fmt.Sprintf("p%d", i)), bcrypt.MinCost)
		if err != nil {
			panic(err)
		}
		m[fmt.Sprintf("h%d", i)] = string(h)
	}
	return m
}()

var users = []string{"u0", "u1", "u2"}
var dbs = []string{"db0", "db1", "db9"}

func genCase(r *fw.Rand) fw.Case {
	ops := []string{"reset 1"}
	nst := len(extract.C16Statements)
	stmts := func() string {
		n := 1
		if r.Chance(0.3) {
			n = 2 + r.Intn(2)
		}
		var s []string
		for i := 0; i < n; i++ {
			s = append(s, fmt.Sprint(r.Intn(nst)))
		}
		return strings.Join(s, ",")
	}
	// before any user exists
	if r.Chance(0.5) {
		ops = append(ops, "createdb db0", "poll")
		for i := 0; i < 3; i++ {
			ids := stmts()
			if r.Chance(0.4) {
				ids = "40" // create admin user
				if r.Bool() {
					ids = "40," + fmt.Sprint(r.Intn(nst))
				}
			}
			ops = append(ops, fmt.Sprintf("authq - %s %s", r.Pick(dbs), ids))
			if r.Bool() {
				ops = append(ops, fmt.Sprintf("%s %s %s p1 db0", r.Pick([]string{"hw", "hpw"}), r.Pick([]string{"none", "basic", "params", "bearer"}), r.Pick([]string{"-", "u0"})))
			} else {
				ops = append(ops, fmt.Sprintf("hq %s - p1 db0 %s", r.Pick([]string{"none", "basic"}), ids))
			}
		}
	}
	steps := 15 + r.Intn(40)
	for i := 0; i < steps; i++ {
		switch r.Intn(16) {
		case 0:
			ops = append(ops, "createdb "+r.Pick(dbs))
		case 1:
			if r.Chance(0.3) {
				ops = append(ops, "dropdb "+r.Pick(dbs))
			}
		case 2, 3:
			ops = append(ops, fmt.Sprintf("createuser %s h%d %d", r.Pick(users), r.Intn(3), r.Intn(3)/2))
		case 4:
			ops = append(ops, "dropuser "+r.Pick(users))
		case 5:
			ops = append(ops, fmt.Sprintf("updateuser %s h%d", r.Pick(users), r.Intn(4)))
		case 6, 7:
			ops = append(ops, fmt.Sprintf("setpriv %s %s %d", r.Pick(users), r.Pick(dbs), r.Intn(4)))
		case 8:
			ops = append(ops, fmt.Sprintf("setadmin %s %d", r.Pick(users), r.Intn(2)))
		case 9, 10:
			ops = append(ops, "poll")
		case 11, 12:
			u := r.Pick(append(users, "-", "nobody"))
			ops = append(ops, fmt.Sprintf("authq %s %s %s", u, r.Pick(append(dbs, "~")), stmts()))
		case 13:
			if r.Bool() {
				ops = append(ops, fmt.Sprintf("authw %s %s", r.Pick(append(users, "nobody")), r.Pick(dbs)))
			} else {
				// the same through the HTTP front, with every credential carrier
				car := r.Pick([]string{"none", "basic", "params", "bearer"})
				u := r.Pick(append(users, "-", "nobody"))
				if r.Bool() {
					ops = append(ops, fmt.Sprintf("%s %s %s p%d %s", r.Pick([]string{"hw", "hw", "hpw"}), car, u, r.Intn(4), r.Pick(dbs)))
				} else {
					ops = append(ops, fmt.Sprintf("hq %s %s p%d %s %s", car, u, r.Intn(4), r.Pick(dbs), stmts()))
				}
			}
		case 14:
			ops = append(ops, fmt.Sprintf("authn %s p%d", r.Pick(users), r.Intn(4)))
		default:
			// split authentication around a password change
			u := r.Pick(users)
			ops = append(ops, fmt.Sprintf("authb %s p%d", u, r.Intn(3)))
			if r.Chance(0.7) {
				ops = append(ops, fmt.Sprintf("updateuser %s h%d", u, r.Intn(4)), "poll")
			}
			ops = append(ops, "authf", fmt.Sprintf("authn %s p%d", u, r.Intn(3)), fmt.Sprintf("authn %s p%d", u, r.Intn(3)))
		}
	}
	// a writer and an administrator with known passwords, so that requests do get through
	if r.Chance(0.5) {
		ops = append(ops, "createdb db0", "createuser u1 h1 0", "setpriv u1 db0 "+fmt.Sprint(1+r.Intn(3)), "createuser u2 h2 1", "poll")
		for k := 0; k < 4; k++ {
			car := r.Pick([]string{"basic", "params", "bearer", "none"})
			u := r.Pick([]string{"u1", "u2"})
			pw := "p" + u[1:]
			if r.Chance(0.25) {
				pw = "p0" // wrong
			}
			if r.Bool() {
				ops = append(ops, fmt.Sprintf("%s %s %s %s %s", r.Pick([]string{"hw", "hw", "hpw"}), car, u, pw, r.Pick([]string{"db0", "db1"})))
			} else {
				ops = append(ops, fmt.Sprintf("hq %s %s %s db0 %s", car, u, pw, stmts()))
			}
		}
	}
	// drain pending stores
	ops = append(ops, "authf", "authf", "authf")
	return fw.Case{Ops: ops}
}

func (Prop) Generate(r *fw.Rand, tier string) []fw.Case {
	n := 150
	if tier == "thorough" {
		n = 3000
	}
	var cases []fw.Case
	// every statement kind x {no grant, read, write, all, admin} x {default db, other db}
	for id := range extract.C16Statements {
		for p := 0; p <= 4; p++ {
			ops := []string{"reset 1", "createdb db0", "createdb db1", "createuser a0 h0 1"}
			if p == 4 {
				ops = append(ops, "createuser u0 h0 1")
			} else {
				ops = append(ops, "createuser u0 h0 0", fmt.Sprintf("setpriv u0 db0 %d", p), fmt.Sprintf("setpriv u0 db1 %d", (p+1)%4))
			}
			ops = append(ops, "poll", fmt.Sprintf("authq u0 db0 %d", id), fmt.Sprintf("authq u0 db1 %d", id), fmt.Sprintf("authq u0 ~ %d", id), fmt.Sprintf("authq - db0 %d", id))
			cases = append(cases, fw.Case{Ops: ops, Tags: []string{"table"}})
		}
	}
	for i := 0; i < n; i++ {
		cases = append(cases, genCase(r.Fork()))
	}
	return cases
}

// ---- implementation side ----

type pending struct {
	release chan struct{}
	done    chan error
}

type state struct {
	m       *metah.M
	c       *meta.Client
	mu      sync.Mutex
	reached chan *pending
	queue   []*pending
	split   bool
}

func (s *state) setSplit(b bool) {
	s.mu.Lock()
	s.split = b
	s.mu.Unlock()
}

func newState() *state {
	s := &state{m: metah.New(true), c: meta.NewClient(meta.NewConfig()), reached: make(chan *pending, 16)}
	return s
}

var hookMu sync.Mutex
var hookState *state

func init() {
	meta.VerifSetPointFn(func(name string) {
		if name != "meta.authenticate.verified" {
			return
		}
		hookMu.Lock()
		s := hookState
		hookMu.Unlock()
		if s == nil {
			return
		}
		s.mu.Lock()
		split := s.split
		s.mu.Unlock()
		if !split {
			return
		}
		p := &pending{release: make(chan struct{})}
		s.reached <- p
		<-p.release
	})
}

func parseStmts(ids string) (*influxql.Query, error) {
	var texts []string
	for _, x := range strings.Split(ids, ",") {
		i, err := strconv.Atoi(x)
		if err != nil || i < 0 || i >= len(extract.C16Statements) {
			return nil, fmt.Errorf("bad id")
		}
		texts = append(texts, extract.C16Statements[i])
	}
	return influxql.ParseQuery(strings.Join(texts, "; "))
}

func (s *state) step(op string) string {
	f := strings.Fields(op)
	switch f[0] {
	case "poll":
		meta.VerifClientSetData(s.c, s.m.F.Data())
		return "ok"
	case "authq":
		q, err := parseStmts(f[3])
		if err != nil {
			return "bad-op"
		}
		var u meta.User
		if f[1] != "-" {
			uu, err := s.c.User(metah.Nm(f[1]))
			if err != nil || uu == nil {
				return "nouser"
			}
			u = uu
		}
		_, err = meta.NewQueryAuthorizer(s.c).AuthorizeQuery(u, q, metah.Nm(f[2]))
		if err != nil {
			return "deny"
		}
		return "allow"
	case "authw":
		if err := meta.NewWriteAuthorizer(s.c).AuthorizeWrite(metah.Nm(f[1]), metah.Nm(f[2])); err != nil {
			return "deny"
		}
		return "allow"
	case "authn":
		s.setSplit(false)
		if _, err := s.c.Authenticate(metah.Nm(f[1]), f[2]); err != nil {
			return "rejected"
		}
		return "accepted"
	case "authb":
		s.setSplit(true)
		done := make(chan error, 1)
		go func() {
			_, err := s.c.Authenticate(metah.Nm(f[1]), f[2])
			done <- err
		}()
		select {
		case err := <-done:
			if err != nil {
				return "rejected"
			}
			return "accepted"
		case p := <-s.reached:
			p.done = done
			s.queue = append(s.queue, p)
			return "verified"
		case <-time.After(5 * time.Second):
			return "hang"
		}
	case "authf":
		if len(s.queue) == 0 {
			return "ok"
		}
		p := s.queue[0]
		s.queue = s.queue[1:]
		close(p.release)
		select {
		case <-p.done:
		case <-time.After(5 * time.Second):
			return "hang"
		}
		return "ok"
	case "hq", "hw", "hpw":
		// the same decisions through the HTTP front: a real httpd.Handler with authentication
		// enabled over this node's meta client, a statement executor and a points writer that
		// only record that they were reached
		return s.http(f)
	case "createuser", "updateuser":
		// hash tokens stand for real bcrypt hashes
		g := append([]string(nil), f...)
		if h, ok := hashes[g[2]]; ok {
			g[2] = h
		}
		return s.m.Step(strings.Join(g, " "))
	}
	return s.m.Step(op)
}

type recExec struct{ n int }

func (e *recExec) ExecuteStatement(ctx *query.ExecutionContext, stmt influxql.Statement) error {
	e.n++
	return nil
}

type recWriter struct{ n int }

func (w *recWriter) WritePoints(database, retentionPolicy string, consistencyLevel models.ConsistencyLevel, user meta.User, points []models.Point) error {
	w.n++
	return nil
}

const sharedSecret = "verif-shared-secret"

func (s *state) http(f []string) (res string) {
	defer func() {
		if r := recover(); r != nil {
			res = "panic:" + strings.ReplaceAll(fmt.Sprint(r), " ", "_")
		}
	}()
	s.setSplit(false)
	cfg := httpd.NewConfig()
	cfg.AuthEnabled = true
	cfg.SharedSecret = sharedSecret
	cfg.LogEnabled = false
	h := httpd.NewHandler(cfg)
	h.MetaClient = s.c
	h.QueryAuthorizer = meta.NewQueryAuthorizer(s.c)
	h.WriteAuthorizer = meta.NewWriteAuthorizer(s.c)
	ex := &recExec{}
	h.QueryExecutor = query.NewExecutor()
	h.QueryExecutor.StatementExecutor = ex
	pw := &recWriter{}
	h.PointsWriter = pw
	h.Version = "0.0.0"

	carrier, user, pass, db := f[1], f[2], f[3], metah.Nm(f[4])
	if user == "-" {
		user = ""
	} else {
		user = metah.Nm(user)
	}
	var req *http.Request
	vals := url.Values{}
	vals.Set("db", db)
	if f[0] == "hq" {
		var texts []string
		for _, x := range strings.Split(f[5], ",") {
			i, err := strconv.Atoi(x)
			if err != nil || i < 0 || i >= len(extract.C16Statements) {
				return "bad-op"
			}
			texts = append(texts, extract.C16Statements[i])
		}
		vals.Set("q", strings.Join(texts, "; "))
	}
	if carrier == "params" {
		if user != "" {
			vals.Set("u", user)
		}
		vals.Set("p", pass)
	}
	if f[0] == "hq" {
		req = httptest.NewRequest("POST", "/query?"+vals.Encode(), nil)
	} else if f[0] == "hpw" {
		// the Prometheus remote-write endpoint: the same authorization as /write
		wr := &remote.WriteRequest{Timeseries: []*remote.TimeSeries{{
			Labels:  []*remote.LabelPair{{Name: "__name__", Value: "m"}, {Name: "host", Value: "a"}},
			Samples: []*remote.Sample{{Value: 1, TimestampMs: 1600000000000}},
		}}}
		raw, err := wr.Marshal()
		if err != nil {
			return "err:prom-marshal"
		}
		req = httptest.NewRequest("POST", "/api/v1/prom/write?"+vals.Encode(), bytes.NewReader(snappy.Encode(nil, raw)))
	} else {
		req = httptest.NewRequest("POST", "/write?"+vals.Encode(), strings.NewReader("m v=1 1\n"))
	}
	switch carrier {
	case "basic":
		req.SetBasicAuth(user, pass)
	case "bearer":
		tok := jwt.NewWithClaims(jwt.SigningMethodHS256, jwt.MapClaims{"username": user, "exp": time.Now().Add(time.Hour).Unix()})
		signed, err := tok.SignedString([]byte(sharedSecret))
		if err != nil {
			return "err:jwt"
		}
		req.Header.Set("Authorization", "Bearer "+signed)
	case "none", "params":
	default:
		return "bad-op"
	}
	w := httptest.NewRecorder()
	h.ServeHTTP(w, req)
	if f[0] == "hq" {
		b := 0
		if ex.n > 0 {
			b = 1
		}
		return fmt.Sprintf("%d exec=%d", w.Code, b)
	}
	if f[0] == "hpw" {
		ok := 0
		if w.Code == 204 {
			ok = 1
		}
		return fmt.Sprintf("ok=%d wrote=%d", ok, pw.n)
	}
	return fmt.Sprintf("%d wrote=%d", w.Code, pw.n)
}

func (Prop) RunImpl(c fw.Case) []string {
	s := newState()
	hookMu.Lock()
	hookState = s
	hookMu.Unlock()
	defer func() {
		for _, p := range s.queue {
			close(p.release)
		}
		hookMu.Lock()
		hookState = nil
		hookMu.Unlock()
	}()
	out := make([]string, len(c.Ops))
	for i, op := range c.Ops {
		out[i] = s.step(op)
	}
	return out
}

// Oracle: the property judged from the node's current view of the metadata.
func (Prop) Oracle(c fw.Case, implOut []string) fw.Verdict {
	// replay the metadata commands on a private FSM to know, at each op, the node's view
	m := metah.New(true)
	var view *meta.Data = &meta.Data{}
	for i, op := range c.Ops {
		if i >= len(implOut) {
			break
		}
		f := strings.Fields(op)
		o := implOut[i]
		if o == "hang" || strings.HasPrefix(o, "panic") {
			return fw.Verdict{OK: false, Why: op + " => " + o, Signature: o + " in " + f[0]}
		}
		if f[0] == "hpw" {
			// judged like /write
			f = append([]string{"hw"}, f[1:]...)
			if strings.HasSuffix(o, "wrote=1") {
				o = "204 wrote=1"
			} else {
				o = "403 wrote=0"
			}
		}
		if f[0] == "hq" || f[0] == "hw" {
			// through the HTTP front: the request must carry valid credentials of a user the
			// node knows (except the creation of the first administrator), and then the same
			// grants decide as for authq / authw
			ran := (f[0] == "hq" && strings.HasPrefix(o, "200")) || (f[0] == "hw" && strings.HasPrefix(o, "204"))
			if !ran {
				continue
			}
			if f[0] == "hw" && len(view.Users) == 0 {
				return fw.Verdict{OK: false, Why: op + " => " + o + ": a write ran before any user exists", Signature: "write accepted before any user exists"}
			}
			if len(view.Users) > 0 {
				var u *meta.UserInfo
				for k := range view.Users {
					if f[2] != "-" && view.Users[k].Name == metah.Nm(f[2]) {
						u = &view.Users[k]
					}
				}
				valid := u != nil
				if valid && (f[1] == "basic" || f[1] == "params") {
					valid = bcrypt.CompareHashAndPassword([]byte(u.Hash), []byte(f[3])) == nil
				}
				if f[1] == "none" {
					valid = false
				}
				if !valid {
					return fw.Verdict{OK: false, Why: op + " => " + o + ": the request ran without valid credentials of a user the node knows", Signature: f[0] + " ran without valid credentials"}
				}
			}
			// the grants: judged like the direct calls
			if f[0] == "hq" {
				f, o = []string{"authq", f[2], f[4], f[5]}, "allow"
			} else {
				f, o = []string{"authw", f[2], f[4]}, "allow"
			}
		}
		switch f[0] {
		case "poll":
			view = m.F.Data()
		case "createuser", "updateuser":
			g := append([]string(nil), f...)
			if h, ok := hashes[g[2]]; ok {
				g[2] = h
			}
			m.Step(strings.Join(g, " "))
		case "authq":
			if o != "allow" {
				continue
			}
			q, err := parseStmts(f[3])
			if err != nil {
				continue
			}
			if len(view.Users) == 0 {
				// before any user exists only the creation of the first administrator is allowed
				for k, st := range q.Statements {
					cu, ok := st.(*influxql.CreateUserStatement)
					if !(ok && cu.Admin) {
						sig := "no users: request allowed that is not a create-admin"
						if k > 0 {
							sig = "no users: statements after create-admin allowed"
						}
						return fw.Verdict{OK: false, Why: fmt.Sprintf("%s: allowed with no users although statement %d is %q", op, k, st.String()), Signature: sig}
					}
				}
				continue
			}
			var u *meta.UserInfo
			for k := range view.Users {
				if view.Users[k].Name == metah.Nm(f[1]) {
					u = &view.Users[k]
				}
			}
			if u == nil {
				return fw.Verdict{OK: false, Why: op + ": allowed without a valid user", Signature: "query allowed without user"}
			}
			for _, st := range q.Statements {
				privs, _ := st.RequiredPrivileges()
				for _, p := range privs {
					if p.Admin && !u.Admin {
						return fw.Verdict{OK: false, Why: fmt.Sprintf("%s: %q needs admin, user is not", op, st.String()), Signature: "admin statement allowed for non-admin"}
					}
					db := p.Name
					if db == "" {
						db = metah.Nm(f[2])
					}
					if u.Admin || p.Privilege == influxql.NoPrivileges {
						continue
					}
					g, ok := u.Privileges[db]
					if !(ok && (g == p.Privilege || g == influxql.AllPrivileges)) {
						return fw.Verdict{OK: false, Why: fmt.Sprintf("%s: %q needs %s on %q, user has %v", op, st.String(), p.Privilege, db, g), Signature: "statement allowed without grant"}
					}
				}
			}
		case "authw":
			if o != "allow" {
				continue
			}
			var u *meta.UserInfo
			for k := range view.Users {
				if view.Users[k].Name == metah.Nm(f[1]) {
					u = &view.Users[k]
				}
			}
			if u == nil {
				return fw.Verdict{OK: false, Why: op + ": write allowed for unknown user", Signature: "write allowed without user"}
			}
			g, ok := u.Privileges[metah.Nm(f[2])]
			if !(u.Admin || (ok && (g == influxql.WritePrivilege || g == influxql.AllPrivileges))) {
				return fw.Verdict{OK: false, Why: op + ": write allowed without write grant", Signature: "write allowed without grant"}
			}
		case "authn", "authb":
			if o != "accepted" && o != "verified" {
				continue
			}
			var u *meta.UserInfo
			for k := range view.Users {
				if view.Users[k].Name == metah.Nm(f[1]) {
					u = &view.Users[k]
				}
			}
			if u == nil {
				return fw.Verdict{OK: false, Why: op + ": accepted for a user the node does not know", Signature: "authentication accepted for unknown user"}
			}
			if bcrypt.CompareHashAndPassword([]byte(u.Hash), []byte(f[2])) != nil {
				return fw.Verdict{OK: false, Why: fmt.Sprintf("%s: password accepted although it does not match the hash the node currently holds for %s (password changed; accepted through the credential cache)", op, f[1]), Signature: "old password accepted via cache"}
			}
		default:
			if f[0] != "authf" && f[0] != "reset" {
				m.Step(op)
			}
		}
	}
	return fw.Verdict{OK: true}
}

func (Prop) Trivial(c fw.Case, out []string) bool {
	a, d := false, false
	for i, o := range out {
		if o == "allow" || o == "accepted" {
			a = true
		}
		if o == "deny" || o == "rejected" {
			d = true
		}
		if i < len(c.Ops) && strings.HasPrefix(c.Ops[i], "authb") {
			return false
		}
	}
	return !(a && d)
}
