// Package c06: every metadata command through the real storeFSM vs the Lean model
// (InfluxVerif.Meta), state compared after every command; oracle: replicas agree, invariants
// hold, rejected commands change nothing, the previous value is never mutated.
package c06

import (
	"fmt"
	"sort"
	"strings"

	"github.com/influxdata/influxdb/services/meta"
	"verifharness/fw"
	"verifharness/metah"
)

type Prop struct{}

func (Prop) ID() string     { return "C06" }
func (Prop) Model() string  { return "meta" }
func (Prop) Parallel() int  { return 16 }
func (Prop) Stateful() bool { return true }
func (Prop) Describe(cfg *fw.Config) {
	cfg.Rule = "seeded command logs (20-120 commands: nodes, databases, policies, shard groups at/around group boundaries and the extreme timestamps, truncation, pruning, shard drop, owner copy/removal, users, privileges, CQs, subscriptions; small name pools so commands collide; invalid and repeated arguments) applied to the real storeFSM and to the model with the whole state dumped after every command; non-trivial = the log creates at least one shard group and contains at least one rejected command; distinct = distinct op list"
}

const week = int64(7 * 24 * 3600 * 1e9)
const day = int64(24 * 3600 * 1e9)
const hourNs = int64(3600 * 1e9)

var dbPool = []string{"db0", "db0", "db1", "db1", "db2", "~", "~L", "nodb"}
var rpPool = []string{"rp0", "rp0", "rp1", "autogen", "autogen", "~", "norp"}
var durPool = []int64{0, 0, hourNs, 2 * hourNs, day, 2 * day, week, 30 * day, 200 * day, hourNs / 2, 90 * 60 * 1e9}
var sgdPool = []int64{0, 0, hourNs, day, week, hourNs / 2, 3 * hourNs, 36 * hourNs}

func genTS(r *fw.Rand) int64 {
	base := int64(1600000000) * 1e9
	switch r.Intn(10) {
	case 0:
		return -9223372036854775806 // models.MinNanoTime
	case 1:
		return 9223372036854775806 // models.MaxNanoTime
	case 2:
		return 0
	case 3:
		return base/week*week + int64(r.Intn(3)-1) // around a week boundary (epoch aligned)
	case 4:
		// around the real (year-1 aligned) week boundary: Monday 00:00
		b := (base/week)*week + 4*day
		return b + int64(r.Intn(3)-1)
	case 5:
		return base/day*day + int64(r.Intn(5))*day + int64(r.Intn(3)-1)
	case 6:
		return base/hourNs*hourNs + int64(r.Intn(5))*hourNs + int64(r.Intn(3)-1)
	default:
		return base + int64(r.Intn(40))*day/4 + int64(r.Intn(1000))
	}
}

func genLog(r *fw.Rand, tier string) []string {
	n := 20 + r.Intn(100)
	if tier == "thorough" && r.Chance(0.1) {
		n = 200 + r.Intn(600)
	}
	var ops []string
	nodes, sgs, shards := 0, 0, 0
	add := func(op string) { ops = append(ops, op, "dump") }
	// mostly start with some nodes and a database
	for i, k := 0, r.Intn(5); i < k; i++ {
		nodes++
		add(fmt.Sprintf("createdatanode h%d t%d", nodes, nodes))
	}
	if r.Chance(0.8) {
		add("createdb db0")
	}
	age := func() string {
		if r.Chance(0.4) {
			return "old"
		}
		return "recent"
	}
	id := func(max int) int { return 1 + r.Intn(max+2) }
	for len(ops) < 2*n {
		switch r.Intn(34) {
		case 0, 1:
			nodes++
			add(fmt.Sprintf("createdatanode h%d t%d", nodes, id(nodes)))
		case 2:
			add(fmt.Sprintf("deletedatanode %d %s", id(nodes), age()))
		case 3:
			add(fmt.Sprintf("updatedatanode %d h%d t%d", id(nodes), id(nodes), id(nodes)))
		case 4:
			add(fmt.Sprintf("createmetanode m%d t%d %d", id(3), id(nodes), 1+r.Intn(100)))
		case 5:
			add(fmt.Sprintf("deletemetanode %d", r.Intn(nodes+3)))
		case 6:
			add(fmt.Sprintf("setmetanode m%d t%d %d", id(3), id(nodes), 1+r.Intn(100)))
		case 7, 8:
			if r.Chance(0.6) {
				add("createdb " + r.Pick(dbPool))
			} else {
				add(fmt.Sprintf("createdb %s %s %d %d %d", r.Pick(dbPool), r.Pick(rpPool), r.Intn(4), durPool[r.Intn(len(durPool))], sgdPool[r.Intn(len(sgdPool))]))
			}
		case 9:
			if r.Chance(0.3) {
				add("dropdb " + r.Pick(dbPool))
			}
		case 10, 11:
			add(fmt.Sprintf("createrp %s %s %d %d %d %d", r.Pick(dbPool), r.Pick(rpPool), r.Intn(5), durPool[r.Intn(len(durPool))], sgdPool[r.Intn(len(sgdPool))], r.Intn(2)))
		case 12:
			if r.Chance(0.3) {
				add(fmt.Sprintf("droprp %s %s", r.Pick(dbPool), r.Pick(rpPool)))
			}
		case 13, 14:
			opt := func(v string) string {
				if r.Chance(0.5) {
					return "-"
				}
				return v
			}
			add(fmt.Sprintf("updaterp %s %s %s %s %s %s %d", r.Pick(dbPool), r.Pick(rpPool), opt(r.Pick(rpPool)),
				opt(fmt.Sprint(durPool[r.Intn(len(durPool))])), opt(fmt.Sprint(r.Intn(5))), opt(fmt.Sprint(sgdPool[r.Intn(len(sgdPool))])), r.Intn(2)))
		case 15, 16, 17, 18, 19, 20:
			sgs++
			shards += 3
			add(fmt.Sprintf("createsg %s %s %d", r.Pick(dbPool[:4]), r.Pick(rpPool[:5]), genTS(r)))
		case 21:
			if r.Chance(0.3) {
				add(fmt.Sprintf("deletesg %s %s %d %s", r.Pick(dbPool[:4]), r.Pick(rpPool[:5]), id(sgs), age()))
			} else {
				add(fmt.Sprintf("deletesgid %d %s", id(sgs), age()))
			}
		case 22, 23:
			add(fmt.Sprintf("truncate %d", genTS(r)))
		case 24:
			add("prune")
		case 25:
			add(fmt.Sprintf("dropshard %d %s", id(shards), age()))
		case 26:
			add(fmt.Sprintf("copyowner %d %d", id(shards), id(nodes)))
		case 27:
			add(fmt.Sprintf("removeowner %d %d %s", id(shards), id(nodes), age()))
		case 28:
			add(fmt.Sprintf("createuser %s h%d %d", r.Pick([]string{"u0", "u1", "u2", "~"}), r.Intn(3), r.Intn(2)))
		case 29:
			switch r.Intn(3) {
			case 0:
				add("dropuser " + r.Pick([]string{"u0", "u1", "u2"}))
			case 1:
				add(fmt.Sprintf("updateuser %s h%d", r.Pick([]string{"u0", "u1", "u2"}), r.Intn(5)))
			default:
				add(fmt.Sprintf("setadmin %s %d", r.Pick([]string{"u0", "u1", "u2"}), r.Intn(2)))
			}
		case 30:
			add(fmt.Sprintf("setpriv %s %s %d", r.Pick([]string{"u0", "u1", "u2"}), r.Pick(dbPool), r.Intn(4)))
		case 31:
			if r.Bool() {
				add(fmt.Sprintf("createcq %s cq%d %s", r.Pick(dbPool), r.Intn(2), r.Pick([]string{"SELECT_1", "select_1", "SELECT_2"})))
			} else {
				add(fmt.Sprintf("dropcq %s cq%d", r.Pick(dbPool), r.Intn(2)))
			}
		case 32:
			dest := r.Pick([]string{"udp://h:1", "http://h:2,udp://g:3", "ftp://x:1", "udp://noport", "-"})
			bad := "-"
			for _, d := range strings.Split(dest, ",") {
				if d == "ftp://x:1" || d == "udp://noport" {
					bad = d
					break
				}
			}
			add(fmt.Sprintf("createsub %s %s s%d %s %s %s", r.Pick(dbPool), r.Pick(rpPool), r.Intn(2), r.Pick([]string{"ANY", "ALL"}), dest, bad))
		case 33:
			add(fmt.Sprintf("dropsub %s %s s%d", r.Pick(dbPool), r.Pick(rpPool), r.Intn(2)))
		}
	}
	return ops
}

// genOwnerLog: the owner bookkeeping of replicated shards: with n nodes and a replication
// factor that does not divide n the round-robin assignment wraps, so owner lists are not
// ascending ({1,2} {3,1} {2,3}); owners are then copied (also to nodes that already own the
// shard, to deleted and to unknown nodes), removed, and nodes deleted.
func genOwnerLog(r *fw.Rand) []string {
	var ops []string
	add := func(op string) { ops = append(ops, op, "dump") }
	nodes := 3 + r.Intn(3)
	for i := 1; i <= nodes; i++ {
		add(fmt.Sprintf("createdatanode h%d t%d", i, i))
	}
	rf := 2 + r.Intn(nodes-2)
	add(fmt.Sprintf("createdb db0 rp0 %d %d %d", rf, durPool[0], sgdPool[0]))
	shards := 0
	for i, k := 0, 1+r.Intn(3); i < k; i++ {
		add(fmt.Sprintf("createsg db0 rp0 %d", genTS(r)))
		shards += nodes
	}
	age := func() string { return []string{"old", "recent"}[r.Intn(2)] }
	for i, k := 0, 8+r.Intn(20); i < k; i++ {
		switch r.Intn(8) {
		case 0, 1, 2, 3:
			add(fmt.Sprintf("copyowner %d %d", 1+r.Intn(shards+1), 1+r.Intn(nodes+1)))
		case 4, 5:
			add(fmt.Sprintf("removeowner %d %d %s", 1+r.Intn(shards+1), 1+r.Intn(nodes+1), age()))
		case 6:
			add(fmt.Sprintf("deletedatanode %d %s", 1+r.Intn(nodes), age()))
		default:
			nodes++
			add(fmt.Sprintf("createdatanode h%d t%d", nodes, nodes))
		}
	}
	return ops
}

func (Prop) Generate(r *fw.Rand, tier string) []fw.Case {
	n := 150
	if tier == "thorough" {
		n = 3000
	}
	var cases []fw.Case
	for i := 0; i < n; i++ {
		auto := "1"
		if r.Chance(0.2) {
			auto = "0"
		}
		ops := append([]string{"reset " + auto}, genLog(r.Fork(), tier)...)
		cases = append(cases, fw.Case{Ops: ops})
		if i%10 == 0 {
			cases = append(cases, fw.Case{Ops: append([]string{"reset " + auto}, genOwnerLog(r.Fork())...), Tags: []string{"owners"}})
		}
	}
	return cases
}

func (Prop) KeepOp(i int, op string) bool { return i == 0 || strings.HasPrefix(op, "reset") }

func (Prop) RunImpl(c fw.Case) []string {
	m := metah.New(true)
	out := make([]string, len(c.Ops))
	for i, op := range c.Ops {
		out[i] = m.Step(op)
	}
	return out
}

// ---- oracle ----

func payload(dump string) string {
	// strip "D t=.. i=.. " stamp
	i := strings.Index(dump, " c=")
	if i < 0 {
		return dump
	}
	return dump[i:]
}

type sgKey struct {
	db, rp string
}

func invariants(d *meta.Data, maxSG, maxShard *uint64, seenSG, seenShard map[uint64]bool) string {
	sgIDs := map[uint64]bool{}
	shIDs := map[uint64]bool{}
	nodes := map[uint64]bool{}
	for _, n := range d.DataNodes {
		// (data-node ids can repeat through the meta-node TCP-address match after SetMetaNode;
		// the property does not speak about node ids, so that is recorded in DESIGN.md, not judged)
		nodes[n.ID] = true
	}
	for _, db := range d.Databases {
		for _, rp := range db.RetentionPolicies {
			type rng struct {
				id   uint64
				s, e int64
			}
			var live []rng
			for _, g := range rp.ShardGroups {
				if sgIDs[g.ID] {
					return fmt.Sprintf("shard group id %d appears twice", g.ID)
				}
				sgIDs[g.ID] = true
				if g.ID > d.MaxShardGroupID {
					return fmt.Sprintf("shard group id %d above counter %d", g.ID, d.MaxShardGroupID)
				}
				for _, s := range g.Shards {
					if shIDs[s.ID] {
						return fmt.Sprintf("shard id %d appears twice", s.ID)
					}
					shIDs[s.ID] = true
					if s.ID > d.MaxShardID {
						return fmt.Sprintf("shard id %d above counter %d", s.ID, d.MaxShardID)
					}
					own := map[uint64]bool{}
					for _, o := range s.Owners {
						if own[o.NodeID] {
							return fmt.Sprintf("shard %d lists owner %d twice", s.ID, o.NodeID)
						}
						own[o.NodeID] = true
					}
				}
				if g.Deleted() {
					continue
				}
				e := g.EndTime
				if g.Truncated() {
					e = g.TruncatedAt
				}
				// ranges compared in seconds+nanos via UnixNano is unsafe at the extremes: use time compare
				_ = e
				live = append(live, rng{id: g.ID})
			}
			// pairwise disjoint effective ranges of live groups
			var lg []*meta.ShardGroupInfo
			for i := range rp.ShardGroups {
				if !rp.ShardGroups[i].Deleted() {
					lg = append(lg, &rp.ShardGroups[i])
				}
			}
			for i := 0; i < len(lg); i++ {
				for j := i + 1; j < len(lg); j++ {
					a, b := lg[i], lg[j]
					ae, be := a.EndTime, b.EndTime
					if a.Truncated() {
						ae = a.TruncatedAt
					}
					if b.Truncated() {
						be = b.TruncatedAt
					}
					// empty ranges overlap nothing
					if !a.StartTime.Before(ae) || !b.StartTime.Before(be) {
						continue
					}
					if a.StartTime.Before(be) && b.StartTime.Before(ae) {
						return fmt.Sprintf("live shard groups %d and %d of %s.%s overlap", a.ID, b.ID, db.Name, rp.Name)
					}
				}
			}
		}
	}
	if d.MaxShardGroupID < *maxSG || d.MaxShardID < *maxShard {
		return "an ID counter decreased"
	}
	*maxSG, *maxShard = d.MaxShardGroupID, d.MaxShardID
	return ""
}

func allGroups(d *meta.Data) map[uint64]*meta.ShardGroupInfo {
	m := map[uint64]*meta.ShardGroupInfo{}
	for i := range d.Databases {
		for j := range d.Databases[i].RetentionPolicies {
			gs := d.Databases[i].RetentionPolicies[j].ShardGroups
			for k := range gs {
				m[gs[k].ID] = &gs[k]
			}
		}
	}
	return m
}

func newGroupOK(g *meta.ShardGroupInfo, d *meta.Data, replicaN int) string {
	n := len(d.DataNodes)
	want := replicaN
	if want < 1 {
		want = 1
	}
	if want > n {
		want = n
	}
	nodes := map[uint64]bool{}
	for _, x := range d.DataNodes {
		nodes[x.ID] = true
	}
	load := map[uint64]int{}
	for _, s := range g.Shards {
		if len(s.Owners) != want {
			return fmt.Sprintf("new group %d: shard %d has %d owners, want min(replication %d, nodes %d)", g.ID, s.ID, len(s.Owners), replicaN, n)
		}
		seen := map[uint64]bool{}
		for _, o := range s.Owners {
			if !nodes[o.NodeID] {
				return fmt.Sprintf("new group %d: owner %d is not a data node", g.ID, o.NodeID)
			}
			if seen[o.NodeID] {
				return fmt.Sprintf("new group %d: shard %d owner %d twice", g.ID, s.ID, o.NodeID)
			}
			seen[o.NodeID] = true
			load[o.NodeID]++
		}
	}
	// spread evenly: every data node owns the same number of the group's shards
	var vals []int
	for _, x := range d.DataNodes {
		vals = append(vals, load[x.ID])
	}
	sort.Ints(vals)
	if len(vals) > 0 && vals[0] != vals[len(vals)-1] {
		return fmt.Sprintf("new group %d: uneven owner spread %v", g.ID, vals)
	}
	return ""
}

func rpReplica(d *meta.Data, gid uint64) int {
	for _, db := range d.Databases {
		for _, rp := range db.RetentionPolicies {
			for _, g := range rp.ShardGroups {
				if g.ID == gid {
					return rp.ReplicaN
				}
			}
		}
	}
	return 1
}

func (Prop) Oracle(c fw.Case, implOut []string) fw.Verdict {
	auto := true
	if f := strings.Fields(c.Ops[0]); len(f) > 1 && f[0] == "reset" {
		auto = f[1] == "1"
	}
	reps := []*metah.M{metah.New(auto), metah.New(auto), metah.New(auto)}
	var maxSG, maxShard uint64
	seenSG, seenShard := map[uint64]bool{}, map[uint64]bool{}
	for _, op := range c.Ops {
		f := strings.Fields(op)
		if len(f) == 0 || f[0] == "reset" || f[0] == "dump" {
			continue
		}
		prev := reps[0].F.Data()
		prevDump := payload(metah.Dump(prev))
		prevGroups := allGroups(prev)
		prevIDs := map[uint64]bool{}
		for id := range prevGroups {
			prevIDs[id] = true
		}
		var res [3]string
		for i, m := range reps {
			res[i] = m.Step(op)
		}
		if strings.HasPrefix(res[0], "panic") {
			return fw.Verdict{OK: false, Why: op + " => " + res[0], Signature: "panic applying " + f[0]}
		}
		d0 := metah.Dump(reps[0].F.Data())
		for i := 1; i < 3; i++ {
			if res[i] != res[0] || metah.Dump(reps[i].F.Data()) != d0 {
				return fw.Verdict{OK: false, Why: fmt.Sprintf("replicas disagree after %q:\n  %s\n  %s", op, d0, metah.Dump(reps[i].F.Data())), Signature: "replicas diverge after " + f[0]}
			}
		}
		// the previous value must not have been mutated (published metadata is immutable)
		if reps[0].F.Data() != prev {
			if after := payload(metah.Dump(prev)); after != prevDump {
				return fw.Verdict{OK: false, Why: fmt.Sprintf("%q mutated the previously published metadata:\n  before %s\n  after  %s", op, prevDump, after), Signature: "previous data mutated by " + f[0]}
			}
		}
		cur := reps[0].F.Data()
		if res[0] != "ok" {
			if p := payload(d0); p != prevDump {
				return fw.Verdict{OK: false, Why: fmt.Sprintf("rejected command %q (%s) changed the metadata:\n  before %s\n  after  %s", op, res[0], prevDump, p), Signature: "rejected " + f[0] + " changed data"}
			}
		}
		if msg := invariants(cur, &maxSG, &maxShard, seenSG, seenShard); msg != "" {
			return fw.Verdict{OK: false, Why: fmt.Sprintf("after %q: %s\n  %s", op, msg, d0), Signature: "invariant: " + strings.Join(strings.Fields(msg)[:3], " ") + " after " + f[0]}
		}
		// new groups: never a reused id, owners per the replication factor, spread evenly
		for id, g := range allGroups(cur) {
			if prevIDs[id] {
				continue
			}
			if seenSG[id] {
				return fw.Verdict{OK: false, Why: fmt.Sprintf("after %q: shard group id %d reused", op, id), Signature: "shard group id reused"}
			}
			if f[0] == "createsg" {
				if msg := newGroupOK(g, cur, rpReplica(cur, id)); msg != "" {
					return fw.Verdict{OK: false, Why: fmt.Sprintf("after %q: %s\n  %s", op, msg, d0), Signature: "new group owners"}
				}
			}
			for _, s := range g.Shards {
				if seenShard[s.ID] {
					return fw.Verdict{OK: false, Why: fmt.Sprintf("after %q: shard id %d reused", op, s.ID), Signature: "shard id reused"}
				}
			}
		}
		for id, g := range allGroups(cur) {
			seenSG[id] = true
			for _, s := range g.Shards {
				seenShard[s.ID] = true
			}
		}
		// no shard is owned by a node that is not (or no longer) a data node
		{
			isNode := map[uint64]bool{}
			for _, n := range cur.DataNodes {
				isNode[n.ID] = true
			}
			for _, g := range allGroups(cur) {
				for _, s := range g.Shards {
					for _, o := range s.Owners {
						if !isNode[o.NodeID] {
							return fw.Verdict{OK: false, Why: fmt.Sprintf("after %q shard %d is owned by %d, which is not a data node", op, s.ID, o.NodeID), Signature: "shard owned by a node that is not a data node (" + f[0] + ")"}
						}
					}
				}
			}
		}
		// a removed node owns nothing
		if f[0] == "deletedatanode" && res[0] == "ok" {
			for _, g := range allGroups(cur) {
				for _, s := range g.Shards {
					for _, o := range s.Owners {
						if fmt.Sprint(o.NodeID) == f[1] {
							return fw.Verdict{OK: false, Why: fmt.Sprintf("after %q shard %d is still owned by the removed node", op, s.ID), Signature: "removed node still owner"}
						}
					}
				}
			}
		}
	}
	return fw.Verdict{OK: true}
}

func (Prop) Trivial(c fw.Case, out []string) bool {
	hasSG, hasErr := false, false
	for i, op := range c.Ops {
		if strings.HasPrefix(op, "createsg") && i < len(out) && out[i] == "ok" {
			hasSG = true
		}
		if i < len(out) && strings.HasPrefix(out[i], "err:") {
			hasErr = true
		}
	}
	return !(hasSG && hasErr)
}
