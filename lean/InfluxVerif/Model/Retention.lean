/-
C17 — model of one retention enforcement pass (services/retention/service.go `run`,
meta.RetentionPolicyInfo.ExpiredShardGroups / DeletedShardGroups).  Core Lean only.
-/
import InfluxVerif.Model.Meta
namespace InfluxVerif.Retention
open InfluxVerif.Meta

/-- `ExpiredShardGroups(t)`: live groups whose whole range is older than the retention period -/
def expired (rp : RP) (now : Int) : List SG :=
  rp.groups.filter fun g => !g.deleted && rp.duration != 0 && g.stop + rp.duration < now

/-- `DeletedShardGroups()` -/
def deletedGroups (rp : RP) : List SG := rp.groups.filter (·.deleted)

structure Env where
  now : Int
  localShards : List Nat            -- `TSDBStore.ShardIDs()`
  failSG : Nat → Bool               -- `MetaClient.DeleteShardGroup` fails for this group
  failShard : Nat → Bool            -- `TSDBStore.DeleteShard` fails for this shard
  failPrune : Bool

structure PassResult where
  marked : List (String × String × Nat)   -- (db, rp, group) for which DeleteShardGroup succeeded
  toDelete : List Nat                      -- shard ids collected for deletion
  deletedLocal : List Nat                  -- local shards actually deleted
  pruned : Bool
  retryNeeded : Bool
  deriving Repr

def shardIDs (g : SG) : List Nat := g.shards.map (·.id)

/-- per policy: shards of already-deleted groups, then shards of expired groups whose
deletion was accepted by the meta service -/
def collectRP (env : Env) (dbn : String) (rp : RP) : List (String × String × Nat) × List Nat :=
  let del := (deletedGroups rp).flatMap shardIDs
  let ok := (expired rp env.now).filter fun g => !env.failSG g.id
  (ok.map fun g => (dbn, rp.name, g.id), del ++ ok.flatMap shardIDs)

def pass (d : Data) (env : Env) : PassResult :=
  let per := d.dbs.flatMap fun db => db.rps.map (collectRP env db.name)
  let marked := per.flatMap (·.1)
  let toDelete := per.flatMap (·.2)
  let wanted := env.localShards.filter (toDelete.contains ·)
  let deletedLocal := wanted.filter fun id => !env.failShard id
  let anySGFail := d.dbs.any fun db => db.rps.any fun rp => (expired rp env.now).any fun g => env.failSG g.id
  { marked := marked, toDelete := toDelete, deletedLocal := deletedLocal, pruned := !env.failPrune,
    retryNeeded := anySGFail || wanted.any env.failShard || env.failPrune }

/-- the metadata after the pass: one DeleteShardGroup command per marked group, then prune;
commands are stamped with consecutive indexes (term as the harness assigns it: 1 + index/8) -/
def applyPass (auto : Bool) (d : Data) (r : PassResult) : Data :=
  let stamp (d : Data) (c : Cmd) : Data := (step auto d c (1 + (d.index + 1) / 8) (d.index + 1)).1
  let d1 := r.marked.foldl (fun d m => stamp d (.deleteSG m.1 m.2.1 m.2.2 .recent)) d
  if r.pruned then stamp d1 .prune else d1

/-! ### the local deletion (tsdb.Store.DeleteShard), as far as the database's series go

The expired shard's series are removed from the database's series file — and, for the
in-memory index, from the index the shards share — unless another shard of the database
holds them.  `target`: the series the expired shard holds; `others`: per other shard of the
database what it holds, `none` when its index cannot be had (the shard is disabled or closed). -/

/-- `none`: the deletion is abandoned and nothing changes; `some rm`: the shard goes and the
series `rm` leave the series file -/
def deleteShardSeries (target : List Nat) (others : List (Option (List Nat))) : Option (List Nat) :=
  if others.any Option.isNone then none
  else some (target.filter fun id => others.all fun o => !(o.getD []).contains id)

/-- the variant that skips a shard whose index is unavailable instead of stopping -/
def deleteShardSeriesSkipping (target : List Nat) (others : List (Option (List Nat))) : List Nat :=
  target.filter fun id => others.all fun o => !(o.getD []).contains id

/-- what the node is left with after the retention service asked for the deletion at two
consecutive checks, the other shards being as in `others1` at the first and `others2` at the
second: (was the first attempt abandoned, series removed from the series file) -/
def deleteShardTwice (target : List Nat) (others1 others2 : List (Option (List Nat))) : Bool × Option (List Nat) :=
  match deleteShardSeries target others1 with
  | some rm => (false, some rm)
  | none => (true, deleteShardSeries target others2)

end InfluxVerif.Retention
