// Package c04: the real hinted-handoff queue (through the verif hook) against the Lean model
// InfluxVerif.HH, plus the FIFO oracle (every accepted block is delivered once, in order, or
// still pending; Empty() <=> nothing pending) judged from the implementation alone.
package c04

import (
	"encoding/binary"
	"errors"
	"fmt"
	"io"
	"os"
	"path/filepath"
	"strconv"
	"strings"
	"sync"
	"time"

	"github.com/influxdata/influxdb/services/hh"
	"github.com/influxdata/influxdb/services/meta"
	"verifharness/fw"
)

type Prop struct{}

func (Prop) ID() string     { return "C04" }
func (Prop) Model() string  { return "hh" }
func (Prop) Parallel() int  { return 8 }
func (Prop) Stateful() bool { return true }
func (Prop) Describe(cfg *fw.Config) {
	cfg.Rule = "seeded op streams on one queue: appends with sizes around the segment limit (unbuffered, and buffered by holding 9 limiter tokens), current/advance (also without pending blocks), Empty() after every op, segment-size changes, ageing + purge of head segments, close/reopen, queue-size limit; each case ends with a drain; non-trivial = at least two segments were in use and a block was delivered after a reopen, purge or buffered append; distinct = distinct op list"
}

// the reset and the final drain survive shrinking (the oracle's last check relies on the drain)
func (Prop) KeepOp(i int, op string) bool { return i == 0 || strings.HasPrefix(op, "d") }

func genCase(r *fw.Rand) fw.Case {
	maxSeg := []int{64, 100, 200, 400, 1024}[r.Intn(5)]
	maxSize := []int{300, 1000, 5000, 100000}[r.Intn(4)]
	ops := []string{fmt.Sprintf("reset %d %d", maxSeg, maxSize)}
	id := 0
	open := true
	// half of the histories are cut by crashes (an image of the directory, restarted); in
	// those the buffered path is not used: what it loses is a known finding with its own replay
	crashes := r.Chance(0.5)
	n := 10 + r.Intn(60)
	add := func(op string) {
		ops = append(ops, op)
		ops = append(ops, "empty")
	}
	for i := 0; i < n; i++ {
		switch r.Intn(20) {
		case 0, 1, 2, 3, 4, 5, 6:
			id++
			l := 1 + r.Intn(maxSeg/2)
			switch r.Intn(6) {
			case 0:
				l = maxSeg - 16 - r.Intn(3) // exactly around what fits an empty segment
			case 1:
				l = maxSeg // cannot fit
			case 2:
				l = 1 + r.Intn(6)
			}
			if l < len(fmt.Sprint(id)) {
				l = len(fmt.Sprint(id))
			}
			b := 0
			if r.Chance(0.2) && !crashes {
				b = 1
			}
			add(fmt.Sprintf("append %d %d %d", id, l, b))
		case 7, 8, 9:
			add("current")
		case 10, 11, 12:
			ops = append(ops, "current")
			add("advance")
		case 13:
			// Advance without Current: the queue's contract lets a consumer discard the
			// oldest block unread (the node processor never does)
			add("advance")
		case 14:
			if open && r.Chance(0.5) {
				add(fmt.Sprintf("setmax %d", []int{64, 100, 200, 400, 1024}[r.Intn(5)]))
			} else if crashes {
				if r.Chance(0.5) {
					// the crash tears the flush of one more, never acknowledged block: k bytes
					// of it reach the file (k = 7 is left out: whether the footer survives then
					// depends on the byte values)
					id++
					l := 1 + r.Intn(maxSeg/2)
					if l < len(fmt.Sprint(id)) {
						l = len(fmt.Sprint(id))
					}
					k := []int{1 + r.Intn(6), 8, 8 + r.Intn(l+1), 8 + l, 8 + l + r.Intn(8)}[r.Intn(5)]
					add(fmt.Sprintf("crash torn %d %d %d", id, l, k))
				} else {
					add("crash")
				}
				open = true
			}
		case 15:
			add(fmt.Sprintf("age %d", r.Intn(3)))
		case 16:
			add("purge")
		case 17:
			if open {
				add("close")
				open = false
				if r.Chance(0.8) {
					add("open")
					open = true
				}
			} else {
				add("open")
				open = true
			}
		default:
			ops = append(ops, "usage")
		}
	}
	if !open {
		ops = append(ops, "open")
	}
	// drain: everything still pending must come out, in order. A block accepted under the
	// buffered path is written by the next appender (one is always waiting when the path is
	// taken), so the drain starts with one ordinary append of a sentinel block.
	ops = append(ops, "dappend 9999 4 0")
	rounds := id + 5
	if crashes {
		rounds = 3*id + 8 // a torn crash delivers a segment again
	}
	for i := 0; i < rounds; i++ {
		ops = append(ops, "dcurrent", "dadvance")
	}
	ops = append(ops, "dempty", "usage")
	return fw.Case{Ops: ops}
}

// genProcCase: the node processor's sender (`psend` = one SendWrite round) over the same queue:
// blocks are well-formed hinted writes; rounds run with the shard writer healthy or failing
// (retryable), and with an append landing between the sender's look at the head of the queue
// and its reaction to finding nothing there (`psendmid`), around segment roll-overs.
func genProcCase(r *fw.Rand) fw.Case {
	maxSeg := []int{64, 100, 200, 400}[r.Intn(4)]
	ops := []string{fmt.Sprintf("reset %d 100000 hinted", maxSeg)}
	id := 0
	blk := func() (int, int) {
		id++
		l := 13 + len(fmt.Sprint(id)) + r.Intn(maxSeg/2)
		if r.Intn(5) == 0 {
			l = maxSeg - 16 - r.Intn(3)
		}
		if l < 13+len(fmt.Sprint(id)) {
			l = 13 + len(fmt.Sprint(id))
		}
		return id, l
	}
	n := 10 + r.Intn(50)
	for i := 0; i < n; i++ {
		switch r.Intn(10) {
		case 0, 1, 2:
			a, l := blk()
			ops = append(ops, fmt.Sprintf("append %d %d 0", a, l), "empty")
		case 3, 4, 5:
			ops = append(ops, "psend 1", "empty")
		case 6:
			ops = append(ops, "psend 0", "empty")
			if r.Intn(2) == 0 {
				// the head segment ages out and is purged between a failed attempt and the
				// retry: the retry must look at the queue again
				ops = append(ops, "age 0", "purge", "psend 1", "empty")
			}
		case 7, 8:
			a, l := blk()
			ops = append(ops, fmt.Sprintf("psendmid %d %d", a, l), "empty")
		default:
			// drain, then a round on the empty queue with an append in between
			for k := 0; k < 3; k++ {
				ops = append(ops, "psend 1")
			}
			a, l := blk()
			ops = append(ops, "empty", fmt.Sprintf("psendmid %d %d", a, l), "empty")
		}
	}
	ops = append(ops, "dappend 9999 20 0")
	for i := 0; i < id+5; i++ {
		ops = append(ops, "dcurrent", "dadvance")
	}
	ops = append(ops, "dempty", "usage")
	return fw.Case{Ops: ops, Tags: []string{"sender"}}
}

func (Prop) Generate(r *fw.Rand, tier string) []fw.Case {
	n := 400
	if tier == "thorough" {
		n = 8000
	}
	var cases []fw.Case
	for i := 0; i < n; i++ {
		if i%4 == 3 {
			cases = append(cases, genProcCase(r.Fork()))
			continue
		}
		cases = append(cases, genCase(r.Fork()))
	}
	return cases
}

// payload is the block with the given id and length. A block of 13 bytes or more (plus the
// id's digits) is a well-formed hinted write as `unmarshalWrite` reads it — 8-byte shard id
// (zero), one point: 4-byte length and the bytes (the id's digits, then padding) — so that the
// node processor can send it; a shorter one is the digits and padding alone.
func payload(id, l int, hinted bool) []byte {
	ds := []byte(strconv.Itoa(id))
	if hinted && l >= 12+len(ds) {
		b := make([]byte, 12, l)
		binary.BigEndian.PutUint32(b[8:12], uint32(l-12))
		b = append(b, ds...)
		for len(b) < l {
			b = append(b, 'x')
		}
		return b
	}
	for len(ds) < l {
		ds = append(ds, 'x')
	}
	return ds
}

func blockID(b []byte) int {
	if len(b) > 12 && b[0] == 0 {
		b = b[12:]
	}
	n := 0
	for _, c := range b {
		if c < '0' || c > '9' {
			break
		}
		n = n*10 + int(c-'0')
	}
	return n
}

type impl struct {
	dir     string
	q       *hh.VerifQueue
	proc    *hh.NodeProcessor
	w       *recWriter
	maxSeg  int
	hinted  bool // blocks are well-formed hinted writes (node processor cases)
	maxSize int
	crashes int
	olddirs []string
}

// openProc opens a node processor (background sender not running) on m.dir.
func (m *impl) openProc() string {
	cfg := hh.NewConfig()
	cfg.MaxSize = int64(m.maxSize)
	cfg.MaxWritesPending = 16
	m.w = &recWriter{}
	m.proc = hh.NewNodeProcessor(cfg, 2, 1, m.dir, m.w, oneNode{})
	if err := hh.VerifOpenProcessor(m.proc); err != nil {
		return errName(err)
	}
	m.q = hh.VerifProcessorQueue(m.proc)
	return errName(m.q.SetMaxSegmentSize(int64(m.maxSeg)))
}

// tearFlush applies the first k bytes of the write segment.flush would issue for block b to
// the newest segment file in dir.
func tearFlush(dir string, b []byte, k int) error {
	es, err := os.ReadDir(dir)
	if err != nil {
		return err
	}
	newest, best := "", uint64(0)
	for _, e := range es {
		if id, err := strconv.ParseUint(e.Name(), 10, 64); err == nil && id >= best {
			newest, best = e.Name(), id
		}
	}
	if newest == "" {
		return nil
	}
	path := filepath.Join(dir, newest)
	old, err := os.ReadFile(path)
	if err != nil || len(old) < 8 {
		return err
	}
	w := make([]byte, 8, 16+len(b))
	binary.BigEndian.PutUint64(w, uint64(len(b)))
	w = append(w, b...)
	w = append(w, old[len(old)-8:]...) // flush rewrites the head offset after the new block
	if k > len(w)-1 {
		k = len(w) - 1
	}
	if k < 1 {
		k = 1
	}
	fh, err := os.OpenFile(path, os.O_WRONLY, 0o644)
	if err != nil {
		return err
	}
	defer fh.Close()
	_, err = fh.WriteAt(w[:k], int64(len(old)-8))
	return err
}

// copyDir copies the queue's files (with their modification times) as a crash image.
func copyDir(src, dst string) error {
	if err := os.MkdirAll(dst, 0o755); err != nil {
		return err
	}
	es, err := os.ReadDir(src)
	if err != nil {
		return err
	}
	for _, e := range es {
		if e.IsDir() {
			continue
		}
		b, err := os.ReadFile(filepath.Join(src, e.Name()))
		if err != nil {
			return err
		}
		if err := os.WriteFile(filepath.Join(dst, e.Name()), b, 0o644); err != nil {
			return err
		}
		if fi, err := e.Info(); err == nil {
			os.Chtimes(filepath.Join(dst, e.Name()), fi.ModTime(), fi.ModTime())
		}
	}
	return nil
}

// recWriter is the shard writer behind the node processor: it records what it is given.
type recWriter struct {
	fail bool
	sent [][]byte // first point of every block written
}

func (w *recWriter) WriteShardBinary(shardID, ownerID uint64, points [][]byte) error {
	if w.fail {
		return errors.New("injected: node unreachable")
	}
	var p []byte
	if len(points) > 0 {
		p = points[0]
	}
	w.sent = append(w.sent, p)
	return nil
}

type oneNode struct{}

func (oneNode) DataNode(id uint64) (*meta.NodeInfo, error) { return &meta.NodeInfo{ID: id}, nil }

var sendMu, midMu sync.Mutex
var midFn func() // runs at the processor's "sendwrite.eof" step (one shot)

func init() {
	hh.VerifSetPointFn(func(name string) {
		if name != "sendwrite.eof" {
			return
		}
		midMu.Lock()
		f := midFn
		midFn = nil
		midMu.Unlock()
		if f != nil {
			f()
		}
	})
}

func errName(err error) string {
	switch {
	case err == nil:
		return "ok"
	case err == hh.ErrNotOpen:
		return "notopen"
	case err == hh.ErrQueueFull:
		return "full"
	case err == hh.ErrSegmentFull:
		return "segfull"
	case err == hh.ErrQueueBlocked:
		return "blocked"
	case err == io.EOF:
		return "eof"
	}
	return "err:" + strings.ReplaceAll(err.Error(), " ", "_")
}

func (m *impl) step(op string) (out string) {
	defer func() {
		if r := recover(); r != nil {
			out = "panic:" + strings.ReplaceAll(fmt.Sprint(r), " ", "_")
		}
	}()
	f := strings.Fields(op)
	atoi := func(s string) int { v, _ := strconv.Atoi(s); return v }
	f[0] = strings.TrimPrefix(f[0], "d")
	switch f[0] {
	case "reset":
		if m.q != nil {
			m.q.Close()
		}
		os.RemoveAll(m.dir)
		os.MkdirAll(m.dir, 0o755)
		m.maxSeg, m.maxSize = 1024, 100000
		m.hinted = false
		if len(f) >= 3 {
			m.maxSeg, m.maxSize = atoi(f[1]), atoi(f[2])
			// the node processor's cases need blocks it can decode (a hinted write has a
			// length field of its own inside); the queue's own cases use plain blocks, so
			// that no offset inside a block looks like the start of a record
			m.hinted = len(f) > 3 && f[3] == "hinted"
		}
		// the queue of a node processor whose background sender is not running: `psend` ops
		// drive NodeProcessor.SendWrite step by step, every other op goes to the queue itself
		return m.openProc()
	case "crash":
		// a crash image (the directory as it is now) and a restart on it; the old process is
		// abandoned (closed only after the copy, to free its files)
		m.crashes++
		img := fmt.Sprintf("%s.crash%d", strings.TrimRight(m.dir, "/"), m.crashes)
		if err := copyDir(m.dir, img); err != nil {
			return "err:image"
		}
		if len(f) == 5 && f[1] == "torn" {
			// the crash interrupts the flush of one more block (never acknowledged): of the
			// bytes that flush writes over the footer of the newest segment — length, block,
			// new footer — only the first k reach the file
			if err := tearFlush(img, payload(atoi(f[2]), atoi(f[3]), m.hinted), atoi(f[4])); err != nil {
				return "err:tear"
			}
		}
		m.q.Close()
		m.olddirs = append(m.olddirs, m.dir)
		m.dir = img
		return m.openProc()
	case "append":
		var release func()
		if f[3] == "1" {
			release = m.q.HoldTokens(9)
		}
		err := m.q.Append(payload(atoi(f[1]), atoi(f[2]), m.hinted))
		if release != nil {
			release()
		}
		return errName(err)
	case "psend", "psendmid":
		m.w.fail = f[0] == "psend" && f[1] == "0"
		m.w.sent = nil
		mid := "none"
		// the step hook carries no context: one SendWrite at a time across the parallel cases
		sendMu.Lock()
		defer sendMu.Unlock()
		if f[0] == "psendmid" {
			id, l := atoi(f[1]), atoi(f[2])
			midMu.Lock()
			midFn = func() { mid = errName(m.q.Append(payload(id, l, m.hinted))) }
			midMu.Unlock()
		}
		n, err := m.proc.SendWrite()
		midMu.Lock()
		midFn = nil
		midMu.Unlock()
		res := ""
		switch {
		case err == nil && len(m.w.sent) == 1:
			res = fmt.Sprintf("sent %d %d", blockID(m.w.sent[0]), n)
		case err == nil:
			res = fmt.Sprintf("sent-nothing %d", n)
		case err == io.EOF:
			res = "eof"
		case m.w.fail && strings.Contains(err.Error(), "injected"):
			res = "fail"
		default:
			res = errName(err)
		}
		if f[0] == "psendmid" {
			res += " mid=" + mid
		}
		return res
	case "current":
		b, err := m.q.Current()
		if err != nil {
			return errName(err)
		}
		return fmt.Sprintf("block %d %d", blockID(b), len(b))
	case "advance":
		return errName(m.q.Advance())
	case "empty":
		return fmt.Sprint(m.q.Empty())
	case "setmax":
		if len(m.q.SegmentIDs()) == 0 {
			return "notopen"
		}
		m.maxSeg = atoi(f[1])
		return errName(m.q.SetMaxSegmentSize(int64(atoi(f[1]))))
	case "age":
		if err := m.q.SetSegmentModTime(atoi(f[1]), time.Now().Add(-48*time.Hour)); err != nil {
			return "noseg"
		}
		return "ok"
	case "purge":
		return errName(m.q.PurgeOlderThan(time.Now().Add(-time.Hour)))
	case "close":
		return errName(m.q.Close())
	case "open":
		if len(m.q.SegmentIDs()) != 0 {
			return "already-open"
		}
		return errName(m.q.Open())
	case "usage":
		var ids []string
		for _, id := range m.q.SegmentIDs() {
			ids = append(ids, fmt.Sprint(id))
		}
		s := "-"
		if len(ids) > 0 {
			s = strings.Join(ids, ",")
		}
		return fmt.Sprintf("usage %d segs %s", m.q.DiskUsage(), s)
	}
	return "bad-op"
}

var workRoot = filepath.Join(os.Getenv("VERIF_WORK"), "c04")

func runCase(c fw.Case, tag string) []string {
	dir, _ := os.MkdirTemp(workDir(), "hhq-"+tag+"-")
	m := &impl{dir: dir}
	defer func() {
		if m.q != nil {
			m.q.Close()
		}
		os.RemoveAll(dir)
		os.RemoveAll(m.dir)
		for _, d := range m.olddirs {
			os.RemoveAll(d)
		}
	}()
	out := make([]string, len(c.Ops))
	for i, op := range c.Ops {
		out[i] = m.step(op)
	}
	return out
}

func workDir() string {
	d := os.Getenv("VERIF_WORK")
	if d == "" {
		d = "/verif/.work"
	}
	d = filepath.Join(d, "c04")
	os.MkdirAll(d, 0o755)
	return d
}

func (Prop) RunImpl(c fw.Case) []string { return runCase(c, "i") }

// Oracle: FIFO judged from the implementation's own answers.
//
//	accepted: ids of appends answered ok, in order
//	delivered: ids returned by `current` immediately followed by a successful `advance`
//
// delivered must be a prefix-order subsequence: every accepted block comes out exactly once and
// in the order accepted, except blocks discarded for a documented reason (age purge here);
// Empty() must answer true exactly when nothing is pending.
func (Prop) Oracle(c fw.Case, out []string) fw.Verdict {
	var pending []int // accepted, not yet delivered or purged (FIFO)
	// accepted under the buffered path and possibly still in a write buffer; at a crash they
	// become maybeLost: if one of them is then missing the report says so (a known finding)
	var unflushed []int
	maybeLost := map[int]bool{}
	allMaybeLost := func(ids []int) bool {
		if len(ids) == 0 {
			return false
		}
		for _, id := range ids {
			if !maybeLost[id] {
				return false
			}
		}
		return true
	}
	const lostSig = "a block accepted under the buffered path is lost by a crash"
	// a crash image in which the flush of one more block was torn: the blocks pending then
	tornPending := map[int]bool{}
	redeliver := false           // blocks delivered before may come again
	delivered := map[int]bool{}  // ids delivered so far
	tornExtra := map[int]bool{}  // never acknowledged, but possibly complete in the file
	allTorn := func(ids []int) bool {
		if len(ids) == 0 {
			return false
		}
		for _, id := range ids {
			if !tornPending[id] {
				return false
			}
		}
		return true
	}
	tornSig := "a flush torn by a crash costs blocks that had been acknowledged and flushed before"
	const tornSig8 = "a flush torn right after the new record's length costs blocks that had been acknowledged and flushed before"
	purged := false
	lastCurrent := -1
	open, sentinel := true, false
	// blocks an Advance without Current may have discarded: such an Advance discards the
	// oldest block of the head segment, or only moves on from an exhausted head segment —
	// which of the two depends on the segment layout, which this oracle does not track (the
	// model does, and is compared op by op). One block per bare Advance, oldest first.
	maybeGone := map[int]bool{}
	allGone := func(ids []int) bool {
		for _, id := range ids {
			if !maybeGone[id] {
				return false
			}
		}
		return len(ids) > 0
	}
	for i, op := range c.Ops {
		if i >= len(out) {
			break
		}
		f := strings.Fields(op)
		f[0] = strings.TrimPrefix(f[0], "d")
		o := out[i]
		if strings.HasPrefix(o, "panic") || strings.HasPrefix(o, "err:") {
			return fw.Verdict{OK: false, Why: fmt.Sprintf("op %d %q => %s", i, op, o), Signature: strings.SplitN(o, ":", 2)[0] + " in " + f[0]}
		}
		switch f[0] {
		case "reset":
			pending, purged, lastCurrent, open, sentinel = nil, false, -1, true, false
			maybeGone = map[int]bool{}
			unflushed, maybeLost, tornPending = nil, map[int]bool{}, map[int]bool{}
			redeliver, delivered, tornExtra = false, map[int]bool{}, map[int]bool{}
		case "crash":
			if len(f) == 5 && f[1] == "torn" {
				for _, id := range pending {
					tornPending[id] = true
				}
				// with the head offset gone the restart delivers the newest segment again
				// from its first record (at least once), and the torn block too if all of
				// it had reached the file
				redeliver = true
				if f[4] == "8" {
					tornSig = tornSig8 // the remainder that can look like a valid footer
				}
				tid, _ := strconv.Atoi(f[2])
				tornExtra[tid] = true
			}
			for _, id := range unflushed {
				maybeLost[id] = true
			}
			unflushed = nil
			open = true
			lastCurrent = -1
		case "close":
			if o == "ok" {
				open = false
				unflushed = nil // Close flushes
			}
			lastCurrent = -1
		case "open":
			if o == "ok" {
				open = true
			}
			lastCurrent = -1
		case "append":
			if o == "ok" {
				id, _ := strconv.Atoi(f[1])
				pending = append(pending, id)
				if id == 9999 {
					sentinel = true
				}
				if len(f) > 3 && f[3] == "1" {
					unflushed = append(unflushed, id)
				} else {
					unflushed = nil // an unbuffered append flushes what was buffered before it
				}
			}
			lastCurrent = -1
		case "current":
			lastCurrent = -1
			if strings.HasPrefix(o, "block ") {
				id, _ := strconv.Atoi(strings.Fields(o)[1])
				// must be the oldest pending block (after a purge: some pending block, order kept)
				idx := -1
				for k, p := range pending {
					if p == id {
						idx = k
						break
					}
				}
				if idx < 0 && (redeliver && delivered[id] || tornExtra[id]) {
					lastCurrent = -1 // a block delivered again, or the torn one: nothing pending changes
					continue
				}
				if idx < 0 {
					return fw.Verdict{OK: false, Why: fmt.Sprintf("op %d: current returned block %d which is not pending (pending %v)", i, id, pending), Signature: "delivered block not pending (duplicate or phantom)"}
				}
				if idx > 0 && allGone(pending[:idx]) {
					for _, g := range pending[:idx] {
						delivered[g] = true // consumed: a torn crash may bring it back like a delivered block
					}
					pending = pending[idx:] // discarded unread by bare Advances
					idx = 0
				}
				if idx > 0 && !purged {
					if allTorn(pending[:idx]) {
						return fw.Verdict{OK: false, Why: fmt.Sprintf("op %d: current returned block %d; blocks %v, accepted and flushed before the crash that tore the flush of a later block, are gone", i, id, pending[:idx]), Signature: tornSig}
					}
					if allMaybeLost(pending[:idx]) {
						return fw.Verdict{OK: false, Why: fmt.Sprintf("op %d: current returned block %d; blocks %v, accepted before it under the buffered path and not yet flushed when the crash image was taken, are gone", i, id, pending[:idx]), Signature: lostSig}
					}
					return fw.Verdict{OK: false, Why: fmt.Sprintf("op %d: current returned block %d but block %d is older and still pending", i, id, pending[0]), Signature: "block delivered out of order / older block skipped"}
				}
				if idx > 0 {
					for _, g := range pending[:idx] {
						delivered[g] = true // purged by age, or consumed by a bare Advance after a purge: a torn crash may bring the latter back
					}
					pending = pending[idx:] // the older ones were purged by age
				}
				lastCurrent = id
			}
		case "psend", "psendmid":
			lastCurrent = -1
			of := strings.Fields(o)
			if len(of) >= 2 && of[0] == "sent" {
				// the sender delivered a block: it must be the oldest pending one
				id, _ := strconv.Atoi(of[1])
				if len(pending) == 0 || pending[0] != id {
					if purged {
						for len(pending) > 0 && pending[0] != id {
							pending = pending[1:]
						}
					}
					if len(pending) == 0 || pending[0] != id {
						k := 0
						for k < len(pending) && pending[k] != id {
							k++
						}
						if k < len(pending) && allMaybeLost(pending[:k]) {
							return fw.Verdict{OK: false, Why: fmt.Sprintf("op %d %q sent block %d; blocks %v, accepted before it under the buffered path and not yet flushed when the crash image was taken, are gone", i, op, id, pending[:k]), Signature: lostSig}
						}
						return fw.Verdict{OK: false, Why: fmt.Sprintf("op %d %q sent block %d, the oldest pending block is %v", i, op, id, pending), Signature: "sender delivered a block that is not the oldest pending one"}
					}
				}
				pending = pending[1:]
			}
			if strings.HasSuffix(o, "mid=ok") {
				// an append accepted while the sender was between its look at the queue and
				// its reaction: the block is pending like any other
				id, _ := strconv.Atoi(f[1])
				pending = append(pending, id)
			}
		case "advance":
			if o == "ok" && lastCurrent < 0 && open {
				// Advance without Current (the queue's contract; the node processor never does
				// it): the oldest block not yet marked may be gone (not if it still sits in a
				// write buffer, which Advance does not see — then it is delivered later, which
				// the mark allows as well)
				for _, id := range pending {
					if !maybeGone[id] {
						maybeGone[id] = true
						break
					}
				}
			}
			if o == "ok" && lastCurrent >= 0 && len(pending) > 0 && pending[0] == lastCurrent {
				delivered[lastCurrent] = true
				pending = pending[1:]
			}
			lastCurrent = -1
		case "purge":
			if o == "ok" {
				purged = true // age purge may discard the oldest pending blocks (documented reason)
			}
			lastCurrent = -1
		case "empty":
			if purged || !open {
				continue // after an age purge the oracle no longer knows exactly what is pending; a closed queue holds nothing open
			}
			want := fmt.Sprint(len(pending) == 0)
			if allGone(pending) {
				continue // whether anything is left depends on what the bare Advances met
			}
			if o == "false" && want == "true" && redeliver {
				continue // blocks delivered before the torn crash are pending again
			}
			if o == "false" && want == "true" && len(tornExtra) > 0 {
				continue // the torn block reached the file completely and is pending although never acknowledged
			}
			if o != want && o == "true" && allTorn(pending) {
				return fw.Verdict{OK: false, Why: fmt.Sprintf("op %d: Empty() = true, but blocks %v had been accepted and flushed before the crash that tore the flush of a later, never acknowledged block; they were never delivered", i, pending), Signature: tornSig}
			}
			if o != want && o == "true" && allMaybeLost(pending) {
				return fw.Verdict{OK: false, Why: fmt.Sprintf("op %d: Empty() = true, but blocks %v were accepted (under the buffered path, not yet flushed when the crash image was taken) and never delivered", i, pending), Signature: lostSig}
			}
			if o != want {
				return fw.Verdict{OK: false, Why: fmt.Sprintf("op %d (after %q): Empty() = %s with pending blocks %v", i, c.Ops[i-1], o, pending), Signature: "Empty()=" + o + " after " + strings.Fields(c.Ops[i-1])[0]}
			}
		default:
			lastCurrent = -1
		}
	}
	// the case ends with a full drain on an open queue: nothing accepted may be left behind
	// (but what a bare Advance may have discarded)
	{
		var left []int
		for _, id := range pending {
			if !maybeGone[id] {
				left = append(left, id)
			}
		}
		pending = left
	}
	if len(pending) > 0 && !purged && open && sentinel && allTorn(pending) {
		return fw.Verdict{OK: false, Why: fmt.Sprintf("blocks %v had been accepted and flushed before the crash that tore the flush of a later block; they were never delivered", pending), Signature: tornSig}
	}
	if len(pending) > 0 && !purged && open && sentinel && allMaybeLost(pending) {
		return fw.Verdict{OK: false, Why: fmt.Sprintf("blocks %v were accepted under the buffered path, the crash image was taken before they were flushed, and they were never delivered", pending), Signature: lostSig}
	}
	if len(pending) > 0 && !purged && open && sentinel {
		return fw.Verdict{OK: false, Why: fmt.Sprintf("after the final drain blocks %v were never delivered", pending), Signature: "accepted block never delivered"}
	}
	return fw.Verdict{OK: true}
}

func (Prop) Trivial(c fw.Case, out []string) bool {
	multi := false
	for i, op := range c.Ops {
		if op == "usage" && i < len(out) && strings.Contains(out[i], ",") {
			multi = true
		}
	}
	return !multi
}
