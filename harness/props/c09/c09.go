// Package c09: snapshot and compaction never change what reads return.
// The real Compactor (tsdb/engine/tsm1/compact.go, compact.gen.go) is run on TSM files the
// harness writes block by block (so any overlap pattern between files is reachable), with
// tombstones added through TSMReader.DeleteRange; the outputs are read back through
// TSMReader and compared with the Lean model InfluxVerif.Compact (newest file wins, minus
// tombstoned ranges, re-chunked).  The shape of the output (blocks per key sorted,
// non-overlapping, within the points-per-block limit, no empty block, index consistent with
// the block) is checked on the implementation side.
package c09

import (
	"context"
	"fmt"
	"os"
	"path/filepath"
	"sort"
	"strconv"
	"strings"
	"time"

	"github.com/influxdata/influxdb/tsdb/engine/tsm1"
	"verifharness/fw"
	"verifharness/shardh"
)

type Prop struct{}

func (Prop) ID() string                   { return "C09" }
func (Prop) Model() string                { return "compact" }
func (Prop) Parallel() int                { return 8 }
func (Prop) Stateful() bool               { return true }
func (Prop) KeepOp(i int, op string) bool { return i == 0 }

// ---- file set -------------------------------------------------------------------------

type tfile struct {
	gen, seq int
	path     string
	r        *tsm1.TSMReader
}

type env struct {
	dir   string
	size  int
	files []*tfile
	comp  *tsm1.Compactor
	maxG  int
}

func (e *env) NextGeneration() int { e.maxG++; return e.maxG }
func (e *env) TSMReader(path string) *tsm1.TSMReader {
	for _, f := range e.files {
		if f.path == path {
			f.r.Ref()
			return f.r
		}
	}
	return nil
}

func (e *env) close() {
	for _, f := range e.files {
		f.r.Close()
	}
	e.files = nil
}

func (e *env) sortFiles() {
	sort.SliceStable(e.files, func(i, j int) bool {
		if e.files[i].gen != e.files[j].gen {
			return e.files[i].gen < e.files[j].gen
		}
		return e.files[i].seq < e.files[j].seq
	})
}

func keyType(key string) byte { return key[1] } // k<type>...

func mkValue(ty byte, t, v int64) tsm1.Value {
	switch ty {
	case 'f':
		return tsm1.NewFloatValue(t, float64(v))
	case 'u':
		return tsm1.NewUnsignedValue(t, uint64(v))
	case 'b':
		return tsm1.NewBooleanValue(t, v%2 != 0)
	case 's':
		return tsm1.NewStringValue(t, strconv.FormatInt(v, 10))
	}
	return tsm1.NewIntegerValue(t, v)
}

func valTok(v tsm1.Value) string {
	switch x := v.Value().(type) {
	case float64:
		return strconv.FormatInt(int64(x), 10)
	case bool:
		if x {
			return "1"
		}
		return "0"
	case string:
		return x
	}
	return fmt.Sprint(v.Value())
}

type keyBlocks struct {
	key    string
	blocks [][][2]int64
}

// spec: key@t:v,t:v/t:v;key@...
func parseSpec(s string) []keyBlocks {
	var out []keyBlocks
	for _, ks := range strings.Split(s, ";") {
		k, rest, _ := strings.Cut(ks, "@")
		kb := keyBlocks{key: k}
		for _, bs := range strings.Split(rest, "/") {
			var blk [][2]int64
			for _, it := range strings.Split(bs, ",") {
				a, b, _ := strings.Cut(it, ":")
				t, _ := strconv.ParseInt(a, 10, 64)
				v, _ := strconv.ParseInt(b, 10, 64)
				blk = append(blk, [2]int64{t, v})
			}
			kb.blocks = append(kb.blocks, blk)
		}
		out = append(out, kb)
	}
	return out
}

func (e *env) open(path string, gen, seq int) error {
	fd, err := os.Open(path)
	if err != nil {
		return err
	}
	r, err := tsm1.NewTSMReader(fd)
	if err != nil {
		return err
	}
	e.files = append(e.files, &tfile{gen: gen, seq: seq, path: path, r: r})
	if gen > e.maxG {
		e.maxG = gen
	}
	e.sortFiles()
	return nil
}

func (e *env) writeFile(gen, seq int, spec string) string {
	path := filepath.Join(e.dir, tsm1.DefaultFormatFileName(gen, seq)+".tsm")
	fd, err := os.Create(path)
	if err != nil {
		return "err:" + err.Error()
	}
	w, err := tsm1.NewTSMWriter(fd)
	if err != nil {
		return "err:" + err.Error()
	}
	kbs := parseSpec(spec)
	sort.SliceStable(kbs, func(i, j int) bool { return kbs[i].key < kbs[j].key })
	for _, kb := range kbs {
		for _, blk := range kb.blocks {
			vals := make(tsm1.Values, 0, len(blk))
			for _, p := range blk {
				vals = append(vals, mkValue(keyType(kb.key), p[0], p[1]))
			}
			b, err := vals.Encode(nil)
			if err != nil {
				return "err:" + err.Error()
			}
			if err := w.WriteBlock([]byte(kb.key), blk[0][0], blk[len(blk)-1][0], b); err != nil {
				return "err:" + err.Error()
			}
		}
	}
	if err := w.WriteIndex(); err != nil {
		return "err:" + err.Error()
	}
	if err := w.Close(); err != nil {
		return "err:" + err.Error()
	}
	if err := e.open(path, gen, seq); err != nil {
		return "err:" + err.Error()
	}
	return "ok"
}

// content of a set of output readers, per key, in file then index order — NOT re-sorted, so
// disorder or duplicates in the output change the digest
func contentOf(rs []*tsm1.TSMReader, size int, checkShape bool) (string, string) {
	type acc struct {
		tvs   []shardh.TV
		shape string
	}
	m := map[string]*acc{}
	var keys []string
	shape := ""
	for _, r := range rs {
		n := r.KeyCount()
		prevKey := ""
		for i := 0; i < n; i++ {
			kb, _ := r.KeyAt(i)
			key := string(kb)
			if i > 0 && key <= prevKey && shape == "" {
				shape = fmt.Sprintf("keys out of order in a file: %q after %q", key, prevKey)
			}
			prevKey = key
			a := m[key]
			if a == nil {
				a = &acc{}
				m[key] = a
				keys = append(keys, key)
			}
			for _, ent := range r.Entries(kb) {
				e := ent
				vals, err := r.ReadAt(&e, nil)
				if err != nil {
					if shape == "" {
						shape = fmt.Sprintf("block of %s unreadable: %v", key, err)
					}
					continue
				}
				if checkShape && shape == "" {
					switch {
					case len(vals) == 0:
						shape = fmt.Sprintf("empty block for %s", key)
					case len(vals) > size:
						shape = fmt.Sprintf("block of %s holds %d points, limit %d", key, len(vals), size)
					case vals[0].UnixNano() != e.MinTime || vals[len(vals)-1].UnixNano() != e.MaxTime:
						shape = fmt.Sprintf("index entry of %s says [%d,%d], block holds [%d,%d]", key, e.MinTime, e.MaxTime, vals[0].UnixNano(), vals[len(vals)-1].UnixNano())
					case len(a.tvs) > 0 && a.tvs[len(a.tvs)-1].T >= vals[0].UnixNano():
						shape = fmt.Sprintf("blocks of %s overlap or are out of order: previous ends at %d, next starts at %d", key, a.tvs[len(a.tvs)-1].T, vals[0].UnixNano())
					}
				}
				for j, v := range vals {
					if checkShape && j > 0 && vals[j-1].UnixNano() >= v.UnixNano() && shape == "" {
						shape = fmt.Sprintf("block of %s not strictly increasing at %d", key, v.UnixNano())
					}
					a.tvs = append(a.tvs, shardh.TV{T: v.UnixNano(), V: valTok(v)})
				}
			}
		}
	}
	sort.Strings(keys)
	var parts []string
	for _, k := range keys {
		if len(m[k].tvs) == 0 {
			continue
		}
		f := strings.Fields(shardh.Render(m[k].tvs))
		parts = append(parts, k+":"+f[0]+":"+f[1])
	}
	if len(parts) == 0 {
		parts = []string{"-"}
	}
	return strings.Join(parts, " "), shape
}

func (e *env) compact(mode string, i, j int, abort bool) string {
	if i < 0 || j >= len(e.files) || i > j {
		return "bad-op"
	}
	var paths []string
	for _, f := range e.files[i : j+1] {
		paths = append(paths, f.path)
	}
	var outs []string
	var err error
	run := func() {
		if mode == "fast" {
			outs, err = e.comp.CompactFast(paths)
		} else {
			outs, err = e.comp.CompactFull(paths)
		}
	}
	if abort {
		done := make(chan struct{})
		go func() { run(); close(done) }()
		time.Sleep(time.Duration(50+len(paths)*20) * time.Microsecond)
		e.comp.DisableCompactions()
		<-done
		e.comp.EnableCompactions()
		// whatever happened, no temporary file may be left unless the compaction reported success
		if err != nil || outs == nil {
			left, _ := filepath.Glob(filepath.Join(e.dir, "*.tmp"))
			if len(left) > 0 {
				return fmt.Sprintf("ABORT-LEFTOVER %d tmp files after %v", len(left), err)
			}
			// originals still readable
			for _, f := range e.files[i : j+1] {
				if _, statErr := os.Stat(f.path); statErr != nil {
					return "ABORT-LOST-INPUT " + filepath.Base(f.path)
				}
			}
			return "aborted"
		}
		// the compaction won the race: treat as a normal one below
	} else {
		run()
	}
	if err != nil {
		left, _ := filepath.Glob(filepath.Join(e.dir, "*.tmp"))
		for _, l := range left {
			os.Remove(l)
		}
		if len(left) > 0 {
			return fmt.Sprintf("err-LEFTOVER %d tmp files: %v", len(left), err)
		}
		return "err:" + strings.ReplaceAll(err.Error(), " ", "_")
	}
	// install: rename tmp files, drop the inputs (what FileStore.Replace does)
	gen, seq := 0, 0
	for _, f := range e.files[i : j+1] {
		if f.gen > gen {
			gen, seq = f.gen, f.seq
		} else if f.gen == gen && f.seq > seq {
			seq = f.seq
		}
	}
	old := append([]*tfile{}, e.files[i:j+1]...)
	rest := append(append([]*tfile{}, e.files[:i]...), e.files[j+1:]...)
	for _, f := range old {
		f.r.Close()
		f.r.Remove()
	}
	e.files = rest
	var newReaders []*tsm1.TSMReader
	for _, o := range outs {
		final := strings.TrimSuffix(o, ".tmp")
		if err := os.Rename(o, final); err != nil {
			return "err:" + err.Error()
		}
		g, s, perr := tsm1.DefaultParseFileName(final)
		if perr != nil {
			return "err:" + perr.Error()
		}
		if err := e.open(final, g, s); err != nil {
			return "err:open_output:" + strings.ReplaceAll(err.Error(), " ", "_")
		}
		for _, f := range e.files {
			if f.path == final {
				newReaders = append(newReaders, f.r)
			}
		}
		if g != gen && mode != "snap" {
			return fmt.Sprintf("SHAPE: output generation %d, inputs' max generation %d", g, gen)
		}
	}
	content, shape := contentOf(newReaders, e.size, true)
	if abort {
		content = "raced " + content
	}
	if shape != "" {
		return content + " SHAPE: " + shape
	}
	return content
}

func (e *env) tomb(idx int, key string, lo, hi int64) string {
	if idx < 0 || idx >= len(e.files) {
		return "bad-op"
	}
	if err := e.files[idx].r.DeleteRange([][]byte{[]byte(key)}, lo, hi); err != nil {
		return "err:" + strings.ReplaceAll(err.Error(), " ", "_")
	}
	return "ok"
}

// tombRace: a range delete on one file done the way the engine does it (BatchDelete:
// DeleteRange, then Commit), with somebody asking the file for its tombstones in between —
// what a snapshot for a backup, the statistics or the compaction planner do at any time.
// Once the delete is committed the file must advertise its tombstone file: snapshots link it,
// backups stream it, the planner schedules the file.
func (e *env) tombRace(idx int, key string, lo, hi int64) string {
	if idx < 0 || idx >= len(e.files) {
		return "bad-op"
	}
	r := e.files[idx].r
	touched := false
	if vals, err := r.ReadAll([]byte(key)); err == nil {
		for _, v := range vals {
			if v.UnixNano() >= lo && v.UnixNano() <= hi {
				touched = true
			}
		}
	}
	b := r.BatchDelete()
	if err := b.DeleteRange([][]byte{[]byte(key)}, lo, hi); err != nil {
		b.Rollback()
		return "err:" + strings.ReplaceAll(err.Error(), " ", "_")
	}
	r.HasTombstones()
	if err := b.Commit(); err != nil {
		return "err:" + strings.ReplaceAll(err.Error(), " ", "_")
	}
	if touched && (!r.HasTombstones() || !r.TombstoneStats().TombstoneExists) {
		return "TOMBSTONE-NOT-ADVERTISED the file holds a committed tombstone, HasTombstones/TombstoneFiles say it has none"
	}
	return "ok"
}

// snapshot: writes (in order, duplicates allowed) go to a cache, the cache snapshot is written
// out by Compactor.WriteSnapshot
func (e *env) snap(spec string) string {
	c := tsm1.NewCache(0)
	for _, kb := range parseSpec(spec) {
		for _, blk := range kb.blocks {
			vals := make([]tsm1.Value, 0, len(blk))
			for _, p := range blk {
				vals = append(vals, mkValue(keyType(kb.key), p[0], p[1]))
			}
			if err := c.Write([]byte(kb.key), vals); err != nil {
				return "err:" + strings.ReplaceAll(err.Error(), " ", "_")
			}
		}
	}
	sn, err := c.Snapshot()
	if err != nil {
		return "err:" + err.Error()
	}
	sn.Deduplicate() // as Engine.WriteSnapshot does before handing the snapshot to the compactor
	outs, err := e.comp.WriteSnapshot(sn)
	if err != nil {
		return "err:" + strings.ReplaceAll(err.Error(), " ", "_")
	}
	var rs []*tsm1.TSMReader
	for _, o := range outs {
		final := strings.TrimSuffix(o, ".tmp")
		os.Rename(o, final)
		g, s, _ := tsm1.DefaultParseFileName(final)
		if err := e.open(final, g, s); err != nil {
			return "err:open_output:" + err.Error()
		}
		for _, f := range e.files {
			if f.path == final {
				rs = append(rs, f.r)
			}
		}
	}
	content, shape := contentOf(rs, 1000, true)
	if shape != "" {
		return content + " SHAPE: " + shape
	}
	return content
}

// all: what a reader of the whole file set must see, computed by compacting nothing: the
// harness merges per key through tsm1's own KeyCursor-free primitives (ReadAll applies
// tombstones per file); used only to show the before/after of a compaction in replays.
func (e *env) all() string {
	type kv = map[int64]string
	m := map[string]kv{}
	for _, f := range e.files {
		n := f.r.KeyCount()
		for i := 0; i < n; i++ {
			kb, _ := f.r.KeyAt(i)
			vals, err := f.r.ReadAll(kb)
			if err != nil {
				return "err:" + err.Error()
			}
			if m[string(kb)] == nil {
				m[string(kb)] = kv{}
			}
			for _, v := range vals {
				m[string(kb)][v.UnixNano()] = valTok(v)
			}
		}
	}
	var keys []string
	for k := range m {
		keys = append(keys, k)
	}
	sort.Strings(keys)
	var parts []string
	for _, k := range keys {
		var ts []int64
		for t := range m[k] {
			ts = append(ts, t)
		}
		sort.Slice(ts, func(i, j int) bool { return ts[i] < ts[j] })
		tvs := make([]shardh.TV, len(ts))
		for i, t := range ts {
			tvs[i] = shardh.TV{T: t, V: m[k][t]}
		}
		if len(tvs) == 0 {
			continue
		}
		f := strings.Fields(shardh.Render(tvs))
		parts = append(parts, k+":"+f[0]+":"+f[1])
	}
	if len(parts) == 0 {
		return "-"
	}
	return strings.Join(parts, " ")
}

func RunOps(ops []string) []string {
	dir, _ := os.MkdirTemp(shardh.WorkDir("compact"), "c-")
	defer os.RemoveAll(dir)
	e := &env{dir: dir, size: 1000}
	defer func() { e.close() }()
	out := make([]string, len(ops))
	for i, op := range ops {
		out[i] = step(e, op)
	}
	return out
}

func step(e *env, op string) (res string) {
	defer func() {
		if r := recover(); r != nil {
			res = "panic:" + strings.ReplaceAll(fmt.Sprint(r), " ", "_")
		}
	}()
	f := strings.Fields(op)
	i64 := func(s string) int64 { v, _ := strconv.ParseInt(s, 10, 64); return v }
	switch f[0] {
	case "bsort":
		// the real block orderings (tsm1 verif hook) on the given index-entry ranges
		var mins, maxs []int64
		var files []int
		for _, it := range strings.Split(f[2], ",") {
			p := strings.Split(it, ":")
			mins = append(mins, i64(p[0]))
			maxs = append(maxs, i64(p[1]))
			files = append(files, int(i64(p[2])))
		}
		var order []int
		switch f[1] {
		case "c":
			order = tsm1.VerifSortBlocks(mins, maxs)
		case "asc":
			order = tsm1.VerifSortLocations(mins, maxs, files, true)
		default:
			order = tsm1.VerifSortLocations(mins, maxs, files, false)
		}
		var out []string
		for _, o := range order {
			out = append(out, fmt.Sprint(o))
		}
		return "order " + strings.Join(out, ",")
	case "reset":
		e.close()
		ents, _ := os.ReadDir(e.dir)
		for _, en := range ents {
			os.RemoveAll(filepath.Join(e.dir, en.Name()))
		}
		e.size = int(i64(f[1]))
		e.maxG = 0
		e.comp = tsm1.NewCompactor()
		e.comp.Dir = e.dir
		e.comp.Size = e.size
		e.comp.FileStore = e
		e.comp.Open()
		return "ok"
	case "f":
		return e.writeFile(int(i64(f[1])), int(i64(f[2])), f[3])
	case "tomb":
		return e.tomb(int(i64(f[1])), f[2], i64(f[3]), i64(f[4]))
	case "tombrace":
		return e.tombRace(int(i64(f[1])), f[2], i64(f[3]), i64(f[4]))
	case "compact":
		return e.compact(f[1], int(i64(f[2])), int(i64(f[3])), false)
	case "abort":
		before := e.all()
		r := e.compact(f[1], int(i64(f[2])), int(i64(f[3])), true)
		if strings.HasPrefix(r, "ABORT-") || strings.HasPrefix(r, "err") || strings.Contains(r, "SHAPE:") || r == "bad-op" {
			return r
		}
		if after := e.all(); after != before {
			return "ABORT-CHANGED before=" + before + " after=" + after
		}
		return "ok"
	case "snap":
		return e.snap(f[1])
	case "all":
		return e.all()
	case "rerr":
		return readerError(e.dir, e.size, f[1], int(i64(f[2])), int(i64(f[3])), int(i64(f[4])))
	}
	return "bad-op"
}

// onceRate is a limiter.Rate that runs fn the first time the compactor's writer flushes.
type onceRate struct {
	done bool
	fn   func()
}

func (r *onceRate) WaitN(ctx context.Context, n int) error {
	if !r.done {
		r.done = true
		r.fn()
	}
	return nil
}
func (r *onceRate) Burst() int { return 1 << 30 }

// readerError: "an error injected from a reader". Two files are compacted; the older one
// starts with a key large enough (incompressible strings) that the output writer flushes —
// and consults the rate limiter — while that key is being written. At that moment key
// `victim` is deleted from the older file's reader, which makes its block iterator fail
// ("delete during iteration") when the compaction gets to the file's next key. The compaction
// must either fail and leave both inputs in place and readable with no temporary file, or
// succeed with every key other than the victim complete in its output.
func readerError(dir string, size int, mode string, nkeys, victim, seed int) string {
	sub := filepath.Join(dir, "rerr")
	os.RemoveAll(sub)
	if err := os.MkdirAll(sub, 0o755); err != nil {
		return "err:" + err.Error()
	}
	defer os.RemoveAll(sub)
	e := &env{dir: sub, size: size}
	defer e.close()
	e.comp = tsm1.NewCompactor()
	e.comp.Dir, e.comp.Size, e.comp.FileStore = sub, size, e
	e.comp.Open()
	x := uint64(seed)*2654435761 + 88172645463325252
	rnd := func() uint64 { x ^= x << 13; x ^= x >> 7; x ^= x << 17; return x }
	write := func(gen int, keys []string, pts map[string][]tsm1.Value) string {
		path := filepath.Join(sub, tsm1.DefaultFormatFileName(gen, 1)+".tsm")
		fd, err := os.Create(path)
		if err != nil {
			return "err:" + err.Error()
		}
		w, err := tsm1.NewTSMWriter(fd)
		if err != nil {
			return "err:" + err.Error()
		}
		for _, k := range keys {
			vs := pts[k]
			for len(vs) > 0 {
				n := len(vs)
				if n > size {
					n = size
				}
				b, err := tsm1.Values(vs[:n]).Encode(nil)
				if err != nil {
					return "err:" + err.Error()
				}
				if err := w.WriteBlock([]byte(k), vs[0].UnixNano(), vs[n-1].UnixNano(), b); err != nil {
					return "err:" + err.Error()
				}
				vs = vs[n:]
			}
		}
		if err := w.WriteIndex(); err != nil {
			return "err:" + err.Error()
		}
		if err := w.Close(); err != nil {
			return "err:" + err.Error()
		}
		if err := e.open(path, gen, 1); err != nil {
			return "err:" + err.Error()
		}
		return ""
	}
	// expected number of points per key after the merge (distinct timestamps)
	want := map[string]map[int64]bool{}
	note := func(k string, t int64) {
		if want[k] == nil {
			want[k] = map[int64]bool{}
		}
		want[k][t] = true
	}
	bigKey := "a-big#!~#s"
	var keysA, keysB []string
	ptsA, ptsB := map[string][]tsm1.Value{}, map[string][]tsm1.Value{}
	keysA = append(keysA, bigKey)
	for i := 0; i < 160; i++ {
		b := make([]byte, 16384)
		for j := range b {
			b[j] = "0123456789abcdefghijklmnopqrstuvwxyzABCDEFGHIJKLMNOPQRSTUVWXYZ-_"[rnd()&63]
		}
		ptsA[bigKey] = append(ptsA[bigKey], tsm1.NewStringValue(int64(i), string(b)))
		note(bigKey, int64(i))
	}
	for k := 0; k < nkeys; k++ {
		key := fmt.Sprintf("k%02d#!~#v", k)
		keysA = append(keysA, key)
		for i := 0; i < 1+int(rnd()%5); i++ {
			ptsA[key] = append(ptsA[key], tsm1.NewIntegerValue(int64(10*i), int64(k)))
			note(key, int64(10*i))
		}
		if rnd()%2 == 0 {
			keysB = append(keysB, key)
			for i := 0; i < 1+int(rnd()%5); i++ {
				ptsB[key] = append(ptsB[key], tsm1.NewIntegerValue(int64(10*i+5), int64(k)))
				note(key, int64(10*i+5))
			}
		}
	}
	if len(keysB) == 0 {
		keysB = append(keysB, "zz#!~#v")
		ptsB["zz#!~#v"] = []tsm1.Value{tsm1.NewIntegerValue(1, 1)}
		note("zz#!~#v", 1)
	}
	if r := write(1, keysA, ptsA); r != "" {
		return r
	}
	if r := write(2, keysB, ptsB); r != "" {
		return r
	}
	victimKey := fmt.Sprintf("k%02d#!~#v", victim%nkeys)
	injected := false
	e.comp.RateLimit = &onceRate{fn: func() {
		injected = e.files[0].r.Delete([][]byte{[]byte(victimKey)}) == nil
	}}
	paths := []string{e.files[0].path, e.files[1].path}
	var outs []string
	var err error
	if mode == "fast" {
		outs, err = e.comp.CompactFast(paths)
	} else {
		outs, err = e.comp.CompactFull(paths)
	}
	if !injected {
		return "rerr not-injected"
	}
	if err != nil {
		if left, _ := filepath.Glob(filepath.Join(sub, "*.tmp")); len(left) > 0 {
			return fmt.Sprintf("READER-ERROR-LEFTOVER %d tmp files after %v", len(left), err)
		}
		for _, p := range paths {
			if _, serr := os.Stat(p); serr != nil {
				return "READER-ERROR-LOST-INPUT " + filepath.Base(p)
			}
		}
		return "rerr handled"
	}
	// the compaction reported success: what it wrote is what would be installed
	got := map[string]map[int64]bool{}
	for _, o := range outs {
		fd, oerr := os.Open(o)
		if oerr != nil {
			return "err:" + oerr.Error()
		}
		r, oerr := tsm1.NewTSMReader(fd)
		if oerr != nil {
			return "READER-ERROR-BAD-OUTPUT " + oerr.Error()
		}
		for i := 0; i < r.KeyCount(); i++ {
			kb, _ := r.KeyAt(i)
			vals, rerr := r.ReadAll(kb)
			if rerr != nil {
				r.Close()
				return "READER-ERROR-BAD-OUTPUT " + rerr.Error()
			}
			if got[string(kb)] == nil {
				got[string(kb)] = map[int64]bool{}
			}
			for _, v := range vals {
				got[string(kb)][v.UnixNano()] = true
			}
		}
		r.Close()
	}
	var lost []string
	for k, ts := range want {
		if k == victimKey {
			continue
		}
		if len(got[k]) != len(ts) {
			lost = append(lost, fmt.Sprintf("%s:%d/%d", k, len(got[k]), len(ts)))
		}
	}
	if len(lost) > 0 {
		sort.Strings(lost)
		return "READER-ERROR-SWALLOWED the compaction reported success, its output lacks points of " + strings.Join(lost, ",")
	}
	return "rerr handled"
}

func (Prop) RunImpl(c fw.Case) []string { return RunOps(c.Ops) }
