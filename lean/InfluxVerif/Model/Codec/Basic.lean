/-
C13 — byte-level primitives of the TSM/WAL encodings (core Lean only).
uint64 values are `Nat`s below `M64`; int64 values are carried as their uint64 bit
patterns (what Go's `uint64(x)` yields); bytes are `Nat`s below 256 (`Bytes`).
Go's wrap-around arithmetic is written with explicit `% M64`.
-/
namespace InfluxVerif.Codec

abbrev Bytes := List Nat

def M64 : Nat := 18446744073709551616      -- 2^64
def M63 : Nat := 9223372036854775808       -- 2^63
def s8bMax : Nat := 1152921504606846975    -- simple8b.MaxValue = 2^60 - 1

def add64 (a b : Nat) : Nat := (a + b) % M64
def sub64 (a b : Nat) : Nat := (a + M64 - b % M64) % M64
def mul64 (a b : Nat) : Nat := (a * b) % M64

/-- `binary.BigEndian.PutUint64` -/
def be64 (v : Nat) : Bytes :=
  [v / 72057594037927936 % 256, v / 281474976710656 % 256, v / 1099511627776 % 256,
   v / 4294967296 % 256, v / 16777216 % 256, v / 65536 % 256, v / 256 % 256, v % 256]

/-- `binary.BigEndian.Uint64` on exactly eight bytes -/
def be64dec : Bytes → Option (Nat × Bytes)
  | a :: b :: c :: d :: e :: f :: g :: h :: rest =>
    some (a * 72057594037927936 + b * 281474976710656 + c * 1099511627776 + d * 4294967296 +
          e * 16777216 + f * 65536 + g * 256 + h, rest)
  | _ => none

/-- `binary.BigEndian.PutUint32` -/
def be32 (v : Nat) : Bytes := [v / 16777216 % 256, v / 65536 % 256, v / 256 % 256, v % 256]

def be32dec : Bytes → Option (Nat × Bytes)
  | a :: b :: c :: d :: rest => some (a * 16777216 + b * 65536 + c * 256 + d, rest)
  | _ => none

/-- `binary.PutUvarint` (fuel = 10 groups suffice for 64 bits; structural on fuel). -/
def putUvarintAux : Nat → Nat → Bytes
  | 0, x => [x % 128]
  | fuel + 1, x => if x < 128 then [x] else (x % 128 + 128) :: putUvarintAux fuel (x / 128)

def putUvarint (x : Nat) : Bytes := putUvarintAux 9 x

/-- `binary.Uvarint`: `(value, bytesRead)`; `none` stands for `n <= 0`
(buffer too small, or overflow) — every caller treats those alike. -/
def uvarintAux : (i : Nat) → (shift : Nat) → (acc : Nat) → Bytes → Option (Nat × Nat × Bytes)
  | _, _, _, [] => none
  | i, s, x, b :: rest =>
    if i = 10 then none
    else if b < 128 then
      if i = 9 ∧ b > 1 then none else some (x + b * 2 ^ s, i + 1, rest)
    else uvarintAux (i + 1) (s + 7) (x + (b % 128) * 2 ^ s) rest

/-- returns value, number of bytes consumed, remaining bytes -/
def uvarint (b : Bytes) : Option (Nat × Nat × Bytes) := uvarintAux 0 0 0 b

/-- `ZigZagEncode` on the bit pattern of an int64 -/
def zigzagEnc (v : Nat) : Nat := if v < M63 then 2 * v else 2 * M64 - 1 - 2 * v

/-- `ZigZagDecode`, result as the bit pattern of the int64 -/
def zigzagDec (v : Nat) : Nat := if v % 2 = 0 then v / 2 else M64 - 1 - v / 2

end InfluxVerif.Codec
