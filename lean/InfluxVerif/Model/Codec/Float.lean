/-
C13 — the float block encoding (tsdb/engine/tsm1/float.go: Gorilla XOR compression over a bit
stream; github.com/dgryski/go-bitstream writer, tsm1.BitReader reader).  Core Lean only.

A float64 is carried as its bit pattern, a `Nat` below `M64`.  The encoder writes bits most
significant first; `Flush` writes the sentinel `math.NaN()` (`uvnan`) as one more value and
pads the last byte with zero bits.  The reader is modelled with what `BitReader.ReadBits` does
on short input: an error only when *no* bit is left, zero bits for whatever is missing
otherwise.  The decoder keeps Go's unsigned wrap-around for a header announcing more
significant bits than fit (`trailing = 64 - leading - mbits` below zero; a shift by 64 or more
gives 0).
-/
import InfluxVerif.Model.Codec.Basic
namespace InfluxVerif.Codec.Float
open InfluxVerif.Codec

abbrev Bits := List Bool

/-- `math.NaN()`'s bit pattern: the end-of-stream sentinel -/
def uvnan : Nat := 0x7FF8000000000001

/-- `math.IsNaN` on a bit pattern: exponent all ones, mantissa not zero -/
def isNaN (v : Nat) : Bool := (v / 4503599627370496) % 2048 == 2047 && v % 4503599627370496 != 0

/-- `BitWriter.WriteBits(v, n)`: the low `n` bits of `v`, most significant first -/
def writeBits (v : Nat) : Nat → Bits
  | 0 => []
  | n + 1 => (v / 2 ^ n % 2 == 1) :: writeBits v n

/-- the number the bits spell, most significant first, as if followed by zeros up to `n` bits -/
def bitsVal : Nat → Bits → Nat
  | 0, _ => 0
  | _ + 1, [] => 0
  | n + 1, b :: bs => (if b then 2 ^ n else 0) + bitsVal n bs

/-- `BitReader.ReadBits(n)`: EOF only when nothing is left; missing bits read as zero -/
def readBits (n : Nat) (bs : Bits) : Option (Nat × Bits) :=
  if bs.isEmpty then none else some (bitsVal n bs, bs.drop n)

/-- `bits.TrailingZeros64` for `0 < d < 2^64` -/
def ctzAux : Nat → Nat → Nat
  | 0, _ => 0
  | f + 1, d => if d % 2 = 1 then 0 else 1 + ctzAux f (d / 2)
def ctz (d : Nat) : Nat := ctzAux 64 d

/-- `bits.LeadingZeros64` for `0 < d < 2^64` -/
def clz64 (d : Nat) : Nat := 63 - Nat.log2 d

/-- the encoder's state between values; `leading = none` is Go's `^uint64(0)` -/
structure Enc where
  prev : Nat
  leading : Option Nat
  trailing : Nat
  deriving Repr, DecidableEq

/-- the clamp of `FloatEncoder.Write`: `leading &= 0x1F; if leading >= 32 { leading = 31 }` -/
def clampLeading (l : Nat) : Nat := if l % 32 ≥ 32 then 31 else l % 32

/-- `FloatEncoder.Write` after the first value -/
def encVal (s : Enc) (v : Nat) : Enc × Bits :=
  let d := v ^^^ s.prev
  if d = 0 then ({ s with prev := v }, [false])
  else
    let l := clampLeading (clz64 d)
    let t := ctz d
    let reuse := match s.leading with
      | some sl => decide (l ≥ sl ∧ t ≥ s.trailing)
      | none => false
    if reuse then
      ({ s with prev := v },
       true :: false :: writeBits (d >>> s.trailing) (64 - s.leading.getD 0 - s.trailing))
    else
      ({ prev := v, leading := some l, trailing := t },
       true :: true :: (writeBits l 5 ++ writeBits (64 - l - t) 6 ++ writeBits (d >>> t) (64 - l - t)))

def encVals (s : Enc) : List Nat → Bits
  | [] => []
  | v :: vs => (encVal s v).2 ++ encVals (encVal s v).1 vs

/-- the bit stream of a block: the first value in full, the rest XOR-compressed, the sentinel -/
def encodeBits (vs : List Nat) : Bits :=
  match vs ++ [uvnan] with
  | [] => []
  | v :: rest => writeBits v 64 ++ encVals { prev := v, leading := none, trailing := 0 } rest

def byteOf (bs : Bits) : Nat := bitsVal 8 bs

/-- bits to bytes, the last byte padded with zero bits (`bw.Flush(bitstream.Zero)`) -/
def packBits : Bits → Bytes
  | b7 :: b6 :: b5 :: b4 :: b3 :: b2 :: b1 :: b0 :: rest =>
    byteOf [b7, b6, b5, b4, b3, b2, b1, b0] :: packBits rest
  | [] => []
  | short => [byteOf short]

def unpackBits (b : Bytes) : Bits := b.flatMap (fun x => writeBits x 8)

/-- `FloatEncoder`: header byte `floatCompressedGorilla << 4`, then the packed stream;
`none` when a value is a NaN (`unsupported value: NaN`) -/
def encode (vs : List Nat) : Option Bytes :=
  if vs.any isNaN then none else some (16 :: packBits (encodeBits vs))

/-- the decoder's state -/
structure Dec where
  val : Nat
  leading : Nat
  trailing : Nat
  deriving Repr, DecidableEq

inductive Step where
  | value (s : Dec) (rest : Bits)
  | done
  | err
  deriving Repr, DecidableEq

/-- the header of a compressed value: the window (leading, trailing) and what follows it -/
def decWindow (s : Dec) (ctl : Bool) (r : Bits) : Option (Nat × Nat × Bits) :=
  if !ctl then some (s.leading, s.trailing, r)
  else match readBits 5 r with
    | none => none
    | some (l, r3) =>
      match readBits 6 r3 with
      | none => none
      | some (m, r4) => some (l, sub64 (sub64 64 l) (if m = 0 then 64 else m), r4)

/-- `FloatDecoder.Next` after the first value -/
def decStep (s : Dec) : Bits → Step
  | [] => .err
  | false :: r => .value s r
  | true :: [] => .err
  | true :: ctl :: r =>
    match decWindow s ctl r with
    | none => .err
    | some (l, t, r5) =>
      match readBits (sub64 (sub64 64 l) t) r5 with
      | none => .err
      | some (bits, r6) =>
        let vb := s.val ^^^ (if t ≥ 64 then 0 else (bits <<< t) % M64)
        if vb = uvnan then .done else .value { val := vb, leading := l, trailing := t } r6

/-- values after the first; `none` = the decoder ends with an error -/
def decLoop : Nat → Dec → Bits → Option (List Nat)
  | 0, _, _ => none
  | f + 1, s, bs =>
    match decStep s bs with
    | .err => none
    | .done => some []
    | .value s' r => (decLoop f s' r).map (s'.val :: ·)

def decodeBits (bs : Bits) : Option (List Nat) :=
  match readBits 64 bs with
  | none => none                                     -- SetBytes fails
  | some (v, r) =>
    if v = uvnan then some []
    else (decLoop (r.length + 1) { val := v, leading := 0, trailing := 0 } r).map (v :: ·)

/-- `FloatDecoder.SetBytes` + `Next` until it returns false; `none` = error -/
def decode : Bytes → Option (List Nat)
  | [] => some []
  | _ :: data => decodeBits (unpackBits data)

end InfluxVerif.Codec.Float
