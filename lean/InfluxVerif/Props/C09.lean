/-
C09 — Snapshot and compaction never change what reads return.
Theorems over the compaction specification (Model/Compact.lean), which the real Compactor
is compared with file set by file set (harness/props/c09).  The block algebra lemmas come
from Props/C02.lean.
-/
import InfluxVerif.Model.Compact
import InfluxVerif.Props.C02
import InfluxVerif.Props.BlockOrder

namespace InfluxVerif.Compact
open InfluxVerif.Values

/-! ### re-chunking -/

theorem chunk_flatten {α} (size : Nat) (l : List α) : (chunk size l).flatten = l := by
  induction l using chunk.induct size with
  | case1 => simp [chunk]
  | case2 l h hs => rw [chunk]; simp [h, hs]
  | case3 l h hs ih => rw [chunk]; simp [h, hs, ih]

/-- every output block is non-empty and, for a positive limit, within the limit -/
theorem chunk_sizes {α} (size : Nat) (l : List α) :
    ∀ b ∈ chunk size l, b ≠ [] ∧ (0 < size → b.length ≤ size) := by
  induction l using chunk.induct size with
  | case1 => simp [chunk]
  | case2 l h hs =>
    rw [chunk]; simp only [h, hs, dite_false, dite_true]
    intro b hb
    simp only [List.mem_singleton] at hb
    subst hb
    exact ⟨h, fun hpos => by omega⟩
  | case3 l h hs ih =>
    rw [chunk]; simp only [h, hs, dite_false]
    intro b hb
    simp only [List.mem_cons] at hb
    rcases hb with rfl | hb
    · refine ⟨?_, fun _ => ?_⟩
      · intro e
        have := congrArg List.length e
        simp only [List.length_take, List.length_nil] at this
        have : 0 < l.length := List.length_pos_iff.2 h
        omega
      · simp only [List.length_take]; omega
    · exact ih b hb

/-! ### tombstones -/

def tombstoned (tombs : List (Int × Int)) (t : Int) : Bool := tombs.any fun r => r.1 ≤ t && t ≤ r.2

theorem foldl_exclude_lookup {α} (tombs : List (Int × Int)) (v : List (TV α)) (t : Int) :
    lookup (tombs.foldl (fun v r => exclude v r.1 r.2) v) t = if tombstoned tombs t then none else lookup v t := by
  induction tombs generalizing v with
  | nil => simp [tombstoned]
  | cons r rest ih =>
    rw [List.foldl_cons, ih, exclude_lookup]
    by_cases h1 : r.1 ≤ t ∧ t ≤ r.2
    · have : tombstoned (r :: rest) t = true := by simp [tombstoned, h1]
      simp [this, h1]
    · have : tombstoned (r :: rest) t = tombstoned rest t := by
        simp only [tombstoned, List.any_cons]
        have : (decide (r.1 ≤ t) && decide (t ≤ r.2)) = false := by
          simp only [Bool.and_eq_false_iff, decide_eq_false_iff_not]
          by_cases h : r.1 ≤ t
          · right; intro h2; exact h1 ⟨h, h2⟩
          · left; exact h
        simp [this]
      rw [this, if_neg h1]

/-- **What a file shows for a key** is its values minus exactly the tombstoned instants -/
theorem visible_lookup {α} (k : KeyData α) (t : Int) :
    lookup (visible k) t = if tombstoned k.tombs t then none else lookup k.vals t :=
  foldl_exclude_lookup k.tombs k.vals t

theorem foldl_exclude_sorted {α} (tombs : List (Int × Int)) (v : List (TV α)) (h : Sorted v) :
    Sorted (tombs.foldl (fun v r => exclude v r.1 r.2) v) := by
  induction tombs generalizing v with
  | nil => exact h
  | cons r rest ih => exact ih _ (exclude_sorted v r.1 r.2 h)

theorem visible_sorted {α} (k : KeyData α) (h : Sorted k.vals) : Sorted (visible k) :=
  foldl_exclude_sorted k.tombs k.vals h

/-! ### merging files -/

theorem foldl_merge_sorted {α} (fs : List (KeyData α)) (acc : List (TV α)) (hacc : Sorted acc)
    (h : ∀ f ∈ fs, Sorted f.vals) :
    Sorted (fs.foldl (fun acc f => merge acc (visible f)) acc) := by
  induction fs generalizing acc with
  | nil => exact hacc
  | cons f rest ih =>
    exact ih _ (merge_sorted _ _ hacc (visible_sorted f (h f (by simp)))) (fun g hg => h g (by simp [hg]))

theorem foldl_merge_lookup {α} (fs : List (KeyData α)) (acc : List (TV α)) (hacc : Sorted acc)
    (h : ∀ f ∈ fs, Sorted f.vals) (t : Int) :
    lookup (fs.foldl (fun acc f => merge acc (visible f)) acc) t
      = fs.foldl (fun r f => lookup (visible f) t <|> r) (lookup acc t) := by
  induction fs generalizing acc with
  | nil => rfl
  | cons f rest ih =>
    rw [List.foldl_cons, List.foldl_cons,
      ih _ (merge_sorted _ _ hacc (visible_sorted f (h f (by simp)))) (fun g hg => h g (by simp [hg])),
      merge_lookup _ _ hacc (visible_sorted f (h f (by simp)))]

/-- the merged content of a set of files is strictly increasing in time … -/
theorem mergeFiles_sorted {α} (fs : List (KeyData α)) (h : ∀ f ∈ fs, Sorted f.vals) :
    Sorted (mergeFiles fs) := foldl_merge_sorted fs [] trivial h

/-- … and holds, for every timestamp, what a read of the file set returns -/
theorem mergeFiles_lookup {α} (fs : List (KeyData α)) (h : ∀ f ∈ fs, Sorted f.vals) (t : Int) :
    lookup (mergeFiles fs) t = readFiles fs t := by
  unfold mergeFiles readFiles
  rw [foldl_merge_lookup fs [] trivial h]
  rfl

/-! ### the property -/

/-- **A compaction preserves every read** of the files it replaces, for every block size:
reading the concatenated output blocks at `t` gives what reading the inputs (newest wins,
tombstoned instants hidden) gave. -/
theorem compact_preserves_reads {α} (size : Nat) (fs : List (KeyData α))
    (h : ∀ f ∈ fs, Sorted f.vals) (t : Int) :
    lookup (compactKey size fs).flatten t = readFiles fs t := by
  unfold compactKey
  rw [chunk_flatten, mergeFiles_lookup fs h]

/-- **Output shape**: the blocks are non-empty, within the points-per-block limit, and their
concatenation is strictly increasing in time (so every block is sorted and consecutive blocks
do not overlap). -/
theorem compact_shape {α} (size : Nat) (fs : List (KeyData α)) (h : ∀ f ∈ fs, Sorted f.vals) :
    (∀ b ∈ compactKey size fs, b ≠ [] ∧ (0 < size → b.length ≤ size)) ∧
    Sorted (compactKey size fs).flatten := by
  refine ⟨chunk_sizes size _, ?_⟩
  unfold compactKey
  rw [chunk_flatten]
  exact mergeFiles_sorted fs h

theorem foldl_orElse {α} (xs : List (Option α)) (r : Option α) :
    xs.foldl (fun r x => x <|> r) r = (xs.foldl (fun r x => x <|> r) none <|> r) := by
  induction xs generalizing r with
  | nil => simp
  | cons x rest ih =>
    rw [List.foldl_cons, List.foldl_cons, ih, ih (x <|> none)]
    cases List.foldl (fun r x => x <|> r) none rest <;> cases x <;> simp

theorem readFiles_eq {α} (fs : List (KeyData α)) (t : Int) (r : Option α) :
    fs.foldl (fun r f => lookup (visible f) t <|> r) r
      = (fs.map fun f => lookup (visible f) t).foldl (fun r x => x <|> r) r := by
  rw [List.foldl_map]

theorem readFiles_append {α} (a b : List (KeyData α)) (t : Int) :
    readFiles (a ++ b) t = (readFiles b t <|> readFiles a t) := by
  unfold readFiles
  rw [List.foldl_append, readFiles_eq b, foldl_orElse, ← readFiles_eq b]

/-- **Compacting any contiguous group of files never changes a read of the whole file set**:
the group is replaced by one file holding the compaction output (no tombstones). -/
theorem compaction_invisible {α} (size : Nat) (older group newer : List (KeyData α))
    (h : ∀ f ∈ group, Sorted f.vals) (t : Int) :
    readFiles (older ++ [{ vals := (compactKey size group).flatten, tombs := [] }] ++ newer) t
      = readFiles (older ++ group ++ newer) t := by
  rw [readFiles_append, readFiles_append, readFiles_append (older ++ group), readFiles_append older group]
  congr 2
  have : readFiles [({ vals := (compactKey size group).flatten, tombs := [] } : KeyData α)] t
      = lookup (compactKey size group).flatten t := by
    simp [readFiles, visible]
  rw [this, compact_preserves_reads size group h]

/-- **A cache snapshot** holds, for every timestamp, the value written last, in blocks of at
most `size` points with strictly increasing timestamps. -/
theorem snapshot_shape {α} (size : Nat) (writes : List (TV α)) :
    (∀ b ∈ snapshotKey size writes, b ≠ [] ∧ (0 < size → b.length ≤ size)) ∧
    Sorted (snapshotKey size writes).flatten := by
  refine ⟨chunk_sizes size _, ?_⟩
  unfold snapshotKey
  rw [chunk_flatten]
  exact dedup_sorted writes

theorem snapshot_reads_unordered {α} (size : Nat) (writes : List (TV α)) (h : ordered writes = false) (t : Int) :
    lookup (snapshotKey size writes).flatten t = lookup writes.reverse t := by
  unfold snapshotKey
  rw [chunk_flatten, dedup_lookup_unordered writes h]

theorem snapshot_reads_ordered {α} (size : Nat) (writes : List (TV α)) (h : Sorted writes) (t : Int) :
    lookup (snapshotKey size writes).flatten t = lookup writes t := by
  unfold snapshotKey
  rw [chunk_flatten, dedup_of_sorted writes h]

/-! ### Non-vacuity -/

example : compactKey 2 [⟨[(1, 'a'), (3, 'b'), (5, 'c')], [(3, 3)]⟩, ⟨[(1, 'x'), (4, 'y')], []⟩]
    = [[(1, 'x'), (4, 'y')], [(5, 'c')]] := by
  simp [compactKey, chunk, mergeFiles, visible, exclude, merge]

/-! ### the order in which a compaction merges the blocks of a key (Props/BlockOrder.lean) -/

/-- `blocks.sortStable` keeps overlapping blocks in the order of their files (so that the newer
file's values win the merge) whatever the number of blocks — the pinned tree's `sort.Stable`
did not beyond 20 blocks -/
theorem merge_order_keeps_files (l : List BlockOrder.Blk) (a b : BlockOrder.Blk)
    (hab : [a, b].Sublist l) (hov : BlockOrder.overlaps a b = true) :
    [a, b].Sublist (BlockOrder.isort BlockOrder.lessC l) :=
  BlockOrder.compaction_overlapping_keep_file_order l a b hab hov

theorem merge_order_is_rearrangement (l : List BlockOrder.Blk) : (BlockOrder.isort BlockOrder.lessC l).Perm l :=
  BlockOrder.isort_perm _ l

/-- no block of the merge order lies wholly before the block in front of it -/
theorem merge_order_no_inversion (l : List BlockOrder.Blk) :
    BlockOrder.AdjOK BlockOrder.lessC (BlockOrder.isortRev BlockOrder.lessC [] l) :=
  BlockOrder.isort_no_adjacent_inversion _ BlockOrder.lessC_asymm l

end InfluxVerif.Compact
