package node

import (
	"time"

	"github.com/influxdata/influxdb/toml"
)

func tomlDur(d time.Duration) toml.Duration { return toml.Duration(d) }
