/-
C12 — escaping, series keys, hashing and the binary point form (models/points.go,
models/inline_fnv.go).  Core Lean only.  Byte strings are `List Nat`.
-/
import InfluxVerif.Model.Codec.Basic
namespace InfluxVerif.Points
open InfluxVerif.Codec

def bs : Nat := 92     -- backslash
def comma : Nat := 44
def space : Nat := 32
def equals : Nat := 61
def quote : Nat := 34

/-- `bytes.Replace(s, [c], [\, c], -1)` -/
def escapeOne (c : Nat) : Bytes → Bytes
  | [] => []
  | x :: xs => if x = c then bs :: c :: escapeOne c xs else x :: escapeOne c xs

/-- `bytes.Replace(s, [\, c], [c], -1)`: leftmost, non-overlapping -/
def unescapeOne (c : Nat) : Bytes → Bytes
  | [] => []
  | [x] => [x]
  | x :: y :: rest => if x = bs ∧ y = c then c :: unescapeOne c rest else x :: unescapeOne c (y :: rest)

/-- the codes, in the order of `measurementEscapeCodes` / `tagEscapeCodes` -/
def measurementCodes : List Nat := [comma, space]
def tagCodes : List Nat := [comma, space, equals]

def escapeWith (codes : List Nat) (s : Bytes) : Bytes := codes.foldl (fun acc c => escapeOne c acc) s
def unescapeWith (codes : List Nat) (s : Bytes) : Bytes := codes.foldl (fun acc c => unescapeOne c acc) s

def escapeMeasurement := escapeWith measurementCodes
def unescapeMeasurement := unescapeWith measurementCodes
def escapeTag := escapeWith tagCodes
def unescapeTag := unescapeWith tagCodes

/-- the four bytes of `escape.Codes` (pkg/escape): field keys are written with `escape.String`
and read back by the field iterator with `escape.AppendUnescaped` -/
def isCode (c : Nat) : Bool := c == comma || c == quote || c == space || c == equals

/-- `escape.Bytes`: every code byte gets a backslash in front (the replacements of the four
codes commute: none introduces a code byte) -/
def escapeBytes : Bytes → Bytes
  | [] => []
  | x :: xs => if isCode x then bs :: x :: escapeBytes xs else x :: escapeBytes xs

/-- `escape.AppendUnescaped(nil, s)`: one pass; a backslash followed by a code byte is dropped -/
def appendUnescaped : Bytes → Bytes
  | [] => []
  | [x] => [x]
  | x :: y :: rest => if x = bs ∧ isCode y then y :: appendUnescaped rest else x :: appendUnescaped (y :: rest)

/-- `EscapeStringField`: one pass, `"` ↦ `\"`, `\` ↦ `\\` -/
def escapeStringField : Bytes → Bytes
  | [] => []
  | x :: xs => if x = quote ∨ x = bs then bs :: x :: escapeStringField xs else x :: escapeStringField xs

/-- `unescapeStringField`: one pass, `\\` ↦ `\`, `\"` ↦ `"` -/
def unescapeStringField : Bytes → Bytes
  | [] => []
  | [x] => [x]
  | x :: y :: rest =>
    if x = bs ∧ (y = bs ∨ y = quote) then y :: unescapeStringField rest
    else x :: unescapeStringField (y :: rest)

/-- `bytes.Compare(a, b) < 0` -/
def bytesLt : Bytes → Bytes → Bool
  | [], [] => false
  | [], _ :: _ => true
  | _ :: _, [] => false
  | a :: as, b :: bs => if a < b then true else if a > b then false else bytesLt as bs

abbrev Tag := Bytes × Bytes

def insertTag (t : Tag) : List Tag → List Tag
  | [] => [t]
  | u :: us => if bytesLt t.1 u.1 then t :: u :: us else u :: insertTag t us

/-- tags sorted by key (`sort.Sort(tags)`; keys are distinct in a point) -/
def sortTags (ts : List Tag) : List Tag := ts.foldr insertTag []

/-- `Tags.AppendHashKey(dst, true)`: tags with an empty value are left out -/
def hashKey (ts : List Tag) : Bytes :=
  ts.flatMap fun t => if t.2 = [] then [] else comma :: escapeTag t.1 ++ equals :: escapeTag t.2

/-- `MakeKey(name, tags)` for tags in any order -/
def makeKey (name : Bytes) (tags : List Tag) : Bytes :=
  escapeMeasurement (unescapeMeasurement name) ++ hashKey (sortTags tags)

/-- FNV-64a (`InlineFNV64a`) -/
def fnvOffset : Nat := 14695981039346656037
def fnvPrime : Nat := 1099511628211
def fnv64a (b : Bytes) : Nat := b.foldl (fun h c => ((h ^^^ c) * fnvPrime) % M64) fnvOffset

def hashID (name : Bytes) (tags : List Tag) : Nat := fnv64a (makeKey name tags)

/-- `point.MarshalBinary`: key and fields length-prefixed, then the time's binary form -/
def marshalPoint (key fields tb : Bytes) : Option Bytes :=
  if fields = [] then none else some (be32 key.length ++ key ++ be32 fields.length ++ fields ++ tb)

/-- `point.UnmarshalBinary` up to the time bytes: (key, fields, time bytes) -/
def unmarshalPoint (b : Bytes) : Option (Bytes × Bytes × Bytes) :=
  match be32dec b with
  | none => none
  | some (n, r1) =>
    if r1.length < n then none else
    match be32dec (r1.drop n) with
    | none => none
    | some (m, r2) => if r2.length < m then none else some (r1.take n, r2.take m, r2.drop m)

end InfluxVerif.Points
