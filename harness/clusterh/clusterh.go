// Package clusterh: an in-process multi-node cluster built from real data nodes (package
// node), one shared metadata value installed in every node's meta client, shard ownership
// layouts chosen by the caller, fault injection on the serving side (node down, iterator
// creation error, error part-way through the point stream), and a per-node log of the
// shards served.
package clusterh

import (
	"bufio"
	"context"
	"encoding/binary"
	"errors"
	"fmt"
	"io"
	"net"
	"path/filepath"
	"sort"
	"strings"
	"sync"
	"time"

	"github.com/influxdata/influxdb/coordinator"
	"github.com/influxdata/influxdb/models"
	"github.com/influxdata/influxdb/query"
	"github.com/influxdata/influxdb/services/meta"
	"github.com/influxdata/influxdb/tsdb"
	"github.com/influxdata/influxdb/tsdb/engine/tsm1"
	"github.com/influxdata/influxql"
	"verifharness/node"
)

const DB, RP = "db0", "rp0"

type Fault struct {
	Kind string // "" | "err" (CreateIterator fails) | "mid" (the stream fails after K points)
	K    int
}

type faultStore struct {
	coordinator.TSDBStore
	mu     sync.Mutex
	fault  Fault
	served [][]uint64 // shard id lists of the iterator requests served
}

func (f *faultStore) ShardGroup(ids []uint64) tsdb.ShardGroup {
	f.mu.Lock()
	fl := f.fault
	f.mu.Unlock()
	sg := f.TSDBStore.ShardGroup(ids)
	if sg == nil {
		return sg
	}
	return &faultGroup{ShardGroup: sg, fault: fl, store: f, ids: append([]uint64(nil), ids...)}
}

type faultGroup struct {
	tsdb.ShardGroup
	fault Fault
	store *faultStore
	ids   []uint64
}

func (g *faultGroup) CreateIterator(ctx context.Context, m *influxql.Measurement, opt query.IteratorOptions) (query.Iterator, error) {
	g.store.mu.Lock()
	g.store.served = append(g.store.served, g.ids)
	g.store.mu.Unlock()
	if g.fault.Kind == "" || g.fault.Kind == "cutmark" {
		return g.ShardGroup.CreateIterator(ctx, m, opt)
	}
	if g.fault.Kind == "err" {
		return nil, errors.New("injected: shard cannot be served")
	}
	itr, err := g.ShardGroup.CreateIterator(ctx, m, opt)
	if err != nil || itr == nil {
		return itr, err
	}
	switch it := itr.(type) {
	case query.FloatIterator:
		return &failFloat{FloatIterator: it, left: g.fault.K}, nil
	case query.IntegerIterator:
		return &failInt{IntegerIterator: it, left: g.fault.K}, nil
	}
	return itr, nil
}

type failFloat struct {
	query.FloatIterator
	left int
}

func (f *failFloat) Next() (*query.FloatPoint, error) {
	if f.left <= 0 {
		return nil, errors.New("injected: read error part-way through the stream")
	}
	f.left--
	return f.FloatIterator.Next()
}

type failInt struct {
	query.IntegerIterator
	left int
}

func (f *failInt) Next() (*query.IntegerPoint, error) {
	if f.left <= 0 {
		return nil, errors.New("injected: read error part-way through the stream")
	}
	f.left--
	return f.IntegerIterator.Next()
}

// cutProxy stands between the other nodes and one node's cluster port. When armed it
// closes a connection that carries an iterator stream right after the stream's first frame
// (the initial statistics frame), i.e. at a frame boundary, as a node that dies or a
// connection that drops does; every other exchange passes through untouched.
type cutProxy struct {
	ln     net.Listener
	target string
	mu     sync.Mutex
	armed  bool
	slow   time.Duration // every reply is held back this long (a node slower than the RPC timeout)
}

func newCutProxy(target string) (*cutProxy, error) {
	ln, err := net.Listen("tcp", "127.0.0.1:0")
	if err != nil {
		return nil, err
	}
	p := &cutProxy{ln: ln, target: target}
	go p.serve()
	return p, nil
}

func (p *cutProxy) addr() string { return p.ln.Addr().String() }

func (p *cutProxy) serve() {
	for {
		c, err := p.ln.Accept()
		if err != nil {
			return
		}
		go p.handle(c)
	}
}

func (p *cutProxy) handle(c net.Conn) {
	defer c.Close()
	s, err := net.DialTimeout("tcp", p.target, 2*time.Second)
	if err != nil {
		return
	}
	defer s.Close()
	go func() { io.Copy(s, c); s.(*net.TCPConn).CloseWrite() }()
	br := bufio.NewReader(s)
	for {
		// one TLV reply
		hdr := make([]byte, 9)
		if _, err := io.ReadFull(br, hdr); err != nil {
			return
		}
		sz := int64(binary.BigEndian.Uint64(hdr[1:9]))
		if sz < 0 || sz > 64<<20 {
			return
		}
		payload := make([]byte, sz)
		if _, err := io.ReadFull(br, payload); err != nil {
			return
		}
		p.mu.Lock()
		slow := p.slow
		p.mu.Unlock()
		if slow > 0 {
			time.Sleep(slow)
		}
		if _, err := c.Write(append(hdr, payload...)); err != nil {
			return
		}
		if hdr[0] != 22 { // not a createIteratorResponse: the connection may carry further requests
			continue
		}
		p.mu.Lock()
		armed := p.armed
		p.mu.Unlock()
		if !armed {
			io.Copy(c, br)
			return
		}
		// the point stream: forward exactly one frame, then drop the connection
		var l [4]byte
		if _, err := io.ReadFull(br, l[:]); err != nil {
			return
		}
		frame := make([]byte, binary.BigEndian.Uint32(l[:]))
		if _, err := io.ReadFull(br, frame); err != nil {
			return
		}
		c.Write(append(l[:], frame...))
		return
	}
}

type Cluster struct {
	proxies []*cutProxy
	Dir     string
	Nodes   []*node.Node
	IDs     []uint64 // data node ids
	Data    *meta.Data
	stores  []*faultStore
	Down    []bool
	Lagging map[int]bool // nodes whose metadata cache lags behind
}

// SlowTimeout is the RPC timeout of a cluster made by NewWithTimeout for cases with a slow
// node; SlowDelay is how long a slow node holds back each reply.
const (
	SlowTimeout = 1200 * time.Millisecond
	SlowDelay   = 2000 * time.Millisecond
)

func New(dir string, n int, index string) (*Cluster, error) {
	return NewWithTimeout(dir, n, index, 0)
}

func NewWithTimeout(dir string, n int, index string, rpcTimeout time.Duration) (*Cluster, error) {
	c := &Cluster{Dir: dir, Data: &meta.Data{}}
	if err := c.Data.CreateDatabase(DB); err != nil {
		return nil, err
	}
	rpi := meta.NewRetentionPolicyInfo(RP)
	rpi.ReplicaN = 1
	if err := c.Data.CreateRetentionPolicy(DB, rpi, true); err != nil {
		return nil, err
	}
	for i := 0; i < n; i++ {
		ln, err := node.Listen()
		if err != nil {
			return nil, err
		}
		nd, err := node.New(filepath.Join(dir, fmt.Sprintf("n%d", i)), ln, node.Options{Index: index, RPCTimeout: rpcTimeout})
		if err != nil {
			return nil, err
		}
		c.Nodes = append(c.Nodes, nd)
		// the other nodes reach this one through its proxy
		px, err := newCutProxy(nd.Addr)
		if err != nil {
			return nil, err
		}
		c.proxies = append(c.proxies, px)
		nd.Meta.SetTCPAddr(px.addr()) // the node recognises itself in the metadata by this address
		if err := c.Data.CreateDataNode(nd.Addr, px.addr()); err != nil {
			return nil, err
		}
		c.IDs = append(c.IDs, c.Data.MaxNodeID)
		fs := &faultStore{TSDBStore: nd.Service.TSDBStore}
		nd.Service.TSDBStore = fs
		c.stores = append(c.stores, fs)
		c.Down = append(c.Down, false)
	}
	c.push()
	return c, nil
}

func (c *Cluster) push() {
	c.Data.Index++
	for i, nd := range c.Nodes {
		if !c.Down[i] && !c.Lagging[i] {
			nd.SetData(c.Data.Clone())
		}
	}
}

// SetLagging: the node's metadata cache stops following (it keeps what it has) until the
// flag is cleared; Catchup pushes the current metadata to everyone.
func (c *Cluster) SetLagging(i int, lag bool) {
	if c.Lagging == nil {
		c.Lagging = map[int]bool{}
	}
	c.Lagging[i] = lag
}

func (c *Cluster) Close() {
	for _, p := range c.proxies {
		p.ln.Close()
	}
	for i, nd := range c.Nodes {
		if !c.Down[i] {
			nd.Close()
		}
	}
}

// AddShardGroup installs a shard group [start,end) whose shards have the given owners
// (indices of nodes); returns the shard ids.
func (c *Cluster) AddShardGroup(start, end int64, owners [][]int) []uint64 {
	rp := &c.Data.Databases[0].RetentionPolicies[0]
	c.Data.MaxShardGroupID++
	sg := meta.ShardGroupInfo{ID: c.Data.MaxShardGroupID, StartTime: time.Unix(0, start).UTC(), EndTime: time.Unix(0, end).UTC()}
	var ids []uint64
	for _, os := range owners {
		c.Data.MaxShardID++
		si := meta.ShardInfo{ID: c.Data.MaxShardID}
		for _, o := range os {
			si.Owners = append(si.Owners, meta.ShardOwner{NodeID: c.IDs[o]})
		}
		sg.Shards = append(sg.Shards, si)
		ids = append(ids, si.ID)
	}
	rp.ShardGroups = append(rp.ShardGroups, sg)
	sort.Slice(rp.ShardGroups, func(i, j int) bool { return rp.ShardGroups[i].StartTime.Before(rp.ShardGroups[j].StartTime) })
	c.push()
	return ids
}

// Truncate is meta.Data.TruncateShardGroups on the cluster's metadata.
func (c *Cluster) Truncate(t int64) {
	c.Data.TruncateShardGroups(time.Unix(0, t).UTC())
	c.push()
}

// Needed returns the ids of the shards of the groups overlapping [lo, hi].
func (c *Cluster) Needed(lo, hi int64) []uint64 {
	var out []uint64
	for _, sg := range c.Data.Databases[0].RetentionPolicies[0].ShardGroups {
		if sg.StartTime.UnixNano() <= hi && sg.EndTime.UnixNano() > lo {
			for _, si := range sg.Shards {
				out = append(out, si.ID)
			}
		}
	}
	return out
}

// Owners returns the node indices owning a shard.
func (c *Cluster) Owners(shard uint64) []int {
	for _, sg := range c.Data.Databases[0].RetentionPolicies[0].ShardGroups {
		for _, si := range sg.Shards {
			if si.ID == shard {
				var out []int
				for _, o := range si.Owners {
					for i, id := range c.IDs {
						if id == o.NodeID {
							out = append(out, i)
						}
					}
				}
				return out
			}
		}
	}
	return nil
}

// WriteShard stores the points in the shard on every owner (replicas hold the same data).
func (c *Cluster) WriteShard(shard uint64, pts []models.Point) error {
	for _, o := range c.Owners(shard) {
		if c.Down[o] {
			continue
		}
		st := c.Nodes[o].Store
		if err := st.CreateShard(DB, RP, shard, true); err != nil {
			return err
		}
		if err := st.WriteToShard(shard, pts); err != nil {
			return err
		}
	}
	return nil
}

func (c *Cluster) SetDown(i int) {
	if !c.Down[i] {
		c.Down[i] = true
		c.Nodes[i].Close()
	}
}

func (c *Cluster) SetFault(i int, f Fault) {
	c.proxies[i].mu.Lock()
	c.proxies[i].armed = f.Kind == "cut"
	c.proxies[i].slow = 0
	if f.Kind == "slow" {
		c.proxies[i].slow = SlowDelay
	}
	c.proxies[i].mu.Unlock()
	c.stores[i].mu.Lock()
	c.stores[i].fault = f
	if f.Kind == "cut" || f.Kind == "slow" {
		c.stores[i].fault = Fault{Kind: "cutmark"} // nothing injected on the serving side
	}
	c.stores[i].mu.Unlock()
}

// AnyUnhealthy reports whether some node is down or has a fault installed.
func (c *Cluster) AnyUnhealthy() bool {
	for i, s := range c.stores {
		s.mu.Lock()
		k := s.fault.Kind
		s.mu.Unlock()
		if c.Down[i] || k != "" {
			return true
		}
	}
	return false
}

// Served returns and clears the per-node log of shard lists served.
func (c *Cluster) Served() map[int][][]uint64 {
	out := map[int][][]uint64{}
	for i, s := range c.stores {
		s.mu.Lock()
		if len(s.served) > 0 {
			out[i] = s.served
		}
		s.served = nil
		s.mu.Unlock()
	}
	return out
}

// Query runs a statement on a node and renders the result rows canonically.
func (c *Cluster) Query(i int, stmt string) (string, error) {
	q, err := influxql.ParseQuery(stmt)
	if err != nil {
		return "", fmt.Errorf("parse: %v", err)
	}
	closing := make(chan struct{})
	defer close(closing)
	ch := c.Nodes[i].Executor.ExecuteQuery(q, query.ExecutionOptions{Database: DB, RetentionPolicy: RP}, closing)
	var sb strings.Builder
	var qerr error
	timeout := time.After(60 * time.Second)
	for {
		select {
		case r, ok := <-ch:
			if !ok {
				return sb.String(), qerr
			}
			if r.Err != nil && qerr == nil {
				qerr = r.Err
			}
			for _, row := range r.Series {
				var tg []string
				for k, v := range row.Tags {
					tg = append(tg, k+"="+v)
				}
				sort.Strings(tg)
				fmt.Fprintf(&sb, "[%s{%s}(%s)", row.Name, strings.Join(tg, ","), strings.Join(row.Columns, ","))
				for _, vals := range row.Values {
					var cells []string
					for _, v := range vals {
						switch x := v.(type) {
						case time.Time:
							cells = append(cells, fmt.Sprint(x.UnixNano()))
						case nil:
							cells = append(cells, "null")
						default:
							cells = append(cells, fmt.Sprint(x))
						}
					}
					sb.WriteString(" " + strings.Join(cells, ","))
				}
				sb.WriteString("]")
			}
		case <-timeout:
			return sb.String(), errors.New("query timed out")
		}
	}
}

// engines returns the tsm1 engines of every shard on every live node.
func (c *Cluster) engines() []*tsm1.Engine {
	var out []*tsm1.Engine
	for i, nd := range c.Nodes {
		if c.Down[i] {
			continue
		}
		for _, id := range nd.Store.ShardIDs() {
			sh := nd.Store.Shard(id)
			if sh == nil {
				continue
			}
			e, err := sh.Engine()
			if err != nil {
				continue
			}
			if te, ok := e.(*tsm1.Engine); ok {
				out = append(out, te)
			}
		}
	}
	return out
}

// SnapshotAll writes every shard's cache to a TSM file.
func (c *Cluster) SnapshotAll() error {
	for _, e := range c.engines() {
		if err := e.WriteSnapshot(); err != nil {
			return err
		}
	}
	return nil
}

// CompactAll fully compacts the TSM files of every shard that has at least two.
func (c *Cluster) CompactAll() error {
	for _, e := range c.engines() {
		var files []string
		for _, st := range e.FileStore.Stats() {
			files = append(files, st.Path)
		}
		sort.Strings(files)
		if len(files) < 2 {
			continue
		}
		e.Compactor.EnableCompactions()
		out, err := e.Compactor.CompactFull(files)
		if err != nil {
			return err
		}
		if err := e.FileStore.ReplaceWithCallback(files, out, nil); err != nil {
			return err
		}
	}
	return nil
}
