/-
C12 — Line protocol and binary point encoding are faithful.
Theorems over `InfluxVerif.Points`: escape/unescape inverses, canonical series key
(independent of tag order), binary framing inverse.  The text *parser* is not ported; it is
judged by the correspondence oracle against the intended meaning of generated lines.
-/
import InfluxVerif.Model.Points
import InfluxVerif.Lemmas.CodecBasic
import Mathlib.Data.List.Perm.Basic

namespace InfluxVerif.Points
open InfluxVerif.Codec

/-! ### escape / unescape -/

theorem escapeOne_head_ne (c : Nat) (hc : c ≠ bs) (s : Bytes) : (escapeOne c s).head? ≠ some c := by
  cases s with
  | nil => simp [escapeOne]
  | cons x xs =>
    simp only [escapeOne]
    split
    · simp; exact fun h => hc h.symm
    · rename_i hx; simp; exact hx

/-- one escape code: unescaping what was escaped gives back every byte string -/
theorem unescapeOne_escapeOne (c : Nat) (hc : c ≠ bs) (s : Bytes) : unescapeOne c (escapeOne c s) = s := by
  induction s with
  | nil => rfl
  | cons x xs ih =>
    simp only [escapeOne]
    split
    · rename_i hx
      subst hx
      simp only [unescapeOne, and_self, if_true, ih]
    · rename_i hx
      have hne := escapeOne_head_ne c hc xs
      cases he : escapeOne c xs with
      | nil =>
        rw [he] at ih
        simp only [unescapeOne]
        rw [← ih]; simp [unescapeOne]
      | cons y rest =>
        rw [he] at hne ih
        simp only [List.head?_cons, ne_eq, Option.some.injEq] at hne
        simp only [unescapeOne]
        have : ¬ (x = bs ∧ y = c) := fun h => hne h.2
        simp only [this, if_false, ih]

/-- string field values: `unescapeStringField (EscapeStringField s) = s` for every byte string -/
theorem unescape_escape_stringField (s : Bytes) : unescapeStringField (escapeStringField s) = s := by
  induction s with
  | nil => rfl
  | cons x xs ih =>
    simp only [escapeStringField]
    split
    · rename_i hx
      have : (bs = bs ∧ (x = bs ∨ x = quote)) := ⟨rfl, hx.elim Or.inr Or.inl⟩
      simp only [unescapeStringField, this, and_self, if_true, ih]
    · rename_i hx
      have hxb : x ≠ bs := fun h => hx (Or.inr h)
      cases he : escapeStringField xs with
      | nil => rw [he] at ih; simp only [unescapeStringField]; rw [← ih]; simp [unescapeStringField]
      | cons y rest =>
        rw [he] at ih
        simp only [unescapeStringField]
        have : ¬ (x = bs ∧ (y = bs ∨ y = quote)) := fun h => hxb h.1
        simp only [this, if_false, ih]

theorem escapeBytes_head_not_code (s : Bytes) : ∀ y rest, escapeBytes s = y :: rest → isCode y = false := by
  intro y rest h
  cases s with
  | nil => simp [escapeBytes] at h
  | cons x xs =>
    simp only [escapeBytes] at h
    split at h
    · simp only [List.cons.injEq] at h
      rw [← h.1]; decide
    · rename_i hx
      simp only [List.cons.injEq] at h
      rw [← h.1]; simpa using hx

/-- field keys: what the field iterator reads back (`AppendUnescaped`) is what was written
(`escape.String`), for every byte string -/
theorem appendUnescaped_escapeBytes (s : Bytes) : appendUnescaped (escapeBytes s) = s := by
  induction s with
  | nil => rfl
  | cons x xs ih =>
    simp only [escapeBytes]
    split
    · rename_i hx
      simp only [appendUnescaped, hx, and_self, if_true, ih]
    · rename_i hx
      cases he : escapeBytes xs with
      | nil => rw [he] at ih; simp only [appendUnescaped]; rw [← ih]; simp [appendUnescaped]
      | cons y rest =>
        have hy := escapeBytes_head_not_code xs y rest he
        rw [he] at ih
        simp only [appendUnescaped, hy, Bool.false_eq_true, and_false, if_false, ih]

/-- the escape codes are not the backslash (so the single-code inverse applies to each) -/
theorem codes_not_backslash : ∀ c ∈ tagCodes, c ≠ bs := by decide

/-! ### canonical series key -/

theorem bytesLt_irrefl (a : Bytes) : bytesLt a a = false := by
  induction a with
  | nil => rfl
  | cons x xs ih => simp [bytesLt, ih]

theorem bytesLt_asymm (a b : Bytes) (h : bytesLt a b = true) : bytesLt b a = false := by
  induction a generalizing b with
  | nil => cases b <;> simp [bytesLt] at *
  | cons x xs ih =>
    cases b with
    | nil => simp [bytesLt] at h
    | cons y ys =>
      simp only [bytesLt] at h ⊢
      by_cases h1 : x < y
      · have : ¬ y < x := by omega
        simp [this, h1]
      · by_cases h2 : x > y
        · simp [h1, h2] at h
        · have hxy : x = y := by omega
          subst hxy
          simp only [h1, h2, if_false] at h
          simp [ih ys h]

theorem bytesLt_trans (a b c : Bytes) (h1 : bytesLt a b = true) (h2 : bytesLt b c = true) : bytesLt a c = true := by
  induction a generalizing b c with
  | nil =>
    cases c with
    | nil => cases b <;> simp [bytesLt] at *
    | cons _ _ => rfl
  | cons x xs ih =>
    cases b with
    | nil => simp [bytesLt] at h1
    | cons y ys =>
      cases c with
      | nil => simp [bytesLt] at h2
      | cons z zs =>
        simp only [bytesLt] at h1 h2 ⊢
        by_cases hxy : x < y
        · by_cases hyz : y < z
          · have : x < z := by omega
            simp [this]
          · by_cases hyz' : y > z
            · simp [hyz, hyz'] at h2
            · have : y = z := by omega
              subst this; simp [hxy]
        · by_cases hxy' : x > y
          · simp [hxy, hxy'] at h1
          · have hxe : x = y := by omega
            subst hxe
            simp only [hxy, hxy', if_false] at h1
            by_cases hyz : x < z
            · simp [hyz]
            · by_cases hyz' : x > z
              · simp [hyz, hyz'] at h2
              · simp only [hyz, hyz', if_false] at h2 ⊢
                exact ih ys zs h1 h2

theorem bytesLt_total (a b : Bytes) (h : a ≠ b) : bytesLt a b = true ∨ bytesLt b a = true := by
  induction a generalizing b with
  | nil => cases b with
    | nil => exact absurd rfl h
    | cons _ _ => exact Or.inl rfl
  | cons x xs ih =>
    cases b with
    | nil => exact Or.inr rfl
    | cons y ys =>
      simp only [bytesLt]
      by_cases h1 : x < y
      · exact Or.inl (by simp [h1])
      · by_cases h2 : x > y
        · exact Or.inr (by simp [h2])
        · have hxy : x = y := by omega
          subst hxy
          have hne : xs ≠ ys := fun e => h (by rw [e])
          simp only [h1, if_false]
          exact ih ys hne

/-- inserting two tags with different keys commutes, whatever the list -/
theorem insertTag_comm (a b : Tag) (hab : a.1 ≠ b.1) (l : List Tag) :
    insertTag a (insertTag b l) = insertTag b (insertTag a l) := by
  induction l with
  | nil =>
    simp only [insertTag]
    rcases bytesLt_total a.1 b.1 hab with h | h
    · simp [h, bytesLt_asymm _ _ h, insertTag]
    · simp [h, bytesLt_asymm _ _ h, insertTag]
  | cons u us ih =>
    by_cases hbu : bytesLt b.1 u.1 = true
    · by_cases hau : bytesLt a.1 u.1 = true
      · rcases bytesLt_total a.1 b.1 hab with h | h
        · simp [insertTag, h, bytesLt_asymm _ _ h, hau, hbu]
        · simp [insertTag, h, bytesLt_asymm _ _ h, hau, hbu]
      · have hba : bytesLt a.1 b.1 = false := by
          cases hx : bytesLt a.1 b.1 with
          | false => rfl
          | true => exact absurd (bytesLt_trans _ _ _ hx hbu) hau
        simp [insertTag, hba, hau, hbu]
    · by_cases hau : bytesLt a.1 u.1 = true
      · have hab' : bytesLt b.1 a.1 = false := by
          cases hx : bytesLt b.1 a.1 with
          | false => rfl
          | true => exact absurd (bytesLt_trans _ _ _ hx hau) hbu
        simp [insertTag, hab', hau, hbu]
      · simp [insertTag, hau, hbu, ih]

theorem sortTags_perm (l₁ l₂ : List Tag) (hp : l₁.Perm l₂) (hnd : (l₁.map (·.1)).Nodup) :
    sortTags l₁ = sortTags l₂ := by
  induction hp with
  | nil => rfl
  | cons x _ ih =>
    simp only [List.map_cons, List.nodup_cons] at hnd
    simp only [sortTags, List.foldr_cons] at ih ⊢
    rw [ih hnd.2]
  | swap x y l =>
    simp only [List.map_cons, List.nodup_cons, List.mem_cons, not_or] at hnd
    simp only [sortTags, List.foldr_cons]
    exact insertTag_comm y x (fun e => hnd.1.1 e) _
  | trans h₁ _ ih₁ ih₂ =>
    rw [ih₁ hnd, ih₂ ((h₁.map (·.1)).nodup_iff.1 hnd)]

/-- **The series key does not depend on the order tags were given in** (tag keys distinct,
as the parser enforces), hence neither does the shard hash. -/
theorem key_canonical (name : Bytes) (tags₁ tags₂ : List Tag) (hp : tags₁.Perm tags₂)
    (hnd : (tags₁.map (·.1)).Nodup) : makeKey name tags₁ = makeKey name tags₂ := by
  unfold makeKey
  rw [sortTags_perm tags₁ tags₂ hp hnd]

theorem hash_canonical (name : Bytes) (tags₁ tags₂ : List Tag) (hp : tags₁.Perm tags₂)
    (hnd : (tags₁.map (·.1)).Nodup) : hashID name tags₁ = hashID name tags₂ := by
  unfold hashID
  rw [key_canonical name tags₁ tags₂ hp hnd]

/-! ### binary point form -/

/-- `UnmarshalBinary (MarshalBinary p)` gives back key, fields and time bytes exactly -/
theorem binary_roundtrip (key fields tb b : Bytes) (hk : key.length < 4294967296)
    (hf : fields.length < 4294967296) (h : marshalPoint key fields tb = some b) :
    unmarshalPoint b = some (key, fields, tb) := by
  unfold marshalPoint at h
  split at h
  · cases h
  · simp only [Option.some.injEq] at h
    subst h
    unfold unmarshalPoint
    simp only [List.append_assoc]
    rw [be32_roundtrip _ hk]
    simp only [List.length_append]
    have h1 : ¬ (key.length + ((be32 fields.length).length + (fields.length + tb.length)) < key.length) := by omega
    simp only [h1, if_false, List.drop_left, List.take_left]
    rw [be32_roundtrip _ hf]
    simp only [List.length_append]
    have h2 : ¬ (fields.length + tb.length < fields.length) := by omega
    simp only [h2, if_false, List.drop_left, List.take_left]

/-- the decoder is total: every byte string is answered with a point or an error, and a
declared length larger than what is there is an error -/
theorem unmarshal_short_is_error (b : Bytes) (h : b.length < 4) : unmarshalPoint b = none := by
  unfold unmarshalPoint
  rw [be32dec_short' b h]
where
  be32dec_short' (l : Bytes) (h : l.length < 4) : be32dec l = none := by
    match l, h with
    | [], _ => rfl
    | [_], _ => rfl
    | [_, _], _ => rfl
    | [_, _, _], _ => rfl
    | _ :: _ :: _ :: _ :: _, h => simp at h; omega

/-! ### Non-vacuity -/

example : escapeTag [97, 44, 98, 32, 61] = [97, 92, 44, 98, 92, 32, 92, 61] := by decide
example : unescapeTag (escapeTag [97, 92, 44, 98]) = [97, 92, 44, 98] := by decide
example : makeKey [99] [([98], [49]), ([97], [50])] = makeKey [99] [([97], [50]), ([98], [49])] := by decide
example : makeKey [99] [([98], [49]), ([97], [50])] = [99, 44, 97, 61, 50, 44, 98, 61, 49] := by decide

end InfluxVerif.Points
