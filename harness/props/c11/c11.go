// Package c11: query results depend only on the data and the statement.  The same points are
// loaded into several physical layouts built from real components (one shard in the cache; one
// shard snapshotted in pieces and compacted; many small shards, partly in files; a three-node
// cluster with two replicas per shard and two shards per group), the same SELECT is run on
// each (and on two different nodes of the cluster), the results must be identical, and equal
// to the reference evaluation of the Lean model InfluxVerif.Query over the raw points.
package c11

import (
	"fmt"
	"math"
	"os"
	"sort"
	"strconv"
	"strings"
	"time"

	"github.com/influxdata/influxdb/models"
	"github.com/influxdata/influxdb/query"
	"github.com/influxdata/influxql"
	"verifharness/clusterh"
	"verifharness/fw"
	"verifharness/shardh"
)

type Prop struct{}

func (Prop) ID() string                   { return "C11" }
func (Prop) Model() string                { return "query" }
func (Prop) Parallel() int                { return 4 }
func (Prop) Stateful() bool               { return true }
func (Prop) KeepOp(i int, op string) bool { return i == 0 }

const Base = int64(1600000000) // seconds

func i64(s string) int64 { v, _ := strconv.ParseInt(s, 10, 64); return v }

type write struct {
	field, host string
	t, v        int64
}

type layout struct {
	name string
	c    *clusterh.Cluster
	qs   []int // nodes to query from
}

type env struct {
	dir     string
	writes  []write
	layouts []*layout
	gen     int
}

func (e *env) closeLayouts() {
	for _, l := range e.layouts {
		l.c.Close()
	}
	e.layouts = nil
}

func mkPoint(w write) models.Point {
	tags := map[string]string{}
	if w.host != "-" {
		tags["host"] = w.host
	}
	var fields models.Fields
	if w.field == "n" {
		fields = models.Fields{"n": w.v}
	} else {
		fields = models.Fields{"v": float64(w.v) / 1024}
	}
	p, _ := models.NewPoint("m", models.NewTags(tags), fields, time.Unix(Base+w.t, 0))
	return p
}

// build loads the writes into a cluster: nodes, replica placement, group length (seconds),
// shards per group, and how the data is moved out of the cache.
func (e *env) build(name string, nodes, repl int, groupLen int64, shardsPer int, mode string, qs []int) (*layout, error) {
	e.gen++
	c, err := clusterh.New(fmt.Sprintf("%s/l%d", e.dir, e.gen), nodes, "inmem")
	if err != nil {
		return nil, err
	}
	l := &layout{name: name, c: c, qs: qs}
	// groups covering [-64, 512) seconds around the base
	type grp struct {
		lo, hi int64
		ids    []uint64
	}
	var groups []grp
	for lo := int64(-64); lo < 512; lo += groupLen {
		var owners [][]int
		for s := 0; s < shardsPer; s++ {
			var os []int
			for r := 0; r < repl; r++ {
				os = append(os, (len(groups)+s+r)%nodes)
			}
			owners = append(owners, os)
		}
		ids := c.AddShardGroup((Base+lo)*1e9, (Base+lo+groupLen)*1e9, owners)
		groups = append(groups, grp{lo, lo + groupLen, ids})
	}
	for i, w := range e.writes {
		for _, g := range groups {
			if w.t >= g.lo && w.t < g.hi {
				h := 0
				for _, ch := range w.host {
					h += int(ch)
				}
				if err := c.WriteShard(g.ids[h%len(g.ids)], []models.Point{mkPoint(w)}); err != nil {
					c.Close()
					return nil, err
				}
			}
		}
		switch mode {
		case "files":
			if i%5 == 4 {
				if err := c.SnapshotAll(); err != nil {
					c.Close()
					return nil, err
				}
			}
		case "mixed":
			if i%7 == 3 {
				c.SnapshotAll()
			}
		}
	}
	if mode == "files" {
		c.SnapshotAll()
		if err := c.CompactAll(); err != nil {
			c.Close()
			return nil, err
		}
	}
	return l, nil
}

func (e *env) ensure() error {
	if e.layouts != nil {
		return nil
	}
	specs := []struct {
		name        string
		nodes, repl int
		groupLen    int64
		shardsPer   int
		mode        string
		qs          []int
	}{
		{"one-shard-cache", 1, 1, 576, 1, "cache", []int{0}},
		{"one-shard-files", 1, 1, 576, 1, "files", []int{0}},
		{"many-shards-mixed", 1, 1, 32, 1, "mixed", []int{0}},
		{"cluster-3x2", 3, 2, 64, 2, "mixed", []int{0, 2}},
	}
	for _, s := range specs {
		l, err := e.build(s.name, s.nodes, s.repl, s.groupLen, s.shardsPer, s.mode, s.qs)
		if err != nil {
			return fmt.Errorf("%s: %v", s.name, err)
		}
		e.layouts = append(e.layouts, l)
	}
	return nil
}

// Statement builds the InfluxQL text from the op's key=value list.
func Statement(field string, kvs []string) string {
	kv := map[string]string{}
	for _, x := range kvs {
		p := strings.SplitN(x, "=", 2)
		kv[p[0]] = p[1]
	}
	sel := field
	if fn := kv["fn"]; fn != "" && fn != "raw" {
		sel = fn + "(" + field + ")"
	}
	q := fmt.Sprintf("SELECT %s FROM m WHERE time >= %ds AND time <= %ds", sel, Base+i64(kv["lo"]), Base+i64(kv["hi"]))
	if h, ok := kv["host"]; ok {
		if h == "-" {
			h = ""
		}
		q += fmt.Sprintf(" AND host = '%s'", h)
	}
	var gb []string
	if iv := kv["int"]; iv != "" && iv != "0" {
		if o := kv["offs"]; o != "" && o != "0" {
			gb = append(gb, fmt.Sprintf("time(%ss, %ss)", iv, o))
		} else if o := kv["noffs"]; o != "" && o != "0" {
			gb = append(gb, fmt.Sprintf("time(%ss, -%ss)", iv, o))
		} else {
			gb = append(gb, fmt.Sprintf("time(%ss)", iv))
		}
	}
	if kv["byhost"] == "1" {
		gb = append(gb, "host")
	}
	if len(gb) > 0 {
		q += " GROUP BY " + strings.Join(gb, ", ")
	}
	if f := kv["fill"]; f != "" && kv["int"] != "" && kv["int"] != "0" {
		q += " fill(" + f + ")"
	}
	if kv["desc"] == "1" {
		q += " ORDER BY time DESC"
	}
	if l := kv["limit"]; l != "" && l != "0" {
		q += " LIMIT " + l
	}
	if o := kv["off"]; o != "" && o != "0" {
		q += " OFFSET " + o
	}
	if sl := kv["slimit"]; sl != "" && sl != "0" {
		q += " SLIMIT " + sl
	}
	return q
}

func render(c *clusterh.Cluster, node int, stmt string) string {
	q, err := influxql.ParseQuery(stmt)
	if err != nil {
		return "parse-error:" + strings.ReplaceAll(err.Error(), " ", "_")
	}
	closing := make(chan struct{})
	defer close(closing)
	ch := c.Nodes[node].Executor.ExecuteQuery(q, query.ExecutionOptions{Database: clusterh.DB, RetentionPolicy: clusterh.RP}, closing)
	var series []string
	for r := range ch {
		if r.Err != nil {
			return "error:" + strings.ReplaceAll(r.Err.Error(), " ", "_")
		}
		for _, row := range r.Series {
			tag := "{}"
			if h, ok := row.Tags["host"]; ok {
				tag = "{host=" + h + "}"
			}
			var sb strings.Builder
			sb.WriteString(tag)
			for _, vals := range row.Values {
				t := vals[0].(time.Time).Unix() - Base
				var cell string
				switch x := vals[1].(type) {
				case nil:
					cell = "null"
				case int64:
					cell = fmt.Sprint(x)
				case float64:
					cell = fmt.Sprintf("f%016x", math.Float64bits(x))
				default:
					cell = fmt.Sprint(x)
				}
				fmt.Fprintf(&sb, " %d:%s", t, cell)
			}
			series = append(series, sb.String())
		}
	}
	if len(series) == 0 {
		return "rows -"
	}
	return "rows " + strings.Join(series, " ")
}

func RunOps(ops []string) []string {
	dir, _ := os.MkdirTemp(shardh.WorkDir("query"), "q-")
	defer os.RemoveAll(dir)
	e := &env{dir: dir}
	defer e.closeLayouts()
	out := make([]string, len(ops))
	for i, op := range ops {
		out[i] = step(e, strings.Fields(op))
	}
	return out
}

func step(e *env, f []string) (res string) {
	defer func() {
		if r := recover(); r != nil {
			res = "panic:" + strings.ReplaceAll(fmt.Sprint(r), " ", "_")
		}
	}()
	switch f[0] {
	case "qreset":
		e.closeLayouts()
		e.writes = nil
		return "ok"
	case "put":
		e.closeLayouts()
		e.writes = append(e.writes, write{f[1], f[2], i64(f[3]), i64(f[4])})
		return "ok"
	case "sel":
		if err := e.ensure(); err != nil {
			return "err:" + strings.ReplaceAll(err.Error(), " ", "_")
		}
		stmt := Statement(f[1], f[2:])
		first, firstName := "", ""
		for _, l := range e.layouts {
			for _, n := range l.qs {
				r := render(l.c, n, stmt)
				if first == "" {
					first, firstName = r, l.name
				} else if r != first {
					return fmt.Sprintf("LAYOUT-DIFFERS %s: %s || %s(node %d): %s", firstName, first, l.name, n, r)
				}
			}
		}
		return first
	}
	return "bad-op"
}

func (Prop) RunImpl(c fw.Case) []string { return RunOps(c.Ops) }

// ---- generator ------------------------------------------------------------------------

var hosts = []string{"a", "b", "-"}

func genCase(r *fw.Rand) fw.Case { return genCaseKind(r, 0) }

// genCaseKind: kind 1 = many series (more than the 16 cores a shard's cursors are spread over)
// under one tag set; kind 2 = several series of one group sharing timestamps, queried only
// with statements whose winner is then defined (count/sum/mean/spread/median, and the
// selectors under GROUP BY time, where the reducers break the tie on the value)
func genCaseKind(r *fw.Rand, kind int) fw.Case {
	ops := []string{"qreset"}
	np := 5 + r.Intn(40)
	span := int64(20 + r.Intn(200))
	hosts := hosts
	if kind == 1 {
		hosts = nil
		for i, n := 0, 17+r.Intn(30); i < n; i++ {
			hosts = append(hosts, fmt.Sprintf("h%02d", i))
		}
		np = len(hosts) + r.Intn(40)
	}
	// no two series share a timestamp for the same field: selectors and raw selects over
	// several series would otherwise have no defined winner / row order
	used := map[string]string{}
	for i := 0; i < np; i++ {
		field := []string{"n", "v"}[r.Intn(2)]
		t := int64(r.Intn(int(span)))
		if r.Intn(5) == 0 {
			t = t / 32 * 32 // the first instant of a shard group
		}
		h := hosts[r.Intn(len(hosts))]
		if kind == 1 && i < len(hosts) {
			h = hosts[i] // every series has a point
		}
		key := fmt.Sprintf("%s/%d", field, t)
		if prev, ok := used[key]; ok && kind != 2 {
			h = prev
		}
		used[key] = h
		if r.Intn(6) == 0 && i > 0 {
			// overwrite an earlier point
			prev := strings.Fields(ops[1+r.Intn(i)])
			field, t = prev[1], i64(prev[3])
			ops = append(ops, fmt.Sprintf("put %s %s %d %d", field, prev[2], t, r.Intn(4096)-1024))
			continue
		}
		ops = append(ops, fmt.Sprintf("put %s %s %d %d", field, h, t, r.Intn(4096)-1024))
		if kind == 2 && r.Intn(2) == 0 {
			// the same instant in another series of the group
			for _, h2 := range hosts {
				if h2 != h && r.Intn(2) == 0 {
					ops = append(ops, fmt.Sprintf("put %s %s %d %d", field, h2, t, r.Intn(4096)-1024))
				}
			}
		}
	}
	fns := []string{"raw", "count", "sum", "mean", "min", "max", "first", "last", "spread", "median"}
	for k := 0; k < 6+r.Intn(8); k++ {
		field := []string{"n", "v"}[r.Intn(2)]
		fn := fns[r.Intn(len(fns))]
		if kind == 2 && (fn == "raw" || fn == "min" || fn == "max") {
			fn = []string{"first", "last", "count", "sum"}[r.Intn(4)]
		}
		lo := int64(r.Intn(int(span)/2+1)) - 5
		hi := lo + int64(r.Intn(int(span))) + 1
		if r.Intn(3) == 0 && hi/32*32 > lo {
			hi = hi / 32 * 32 // the range ends on the first instant of a shard group
		}
		if r.Intn(4) == 0 && lo > 0 {
			lo = lo / 32 * 32
		}
		kv := []string{"fn=" + fn, fmt.Sprintf("lo=%d", lo), fmt.Sprintf("hi=%d", hi)}
		if r.Intn(4) == 0 {
			kv = append(kv, "host="+hosts[r.Intn(len(hosts))])
		}
		grouped := false
		if fn != "raw" && (r.Intn(3) > 0 || kind == 2 && (fn == "first" || fn == "last")) {
			grouped = true
			iv := []int{3, 7, 10, 16, 25, 60}[r.Intn(6)]
			kv = append(kv, fmt.Sprintf("int=%d", iv))
			switch r.Intn(5) {
			case 0, 1:
				kv = append(kv, fmt.Sprintf("offs=%d", 1+r.Intn(iv-1)))
			case 2:
				kv = append(kv, fmt.Sprintf("noffs=%d", 1+r.Intn(iv-1)))
			}
			kv = append(kv, "fill="+[]string{"none", "null", "null", "7", "previous", "linear"}[r.Intn(6)])
		}
		byhost := r.Intn(3) == 0
		if byhost || fn == "raw" {
			// a raw select over several series with equal timestamps has no defined row order:
			// raw selects are always grouped by the tag
			kv = append(kv, "byhost=1")
			byhost = true
		}
		if r.Intn(4) == 0 {
			kv = append(kv, "desc=1")
		}
		if (grouped || fn == "raw") && r.Intn(4) == 0 {
			if r.Intn(4) > 0 {
				kv = append(kv, fmt.Sprintf("limit=%d", 1+r.Intn(5)))
			}
			if r.Intn(2) == 0 {
				kv = append(kv, fmt.Sprintf("off=%d", r.Intn(4)))
			}
		}
		// SLIMIT is not generated: it is applied per shard (open known finding
		// C11-slimit-per-shard, replayed from the corpus on every run), so every statement
		// carrying it would only repeat that finding
		ops = append(ops, "sel "+field+" "+strings.Join(kv, " "))
	}
	return fw.Case{Ops: ops}
}

func (Prop) Generate(r *fw.Rand, tier string) []fw.Case {
	n := 12
	if tier == "thorough" {
		n = 600
	}
	var cases []fw.Case
	for i := 0; i < n; i++ {
		cases = append(cases, genCase(r.Fork()))
		if i%4 == 0 {
			cases = append(cases, genCaseKind(r.Fork(), 1))
		}
		if i%4 == 2 {
			cases = append(cases, genCaseKind(r.Fork(), 2))
		}
	}
	return cases
}

func (Prop) Describe(cfg *fw.Config) {
	cfg.Rule = "seeded data sets of 5-45 points (integer field n and float field v with dyadic values, three series: host=a, host=b, no tag; irregular second-resolution timestamps over 20-220 s, gaps, earlier points overwritten later) loaded into four physical layouts built from real nodes (one shard in the cache; one shard snapshotted in pieces and fully compacted; 32-second shards partly in files; three nodes, two replicas per shard, two shards per 64-second group, queried from two nodes); 6-13 statements each: field or count/sum/mean/min/max/first/last/spread/median over a time range, optional tag predicate, GROUP BY time(3..60 s[, offset]) and/or the tag, fill none/null/number/previous/linear, ORDER BY time DESC, LIMIT/OFFSET/SLIMIT; the rows of all layouts must be identical and equal to the Lean reference evaluation; non-trivial = a statement returned rows; distinct = distinct op list"
}

func (Prop) Trivial(c fw.Case, out []string) bool {
	for _, o := range out {
		if strings.HasPrefix(o, "rows {") {
			return false
		}
	}
	return true
}

func (Prop) Oracle(c fw.Case, out []string) fw.Verdict {
	for i, o := range out {
		f := strings.Fields(c.Ops[i])
		switch {
		case strings.HasPrefix(o, "panic"):
			return fw.Verdict{OK: false, Why: c.Ops[i] + " => " + o, Signature: "panic in " + f[0]}
		case strings.HasPrefix(o, "LAYOUT-DIFFERS"):
			stmt := ""
			if f[0] == "sel" {
				stmt = Statement(f[1], f[2:])
			}
			kind := "?"
			for _, x := range f {
				if strings.HasPrefix(x, "fn=") {
					kind = x[3:]
				}
			}
			for _, x := range f {
				if strings.HasPrefix(x, "slimit=") && x != "slimit=0" {
					kind = "series limit"
				}
			}
			return fw.Verdict{OK: false, Why: fmt.Sprintf("%s\n  %.900s", stmt, o), Signature: "result depends on the physical layout (" + kind + ")"}
		case strings.HasPrefix(o, "error:") || strings.HasPrefix(o, "err:") || strings.HasPrefix(o, "parse-error"):
			return fw.Verdict{OK: false, Why: c.Ops[i] + " => " + o, Signature: "statement fails: " + strings.SplitN(o, ":", 2)[0]}
		}
	}
	return fw.Verdict{OK: true}
}

var _ = sort.Strings
