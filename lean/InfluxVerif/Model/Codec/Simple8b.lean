/-
simple8b (github.com/jwilder/encoding/simple8b): one format, two greedy encoders.
`Encoder.Write/flush/Bytes` (streaming; used by the timestamp encoder) looks at a window
of at most 240 buffered values; `EncodeAll` (used by the integer encoder) looks at all
remaining values.  The window only matters for the two run-of-ones selectors, whose
`canPack` test inspects the *whole* slice it is given.
-/
import InfluxVerif.Model.Codec.Basic
namespace InfluxVerif.Codec

/-- selector table: (count, bits) by selector index 0..15 — cross-checked with Gen. -/
def selectors : List (Nat × Nat) :=
  [(240, 0), (120, 0), (60, 1), (30, 2), (20, 3), (15, 4), (12, 5), (10, 6),
   (8, 7), (7, 8), (6, 10), (5, 12), (4, 15), (3, 20), (2, 30), (1, 60)]

def T60 : Nat := 1152921504606846976      -- 2^60

/-- lanes of `bits` bits, least significant first (`src[i] << (i*bits)`, OR-ed; lanes
are disjoint because `canPack` bounded every value, so OR is +). -/
def packLanes (bits : Nat) : List Nat → Nat
  | [] => 0
  | x :: xs => x + 2 ^ bits * packLanes bits xs

def unpackLanes (bits : Nat) : Nat → Nat → List Nat
  | 0, _ => []
  | n + 1, w => w % 2 ^ bits :: unpackLanes bits n (w / 2 ^ bits)

/-- `canPack(src, n, bits)` exactly as written. -/
def canPack (src : List Nat) (n bits : Nat) : Bool :=
  if src.length < n then false
  else if bits = 0 then src.all (· == 1)
  else (src.take n).all (· ≤ 2 ^ bits - 1)

/-- first selector (index ≥ `k`) in table order whose `canPack` test succeeds -/
def pickSel (src : List Nat) : Nat → List (Nat × Nat) → Option (Nat × Nat × Nat)
  | _, [] => none
  | k, (n, bits) :: rest => if canPack src n bits then some (k, n, bits) else pickSel src (k + 1) rest

/-- `Encode(src)`: the word and how many values it consumed; `none` = "value out of bounds". -/
def encodeWord (src : List Nat) : Option (Nat × Nat) :=
  match pickSel src 0 selectors with
  | none => none
  | some (k, n, bits) =>
    if bits = 0 then some (T60 * k, n)
    else some (T60 * k + packLanes bits (src.take n), n)

/-- `Decode(&buf, v)`: values of one word. -/
def decodeWord (w : Nat) : List Nat :=
  match selectors[w / T60 % 16]? with
  | none => []
  | some (n, bits) => if bits = 0 then List.replicate n 1 else unpackLanes bits n (w % T60)

/-- the slice `Encode` is shown: the buffered values (streaming) or everything left -/
def window (win : Option Nat) (xs : List Nat) : List Nat :=
  match win with | some k => xs.take k | none => xs

/-- Greedy encoder with a look-ahead window (`win = 240` streaming, `win = none` EncodeAll).
`fuel` bounds the recursion (every step consumes ≥ 1 value; `xs.length` suffices). -/
def encodeGreedy (win : Option Nat) : Nat → List Nat → Option (List Nat)
  | _, [] => some []
  | 0, _ :: _ => none
  | fuel + 1, xs =>
    match encodeWord (window win xs) with
    | none => none
    | some (word, n) =>
      if n = 0 then none else
      match encodeGreedy win fuel (xs.drop n) with
      | none => none
      | some ws => some (word :: ws)

def s8bEncodeStream (xs : List Nat) : Option (List Nat) := encodeGreedy (some 240) xs.length xs
def s8bEncodeAll (xs : List Nat) : Option (List Nat) := encodeGreedy none xs.length xs

def s8bDecodeAll (ws : List Nat) : List Nat := ws.flatMap decodeWord

/-- words ↔ bytes -/
def wordsToBytes (ws : List Nat) : Bytes := ws.flatMap be64

/-- `Decoder`: consumes 8 bytes at a time; fewer than 8 trailing bytes are ignored. -/
def bytesToWords : Nat → Bytes → List Nat
  | 0, _ => []
  | fuel + 1, b => match be64dec b with
    | none => []
    | some (w, rest) => w :: bytesToWords fuel rest

end InfluxVerif.Codec
