package extract

import (
	"fmt"
	"math"

	"github.com/influxdata/influxdb/tsdb/engine/tsm1"
	"github.com/jwilder/encoding/simple8b"
)

func init() {
	Register(func(repo, out string) error {
		f := NewFile("C13")
		// simple8b selector table, behaviourally: count per selector and lane width from
		// decoding a word whose payload is all ones
		var ns, bits []uint64
		for k := uint64(0); k < 16; k++ {
			n, err := simple8b.Count(k << 60)
			if err != nil {
				return err
			}
			var buf [240]uint64
			m, err := simple8b.Decode(&buf, k<<60|(1<<60-1))
			if err != nil || m != n {
				return fmt.Errorf("C13: selector %d: decode count %d vs %d (%v)", k, m, n, err)
			}
			b := uint64(0)
			if k >= 2 {
				for v := buf[0]; v > 0; v >>= 1 {
					b++
				}
			}
			ns = append(ns, uint64(n))
			bits = append(bits, b)
		}
		f.NatList("selectorCounts", ns)
		f.NatList("selectorBits", bits)
		f.Nat("s8bMaxValue", simple8b.MaxValue)
		// Go's math.Log10 / math.Pow10 on the divisors the timestamp codec uses
		var logs, pows []uint64
		for k := 0; k <= 12; k++ {
			logs = append(logs, uint64(byte(math.Log10(float64(uint64(math.Pow10(k)))))))
		}
		for k := 0; k <= 15; k++ {
			pows = append(pows, uint64(math.Pow10(k)))
		}
		f.NatList("log10OfPow10", logs)
		f.NatList("pow10Table", pows)
		f.NatList("walEntryTypes", []uint64{uint64(tsm1.WriteWALEntryType), uint64(tsm1.DeleteWALEntryType), uint64(tsm1.DeleteRangeWALEntryType)})
		f.NatList("blockTypes", []uint64{uint64(tsm1.BlockFloat64), uint64(tsm1.BlockInteger), uint64(tsm1.BlockBoolean), uint64(tsm1.BlockString), uint64(tsm1.BlockUnsigned)})
		return f.Write(out)
	})
}
