/- Shared helpers for the line-protocol driver (core Lean only). -/
namespace Driver

def splitWs (s : String) : List String :=
  (s.splitOn " ").filter (· ≠ "")

def splitCsv (s : String) : List String :=
  if s = "-" || s = "" then [] else s.splitOn ","

def joinCsv (l : List String) : String :=
  if l.isEmpty then "-" else ",".intercalate l

def hexDigit? (c : Char) : Option Nat :=
  if '0' ≤ c ∧ c ≤ '9' then some (c.toNat - '0'.toNat)
  else if 'a' ≤ c ∧ c ≤ 'f' then some (c.toNat - 'a'.toNat + 10)
  else if 'A' ≤ c ∧ c ≤ 'F' then some (c.toNat - 'A'.toNat + 10)
  else none

/-- "-" is the empty byte string. -/
def hexToBytes? (s : String) : Option (List UInt8) :=
  if s = "-" then some [] else
  let rec go : List Char → List UInt8 → Option (List UInt8)
    | [], acc => some acc.reverse
    | [_], _ => none
    | a :: b :: rest, acc =>
      match hexDigit? a, hexDigit? b with
      | some x, some y => go rest (UInt8.ofNat (x * 16 + y) :: acc)
      | _, _ => none
  go s.toList []

def hexChar (n : Nat) : Char :=
  if n < 10 then Char.ofNat ('0'.toNat + n) else Char.ofNat ('a'.toNat + n - 10)

def bytesToHex (b : List UInt8) : String :=
  if b.isEmpty then "-" else
  String.ofList (b.flatMap fun x => [hexChar (x.toNat / 16), hexChar (x.toNat % 16)])

def parseInt? (s : String) : Option Int := s.toInt?

def allSome {α} : List (Option α) → Option (List α)
  | [] => some []
  | none :: _ => none
  | some a :: rest => (allSome rest).map (a :: ·)

end Driver
