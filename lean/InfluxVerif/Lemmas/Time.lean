/- Helper lemmas for Props/C13.lean: timestamp block codec. -/
import InfluxVerif.Lemmas.IntTime

namespace InfluxVerif.Codec

theorem pow10_facts : ∀ e < 13, log10of 13 (10 ^ e) = e ∧ 10 ^ e < M64 ∧ 0 < 10 ^ e := by decide

theorem divStep_spec (fuel e v : Nat) (he : e < fuel) :
    ∃ e', e' ≤ e ∧ divStep fuel (10 ^ e) v = 10 ^ e' ∧ 10 ^ e' ∣ v := by
  induction fuel generalizing e with
  | zero => omega
  | succ fuel ih =>
    unfold divStep
    by_cases hc : 10 ^ e > 1 ∧ v % 10 ^ e ≠ 0
    · rw [if_pos hc]
      have he0 : e ≠ 0 := by
        intro h0; subst h0; simp at hc
      obtain ⟨e1, rfl⟩ : ∃ e1, e = e1 + 1 := ⟨e - 1, by omega⟩
      have : 10 ^ (e1 + 1) / 10 = 10 ^ e1 := by
        rw [Nat.pow_succ]; exact Nat.mul_div_cancel _ (by norm_num)
      rw [this]
      obtain ⟨e', h1, h2, h3⟩ := ih e1 (by omega)
      exact ⟨e', by omega, h2, h3⟩
    · rw [if_neg hc]
      refine ⟨e, Nat.le_refl _, rfl, ?_⟩
      by_cases h1 : 10 ^ e > 1
      · have : v % 10 ^ e = 0 := by
          by_contra hne; exact hc ⟨h1, hne⟩
        exact Nat.dvd_of_mod_eq_zero this
      · have hpos : 0 < 10 ^ e := Nat.pos_of_ne_zero (by simp)
        have : 10 ^ e = 1 := by omega
        rw [this]; exact Nat.one_dvd _

theorem reduceDiv_spec (ds : List Nat) :
    ∃ e, e ≤ 12 ∧ reduceDiv ds = 10 ^ e ∧ ∀ d ∈ ds, 10 ^ e ∣ d := by
  induction ds with
  | nil => exact ⟨12, Nat.le_refl _, by simp [reduceDiv], by simp⟩
  | cons v rest ih =>
    obtain ⟨e, he, hr, hd⟩ := ih
    have : reduceDiv (v :: rest) = divStep 13 (reduceDiv rest) v := by simp [reduceDiv]
    rw [this, hr]
    obtain ⟨e', h1, h2, h3⟩ := divStep_spec 13 e v (by omega)
    refine ⟨e', by omega, h2, ?_⟩
    intro d hdm
    simp only [List.mem_cons] at hdm
    rcases hdm with rfl | hdm
    · exact h3
    · exact Nat.dvd_trans (Nat.pow_dvd_pow 10 h1) (hd d hdm)

theorem deltasFrom_lt (prev : Nat) (ts : List Nat) : ∀ d ∈ deltasFrom prev ts, d < M64 := by
  induction ts generalizing prev with
  | nil => simp [deltasFrom]
  | cons t rest ih =>
    intro d hd
    simp only [deltasFrom, List.mem_cons] at hd
    rcases hd with rfl | hd
    · exact sub64_lt _ _
    · exact ih t d hd

theorem deltasFrom_length (prev : Nat) (ts : List Nat) : (deltasFrom prev ts).length = ts.length := by
  induction ts generalizing prev with
  | nil => rfl
  | cons t rest ih => simp [deltasFrom, ih]

theorem prefixSums_deltas (prev : Nat) (ts : List Nat) (hp : prev < M64) (ht : ∀ t ∈ ts, t < M64) :
    prefixSums 1 prev (deltasFrom prev ts) = ts := by
  induction ts generalizing prev with
  | nil => rfl
  | cons t rest ih =>
    have ht0 := ht t (by simp)
    simp only [deltasFrom, prefixSums]
    have : add64 prev (mul64 (sub64 t prev) 1) = t := by
      have := sub64_lt t prev
      unfold mul64
      rw [Nat.mul_one, Nat.mod_eq_of_lt this]
      exact add64_sub64' t prev ht0 hp
    rw [this, ih t ht0 (fun y hy => ht y (by simp [hy]))]

theorem prefixSums_div (dv last : Nat) (ds : List Nat) (_hdv : 0 < dv)
    (hd : ∀ d ∈ ds, dv ∣ d ∧ d < M64) :
    prefixSums dv last (ds.map (· / dv)) = prefixSums 1 last ds := by
  induction ds generalizing last with
  | nil => rfl
  | cons d rest ih =>
    obtain ⟨hdvd, hlt⟩ := hd d (by simp)
    simp only [List.map_cons, prefixSums]
    have h1 : mul64 (d / dv) dv = mul64 d 1 := by
      unfold mul64
      rw [Nat.div_mul_cancel hdvd, Nat.mul_one]
    rw [h1, ih _ (fun y hy => hd y (by simp [hy]))]

theorem rleTimes_eq (f d n : Nat) (hd : d < M64) :
    rleTimes (add64 f d) d n = prefixSums 1 f (List.replicate n d) := by
  induction n generalizing f with
  | zero => rfl
  | succ n ih =>
    simp only [rleTimes, List.replicate_succ, prefixSums]
    have : mul64 d 1 = d := by unfold mul64; rw [Nat.mul_one, Nat.mod_eq_of_lt hd]
    rw [this, ih (add64 f d)]

/-! decoder on the three layouts -/

theorem timeDecode_raw (first : Nat) (ds : List Nat) (h : ∀ w ∈ first :: ds, w < M64) :
    timeDecode (0 :: (first :: ds).flatMap be64) = some (first :: prefixSums 1 first ds) := by
  simp only [timeDecode, Nat.zero_div, Nat.zero_mod, if_true]
  have hb : (first :: ds).flatMap be64 = wordsToBytes (first :: ds) ++ [] := by simp [wordsToBytes]
  have hl : ((first :: ds).flatMap be64).length / 8 = (first :: ds).length := by
    rw [flatMap_be64_length]; omega
  rw [hl, hb, bytesToWords_wordsToBytes _ h _ (Nat.le_refl _) [] (by simp)]

theorem timeDecode_packed (e first : Nat) (ws : List Nat) (he : e ≤ 12) (hf : first < M64)
    (hw : ∀ w ∈ ws, w < M64) :
    timeDecode ((1 * 16 + e) :: be64 first ++ wordsToBytes ws)
      = some (first :: prefixSums (10 ^ e) first (s8bDecodeAll ws)) := by
  rw [List.cons_append]
  have e0 : ¬ ((1 * 16 + e) / 16 % 16 = 0) := by omega
  have e2 : ¬ ((1 * 16 + e) / 16 % 16 = 2) := by omega
  have e1 : (1 * 16 + e) / 16 % 16 = 1 := by omega
  have em : (1 * 16 + e) % 16 = e := by omega
  have hlen : ¬ (((1 * 16 + e) :: (be64 first ++ wordsToBytes ws)).length < 9) := by
    simp [be64_length]
  simp only [timeDecode, e0, e1, e2, em, hlen, if_false, if_true]
  rw [be64_roundtrip first hf]
  simp only
  have hp := (pow10_facts e (by omega)).2.1
  have : pow10 e % M64 = 10 ^ e := by unfold pow10; exact Nat.mod_eq_of_lt hp
  rw [this]
  have hl : (wordsToBytes ws).length / 8 = ws.length := by
    unfold wordsToBytes; rw [flatMap_be64_length]; omega
  have hb := bytesToWords_wordsToBytes ws hw ws.length (Nat.le_refl _) [] (by simp)
  simp only [List.append_nil] at hb
  rw [hl, hb]
  simp

theorem timeDecode_rle (e first v n : Nat) (he : e ≤ 12) (hf : first < M64) (hv : v < M64)
    (hn : n < M63) :
    timeDecode ((2 * 16 + e) :: be64 first ++ putUvarint v ++ putUvarint n)
      = some (rleTimes first (mul64 v (10 ^ e)) n) := by
  rw [List.cons_append, List.cons_append]
  have e0 : ¬ ((2 * 16 + e) / 16 % 16 = 0) := by omega
  have e2 : (2 * 16 + e) / 16 % 16 = 2 := by omega
  have em : (2 * 16 + e) % 16 = e := by omega
  have hlen : ¬ (((2 * 16 + e) :: (be64 first ++ putUvarint v ++ putUvarint n)).length < 9) := by
    simp [be64_length]
  simp only [timeDecode, e0, e2, em, hlen, if_false, if_true]
  rw [List.append_assoc, be64_roundtrip first hf]
  simp only
  rw [uvarint_roundtrip v hv]
  simp only
  have := uvarint_roundtrip n (by unfold M64 M63 at *; omega) []
  simp only [List.append_nil] at this
  rw [this]
  simp only
  have hp := (pow10_facts e (by omega)).2.1
  have : pow10 e % M64 = 10 ^ e := by unfold pow10; exact Nat.mod_eq_of_lt hp
  rw [this]
  have hc : ¬ (n ≥ M63) := by omega
  simp [hc]

end InfluxVerif.Codec
