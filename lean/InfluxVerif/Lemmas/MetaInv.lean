/-
The invariant of the metadata model along every command log: in every retention policy the
shard groups are well-formed and no two of them serve the same instant (Props/C06.lean).
-/
import InfluxVerif.Lemmas.MetaGroups

namespace InfluxVerif.Meta

theorem insertSorted_perm {α} (lt : α → α → Bool) (x : α) (l : List α) : (insertSorted lt x l).Perm (x :: l) := by
  induction l with
  | nil => simp [insertSorted]
  | cons a l ih =>
    unfold insertSorted
    split
    · exact List.Perm.refl _
    · exact (List.Perm.cons a ih).trans (List.Perm.swap x a l)

theorem sortBy_perm {α} (lt : α → α → Bool) (l : List α) : (sortBy lt l).Perm l := by
  unfold sortBy
  suffices h : ∀ acc, (l.foldl (fun acc x => insertSorted lt x acc) acc).Perm (l.reverse ++ acc) by
    have := h []
    simp only [List.append_nil] at this
    exact this.trans (List.reverse_perm l)
  induction l with
  | nil => intro acc; simp
  | cons a l ih =>
    intro acc
    simp only [List.foldl_cons, List.reverse_cons, List.append_assoc, List.singleton_append]
    refine (ih _).trans ?_
    exact List.Perm.append_left _ (insertSorted_perm lt a acc)

/-! ### generic list facts -/

theorem forall_mapFirst {α} (P : α → Prop) (p : α → Bool) (f : α → α) (hf : ∀ x, P x → P (f x)) (l : List α)
    (h : ∀ x ∈ l, P x) : ∀ x ∈ mapFirst p f l, P x := by
  induction l with
  | nil => simp [mapFirst]
  | cons a l ih =>
    unfold mapFirst
    split
    · intro x hx
      simp only [List.mem_cons] at hx
      rcases hx with rfl | hx
      · exact hf a (h a (by simp))
      · exact h x (List.mem_cons_of_mem _ hx)
    · intro x hx
      simp only [List.mem_cons] at hx
      rcases hx with rfl | hx
      · exact h _ (by simp)
      · exact ih (fun y hy => h y (List.mem_cons_of_mem _ hy)) x hx

theorem removeFirst_sublist {α} (p : α → Bool) (l : List α) : (removeFirst p l).Sublist l := by
  induction l with
  | nil => simp [removeFirst]
  | cons a l ih =>
    unfold removeFirst
    split
    · exact List.sublist_cons_self a l
    · exact ih.cons₂ a

theorem forall_removeFirst {α} (P : α → Prop) (p : α → Bool) (l : List α)
    (h : ∀ x ∈ l, P x) : ∀ x ∈ removeFirst p l, P x :=
  fun x hx => h x ((removeFirst_sublist p l).subset hx)

/-! ### the invariant -/

def RPOK (rp : RP) : Prop := 0 < rp.sgDuration ∧ GroupsOK rp.groups
def DBOK (db : DB) : Prop := ∀ rp ∈ db.rps, RPOK rp
def DataOK (d : Data) : Prop := ∀ db ∈ d.dbs, DBOK db

theorem dataOK_of_dbs (d d' : Data) (h : d'.dbs = d.dbs) (hok : DataOK d) : DataOK d' := by
  unfold DataOK at *; rw [h]; exact hok

theorem dataOK_mapFirst (d : Data) (p : DB → Bool) (f : DB → DB) (hf : ∀ db, DBOK db → DBOK (f db))
    (hok : DataOK d) : DataOK { d with dbs := mapFirst p f d.dbs } :=
  forall_mapFirst DBOK p f hf d.dbs hok

theorem dbOK_mapFirst (db : DB) (p : RP → Bool) (f : RP → RP) (hf : ∀ rp, RPOK rp → RPOK (f rp))
    (hok : DBOK db) : ∀ rp ∈ mapFirst p f db.rps, RPOK rp :=
  forall_mapFirst RPOK p f hf db.rps hok

theorem dataOK_mapRP (d : Data) (dbn rpn : String) (f : RP → RP) (hf : ∀ rp, RPOK rp → RPOK (f rp))
    (hok : DataOK d) : DataOK (d.mapRP dbn rpn f) := by
  unfold Data.mapRP
  apply dataOK_mapFirst d _ _ _ hok
  intro db hdb
  exact dbOK_mapFirst db _ f hf hdb

end InfluxVerif.Meta

namespace InfluxVerif.Meta

/-! ### commands that leave the databases alone -/

macro "dbs_same" h:ident hok:ident : tactic =>
  `(tactic| (repeat' split at $h:ident) <;> first
      | (cases $h:ident; done)
      | (cases $h:ident; exact dataOK_of_dbs _ _ rfl $hok))

theorem createUser_ok (d d' : Data) (n hs : String) (a : Bool) (h : createUser d n hs a = .ok d') (hok : DataOK d) : DataOK d' := by
  unfold createUser at h; dbs_same h hok
theorem dropUser_ok (d d' : Data) (n : String) (h : dropUser d n = .ok d') (hok : DataOK d) : DataOK d' := by
  unfold dropUser at h; dbs_same h hok
theorem updateUser_ok (d d' : Data) (n hs : String) (h : updateUser d n hs = .ok d') (hok : DataOK d) : DataOK d' := by
  unfold updateUser at h; dbs_same h hok
theorem setPrivilege_ok (d d' : Data) (n db : String) (p : Nat) (h : setPrivilege d n db p = .ok d') (hok : DataOK d) : DataOK d' := by
  unfold setPrivilege at h; dbs_same h hok
theorem setAdmin_ok (d d' : Data) (n : String) (a : Bool) (h : setAdminPrivilege d n a = .ok d') (hok : DataOK d) : DataOK d' := by
  unfold setAdminPrivilege at h; dbs_same h hok
theorem createDataNode_ok (d d' : Data) (a t : String) (h : createDataNode d a t = .ok d') (hok : DataOK d) : DataOK d' := by
  unfold createDataNode at h; dbs_same h hok
theorem updateDataNode_ok (d d' : Data) (id : Nat) (a t : String) (h : updateDataNode d id a t = .ok d') (hok : DataOK d) : DataOK d' := by
  unfold updateDataNode at h; dbs_same h hok
theorem createMetaNode_ok (d d' : Data) (a t : String) (h : createMetaNode d a t = .ok d') (hok : DataOK d) : DataOK d' := by
  unfold createMetaNode at h; dbs_same h hok
theorem deleteMetaNode_ok (d d' : Data) (id : Nat) (h : deleteMetaNode d id = .ok d') (hok : DataOK d) : DataOK d' := by
  unfold deleteMetaNode at h; dbs_same h hok
theorem setMetaNode_ok (d d' : Data) (a t : String) (h : setMetaNode d a t = .ok d') (hok : DataOK d) : DataOK d' := by
  unfold setMetaNode at h
  split at h
  · exact createMetaNode_ok d d' a t h hok
  · cases h; exact dataOK_of_dbs _ _ rfl hok
  · cases h
theorem setClusterID_ok (d : Data) (r : Nat) (hok : DataOK d) : DataOK (setClusterID d r) := by
  unfold setClusterID; split
  · exact dataOK_of_dbs _ _ rfl hok
  · exact hok

end InfluxVerif.Meta

namespace InfluxVerif.Meta

/-! ### commands on databases, policies, continuous queries, subscriptions -/

theorem normalised_pos (a b : Int) : 0 < normalisedShardDuration a b := by
  unfold normalisedShardDuration shardGroupDuration hour
  split
  · split <;> (try split) <;> omega
  · split
    · split <;> (try split) <;> omega
    · omega

theorem findDB_mem (d : Data) (n : String) (db : DB) (h : findDB d n = some db) : db ∈ d.dbs :=
  List.mem_of_find?_eq_some h

theorem findRP_mem (db : DB) (n : String) (rp : RP) (h : db.findRP n = some rp) : rp ∈ db.rps :=
  List.mem_of_find?_eq_some h

theorem findRPd_mem (db : DB) (n : String) (rp : RP) (h : db.findRPd n = some rp) : rp ∈ db.rps := by
  unfold DB.findRPd at h
  split at h
  · split at h
    · cases h
    · exact findRP_mem _ _ _ h
  · exact findRP_mem _ _ _ h

theorem createDatabase_ok (d d' : Data) (n : String) (h : createDatabase d n = .ok d') (hok : DataOK d) : DataOK d' := by
  unfold createDatabase at h
  repeat' split at h
  · cases h
  · cases h
  · cases h; exact hok
  · cases h
    intro db hdb
    simp only [List.mem_append, List.mem_singleton] at hdb
    rcases hdb with hdb | rfl
    · exact hok db hdb
    · intro rp hrp; simp at hrp

theorem dropDatabase_ok (d d' : Data) (n : String) (h : dropDatabase d n = .ok d') (hok : DataOK d) : DataOK d' := by
  unfold dropDatabase at h
  split at h
  · cases h
    exact forall_removeFirst DBOK _ d.dbs hok
  · cases h; exact hok

theorem createRP_ok (d d' : Data) (dbn n : String) (r du sg : Int) (df : Bool)
    (h : createRetentionPolicy d dbn n r du sg df = .ok d') (hok : DataOK d) : DataOK d' := by
  unfold createRetentionPolicy at h
  by_cases h1 : n = ""
  · simp [h1] at h
  by_cases h2 : n.length > maxNameLen
  · simp [h1, h2] at h
  by_cases h3 : r < 1
  · simp [h1, h2, h3] at h
  by_cases h4 : (decide (du > 0) && decide (du < normalisedShardDuration sg du)) = true
  · simp [h1, h2, h3, h4] at h
  simp only [h1, h2, h3, h4, ↓reduceIte] at h
  cases hdb : findDB d dbn with
  | none => simp [hdb] at h
  | some db =>
    simp only [hdb] at h
    cases hrp : db.findRP n with
    | some rp =>
      simp only [hrp] at h
      repeat' split at h
      all_goals first
        | (cases h; done)
        | (cases h; exact hok)
    | none =>
      simp only [hrp] at h
      cases h
      unfold createRetentionPolicy.Data.mapDBFirst
      apply dataOK_mapFirst d _ _ _ hok
      intro db hdb rp hrp
      simp only [List.mem_append, List.mem_singleton] at hrp
      rcases hrp with hrp | rfl
      · exact hdb rp hrp
      · exact ⟨normalised_pos _ _, ⟨by simp, List.Pairwise.nil⟩⟩

theorem dropRP_ok (d d' : Data) (dbn n : String) (h : dropRetentionPolicy d dbn n = .ok d') (hok : DataOK d) : DataOK d' := by
  unfold dropRetentionPolicy at h
  cases h
  apply dataOK_mapFirst d _ _ _ hok
  intro db hdb
  exact forall_removeFirst RPOK _ db.rps hdb

theorem updateRP_ok (d d' : Data) (dbn n : String) (nn : Option String) (du rn sg : Option Int) (df : Bool)
    (h : updateRetentionPolicy d dbn n nn du rn sg df = .ok d') (hok : DataOK d) : DataOK d' := by
  unfold updateRetentionPolicy at h
  cases hdb : findDB d dbn with
  | none => simp [hdb] at h
  | some db =>
    simp only [hdb] at h
    cases hrp : db.findRPd n with
    | none => simp [hrp] at h
    | some rp =>
      simp only [hrp] at h
      have hrpok : RPOK rp := hok db (findDB_mem _ _ _ hdb) rp (findRPd_mem _ _ _ hrp)
      repeat' split at h
      all_goals first
        | (cases h; done)
        | skip
      all_goals
        cases h
        apply dataOK_mapFirst d _ _ _ hok
        intro db2 hdb2
        apply dbOK_mapFirst db2 _ _ _ hdb2
        intro _ _
        first
          | exact ⟨hrpok.1, hrpok.2⟩
          | exact ⟨normalised_pos _ _, hrpok.2⟩

theorem createCQ_ok (d d' : Data) (dbn n q : String) (h : createCQ d dbn n q = .ok d') (hok : DataOK d) : DataOK d' := by
  unfold createCQ at h
  repeat' split at h
  all_goals first
    | (cases h; done)
    | (cases h; exact hok)
    | skip
  cases h
  apply dataOK_mapFirst d _ _ _ hok
  intro db hdb
  exact hdb

theorem dropCQ_ok (d d' : Data) (dbn n : String) (h : dropCQ d dbn n = .ok d') (hok : DataOK d) : DataOK d' := by
  unfold dropCQ at h
  cases h
  apply dataOK_mapFirst d _ _ _ hok
  intro db hdb
  exact hdb

theorem createSub_ok (d d' : Data) (dbn rpn n m : String) (ds : List String) (bad : Option String)
    (h : createSubscription d dbn rpn n m ds bad = .ok d') (hok : DataOK d) : DataOK d' := by
  unfold createSubscription at h
  repeat' split at h
  all_goals first
    | (cases h; done)
    | skip
  cases h
  exact dataOK_mapRP d _ _ _ (fun rp hrp => hrp) hok

theorem dropSub_ok (d d' : Data) (dbn rpn n : String)
    (h : dropSubscription d dbn rpn n = .ok d') (hok : DataOK d) : DataOK d' := by
  unfold dropSubscription at h
  repeat' split at h
  all_goals first
    | (cases h; done)
    | skip
  cases h
  exact dataOK_mapRP d _ _ _ (fun rp hrp => hrp) hok

end InfluxVerif.Meta

namespace InfluxVerif.Meta

/-! ### commands on shard groups -/

theorem rpOK_groups (rp : RP) (gs : List SG) (h : List.Forall₂ Shrinks rp.groups gs) (hok : RPOK rp) :
    RPOK { rp with groups := gs } := ⟨hok.1, groupsOK_forall2 _ _ h hok.2⟩

theorem deleteSG_ok (d d' : Data) (dbn rpn : String) (id : Nat) (age : Del) (hage : age ≠ .live)
    (h : deleteShardGroup d dbn rpn id age = .ok d') (hok : DataOK d) : DataOK d' := by
  unfold deleteShardGroup at h
  repeat' split at h
  all_goals first
    | (cases h; done)
    | skip
  cases h
  apply dataOK_mapRP d _ _ _ _ hok
  intro rp hrp
  apply rpOK_groups rp _ _ hrp
  apply mapFirst_forall2
  intro g
  exact shrinks_of_same g _ rfl rfl rfl (fun hd => by rw [deleted_of_age g age hage] at hd; cases hd)

theorem mapGroups_ok (d : Data) (f : SG → SG) (hf : ∀ g, Shrinks g (f g)) (hok : DataOK d) : DataOK (mapGroups d f) := by
  unfold mapGroups
  intro db hdb rp hrp
  simp only [List.mem_map] at hdb
  obtain ⟨db0, hdb0, rfl⟩ := hdb
  simp only [List.mem_map] at hrp
  obtain ⟨rp0, hrp0, rfl⟩ := hrp
  exact rpOK_groups rp0 _ (map_forall2 f hf _) (hok db0 hdb0 rp0 hrp0)

theorem truncate_ok (d : Data) (t : Int) (hok : DataOK d) : DataOK (truncateShardGroups d t) :=
  mapGroups_ok d (truncOne t) (truncOne_shrinks t) hok

theorem prune_ok (d : Data) (hok : DataOK d) : DataOK (pruneShardGroups d) := by
  unfold pruneShardGroups
  intro db hdb rp hrp
  simp only [List.mem_map] at hdb
  obtain ⟨db0, hdb0, rfl⟩ := hdb
  simp only [List.mem_map] at hrp
  obtain ⟨rp0, hrp0, rfl⟩ := hrp
  have := hok db0 hdb0 rp0 hrp0
  exact ⟨this.1, groupsOK_sublist _ _ List.filter_sublist this.2⟩

/-- the first group holding the shard is rewritten by a function that keeps bounds and
truncation and never revives a group -/
theorem updFirstGroup_forall2 (has : SG → Bool) (f : SG → SG) (hf : ∀ g, Shrinks g (f g)) (gs gs' : List SG)
    (h : updFirstGroup has f gs = some gs') : List.Forall₂ Shrinks gs gs' := by
  induction gs generalizing gs' with
  | nil => simp [updFirstGroup] at h
  | cons g rest ih =>
    unfold updFirstGroup at h
    split at h
    · cases h
      exact List.Forall₂.cons (hf g) (by
        clear ih
        induction rest with
        | nil => exact List.Forall₂.nil
        | cons b l ih2 => exact List.Forall₂.cons (Shrinks.refl b) ih2)
    · cases hr : updFirstGroup has f rest with
      | none => simp [hr] at h
      | some r =>
        simp only [hr, Option.map_some, Option.some.injEq] at h
        subst h
        exact List.Forall₂.cons (Shrinks.refl g) (ih r hr)

theorem updFirstRP_ok (has : SG → Bool) (f : SG → SG) (hf : ∀ g, Shrinks g (f g)) (rps rps' : List RP)
    (h : updFirstRP has f rps = some rps') (hok : ∀ rp ∈ rps, RPOK rp) : ∀ rp ∈ rps', RPOK rp := by
  induction rps generalizing rps' with
  | nil => simp [updFirstRP] at h
  | cons r rest ih =>
    unfold updFirstRP at h
    cases hg : updFirstGroup has f r.groups with
    | some gs =>
      simp only [hg, Option.some.injEq] at h
      subst h
      intro rp hrp
      simp only [List.mem_cons] at hrp
      rcases hrp with rfl | hrp
      · exact rpOK_groups r gs (updFirstGroup_forall2 has f hf _ _ hg) (hok r (by simp))
      · exact hok rp (List.mem_cons_of_mem _ hrp)
    | none =>
      simp only [hg] at h
      cases hr : updFirstRP has f rest with
      | none => simp [hr] at h
      | some rs =>
        simp only [hr, Option.map_some, Option.some.injEq] at h
        subst h
        intro rp hrp
        simp only [List.mem_cons] at hrp
        rcases hrp with rfl | hrp
        · exact hok _ (by simp)
        · exact ih rs hr (fun x hx => hok x (List.mem_cons_of_mem _ hx)) rp hrp

theorem updFirstDB_ok (has : SG → Bool) (f : SG → SG) (hf : ∀ g, Shrinks g (f g)) (dbs dbs' : List DB)
    (h : updFirstDB has f dbs = some dbs') (hok : ∀ db ∈ dbs, DBOK db) : ∀ db ∈ dbs', DBOK db := by
  induction dbs generalizing dbs' with
  | nil => simp [updFirstDB] at h
  | cons b rest ih =>
    unfold updFirstDB at h
    cases hg : updFirstRP has f b.rps with
    | some rps =>
      simp only [hg, Option.some.injEq] at h
      subst h
      intro db hdb
      simp only [List.mem_cons] at hdb
      rcases hdb with rfl | hdb
      · exact updFirstRP_ok has f hf _ _ hg (hok b (by simp))
      · exact hok db (List.mem_cons_of_mem _ hdb)
    | none =>
      simp only [hg] at h
      cases hr : updFirstDB has f rest with
      | none => simp [hr] at h
      | some rs =>
        simp only [hr, Option.map_some, Option.some.injEq] at h
        subst h
        intro db hdb
        simp only [List.mem_cons] at hdb
        rcases hdb with rfl | hdb
        · exact hok _ (by simp)
        · exact ih rs hr (fun x hx => hok x (List.mem_cons_of_mem _ hx)) db hdb

theorem withShardGroup_ok (d : Data) (id : Nat) (f : SG → SG) (hf : ∀ g, Shrinks g (f g)) (hok : DataOK d) :
    DataOK (withShardGroup d id f) := by
  unfold withShardGroup
  split
  · rename_i dbs hdbs
    exact updFirstDB_ok _ f hf _ _ hdbs hok
  · exact hok

end InfluxVerif.Meta

namespace InfluxVerif.Meta

theorem shrinks_with (g : SG) (shards : List Shard) (del : Del)
    (h : del = g.del ∨ del ≠ .live) : Shrinks g { g with shards := shards, del := del } := by
  refine shrinks_of_same g _ (by rfl) (by rfl) (by rfl) ?_
  intro hd
  rcases h with h | h
  · unfold SG.deleted at hd ⊢
    simp only [h] at hd
    exact hd
  · have := deleted_of_age { g with shards := shards } del h
    unfold SG.deleted at hd this
    simp only at hd this
    rw [this] at hd; cases hd

theorem dropShard_ok (d : Data) (id : Nat) (age : Del) (hage : age ≠ .live) (hok : DataOK d) : DataOK (dropShard d id age) := by
  unfold dropShard
  apply withShardGroup_ok d id _ _ hok
  intro g
  dsimp only
  apply shrinks_with
  by_cases hl : g.shards.length = 1
  · simp [hl, hage]
  · simp [hl]

theorem copyOwner_ok (d : Data) (id n : Nat) (hok : DataOK d) : DataOK (copyShardOwner d id n) := by
  unfold copyShardOwner
  split
  · exact hok
  apply withShardGroup_ok d id _ _ hok
  intro g
  exact shrinks_with g _ g.del (Or.inl rfl)

theorem removeOwner_ok (d : Data) (id n : Nat) (age : Del) (hage : age ≠ .live) (hok : DataOK d) :
    DataOK (removeShardOwner d id n age) := by
  unfold removeShardOwner
  apply withShardGroup_ok d id _ _ hok
  intro g
  cases hs : g.shards.find? (·.id == id) with
  | none => simp only; exact Shrinks.refl g
  | some s =>
    simp only
    by_cases he : (removeFirst (· == n) s.owners).isEmpty = true
    · simp only [he, if_true]
      apply shrinks_with
      by_cases hl : g.shards.length = 1
      · simp [hl, hage]
      · simp [hl]
    · simp only [he, Bool.false_eq_true, if_false]
      exact shrinks_with g _ g.del (Or.inl rfl)

theorem deleteNodeFromGroup_shrinks (id : Nat) (age : Del) (hage : age ≠ .live) (g g' : SG)
    (h : deleteNodeFromGroup id age g = .ok g') : Shrinks g g' := by
  unfold deleteNodeFromGroup at h
  simp only at h
  split at h
  · cases h
    exact shrinks_with g _ age (Or.inr hage)
  · split at h
    · cases h
    · cases h
      exact shrinks_with g _ g.del (Or.inl rfl)

theorem mapM_forall2 {α β} (f : α → Except String β) (l : List α) (l' : List β) (h : l.mapM f = .ok l') :
    List.Forall₂ (fun a b => f a = .ok b) l l' := by
  induction l generalizing l' with
  | nil =>
    simp only [List.mapM_nil, pure, Except.pure, Except.ok.injEq] at h
    subst h; exact List.Forall₂.nil
  | cons a l ih =>
    rw [List.mapM_cons] at h
    cases hfa : f a with
    | error e => simp [hfa, bind, Except.bind] at h
    | ok b =>
      cases hl : l.mapM f with
      | error e => simp [hfa, hl, bind, Except.bind] at h
      | ok bs =>
        simp only [hfa, hl, bind, Except.bind, pure, Except.pure, Except.ok.injEq] at h
        subst h
        exact List.Forall₂.cons hfa (ih bs hl)

theorem forall2_imp {α β} {R S : α → β → Prop} (h : ∀ a b, R a b → S a b) {l : List α} {l' : List β}
    (hr : List.Forall₂ R l l') : List.Forall₂ S l l' := by
  induction hr with
  | nil => exact List.Forall₂.nil
  | cons hab _ ih => exact List.Forall₂.cons (h _ _ hab) ih

theorem mapM_forall_ok {α β} (f : α → Except String β) (P : α → Prop) (Q : β → Prop)
    (hf : ∀ a b, f a = .ok b → P a → Q b) (l : List α) (l' : List β) (h : l.mapM f = .ok l')
    (hp : ∀ a ∈ l, P a) : ∀ b ∈ l', Q b := by
  have h2 := mapM_forall2 f l l' h
  clear h
  induction h2 with
  | nil => simp
  | @cons a b l l' hab _ ih =>
    intro x hx
    simp only [List.mem_cons] at hx
    rcases hx with rfl | hx
    · exact hf a _ hab (hp a (by simp))
    · exact ih (fun y hy => hp y (List.mem_cons_of_mem _ hy)) x hx

def rpM (f : SG → Except String SG) (rp : RP) : Except String RP := do
  let gs ← rp.groups.mapM f
  pure { rp with groups := gs }

def dbM (f : SG → Except String SG) (db : DB) : Except String DB := do
  let rps ← db.rps.mapM (rpM f)
  pure { db with rps := rps }

theorem mapGroupsM_eq (d : Data) (f : SG → Except String SG) :
    mapGroupsM d f = (do let dbs ← d.dbs.mapM (dbM f); pure { d with dbs := dbs }) := rfl

theorem rpM_ok (f : SG → Except String SG) (hf : ∀ g g', f g = .ok g' → Shrinks g g') (rp rp' : RP)
    (h : rpM f rp = .ok rp') (hok : RPOK rp) : RPOK rp' := by
  unfold rpM at h
  cases hgs : rp.groups.mapM f with
  | error e => simp [hgs, bind, Except.bind] at h
  | ok gs =>
    simp only [hgs, bind, Except.bind, pure, Except.pure, Except.ok.injEq] at h
    subst h
    exact rpOK_groups rp gs (forall2_imp hf (mapM_forall2 _ _ _ hgs)) hok

theorem dbM_ok (f : SG → Except String SG) (hf : ∀ g g', f g = .ok g' → Shrinks g g') (db db' : DB)
    (h : dbM f db = .ok db') (hok : DBOK db) : DBOK db' := by
  unfold dbM at h
  cases hrps : db.rps.mapM (rpM f) with
  | error e => simp [hrps, bind, Except.bind] at h
  | ok rps =>
    simp only [hrps, bind, Except.bind, pure, Except.pure, Except.ok.injEq] at h
    subst h
    exact mapM_forall_ok (rpM f) RPOK RPOK (rpM_ok f hf) _ _ hrps hok

theorem mapGroupsM_ok (d d' : Data) (f : SG → Except String SG) (hf : ∀ g g', f g = .ok g' → Shrinks g g')
    (h : mapGroupsM d f = .ok d') (hok : DataOK d) : DataOK d' := by
  rw [mapGroupsM_eq] at h
  cases hdbs : d.dbs.mapM (dbM f) with
  | error e => simp [hdbs, bind, Except.bind] at h
  | ok dbs =>
    simp only [hdbs, bind, Except.bind, pure, Except.pure, Except.ok.injEq] at h
    subst h
    exact mapM_forall_ok (dbM f) DBOK DBOK (dbM_ok f hf) _ _ hdbs hok

theorem deleteDataNode_ok (d d' : Data) (id : Nat) (age : Del) (hage : age ≠ .live)
    (h : deleteDataNode d id age = .ok d') (hok : DataOK d) : DataOK d' := by
  unfold deleteDataNode at h
  split at h
  · exact mapGroupsM_ok _ d' _ (deleteNodeFromGroup_shrinks id age hage) h (dataOK_of_dbs _ _ rfl hok)
  · cases h

end InfluxVerif.Meta

namespace InfluxVerif.Meta

/-! ### CreateShardGroup -/

theorem forall_mapFirst_found {α} (P : α → Prop) (p : α → Bool) (f : α → α) (l : List α)
    (hf : ∀ x, l.find? p = some x → P x → P (f x)) (h : ∀ x ∈ l, P x) : ∀ x ∈ mapFirst p f l, P x := by
  induction l with
  | nil => simp [mapFirst]
  | cons a l ih =>
    unfold mapFirst
    by_cases hp : p a = true
    · simp only [hp, if_true]
      intro x hx
      simp only [List.mem_cons] at hx
      rcases hx with rfl | hx
      · exact hf a (by simp [List.find?, hp]) (h a (by simp))
      · exact h x (List.mem_cons_of_mem _ hx)
    · simp only [hp, Bool.false_eq_true, if_false]
      intro x hx
      simp only [List.mem_cons] at hx
      rcases hx with rfl | hx
      · exact h _ (by simp)
      · refine ih (fun y hy hpy => hf y ?_ hpy) (fun y hy => h y (List.mem_cons_of_mem _ hy)) x hx
        simp only [List.find?, hp]
        exact hy

theorem truncateTime_bounds (t d : Int) (hd : 0 < d) : truncateTime t d ≤ t ∧ t < truncateTime t d + d := by
  unfold truncateTime
  have h1 : ¬ d ≤ 0 := by omega
  simp only [h1, if_false]
  have := Int.emod_nonneg (t + zeroTimeOffset) (by omega : d ≠ 0)
  have := Int.emod_lt_of_pos (t + zeroTimeOffset) hd
  omega

theorem createSG_ok (d d' : Data) (dbn rpn : String) (ts : Int) (hlo : minNanoTime ≤ ts) (hhi : ts ≤ maxNanoTime)
    (h : createShardGroup d dbn rpn ts = .ok d') (hok : DataOK d) : DataOK d' := by
  unfold createShardGroup at h
  by_cases hn : d.dataNodes.isEmpty = true
  · simp only [hn, if_true] at h; cases h; exact hok
  simp only [hn, Bool.false_eq_true, if_false] at h
  cases hdb : findDB d dbn with
  | none => simp [hdb] at h
  | some db =>
    simp only [hdb] at h
    cases hrp : db.findRP rpn with
    | none => simp [hrp] at h
    | some rp =>
      simp only [hrp] at h
      by_cases hg : (rp.groupAt ts).isSome = true
      · simp only [hg, if_true] at h; cases h; exact hok
      simp only [hg, Bool.false_eq_true, if_false] at h
      cases h
      have hrpok : RPOK rp := hok db (findDB_mem _ _ _ hdb) rp (findRP_mem _ _ _ hrp)
      have hnone : (rp.groups.find? fun g => g.covers ts) = none := by
        have : rp.groupAt ts = none := by
          cases hh : rp.groupAt ts with
          | none => rfl
          | some x => simp [hh] at hg
        exact this
      obtain ⟨htl, hth⟩ := truncateTime_bounds ts rp.sgDuration hrpok.1
      unfold Data.mapRP
      refine forall_mapFirst_found DBOK _ _ _ ?_ (dataOK_of_dbs _ d rfl hok)
      intro db2 hdb2 hdb2ok
      have : db2 = db := by
        have h2 : findDB d dbn = some db2 := hdb2
        rw [hdb] at h2; exact (Option.some.inj h2).symm
      subst this
      refine forall_mapFirst_found RPOK _ _ _ ?_ hdb2ok
      intro rp2 hrp2 _
      have : rp2 = rp := by
        have h2 : db2.findRP rpn = some rp2 := hrp2
        rw [hrp] at h2; exact (Option.some.inj h2).symm
      subst this
      refine ⟨hrpok.1, ?_⟩
      apply groupsOK_perm _ _ (sortBy_perm sgLt _).symm
      -- bounds of the clipped range
      have hs0 : (if truncateTime ts rp2.sgDuration < minNanoTime then minNanoTime else truncateTime ts rp2.sgDuration) ≤ ts := by
        split <;> omega
      have he0 : ts < (if truncateTime ts rp2.sgDuration + rp2.sgDuration > maxNanoTime then maxNanoTime + 1
          else truncateTime ts rp2.sgDuration + rp2.sgDuration) := by
        split <;> omega
      obtain ⟨hcs, hce⟩ := clip_le ts rp2.groups _ _ hs0 he0
      apply groupsOK_snoc _ _ hrpok.2
      · refine ⟨?_, ?_⟩
        · show (clip ts rp2.groups _).1 ≤ (clip ts rp2.groups _).2
          omega
        · intro tr htr; simp at htr
      · exact new_group_apart rp2.groups hrpok.2.1 ts _ _ hnone _ rfl rfl rfl

end InfluxVerif.Meta
