/-
C19 — the engine's writer, snapshotter and reader as interleaved atomic steps (at the
granularity of the code's critical sections), for the one guarantee of the property that is
about logic rather than about the Go runtime: a read sees at least every write acknowledged
before it began.  Core Lean only.
-/
namespace InfluxVerif.Sched

abbrev W := Nat    -- an acknowledged write (its identity)

structure St where
  cache : List W := []      -- the hot cache
  snap : List W := []       -- the snapshot being written out
  files : List W := []      -- installed TSM files
  acked : List W := []
  deriving Repr

inductive Step
  | write (w : W)           -- Cache.WriteMulti + WAL append + fsync, under the engine's read lock
  | snapBegin               -- Cache.Snapshot under the engine's write lock: snapshot := cache, cache := ∅
  | snapInstall             -- FileStore.Replace: the snapshot's file becomes visible
  | snapClear               -- Cache.ClearSnapshot(true)
  | compact                 -- a compaction replaces files by files with the same content
  deriving Repr

def step (s : St) : Step → St
  | .write w => { s with cache := w :: s.cache, acked := w :: s.acked }
  | .snapBegin => if s.snap.isEmpty then { s with snap := s.cache, cache := [] } else s
  | .snapInstall => { s with files := s.snap ++ s.files }
  | .snapClear => if s.snap.all (s.files.contains ·) then { s with snap := [] } else s   -- only after the install
  | .compact => s

def run (s : St) (steps : List Step) : St := steps.foldl step s

/-- the reader as the code does it: first the cache (store and snapshot), later the files -/
def readCacheFirst (atCache atFiles : St) : List W := atCache.cache ++ atCache.snap ++ atFiles.files

/-- the other order: files first, the cache later -/
def readFilesFirst (atFiles atCache : St) : List W := atFiles.files ++ atCache.cache ++ atCache.snap

end InfluxVerif.Sched

namespace InfluxVerif.Sched

/-! ### concurrent first writes to a new field (tsdb/shard.go: validateSeriesAndFields,
createFieldsAndMeasurements, MeasurementFields.CreateFieldIfNotExists) -/

abbrev Ty := Nat      -- a field type

inductive Pc
  | start       -- nothing done yet
  | validated   -- the field validator found no conflict
  | toCreate    -- the field did not exist at the second look: it is in fieldsToCreate
  | ready       -- field exists (or was created): the value goes to the engine
  | done        -- value stored
  | rejected    -- the write failed with a field type conflict
  deriving Repr, DecidableEq

structure Writer where
  ty : Ty
  pc : Pc := .start
  deriving Repr

structure FSt where
  field : Option Ty := none       -- the new field's type, once created
  stored : List Ty := []          -- the types of the values accepted so far
  ws : List Writer := []
  deriving Repr

/-- one atomic step of writer `w`; `recheck` = the second look compares the type (the repaired
code) or only tests existence (the pinned code) -/
def wstep (recheck : Bool) (field : Option Ty) (w : Writer) : Option Ty × Option Ty × Writer :=
  -- returns (new field, value stored now, writer)
  match w.pc with
  | .start =>
    match field with
    | some t => (field, none, { w with pc := if t = w.ty then .validated else .rejected })
    | none => (field, none, { w with pc := .validated })
  | .validated =>
    match field with
    | some t => (field, none, { w with pc := if recheck && t != w.ty then .rejected else .ready })
    | none => (field, none, { w with pc := .toCreate })
  | .toCreate =>
    match field with
    | some t => (field, none, { w with pc := if t = w.ty then .ready else .rejected })
    | none => (some w.ty, none, { w with pc := .ready })
  | .ready => (field, some w.ty, { w with pc := .done })
  | .done => (field, none, w)
  | .rejected => (field, none, w)

def fstep (recheck : Bool) (s : FSt) (i : Nat) : FSt :=
  match s.ws[i]? with
  | none => s
  | some w =>
    let (f, v, w') := wstep recheck s.field w
    { field := f, stored := (match v with | some t => t :: s.stored | none => s.stored), ws := s.ws.set i w' }

def frun (recheck : Bool) (s : FSt) (sched : List Nat) : FSt := sched.foldl (fstep recheck) s

end InfluxVerif.Sched
