// Package c17: the real retention.Service (one enforcement pass at a time) over the real meta
// FSM and a recording TSDBStore, against the Lean model InfluxVerif.Retention.
package c17

import (
	"errors"
	"fmt"
	"os"
	"regexp"
	"strconv"
	"strings"
	"sync"
	"time"

	"github.com/influxdata/influxdb/services/meta"
	"github.com/influxdata/influxdb/services/retention"
	"github.com/influxdata/influxdb/toml"
	"verifharness/fw"
	"verifharness/props/c08"
	"verifharness/metah"
	"verifharness/shardh"
)

type Prop struct{}

func (Prop) ID() string     { return "C17" }
func (Prop) Model() string  { return "meta" }
func (Prop) Parallel() int  { return 16 }
func (Prop) Stateful() bool { return true }
func (Prop) Describe(cfg *fw.Config) {
	cfg.Rule = "policies with infinite and finite durations (multiples of 30 min), shard groups placed relative to the wall clock so that their end + duration lies on both sides of now (never closer than a few seconds: the case waits if the clock is within 10 s of a half-hour boundary), truncated / deleted (recent and old) groups, altered durations, local shard sets with unknown ids, metadata and store errors injected per group / shard / prune, 1-4 consecutive passes; non-trivial = a pass that marks or deletes something; distinct = distinct op list"
}

func (Prop) KeepOp(i int, op string) bool { return i == 0 }

var nowRe = regexp.MustCompile(`now([+-]\d+)`)

const halfHour = int64(30 * 60 * 1e9)

func (Prop) Prepare(c fw.Case) fw.Case {
	for {
		ph := time.Now().UnixNano() % halfHour
		if ph > int64(10e9) && ph < halfHour-int64(20e9) {
			break
		}
		time.Sleep(time.Second)
	}
	now := time.Now().UnixNano()
	out := fw.Case{Tags: c.Tags}
	for _, op := range c.Ops {
		out.Ops = append(out.Ops, nowRe.ReplaceAllStringFunc(op, func(m string) string {
			off, _ := strconv.ParseInt(m[3:], 10, 64)
			return strconv.FormatInt(now+off, 10)
		}))
	}
	return out
}

const hourNs = int64(3600 * 1e9)
const dayNs = 24 * hourNs

func csvInts(r *fw.Rand, max, n int) string {
	if n == 0 {
		return "-"
	}
	var s []string
	seen := map[int]bool{}
	for i := 0; i < n; i++ {
		v := 1 + r.Intn(max)
		if seen[v] {
			continue
		}
		seen[v] = true
		s = append(s, fmt.Sprint(v))
	}
	return strings.Join(s, ",")
}

func genCase(r *fw.Rand) fw.Case {
	ops := []string{"reset 1"}
	nn := 1 + r.Intn(3)
	for i := 1; i <= nn; i++ {
		ops = append(ops, fmt.Sprintf("createdatanode h%d t%d", i, i))
	}
	ops = append(ops, "createdb db0")
	durs := []int64{0, hourNs, 2 * hourNs, dayNs, 7 * dayNs, 36 * hourNs}
	sgds := []int64{0, hourNs, dayNs, 7 * dayNs}
	nrp := 1 + r.Intn(3)
	for i := 0; i < nrp; i++ {
		ops = append(ops, fmt.Sprintf("createrp db0 rp%d 1 %d %d 0", i, durs[r.Intn(len(durs))], sgds[r.Intn(len(sgds))]))
	}
	if r.Chance(0.3) {
		ops = append(ops, "createdb db1", fmt.Sprintf("createrp db1 rp0 1 %d 0 0", durs[1+r.Intn(len(durs)-1)]))
	}
	ngroups := 0
	offs := []int64{0, -hourNs, -2 * hourNs, -3 * hourNs, -dayNs, -2 * dayNs, -8 * dayNs, -15 * dayNs, -40 * hourNs, hourNs, -30 * dayNs}
	steps := 3 + r.Intn(12)
	for i := 0; i < steps; i++ {
		switch r.Intn(12) {
		case 0, 1, 2, 3, 4:
			ngroups++
			db, rp := "db0", fmt.Sprintf("rp%d", r.Intn(nrp))
			if r.Chance(0.15) {
				db, rp = "db1", "rp0"
			}
			ops = append(ops, fmt.Sprintf("createsg %s %s now%+d", db, rp, offs[r.Intn(len(offs))]-int64(r.Intn(1000))))
		case 5:
			ops = append(ops, fmt.Sprintf("deletesgid %d %s", 1+r.Intn(ngroups+1), []string{"recent", "old"}[r.Intn(2)]))
		case 6:
			ops = append(ops, fmt.Sprintf("truncate now%+d", offs[r.Intn(len(offs))]))
		case 7:
			ops = append(ops, fmt.Sprintf("updaterp db0 rp%d - %d - - 0", r.Intn(nrp), durs[r.Intn(len(durs))]))
		case 8:
			// a batch of writes, not in time order, some around the retention boundary: only
			// points older than the retention period may be dropped
			var pts []string
			for k, n := 0, 2+r.Intn(5); k < n; k++ {
				// (never exactly an offset: the writer reads the clock itself, a moment after the
				// case's `now`, so a point exactly one retention period old is already too old for it)
				pts = append(pts, fmt.Sprintf("now%+d:%d", offs[r.Intn(len(offs))]-int64(1+r.Intn(1000)), c08.SeriesHash(r.Intn(8))))
			}
			ops = append(ops, fmt.Sprintf("map now+0 db0 rp%d %s", r.Intn(nrp), strings.Join(pts, ",")))
		default:
			loc := csvInts(r, ngroups*2+3, r.Intn(ngroups*2+3))
			fsg, fsh := "-", "-"
			if r.Chance(0.25) {
				fsg = csvInts(r, ngroups+1, 1+r.Intn(2))
			}
			if r.Chance(0.25) {
				fsh = csvInts(r, ngroups*2+3, 1+r.Intn(2))
			}
			fpr := 0
			if r.Chance(0.15) {
				fpr = 1
			}
			ops = append(ops, fmt.Sprintf("pass now+0 %s %s %s %d", loc, fsg, fsh, fpr), "dump")
		}
	}
	ops = append(ops, "pass now+0 1,2,3,4,5,6,7,8,9,10,11,12 - - 0", "dump")
	return fw.Case{Ops: ops}
}

func (Prop) Generate(r *fw.Rand, tier string) []fw.Case {
	n := 300
	if tier == "thorough" {
		n = 5000
	}
	var cases []fw.Case
	for i := 0; i < n; i++ {
		cases = append(cases, genCase(r.Fork()))
	}
	// the local deletion itself, on a real store: series shared with the unexpired shard and
	// series only the expired shard holds
	for i := 0; i < 4+n/100; i++ {
		all := []string{"m0|-", "m0|host=a", "m0|host=b", "m0|host=a,region=x", "m1|-", "m1|host=a", "m1|host=b", "m2|host=a", "m2|region=x"}
		var shared, only1 []string
		for _, sr := range all {
			switch r.Intn(3) {
			case 0:
				shared = append(shared, sr)
			case 1:
				only1 = append(only1, sr)
			}
		}
		join := func(l []string) string {
			if len(l) == 0 {
				return "-"
			}
			return strings.Join(l, ";")
		}
		cases = append(cases, fw.Case{Ops: []string{"reset 1", fmt.Sprintf("localdel %s %s %s %s", []string{"inmem", "tsi1"}[i%2], []string{"disabled", "plain"}[(i/2)%2], join(shared), join(only1))}, Tags: []string{"local-delete"}})
	}
	return cases
}

// ---- mocks around the real FSM ----

type env struct {
	m         *metah.M
	mu        sync.Mutex
	frozen    bool
	passDone  chan struct{}
	failSG    map[uint64]bool
	failShard map[uint64]bool
	failPrune bool
	local     []uint64
	marked    []uint64
	deleted   []uint64
	pruned    bool
}

func (e *env) Databases() []meta.DatabaseInfo {
	e.mu.Lock()
	defer e.mu.Unlock()
	if e.frozen {
		return nil
	}
	return e.m.F.Data().CloneDatabases()
}
func (e *env) DeleteShardGroup(database, policy string, id uint64) error {
	e.mu.Lock()
	defer e.mu.Unlock()
	if e.frozen {
		return nil
	}
	if e.failSG[id] {
		return errors.New("meta service unavailable")
	}
	res := e.m.Step(fmt.Sprintf("deletesg %s %s %d recent", metah.UnNm(database), metah.UnNm(policy), id))
	if res != "ok" {
		return errors.New(res)
	}
	e.marked = append(e.marked, id)
	return nil
}
func (e *env) PruneShardGroups() error {
	e.mu.Lock()
	defer e.mu.Unlock()
	if e.frozen {
		return nil
	}
	defer func() {
		e.frozen = true
		close(e.passDone)
	}()
	if e.failPrune {
		return errors.New("meta service unavailable")
	}
	e.m.Step("prune")
	e.pruned = true
	return nil
}
func (e *env) ShardIDs() []uint64 {
	e.mu.Lock()
	defer e.mu.Unlock()
	if e.frozen {
		return nil
	}
	return append([]uint64(nil), e.local...)
}
func (e *env) DeleteShard(id uint64) error {
	e.mu.Lock()
	defer e.mu.Unlock()
	if e.frozen {
		return nil
	}
	if e.failShard[id] {
		return errors.New("disk error")
	}
	e.deleted = append(e.deleted, id)
	return nil
}

func parseSet(s string) map[uint64]bool {
	m := map[uint64]bool{}
	if s == "-" {
		return m
	}
	for _, x := range strings.Split(s, ",") {
		v, _ := strconv.ParseUint(x, 10, 64)
		m[v] = true
	}
	return m
}
func parseList(s string) []uint64 {
	var out []uint64
	if s == "-" {
		return out
	}
	for _, x := range strings.Split(s, ",") {
		v, _ := strconv.ParseUint(x, 10, 64)
		out = append(out, v)
	}
	return out
}
func showList(xs []uint64) string {
	if len(xs) == 0 {
		return "-"
	}
	var s []string
	for _, x := range xs {
		s = append(s, fmt.Sprint(x))
	}
	return strings.Join(s, ",")
}

func runPass(m *metah.M, f []string) (*env, string) {
	e := &env{m: m, passDone: make(chan struct{}), local: parseList(f[2]), failSG: parseSet(f[3]), failShard: parseSet(f[4]), failPrune: f[5] == "1"}
	cfg := retention.NewConfig()
	cfg.Enabled = true
	cfg.CheckInterval = toml.Duration(2 * time.Millisecond)
	s := retention.NewService(cfg)
	s.MetaClient = e
	s.TSDBStore = e
	if err := s.Open(); err != nil {
		return e, "err-open"
	}
	select {
	case <-e.passDone:
	case <-time.After(10 * time.Second):
		s.Close()
		return e, "hang"
	}
	s.Close()
	pr := 0
	if e.pruned {
		pr = 1
	}
	return e, fmt.Sprintf("marked=%s deleted=%s prune=%d", showList(e.marked), showList(e.deleted), pr)
}

// localDelete: the deletion of an expired shard on a real store (tsdb.Store.DeleteShard is what
// the retention service calls): the database has a second, unexpired shard; see
// shardh.RetentionDelete.
func localDelete(index, mode, shared, only1 string) (out string) {
	defer func() {
		if r := recover(); r != nil {
			out = "panic:" + strings.ReplaceAll(fmt.Sprint(r), " ", "_")
		}
	}()
	dir, err := os.MkdirTemp(shardh.WorkDir("c17"), "s-")
	if err != nil {
		return "err:" + err.Error()
	}
	defer os.RemoveAll(dir)
	h, err := shardh.New(dir, index+"+2")
	if err != nil {
		return "err:" + strings.ReplaceAll(err.Error(), " ", "_")
	}
	defer h.Close()
	return h.RetentionDelete(mode, shared, only1)
}

func (Prop) RunImpl(c fw.Case) []string {
	m := metah.New(true)
	out := make([]string, len(c.Ops))
	for i, op := range c.Ops {
		f := strings.Fields(op)
		if f[0] == "pass" {
			_, out[i] = runPass(m, f)
		} else if f[0] == "localdel" {
			if len(f) != 5 {
				out[i] = "bad-op"
				continue
			}
			out[i] = localDelete(f[1], f[2], f[3], f[4])
		} else if f[0] == "map" {
			out[i] = c08.StepOp(m, op)
		} else {
			out[i] = m.Step(op)
		}
	}
	return out
}

// Oracle: the property judged on the real metadata before each pass.
func (Prop) Oracle(c fw.Case, implOut []string) fw.Verdict {
	m := metah.New(true)
	for i, op := range c.Ops {
		f := strings.Fields(op)
		if f[0] == "localdel" {
			if i < len(implOut) && !strings.HasPrefix(implOut[i], "kept ") {
				o := implOut[i]
				return fw.Verdict{OK: false, Why: op + " => " + o, Signature: "local deletion of an expired shard: " + strings.Fields(o)[0]}
			}
			continue
		}
		if f[0] == "map" {
			// a write is dropped as too old only if it is older than the retention period
			now, _ := strconv.ParseInt(f[1], 10, 64)
			var dur int64
			for _, db := range m.F.Data().Databases {
				if db.Name != metah.Nm(f[2]) {
					continue
				}
				for _, rp := range db.RetentionPolicies {
					if rp.Name == metah.Nm(f[3]) {
						dur = int64(rp.Duration)
					}
				}
			}
			ts, dropped := c08.Dropped(m, op)
			for k := range ts {
				if dropped[k] && (dur == 0 || ts[k] >= now-dur+int64(5*time.Second)) {
					return fw.Verdict{OK: false, Why: fmt.Sprintf("%s: the point at %d is dropped as too old; the retention period (%d) reaches back to %d", op, ts[k], dur, now-dur), Signature: "a write younger than the retention period is dropped"}
				}
			}
			continue
		}
		if f[0] != "pass" {
			m.Step(op)
			continue
		}
		now, _ := strconv.ParseInt(f[1], 10, 64)
		before := m.F.Data().Clone()
		e, res := runPass(m, f)
		if res == "hang" || res == "err-open" {
			return fw.Verdict{OK: false, Why: op + " => " + res, Signature: "retention pass " + res}
		}
		// shard -> (group, policy) in the metadata the pass started from
		type gi struct {
			g  meta.ShardGroupInfo
			rp meta.RetentionPolicyInfo
		}
		byShard := map[uint64]gi{}
		for _, db := range before.Databases {
			for _, rp := range db.RetentionPolicies {
				for _, g := range rp.ShardGroups {
					for _, s := range g.Shards {
						byShard[s.ID] = gi{g, rp}
					}
				}
			}
		}
		margin := int64(5 * time.Second)
		expired := func(x gi) (yes, near bool) {
			if x.rp.Duration == 0 {
				return false, false
			}
			d := now - (x.g.EndTime.UnixNano() + int64(x.rp.Duration))
			return d > 0, d > -margin && d < margin
		}
		for _, id := range e.deleted {
			x, known := byShard[id]
			if !known {
				return fw.Verdict{OK: false, Why: fmt.Sprintf("%s: local shard %d unknown to the metadata was deleted", op, id), Signature: "unknown shard deleted"}
			}
			exp, near := expired(x)
			if !x.g.Deleted() && !exp && !near {
				why := fmt.Sprintf("%s: shard %d of live group %d deleted although the group's range is not older than the retention period (end %d, duration %d, now %d)", op, id, x.g.ID, x.g.EndTime.UnixNano(), int64(x.rp.Duration), now)
				sig := "young shard deleted"
				if x.rp.Duration == 0 {
					sig = "shard of infinite policy deleted"
				}
				return fw.Verdict{OK: false, Why: why, Signature: sig}
			}
		}
		// completeness: without injected errors every expired group is marked and every local
		// shard of a deleted or expired group is removed
		delSet := map[uint64]bool{}
		for _, id := range e.deleted {
			delSet[id] = true
		}
		markedSet := map[uint64]bool{}
		for _, id := range e.marked {
			markedSet[id] = true
		}
		for _, db := range before.Databases {
			for _, rp := range db.RetentionPolicies {
				for _, g := range rp.ShardGroups {
					exp, near := expired(gi{g, rp})
					if near {
						continue
					}
					if exp && !g.Deleted() && !e.failSG[g.ID] && !markedSet[g.ID] {
						return fw.Verdict{OK: false, Why: fmt.Sprintf("%s: expired group %d of %s.%s was not marked deleted", op, g.ID, db.Name, rp.Name), Signature: "expired group not marked"}
					}
					if !exp && !g.Deleted() && markedSet[g.ID] {
						return fw.Verdict{OK: false, Why: fmt.Sprintf("%s: group %d of %s.%s marked deleted although not expired", op, g.ID, db.Name, rp.Name), Signature: "unexpired group marked"}
					}
					if g.Deleted() || (exp && !e.failSG[g.ID]) {
						for _, s := range g.Shards {
							isLocal := false
							for _, l := range e.local {
								if l == s.ID {
									isLocal = true
								}
							}
							if isLocal && !e.failShard[s.ID] && !delSet[s.ID] {
								return fw.Verdict{OK: false, Why: fmt.Sprintf("%s: local shard %d of deleted/expired group %d was not removed", op, s.ID, g.ID), Signature: "local shard of deleted group kept"}
							}
						}
					}
				}
			}
		}
	}
	return fw.Verdict{OK: true}
}

func (Prop) Trivial(c fw.Case, out []string) bool {
	for i, op := range c.Ops {
		if strings.HasPrefix(op, "pass") && i < len(out) && !strings.HasPrefix(out[i], "marked=- deleted=-") {
			return false
		}
	}
	return true
}
