package c02

import (
	"fmt"
	"strconv"
	"strings"

	"github.com/influxdata/influxdb/tsdb/engine/tsm1"
	"verifharness/fw"
)

// The value-block algebra every read and compaction path is built from
// (tsdb/engine/tsm1/encoding.gen.go): Merge, Deduplicate, Exclude, Include — run on the
// generic Values and on each typed instantiation of the template; all must agree.

type tv struct {
	t int64
	v int64
}

func parseTVs(s string) []tv {
	if s == "-" {
		return nil
	}
	var out []tv
	for _, it := range strings.Split(s, ",") {
		a, b, _ := strings.Cut(it, ":")
		t, _ := strconv.ParseInt(a, 10, 64)
		v, _ := strconv.ParseInt(b, 10, 64)
		out = append(out, tv{t, v})
	}
	return out
}

func showTVs(ts []int64, vs []string) string {
	if len(ts) == 0 {
		return "-"
	}
	var sb strings.Builder
	for i := range ts {
		if i > 0 {
			sb.WriteByte(',')
		}
		fmt.Fprintf(&sb, "%d:%s", ts[i], vs[i])
	}
	return sb.String()
}

func mkGeneric(l []tv) tsm1.Values {
	var out tsm1.Values
	for _, p := range l {
		out = append(out, tsm1.NewIntegerValue(p.t, p.v))
	}
	return out
}
func mkInt(l []tv) tsm1.IntegerValues {
	var out tsm1.IntegerValues
	for _, p := range l {
		out = append(out, tsm1.NewIntegerValue(p.t, p.v).(tsm1.IntegerValue))
	}
	return out
}
func mkFloat(l []tv) tsm1.FloatValues {
	var out tsm1.FloatValues
	for _, p := range l {
		out = append(out, tsm1.NewFloatValue(p.t, float64(p.v)).(tsm1.FloatValue))
	}
	return out
}
func mkUnsigned(l []tv) tsm1.UnsignedValues {
	var out tsm1.UnsignedValues
	for _, p := range l {
		out = append(out, tsm1.NewUnsignedValue(p.t, uint64(p.v)).(tsm1.UnsignedValue))
	}
	return out
}
func mkString(l []tv) tsm1.StringValues {
	var out tsm1.StringValues
	for _, p := range l {
		out = append(out, tsm1.NewStringValue(p.t, strconv.FormatInt(p.v, 10)).(tsm1.StringValue))
	}
	return out
}

func valueOp(f []string) (res string) {
	defer func() {
		if r := recover(); r != nil {
			res = "panic:" + strings.ReplaceAll(fmt.Sprint(r), " ", "_")
		}
	}()
	var a, b []tv
	var lo, hi int64
	a = parseTVs(f[1])
	switch f[0] {
	case "vmerge":
		b = parseTVs(f[2])
	case "vexcl", "vincl":
		lo, _ = strconv.ParseInt(f[2], 10, 64)
		hi, _ = strconv.ParseInt(f[3], 10, 64)
	}
	var outs []string
	{
		x, y := mkGeneric(a), mkGeneric(b)
		var r tsm1.Values
		switch f[0] {
		case "vmerge":
			r = x.Merge(y)
		case "vdedup":
			r = x.Deduplicate()
		case "vexcl":
			r = x.Exclude(lo, hi)
		case "vincl":
			r = x.Include(lo, hi)
		}
		var ts []int64
		var vs []string
		for _, v := range r {
			ts = append(ts, v.UnixNano())
			vs = append(vs, fmt.Sprint(v.Value()))
		}
		outs = append(outs, showTVs(ts, vs))
	}
	{
		x, y := mkInt(a), mkInt(b)
		var r tsm1.IntegerValues
		switch f[0] {
		case "vmerge":
			r = x.Merge(y)
		case "vdedup":
			r = x.Deduplicate()
		case "vexcl":
			r = x.Exclude(lo, hi)
		case "vincl":
			r = x.Include(lo, hi)
		}
		var ts []int64
		var vs []string
		for _, v := range r {
			ts = append(ts, v.UnixNano())
			vs = append(vs, fmt.Sprint(v.Value()))
		}
		outs = append(outs, showTVs(ts, vs))
	}
	{
		x, y := mkFloat(a), mkFloat(b)
		var r tsm1.FloatValues
		switch f[0] {
		case "vmerge":
			r = x.Merge(y)
		case "vdedup":
			r = x.Deduplicate()
		case "vexcl":
			r = x.Exclude(lo, hi)
		case "vincl":
			r = x.Include(lo, hi)
		}
		var ts []int64
		var vs []string
		for _, v := range r {
			ts = append(ts, v.UnixNano())
			vs = append(vs, strconv.FormatInt(int64(v.Value().(float64)), 10))
		}
		outs = append(outs, showTVs(ts, vs))
	}
	{
		x, y := mkUnsigned(a), mkUnsigned(b)
		var r tsm1.UnsignedValues
		switch f[0] {
		case "vmerge":
			r = x.Merge(y)
		case "vdedup":
			r = x.Deduplicate()
		case "vexcl":
			r = x.Exclude(lo, hi)
		case "vincl":
			r = x.Include(lo, hi)
		}
		var ts []int64
		var vs []string
		for _, v := range r {
			ts = append(ts, v.UnixNano())
			vs = append(vs, fmt.Sprint(v.Value()))
		}
		outs = append(outs, showTVs(ts, vs))
	}
	{
		x, y := mkString(a), mkString(b)
		var r tsm1.StringValues
		switch f[0] {
		case "vmerge":
			r = x.Merge(y)
		case "vdedup":
			r = x.Deduplicate()
		case "vexcl":
			r = x.Exclude(lo, hi)
		case "vincl":
			r = x.Include(lo, hi)
		}
		var ts []int64
		var vs []string
		for _, v := range r {
			ts = append(ts, v.UnixNano())
			vs = append(vs, v.Value().(string))
		}
		outs = append(outs, showTVs(ts, vs))
	}
	for i, o := range outs[1:] {
		if o != outs[0] {
			return fmt.Sprintf("TYPED-DIFFERS[%d] generic=%s typed=%s", i+1, outs[0], o)
		}
	}
	return outs[0]
}

func genTVs(r *fw.Rand, sorted bool, allowEmpty bool) string {
	n := r.Intn(7)
	if !allowEmpty && n == 0 {
		n = 1
	}
	if r.Intn(8) == 0 {
		n = 20 + r.Intn(30)
	}
	if n == 0 {
		return "-"
	}
	var items []string
	t := int64(r.Intn(6)) - 2
	for i := 0; i < n; i++ {
		if sorted {
			t += 1 + int64(r.Intn(3))
		} else {
			t = int64(r.Intn(12)) - 2
		}
		items = append(items, fmt.Sprintf("%d:%d", t, r.Intn(100)))
	}
	return strings.Join(items, ",")
}

// genValueCase: a stream of block-algebra ops (no shard needed).
func genValueCase(r *fw.Rand) fw.Case {
	ops := []string{"reset"}
	for i := 0; i < 40; i++ {
		switch r.Intn(6) {
		case 0, 1:
			ops = append(ops, "vmerge "+genTVs(r, true, true)+" "+genTVs(r, true, true))
		case 2:
			// unsorted / duplicated arguments: the de-duplication inside Merge
			ops = append(ops, "vmerge "+genTVs(r, r.Intn(2) == 0, true)+" "+genTVs(r, false, true))
		case 3:
			ops = append(ops, "vdedup "+genTVs(r, r.Intn(3) == 0, true))
		case 4:
			lo := int64(r.Intn(16)) - 3
			ops = append(ops, fmt.Sprintf("vexcl %s %d %d", genTVs(r, true, true), lo, lo+int64(r.Intn(8))-2))
		case 5:
			lo := int64(r.Intn(16)) - 3
			ops = append(ops, fmt.Sprintf("vincl %s %d %d", genTVs(r, true, true), lo, lo+int64(r.Intn(8))-2))
		}
	}
	return fw.Case{Ops: ops, Tags: []string{"values"}}
}
