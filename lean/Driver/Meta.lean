import Driver.Util
import InfluxVerif.Model.MetaCodec
import InfluxVerif.Model.Routing
import InfluxVerif.Model.Retention
import InfluxVerif.Model.Auth
import InfluxVerif.Gen.C16
import InfluxVerif.Gen.C06
namespace Driver.MetaD
open InfluxVerif.Meta

/-- name tokens: `~` empty string, `~L` a 256-character name -/
def nm (s : String) : String :=
  if s = "~" then "" else if s = "~L" then String.ofList (List.replicate 256 'x') else s
def unNm (s : String) : String :=
  if s = "" then "~" else if s.length = 256 then "~L" else s

def optInt? (s : String) : Option (Option Int) := if s = "-" then some none else s.toInt?.map some
def optStr (s : String) : Option String := if s = "-" then none else some (nm s)
def age? : String → Option Del
  | "recent" => some .recent | "old" => some .old | "live" => some .live | _ => none
def b01? : String → Option Bool
  | "0" => some false | "1" => some true | _ => none

def showDel : Del → String
  | .live => "L" | .recent => "R" | .old => "O"

def showNode (n : Node) : String := s!"{n.id}:{unNm n.addr}:{unNm n.tcp}"
def showShard (s : Shard) : String := s!"{s.id}({",".intercalate (s.owners.map toString)})"
def showSG (g : SG) : String :=
  let tr := match g.trunc with | some t => toString t | none => "-"
  s!"{g.id}:{g.start}:{g.stop}:{showDel g.del}:{tr}:" ++ "{" ++ " ".intercalate (g.shards.map showShard) ++ "}"
def sgCanonLt (a b : SG) : Bool :=
  if a.effEnd ≠ b.effEnd then a.effEnd < b.effEnd
  else if a.start ≠ b.start then a.start < b.start else a.id < b.id
def showSub (s : Sub) : String := s!"{unNm s.name}:{s.mode}:{"|".intercalate s.dests}"
def showRP (r : RP) : String :=
  s!"{unNm r.name}" ++ "{" ++ s!"r={r.replicaN},d={r.duration},s={r.sgDuration},g=[{";".intercalate ((sortBy sgCanonLt r.groups).map showSG)}],subs=[{";".intercalate (r.subs.map showSub)}]" ++ "}"
def showDB (b : DB) : String :=
  s!"{unNm b.name}" ++ "{" ++ s!"def={unNm b.defaultRP},rps=[{";".intercalate (b.rps.map showRP)}],cqs=[{";".intercalate (b.cqs.map fun (n, q) => s!"{unNm n}:{q}")}]" ++ "}"
def showUser (u : User) : String :=
  s!"{unNm u.name}:{u.hash}:{if u.admin then 1 else 0}:" ++ "{" ++ ",".intercalate (u.privs.map fun (d, p) => s!"{unNm d}={p}") ++ "}"

def dump (d : Data) : String :=
  s!"D t={d.term} i={d.index} c={d.clusterID} mn={d.maxNode} msg={d.maxSG} ms={d.maxShard} meta=[{";".intercalate (d.metaNodes.map showNode)}] data=[{";".intercalate (d.dataNodes.map showNode)}] dbs=[{";".intercalate (d.dbs.map showDB)}] users=[{";".intercalate (d.users.map showUser)}]"

def parseCmd (toks : List String) : Option Cmd :=
  match toks with
  | ["createdb", n] => some (.createDatabase (nm n) none)
  | ["createdb", n, rp, r, d, s] =>
    match r.toInt?, d.toInt?, s.toInt? with
    | some r, some d, some s => some (.createDatabase (nm n) (some (nm rp, r, d, s)))
    | _, _, _ => none
  | ["dropdb", n] => some (.dropDatabase (nm n))
  | ["createrp", db, n, r, d, s, df] =>
    match r.toInt?, d.toInt?, s.toInt?, b01? df with
    | some r, some d, some s, some df => some (.createRP (nm db) (nm n) r d s df)
    | _, _, _, _ => none
  | ["droprp", db, n] => some (.dropRP (nm db) (nm n))
  | ["updaterp", db, n, nn, d, r, s, df] =>
    match optInt? d, optInt? r, optInt? s, b01? df with
    | some d, some r, some s, some df => some (.updateRP (nm db) (nm n) (optStr nn) d r s df)
    | _, _, _, _ => none
  | ["createsg", db, rp, ts] => ts.toInt?.map (.createSG (nm db) (nm rp))
  | ["deletesg", db, rp, id, a] =>
    match id.toNat?, age? a with | some id, some a => some (.deleteSG (nm db) (nm rp) id a) | _, _ => none
  | ["truncate", ts] => ts.toInt?.map .truncate
  | ["prune"] => some .prune
  | ["dropshard", id, a] => match id.toNat?, age? a with | some id, some a => some (.dropShard id a) | _, _ => none
  | ["copyowner", s, n] => match s.toNat?, n.toNat? with | some s, some n => some (.copyOwner s n) | _, _ => none
  | ["removeowner", s, n, a] =>
    match s.toNat?, n.toNat?, age? a with | some s, some n, some a => some (.removeOwner s n a) | _, _, _ => none
  | ["createdatanode", a, t] => some (.createDataNode (nm a) (nm t))
  | ["deletedatanode", id, a] => match id.toNat?, age? a with | some id, some a => some (.deleteDataNode id a) | _, _ => none
  | ["updatedatanode", id, a, t] => id.toNat?.map fun id => .updateDataNode id (nm a) (nm t)
  | ["createmetanode", a, t, r] => r.toNat?.map fun r => .createMetaNode (nm a) (nm t) r
  | ["deletemetanode", id] => id.toNat?.map .deleteMetaNode
  | ["setmetanode", a, t, r] => r.toNat?.map fun r => .setMetaNode (nm a) (nm t) r
  | ["createuser", n, h, a] => (b01? a).map fun a => .createUser (nm n) h a
  | ["dropuser", n] => some (.dropUser (nm n))
  | ["updateuser", n, h] => some (.updateUser (nm n) h)
  | ["setpriv", u, db, p] => p.toNat?.map fun p => .setPrivilege (nm u) (nm db) p
  | ["setadmin", u, a] => (b01? a).map fun a => .setAdmin (nm u) a
  | ["createcq", db, n, q] => some (.createCQ (nm db) (nm n) q)
  | ["dropcq", db, n] => some (.dropCQ (nm db) (nm n))
  | ["createsub", db, rp, n, m, ds, bad] =>
    some (.createSub (nm db) (nm rp) (nm n) m (splitCsv ds) (if bad = "-" then none else some bad))
  | ["dropsub", db, rp, n] => some (.dropSub (nm db) (nm rp) (nm n))
  | _ => none

/-- statement `id` of the generated table as a model statement -/
def stmtOf (id : Nat) : Option InfluxVerif.Auth.Stmt :=
  (InfluxVerif.Gen.C16.statements[id]?).map fun (k, adm, ps) =>
    { kind := k, createsAdmin := adm, privs := ps.map fun (a, n, p) => ⟨a, n, p⟩ }

/-- bcrypt stands behind this oracle: hash token `h<k>` is the hash of password `p<k>` -/
def verifyTok (pw hash : String) : Bool := pw.startsWith "p" && hash == "h" ++ (pw.drop 1).toString

def parseCarrier : String → Option InfluxVerif.Auth.Carrier
  | "none" => some .none | "basic" => some .password | "params" => some .password | "bearer" => some .bearer
  | _ => none

structure St where
  data : Data := {}
  auto : Bool := true
  k : Nat := 0
  held : Option Data := none
  node : InfluxVerif.Auth.Node := {}
  polledDBs : List String := []     -- the databases the node's meta client knows (after `poll`)

/-- request bodies of C07: schema type numbers → names (the types the harness can build) -/
def typeName : Nat → Option String
  | 1 => some "CreateNodeCommand" | 2 => some "DeleteNodeCommand" | 3 => some "CreateDatabaseCommand"
  | 4 => some "DropDatabaseCommand" | 5 => some "CreateRetentionPolicyCommand"
  | 6 => some "DropRetentionPolicyCommand" | 7 => some "SetDefaultRetentionPolicyCommand"
  | 8 => some "UpdateRetentionPolicyCommand" | 9 => some "CreateShardGroupCommand"
  | 10 => some "DeleteShardGroupCommand" | 11 => some "CreateContinuousQueryCommand"
  | 12 => some "DropContinuousQueryCommand" | 13 => some "CreateUserCommand" | 14 => some "DropUserCommand"
  | 15 => some "UpdateUserCommand" | 16 => some "SetPrivilegeCommand" | 17 => some "SetDataCommand"
  | 18 => some "SetAdminPrivilegeCommand" | 19 => some "UpdateNodeCommand"
  | 21 => some "CreateSubscriptionCommand" | 22 => some "DropSubscriptionCommand"
  | 23 => some "RemovePeerCommand" | 24 => some "CreateMetaNodeCommand" | 25 => some "CreateDataNodeCommand"
  | 26 => some "UpdateDataNodeCommand" | 27 => some "DeleteMetaNodeCommand" | 28 => some "DeleteDataNodeCommand"
  | 29 => some "SetMetaNodeCommand" | 30 => some "DropShardCommand" | 31 => some "TruncateShardGroupsCommand"
  | 32 => some "PruneShardGroupsCommand" | 33 => some "CopyShardOwnerCommand" | 34 => some "RemoveShardOwnerCommand"
  | _ => none

/-- the command a well-formed raw body of the harness stands for -/
def rawCmd : Nat → Option Cmd
  | 3 => some (.createDatabase "x" none)
  | 4 => some (.dropDatabase "x")
  | 13 => some (.createUser "u" "h" false)
  | 32 => some .prune
  | _ => none

def showErr (e : String) : String := "err:" ++ e.replace " " "_"

/-- `reset <autocreate>`, `dump`, or a command (answered `ok` / `err:<message>`);
the k-th command of a case is applied with index `k` and term `1 + k / 8`. -/
def step (s : St) (line : String) : St × String :=
  match splitWs line with
  | ["reset"] => ({}, "ok")
  | ["reset", a] => ({ auto := a = "1" }, "ok")
  | ["dump"] => (s, dump s.data)
  | ["snap"] =>
    let d' := snapshotRoundtrip s.data
    if d' = s.data then ({ s with data := d' }, "snap ok") else (s, "snap LOSSY")
  | ["hold"] => ({ s with held := some s.data }, "ok")
  | ["release"] =>
    match s.held with
    | none => (s, "bad-op")
    | some h => ({ s with held := none }, if (snapshotRoundtrip h).payload = (snapshotRoundtrip h).payload then "release same" else "release CHANGED")
  | ["samekey", _, _] =>
    -- two spellings of one series (tags in another order): one key, one hash, one shard
    (s, "ok")
  | ["map", now, db, rp, pts] =>
    let parsePt (x : String) : Option InfluxVerif.Routing.Pt :=
      match x.splitOn ":" with
      | [t, h] => match t.toInt?, h.toNat? with
        | some t, some h => some ⟨t, h⟩
        | _, _ => none
      | _ => none
    match now.toInt?, allSome ((splitCsv pts).map parsePt) with
    | some now, some pts =>
      match InfluxVerif.Routing.mapShards s.auto now s.data (nm db) (nm rp) pts with
      | (d', .error _) => ({ s with data := d', k := d'.index }, "err")
      | (d', .ok m) =>
        let show1 : Option (Nat × Nat) → String
          | none => "D"
          | some (g, sh) => s!"{g}.{sh}"
        ({ s with data := d', k := d'.index }, "ok " ++ joinCsv (m.map show1))
    | _, _ => (s, "bad-op")
  -- the local deletion of an expired shard on a real store: the unexpired shard of the same
  -- database keeps every series and point (judged on the implementation's side)
  | ["localdel", _, mode, shared, only1] =>
    let names (l : String) : List String := if l = "-" then [] else l.splitOn ";"
    let sh := names shared
    let o1 := names only1
    let all := sh ++ o1
    let ids (l : List String) : List Nat := l.map fun n => all.idxOf n
    let target := ids all
    let others2 : List (Option (List Nat)) := [some (ids sh)]
    let others1 : List (Option (List Nat)) := if mode = "disabled" then [none] else others2
    match InfluxVerif.Retention.deleteShardTwice target others1 others2 with
    | (ab, some rm) => (s, s!"kept {sh.length} removed {rm.length} first={if ab then "abandoned" else "done"}")
    | (_, none) => (s, "stuck")
  | ["pass", now, loc, fsg, fsh, fpr] =>
    match now.toInt?, allSome ((splitCsv loc).map String.toNat?), allSome ((splitCsv fsg).map String.toNat?),
          allSome ((splitCsv fsh).map String.toNat?) with
    | some now, some loc, some fsg, some fsh =>
      let env : InfluxVerif.Retention.Env :=
        { now := now, localShards := loc, failSG := fsg.contains, failShard := fsh.contains, failPrune := fpr = "1" }
      let r := InfluxVerif.Retention.pass s.data env
      let d' := InfluxVerif.Retention.applyPass s.auto s.data r
      ({ s with data := d', k := d'.index },
        s!"marked={joinCsv (r.marked.map fun m => toString m.2.2)} deleted={joinCsv (r.deletedLocal.map toString)} prune={if r.pruned then 1 else 0}")
    | _, _, _, _ => (s, "bad-op")
  | ["poll"] => ({ s with node := InfluxVerif.Auth.authPoll s.node s.data.users, polledDBs := s.data.dbs.map (·.name) }, "ok")
  | ["hq", c, u, pw, db, ids] =>
    match parseCarrier c, allSome ((splitCsv ids).map String.toNat?) with
    | some c, some ids =>
      match allSome (ids.map stmtOf) with
      | some q =>
        let (n, st) := InfluxVerif.Auth.httpQuery verifyTok s.node c (if u = "-" then "" else nm u) pw q (nm db)
        ({ s with node := n }, s!"{st} exec={if st = 200 then 1 else 0}")
      | none => (s, "bad-op")
    | _, _ => (s, "bad-op")
  | ["hw", c, u, pw, db] =>
    match parseCarrier c with
    | some c =>
      let (n, st) := InfluxVerif.Auth.httpWrite verifyTok s.node c (if u = "-" then "" else nm u) pw (nm db) (s.polledDBs.contains (nm db))
      ({ s with node := n }, s!"{st} wrote={if st = 204 then 1 else 0}")
    | none => (s, "bad-op")
  | ["hpw", c, u, pw, db] =>
    -- the Prometheus remote-write endpoint: the same decision as /write
    match parseCarrier c with
    | some c =>
      let (n, st) := InfluxVerif.Auth.httpWrite verifyTok s.node c (if u = "-" then "" else nm u) pw (nm db) (s.polledDBs.contains (nm db))
      ({ s with node := n }, s!"ok={if st = 204 then 1 else 0} wrote={if st = 204 then 1 else 0}")
    | none => (s, "bad-op")
  | ["authq", u, db, ids] =>
    match allSome ((splitCsv ids).map String.toNat?) with
    | some ids =>
      match allSome (ids.map stmtOf) with
      | some q =>
        let user := if u = "-" then none else InfluxVerif.Auth.lookupUser s.node (nm u)
        if u ≠ "-" && user.isNone then (s, "nouser") else
        (s, if InfluxVerif.Auth.authorizeQuery s.node.users.length user q (nm db) then "allow" else "deny")
      | none => (s, "bad-op")
    | none => (s, "bad-op")
  | ["authw", u, db] =>
    (s, if InfluxVerif.Auth.authorizeWrite s.node.users (nm u) (nm db) then "allow" else "deny")
  | ["authb", u, pw] =>
    let (n, a) := InfluxVerif.Auth.authBegin verifyTok s.node (nm u) pw
    ({ s with node := n }, match a with | .accepted => "accepted" | .rejected => "rejected" | .verified => "verified")
  | ["authf"] => ({ s with node := InfluxVerif.Auth.authFinish s.node }, "ok")
  | ["authn", u, pw] =>
    let (n, a) := InfluxVerif.Auth.authBegin verifyTok s.node (nm u) pw
    let n' := if a = .verified then InfluxVerif.Auth.authFinish n else n
    ({ s with node := n' }, if a = .rejected then "rejected" else "accepted")
  | ["cpoll", csv] =>
    -- a client's metadata cache under a sequence of answers: it keeps the newest it has seen
    match allSome ((splitCsv csv).map String.toNat?) with
    | some (x :: xs) =>
      let held := (xs.foldl (fun (acc : List Nat × Nat) i => let c := InfluxVerif.Meta.clientInstall acc.2 i; (acc.1 ++ [c], c)) ([x], x)).1
      (s, "ok " ++ joinCsv (held.map toString))
    | _ => (s, "bad-op")
  | ["raw", _, _, "bad"] =>
    -- the command's own extension field is there but its payload does not decode (a length
    -- that runs past the end): the body must be refused, whatever the type
    (s, "rejected")
  | ["raw", t, e] =>
    match t.toNat?, e.toNat? with
    | some t, some e =>
      -- accepted iff the type has a case in Apply and carries its own extension
      let hasCase := match typeName t with
        | some n => InfluxVerif.Gen.C06.applyCases.contains n
        | none => false
      if hasCase && e = t then
        match rawCmd t with
        | some c =>
          let k := s.k + 1
          let (d, _) := InfluxVerif.Meta.step s.auto s.data c (1 + k / 8) k
          ({ s with data := d, k := k }, "applied")
        | none => (s, "bad-op")
      else (s, "rejected")
    | _, _ => (s, "bad-op")
  | ["deletesgid", id, a] =>
    match id.toNat?, age? a with
    | some id, some a =>
      -- the first (database, policy) holding a group with this id
      let hit := s.data.dbs.findSome? fun db => db.rps.findSome? fun rp =>
        if rp.groups.any (·.id == id) then some (db.name, rp.name) else none
      match hit with
      | none => (s, "nogroup")
      | some (dbn, rpn) =>
        let k := s.k + 1
        let (d, e) := InfluxVerif.Meta.step s.auto s.data (.deleteSG dbn rpn id a) (1 + k / 8) k
        ({ s with data := d, k := k }, match e with | none => "ok" | some e => showErr e)
    | _, _ => (s, "bad-op")
  | toks =>
    match parseCmd toks with
    | none => (s, "bad-op")
    | some c =>
      let k := s.k + 1
      let (d, e) := InfluxVerif.Meta.step s.auto s.data c (1 + k / 8) k
      ({ s with data := d, k := k }, match e with | none => "ok" | some e => showErr e)

end Driver.MetaD
