package c15

import (
	"bytes"
	"context"
	"fmt"
	"math"
	"os"
	"reflect"
	"sort"
	"strconv"
	"strings"
	"time"

	"github.com/influxdata/influxdb/coordinator"
	"github.com/influxdata/influxdb/query"
	"github.com/influxdata/influxql"
	"verifharness/fw"
)

// roundTrips2: iterator options of every shape inside a create-iterator request, and streamed
// query points of the four streamable types with their tags (empty values included),
// auxiliary values (typed, typed-nil, untyped nil) and nil markers.
func roundTrips2(seed string) string {
	s, _ := strconv.Atoi(seed)
	r := fw.NewRand(uint64(s) ^ 0x9e3779b97f4a7c15)
	if why := rtOptions(r); why != "" {
		return "rt " + why
	}
	if why := rtPoints(r); why != "" {
		return "rt " + why
	}
	return "rt ok"
}

// types a reference can carry in the text of an expression (what the parser reads back)
var rtExprTypes = []influxql.DataType{influxql.Unknown, influxql.Float, influxql.Integer, influxql.String, influxql.Boolean, influxql.Tag, influxql.Unsigned, influxql.AnyField}

var rtTypes = []influxql.DataType{influxql.Unknown, influxql.Float, influxql.Integer, influxql.String, influxql.Boolean, influxql.Tag, influxql.Unsigned, influxql.Time}

func rtExpr(r *fw.Rand) influxql.Expr {
	ref := func() *influxql.VarRef {
		return &influxql.VarRef{Val: []string{"v", "value", "a b", "x\"y", "host"}[r.Intn(5)], Type: rtExprTypes[r.Intn(len(rtExprTypes))]}
	}
	switch r.Intn(6) {
	case 0:
		return nil
	case 1:
		return ref()
	case 2:
		return &influxql.Call{Name: []string{"mean", "count", "max", "first"}[r.Intn(4)], Args: []influxql.Expr{ref()}}
	case 3:
		return &influxql.Call{Name: "percentile", Args: []influxql.Expr{ref(), &influxql.NumberLiteral{Val: float64(r.Intn(100))}}}
	case 4:
		return &influxql.BinaryExpr{Op: influxql.ADD, LHS: ref(), RHS: &influxql.IntegerLiteral{Val: int64(r.Intn(10))}}
	}
	return &influxql.Call{Name: "top", Args: []influxql.Expr{ref(), ref(), &influxql.IntegerLiteral{Val: int64(1 + r.Intn(5))}}}
}

func rtCond(r *fw.Rand) influxql.Expr {
	if r.Intn(3) == 0 {
		return nil
	}
	c := influxql.Expr(&influxql.BinaryExpr{Op: []influxql.Token{influxql.EQ, influxql.NEQ, influxql.GT, influxql.LTE}[r.Intn(4)],
		LHS: &influxql.VarRef{Val: "host", Type: rtExprTypes[r.Intn(len(rtExprTypes))]}, RHS: &influxql.StringLiteral{Val: []string{"a", "", "it's", "x y"}[r.Intn(4)]}})
	if r.Intn(2) == 0 {
		c = &influxql.BinaryExpr{Op: []influxql.Token{influxql.AND, influxql.OR}[r.Intn(2)], LHS: c,
			RHS: &influxql.BinaryExpr{Op: influxql.GT, LHS: &influxql.VarRef{Val: "v", Type: influxql.Float}, RHS: &influxql.NumberLiteral{Val: float64(r.Intn(50)) / 4}}}
	}
	return c
}

func exprStr(e influxql.Expr) string {
	if e == nil || reflect.ValueOf(e).IsNil() {
		return "<nil>"
	}
	return e.String()
}

func optCanon(o *query.IteratorOptions) string {
	var b strings.Builder
	fmt.Fprintf(&b, "expr=%s|cond=%s|", exprStr(o.Expr), exprStr(o.Condition))
	fmt.Fprintf(&b, "aux=%d:", len(o.Aux))
	for _, a := range o.Aux {
		fmt.Fprintf(&b, "%q/%d,", a.Val, a.Type)
	}
	fmt.Fprintf(&b, "|dims=%q|", o.Dimensions)
	var gb []string
	for k := range o.GroupBy {
		gb = append(gb, k)
	}
	sort.Strings(gb)
	fmt.Fprintf(&b, "groupby=%q|", gb)
	fmt.Fprintf(&b, "interval=%v/%v|fill=%d/%v|", o.Interval.Duration, o.Interval.Offset, o.Fill, o.FillValue)
	loc := "<nil>"
	if o.Location != nil {
		loc = o.Location.String()
	}
	fmt.Fprintf(&b, "loc=%s|t=%d..%d|asc=%v|lim=%d/%d|slim=%d/%d|strip=%v|dedupe=%v|maxn=%d|ordered=%v|", loc, o.StartTime, o.EndTime, o.Ascending,
		o.Limit, o.Offset, o.SLimit, o.SOffset, o.StripName, o.Dedupe, o.MaxSeriesN, o.Ordered)
	fmt.Fprintf(&b, "sources=%d:", len(o.Sources))
	for _, s := range o.Sources {
		fmt.Fprintf(&b, "%s,", s.String())
	}
	return b.String()
}

func rtOptions(r *fw.Rand) string {
	opt := query.IteratorOptions{
		Expr:       rtExpr(r),
		Condition:  rtCond(r),
		Interval:   query.Interval{Duration: time.Duration(r.Intn(3)*r.Intn(3600)) * time.Second, Offset: time.Duration(r.Intn(7)) * time.Second},
		StartTime:  []int64{influxql.MinTime, 0, int64(r.U64() >> 2), -int64(r.U64() >> 3)}[r.Intn(4)],
		EndTime:    []int64{influxql.MaxTime, 0, int64(r.U64() >> 2)}[r.Intn(3)],
		Ascending:  r.Bool(),
		Limit:      r.Intn(3) * r.Intn(1000),
		Offset:     r.Intn(3) * r.Intn(1000),
		SLimit:     r.Intn(3) * r.Intn(1000),
		SOffset:    r.Intn(3) * r.Intn(1000),
		StripName:  r.Bool(),
		Dedupe:     r.Bool(),
		MaxSeriesN: r.Intn(3) * r.Intn(100000),
		Ordered:    r.Bool(),
	}
	names := []string{"host", "dc", "missing", "a b", "v", "é", ""}
	for i, n := 0, r.Intn(5); i < n; i++ {
		opt.Aux = append(opt.Aux, influxql.VarRef{Val: names[r.Intn(len(names))], Type: rtTypes[r.Intn(len(rtTypes))]})
	}
	for i, n := 0, r.Intn(4); i < n; i++ {
		opt.Dimensions = append(opt.Dimensions, names[r.Intn(len(names))])
	}
	if n := r.Intn(4); n > 0 {
		opt.GroupBy = map[string]struct{}{}
		for i := 0; i < n; i++ {
			opt.GroupBy[names[r.Intn(len(names))]] = struct{}{}
		}
	}
	switch r.Intn(5) {
	case 0:
		opt.Fill = influxql.NullFill
	case 1:
		opt.Fill = influxql.NoFill
	case 2:
		opt.Fill, opt.FillValue = influxql.NumberFill, float64(r.Intn(100))/8-3
	case 3:
		opt.Fill = influxql.PreviousFill
	default:
		opt.Fill = influxql.LinearFill
	}
	if r.Intn(3) == 0 {
		opt.Location = time.UTC
	}
	for i, n := 0, r.Intn(3); i < n; i++ {
		opt.Sources = append(opt.Sources, &influxql.Measurement{Database: []string{"db", "d b", ""}[r.Intn(3)], RetentionPolicy: []string{"rp", "", "r.p"}[r.Intn(3)], Name: []string{"cpu", "m x", "é"}[r.Intn(3)]})
	}
	want := optCanon(&opt)
	// by itself
	b, err := opt.MarshalBinary()
	if err != nil {
		return "iteratorOptions-marshal"
	}
	var got query.IteratorOptions
	if err := got.UnmarshalBinary(b); err != nil {
		if os.Getenv("VERIF_DEBUG") != "" {
			fmt.Fprintln(os.Stderr, "DEBUG unmarshal:", err, "\n", want)
		}
		return "iteratorOptions-unmarshal"
	}
	if g := optCanon(&got); g != want {
		return "iteratorOptions:" + firstDiff(g, want)
	}
	// inside the requests that carry it
	req := coordinator.CreateIteratorRequest{ShardIDs: []uint64{r.U64() % 50, r.U64()}, Measurement: influxql.Measurement{Database: "db", RetentionPolicy: "rp", Name: "cpu"}, Opt: opt}
	rb, err := req.MarshalBinary()
	if err != nil {
		return "createIteratorRequest-marshal"
	}
	var greq coordinator.CreateIteratorRequest
	if err := greq.UnmarshalBinary(rb); err != nil {
		return "createIteratorRequest-unmarshal"
	}
	if g := optCanon(&greq.Opt); g != want || !reflect.DeepEqual(greq.ShardIDs, req.ShardIDs) {
		return "createIteratorRequest-options:" + firstDiff(g, want)
	}
	creq := coordinator.IteratorCostRequest{ShardIDs: []uint64{r.U64() % 50}, Measurement: influxql.Measurement{Database: "db", RetentionPolicy: "rp", Name: "cpu"}, Opt: opt}
	cb, err := creq.MarshalBinary()
	if err != nil {
		return "iteratorCostRequest-marshal"
	}
	var gcreq coordinator.IteratorCostRequest
	if err := gcreq.UnmarshalBinary(cb); err != nil {
		return "iteratorCostRequest-unmarshal"
	}
	if g := optCanon(&gcreq.Opt); g != want || !reflect.DeepEqual(gcreq.ShardIDs, creq.ShardIDs) {
		return "iteratorCostRequest-options:" + firstDiff(g, want)
	}
	return ""
}

func firstDiff(g, w string) string {
	gs, ws := strings.Split(g, "|"), strings.Split(w, "|")
	for i := range ws {
		if i >= len(gs) || gs[i] != ws[i] {
			k := ws[i]
			if j := strings.IndexAny(k, "=:"); j > 0 {
				k = k[:j]
			}
			return k
		}
	}
	return "?"
}

// ---- streamed points ----

type sliceFloat struct {
	pts []query.FloatPoint
	i   int
}

func (s *sliceFloat) Stats() query.IteratorStats { return query.IteratorStats{} }
func (s *sliceFloat) Close() error               { return nil }
func (s *sliceFloat) Next() (*query.FloatPoint, error) {
	if s.i >= len(s.pts) {
		return nil, nil
	}
	s.i++
	return &s.pts[s.i-1], nil
}

type sliceInteger struct {
	pts []query.IntegerPoint
	i   int
}

func (s *sliceInteger) Stats() query.IteratorStats { return query.IteratorStats{} }
func (s *sliceInteger) Close() error               { return nil }
func (s *sliceInteger) Next() (*query.IntegerPoint, error) {
	if s.i >= len(s.pts) {
		return nil, nil
	}
	s.i++
	return &s.pts[s.i-1], nil
}

type sliceString struct {
	pts []query.StringPoint
	i   int
}

func (s *sliceString) Stats() query.IteratorStats { return query.IteratorStats{} }
func (s *sliceString) Close() error               { return nil }
func (s *sliceString) Next() (*query.StringPoint, error) {
	if s.i >= len(s.pts) {
		return nil, nil
	}
	s.i++
	return &s.pts[s.i-1], nil
}

type sliceBoolean struct {
	pts []query.BooleanPoint
	i   int
}

func (s *sliceBoolean) Stats() query.IteratorStats { return query.IteratorStats{} }
func (s *sliceBoolean) Close() error               { return nil }
func (s *sliceBoolean) Next() (*query.BooleanPoint, error) {
	if s.i >= len(s.pts) {
		return nil, nil
	}
	s.i++
	return &s.pts[s.i-1], nil
}

func rtTags(r *fw.Rand) query.Tags {
	keys := []string{"host", "dc", "a b", "é", "zone", "z"}
	vals := []string{"", "a", "east", "x y", "é", ""}
	m := map[string]string{}
	for i, n := 0, r.Intn(4); i < n; i++ {
		m[keys[r.Intn(len(keys))]] = vals[r.Intn(len(vals))]
	}
	return query.NewTags(m)
}

func rtAux(r *fw.Rand) []interface{} {
	var aux []interface{}
	for i, n := 0, r.Intn(4); i < n; i++ {
		switch r.Intn(11) {
		case 0:
			aux = append(aux, float64(r.Intn(100))/8)
		case 1:
			aux = append(aux, (*float64)(nil))
		case 2:
			aux = append(aux, int64(r.U64()))
		case 3:
			aux = append(aux, (*int64)(nil))
		case 4:
			aux = append(aux, r.U64())
		case 5:
			aux = append(aux, (*uint64)(nil))
		case 6:
			aux = append(aux, []string{"", "s", "x y"}[r.Intn(3)])
		case 7:
			aux = append(aux, (*string)(nil))
		case 8:
			aux = append(aux, r.Bool())
		case 9:
			aux = append(aux, (*bool)(nil))
		default:
			aux = append(aux, nil)
		}
	}
	return aux
}

func tagsCanon(t query.Tags) string {
	m := t.KeyValues()
	var ks []string
	for k := range m {
		ks = append(ks, k)
	}
	sort.Strings(ks)
	var b strings.Builder
	for _, k := range ks {
		fmt.Fprintf(&b, "%q=%q,", k, m[k])
	}
	return b.String() + "#" + fmt.Sprintf("%q", t.ID())
}

func auxCanon(aux []interface{}) string {
	var b strings.Builder
	for _, a := range aux {
		fmt.Fprintf(&b, "%T:", a)
		v := reflect.ValueOf(a)
		switch {
		case a == nil:
			b.WriteString("nil")
		case v.Kind() == reflect.Ptr:
			b.WriteString("typed-nil")
		default:
			fmt.Fprintf(&b, "%v", a)
		}
		b.WriteString(",")
	}
	return b.String()
}

func rtPoints(r *fw.Rand) string {
	n := r.Intn(6)
	name := func() string { return []string{"cpu", "", "m x", "é"}[r.Intn(4)] }
	tm := func() int64 {
		return []int64{0, influxql.MinTime, influxql.MaxTime, int64(r.U64() >> 2), -int64(r.U64() >> 3)}[r.Intn(5)]
	}
	agg := func() uint32 { return uint32(r.Intn(3) * r.Intn(1000)) }
	var want []string
	var buf bytes.Buffer
	enc := query.NewIteratorEncoder(&buf)
	var typ influxql.DataType
	switch r.Intn(4) {
	case 0:
		typ = influxql.Float
		it := &sliceFloat{}
		for i := 0; i < n; i++ {
			p := query.FloatPoint{Name: name(), Tags: rtTags(r), Time: tm(), Value: []float64{0, 1.5, -2.25, math.MaxFloat64, math.Inf(1), math.SmallestNonzeroFloat64}[r.Intn(6)], Aux: rtAux(r), Aggregated: agg(), Nil: r.Intn(4) == 0}
			it.pts = append(it.pts, p)
			want = append(want, fmt.Sprintf("%q|%s|%d|%x|%s|%d|%v", p.Name, tagsCanon(p.Tags), p.Time, math.Float64bits(p.Value), auxCanon(p.Aux), p.Aggregated, p.Nil))
		}
		if err := enc.EncodeIterator(it); err != nil {
			return "points-encode"
		}
	case 1:
		typ = influxql.Integer
		it := &sliceInteger{}
		for i := 0; i < n; i++ {
			p := query.IntegerPoint{Name: name(), Tags: rtTags(r), Time: tm(), Value: []int64{0, -1, math.MaxInt64, math.MinInt64, 42}[r.Intn(5)], Aux: rtAux(r), Aggregated: agg(), Nil: r.Intn(4) == 0}
			it.pts = append(it.pts, p)
			want = append(want, fmt.Sprintf("%q|%s|%d|%d|%s|%d|%v", p.Name, tagsCanon(p.Tags), p.Time, p.Value, auxCanon(p.Aux), p.Aggregated, p.Nil))
		}
		if err := enc.EncodeIterator(it); err != nil {
			return "points-encode"
		}
	case 2:
		typ = influxql.String
		it := &sliceString{}
		for i := 0; i < n; i++ {
			p := query.StringPoint{Name: name(), Tags: rtTags(r), Time: tm(), Value: []string{"", "s", "x\x00y", "é"}[r.Intn(4)], Aux: rtAux(r), Aggregated: agg(), Nil: r.Intn(4) == 0}
			it.pts = append(it.pts, p)
			want = append(want, fmt.Sprintf("%q|%s|%d|%q|%s|%d|%v", p.Name, tagsCanon(p.Tags), p.Time, p.Value, auxCanon(p.Aux), p.Aggregated, p.Nil))
		}
		if err := enc.EncodeIterator(it); err != nil {
			return "points-encode"
		}
	default:
		typ = influxql.Boolean
		it := &sliceBoolean{}
		for i := 0; i < n; i++ {
			p := query.BooleanPoint{Name: name(), Tags: rtTags(r), Time: tm(), Value: r.Bool(), Aux: rtAux(r), Aggregated: agg(), Nil: r.Intn(4) == 0}
			it.pts = append(it.pts, p)
			want = append(want, fmt.Sprintf("%q|%s|%d|%v|%s|%d|%v", p.Name, tagsCanon(p.Tags), p.Time, p.Value, auxCanon(p.Aux), p.Aggregated, p.Nil))
		}
		if err := enc.EncodeIterator(it); err != nil {
			return "points-encode"
		}
	}
	itr := query.NewReaderIterator(context.Background(), &buf, typ, query.IteratorStats{})
	defer itr.Close()
	var got []string
	for k := 0; k <= n+1; k++ {
		switch it := itr.(type) {
		case query.FloatIterator:
			p, err := it.Next()
			if err != nil {
				return "points-decode-error"
			}
			if p == nil {
				k = n + 2
				break
			}
			got = append(got, fmt.Sprintf("%q|%s|%d|%x|%s|%d|%v", p.Name, tagsCanon(p.Tags), p.Time, math.Float64bits(p.Value), auxCanon(p.Aux), p.Aggregated, p.Nil))
		case query.IntegerIterator:
			p, err := it.Next()
			if err != nil {
				return "points-decode-error"
			}
			if p == nil {
				k = n + 2
				break
			}
			got = append(got, fmt.Sprintf("%q|%s|%d|%d|%s|%d|%v", p.Name, tagsCanon(p.Tags), p.Time, p.Value, auxCanon(p.Aux), p.Aggregated, p.Nil))
		case query.StringIterator:
			p, err := it.Next()
			if err != nil {
				return "points-decode-error"
			}
			if p == nil {
				k = n + 2
				break
			}
			got = append(got, fmt.Sprintf("%q|%s|%d|%q|%s|%d|%v", p.Name, tagsCanon(p.Tags), p.Time, p.Value, auxCanon(p.Aux), p.Aggregated, p.Nil))
		case query.BooleanIterator:
			p, err := it.Next()
			if err != nil {
				return "points-decode-error"
			}
			if p == nil {
				k = n + 2
				break
			}
			got = append(got, fmt.Sprintf("%q|%s|%d|%v|%s|%d|%v", p.Name, tagsCanon(p.Tags), p.Time, p.Value, auxCanon(p.Aux), p.Aggregated, p.Nil))
		default:
			return "points-decode-type"
		}
	}
	if len(got) != len(want) {
		return fmt.Sprintf("points-count:%d_want_%d", len(got), len(want))
	}
	for i := range want {
		if got[i] != want[i] {
			gs, ws := strings.Split(got[i], "|"), strings.Split(want[i], "|")
			for j := range ws {
				if j < len(gs) && gs[j] != ws[j] {
					return "points-" + []string{"name", "tags", "time", "value", "aux", "aggregated", "nil"}[j]
				}
			}
			return "points-differ"
		}
	}
	return ""
}
