/-
C16 — authorisation decisions (services/meta/query_authorizer.go, write_authorizer.go,
UserInfo.AuthorizeDatabase) and the data node's credential cache
(services/meta/client.go: Authenticate, updateAuthCache).  Core Lean only.
-/
import InfluxVerif.Model.Meta
namespace InfluxVerif.Auth
open InfluxVerif.Meta

/-- influxql privileges: 0 none, 1 read, 2 write, 3 all -/
abbrev Priv := Nat

/-- one element of `Statement.RequiredPrivileges()` -/
structure ReqPriv where
  admin : Bool
  name : String      -- database; "" = the request's default database
  priv : Priv
  deriving DecidableEq, Repr, Inhabited

structure Stmt where
  kind : String
  createsAdmin : Bool           -- `CREATE USER … WITH ALL PRIVILEGES`
  privs : List ReqPriv
  deriving DecidableEq, Repr, Inhabited

/-- `UserInfo.AuthorizeDatabase` -/
def authorizeDatabase (u : User) (p : Priv) (db : String) : Bool :=
  u.admin || p == 0 ||
    (match u.privs.lookup db with
     | some q => q == p || q == 3
     | none => false)

/-- what one statement demands of a non-admin user -/
def stmtAllowed (u : User) (defaultDB : String) (s : Stmt) : Bool :=
  s.privs.all fun p => !p.admin && authorizeDatabase u p.priv (if p.name = "" then defaultDB else p.name)

/-- `QueryAuthorizer.AuthorizeQuery` -/
def authorizeQuery (userCount : Nat) (u : Option User) (q : List Stmt) (defaultDB : String) : Bool :=
  if userCount = 0 then
    match q with
    | s :: _ => s.createsAdmin
    | [] => false
  else match u with
    | none => false
    | some u => u.admin || q.all (stmtAllowed u defaultDB)

/-- `WriteAuthorizer.AuthorizeWrite` (user looked up by name) -/
def authorizeWrite (users : List User) (name db : String) : Bool :=
  match users.find? (·.name == name) with
  | none => false
  | some u => authorizeDatabase u 2 db

/-! ### credential cache -/

/-- `verify pw hash`: bcrypt's comparison, a parameter of the model -/
abbrev Verify := String → String → Bool

structure CacheEntry where
  user : String
  pw : String        -- stands for the salted hash of the accepted password
  bhash : String     -- the bcrypt hash the password was verified against
  deriving DecidableEq, Repr, Inhabited

structure Pending where
  user : String
  pw : String
  bhash : String
  deriving DecidableEq, Repr, Inhabited

structure Node where
  users : List User := []           -- the node's cached metadata (`cacheData.Users`)
  cache : List CacheEntry := []
  pending : List Pending := []      -- authentications between the hash comparison and the cache store
  deriving Repr, Inhabited

def lookupUser (n : Node) (name : String) : Option User := n.users.find? (·.name == name)

inductive AuthStep
  | begin (user pw : String)        -- reads user + cache, verifies; either answers at once or leaves a pending store
  | finish                           -- the oldest pending authentication stores its cache entry
  | poll (users : List User)        -- new metadata reaches the node: cacheData := …; updateAuthCache()
  deriving Repr

/-- result of the first half of `Authenticate` -/
inductive Answer | accepted | rejected | verified   -- verified = accepted, store still pending
  deriving DecidableEq, Repr

def authBegin (verify : Verify) (n : Node) (user pw : String) : Node × Answer :=
  match lookupUser n user with
  | none => (n, .rejected)
  | some u =>
    -- cache hit: same password AND the entry is bound to the user's current hash
    if n.cache.any (fun e => e.user == user && e.pw == pw && e.bhash == u.hash) then (n, .accepted)
    else if verify pw u.hash then ({ n with pending := n.pending ++ [⟨user, pw, u.hash⟩] }, .verified)
    else (n, .rejected)

def authFinish (n : Node) : Node :=
  match n.pending with
  | [] => n
  | p :: rest => { n with pending := rest, cache := ⟨p.user, p.pw, p.bhash⟩ :: n.cache.filter (·.user != p.user) }

/-- `updateAuthCache`: keep entries of still-present users whose hash is unchanged -/
def authPoll (n : Node) (users : List User) : Node :=
  { n with users := users,
           cache := n.cache.filter fun e => users.any fun u => u.name == e.user && u.hash == e.bhash }

def authStep (verify : Verify) (n : Node) : AuthStep → Node
  | .begin u pw => (authBegin verify n u pw).1
  | .finish => authFinish n
  | .poll us => authPoll n us

end InfluxVerif.Auth
