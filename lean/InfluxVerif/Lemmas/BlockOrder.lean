/- Helper lemmas for the block-order theorems (Props/C02.lean, Props/C09.lean). -/
import InfluxVerif.Model.BlockOrder

namespace InfluxVerif.BlockOrder

theorem sublist_insertBack (less : Blk → Blk → Bool) (x : Blk) (acc : List Blk) :
    acc.Sublist (insertBack less x acc) := by
  induction acc with
  | nil => simp [insertBack]
  | cons y rest ih =>
    unfold insertBack
    split
    · exact ih.cons₂ y
    · exact List.Sublist.cons x (List.Sublist.refl _)

theorem mem_insertBack_self (less : Blk → Blk → Bool) (x : Blk) (acc : List Blk) : x ∈ insertBack less x acc := by
  induction acc with
  | nil => simp [insertBack]
  | cons y rest ih =>
    unfold insertBack
    split
    · exact List.mem_cons_of_mem _ ih
    · simp

/-- an element that `x` is not `less` than ends up before `x` (after it, in the reversed list) -/
theorem insertBack_after (less : Blk → Blk → Bool) (x y : Blk) (acc : List Blk) (hy : y ∈ acc)
    (hnl : less x y = false) : [x, y].Sublist (insertBack less x acc) := by
  induction acc with
  | nil => simp at hy
  | cons z rest ih =>
    unfold insertBack
    split
    · rename_i hlz
      simp only [List.mem_cons] at hy
      rcases hy with rfl | hy
      · rw [hnl] at hlz; exact absurd hlz (by simp)
      · exact (ih hy).cons z
    · exact List.Sublist.cons₂ x (List.singleton_sublist.2 hy)

/-- the pair invariant of the insertion sort, on the reversed sorted prefix -/
theorem isortRev_pair (less : Blk → Blk → Bool) (a b : Blk) (hnl : less b a = false) :
    ∀ (l acc : List Blk),
      ([b, a].Sublist acc ∨ (a ∈ acc ∧ b ∈ l) ∨ [a, b].Sublist l) → [b, a].Sublist (isortRev less acc l) := by
  intro l
  induction l with
  | nil =>
    intro acc h
    rcases h with h | ⟨_, hb⟩ | h
    · exact h
    · simp at hb
    · simp at h
  | cons x rest ih =>
    intro acc h
    unfold isortRev
    apply ih
    rcases h with h | ⟨ha, hb⟩ | h
    · exact Or.inl (h.trans (sublist_insertBack less x acc))
    · simp only [List.mem_cons] at hb
      rcases hb with rfl | hb
      · exact Or.inl (insertBack_after less b a acc ha hnl)
      · exact Or.inr (Or.inl ⟨(sublist_insertBack less x acc).subset ha, hb⟩)
    · rcases List.sublist_cons_iff.1 h with h' | ⟨r, hr, h'⟩
      · exact Or.inr (Or.inr h')
      · -- a = x and [b] is a sublist of rest
        have hax : a = x ∧ [b] = r := by simpa using hr
        obtain ⟨rfl, rfl⟩ := hax
        exact Or.inr (Or.inl ⟨mem_insertBack_self less a acc, List.singleton_sublist.1 h'⟩)

/-- no element is `less` than its predecessor (in the reversed list: than its successor) -/
def AdjOK (less : Blk → Blk → Bool) : List Blk → Prop
  | [] => True
  | [_] => True
  | p :: q :: rest => less p q = false ∧ AdjOK less (q :: rest)

theorem adjOK_insertBack (less : Blk → Blk → Bool) (hasym : ∀ a b, less a b = true → less b a = false)
    (x : Blk) (acc : List Blk) (h : AdjOK less acc) : AdjOK less (insertBack less x acc) := by
  induction acc with
  | nil => simp [insertBack, AdjOK]
  | cons z rest ih =>
    unfold insertBack
    split
    · rename_i hxz
      have hrest : AdjOK less rest := by
        cases rest with
        | nil => trivial
        | cons q r => exact h.2
      have ih' := ih hrest
      -- the head of `insertBack x rest` is `x` or the head of `rest`
      cases rest with
      | nil => simp only [insertBack, AdjOK]; exact ⟨hasym x z hxz, trivial⟩
      | cons q r =>
        unfold insertBack at ih' ⊢
        split at ih' <;> rename_i hxq
        · simp only [hxq, if_true] at ⊢
          exact ⟨h.1, ih'⟩
        · simp only [hxq] at ⊢
          exact ⟨hasym x z hxz, ih'⟩
    · rename_i hxz
      have : less x z = false := by simpa using hxz
      exact ⟨this, h⟩

theorem adjOK_isortRev (less : Blk → Blk → Bool) (hasym : ∀ a b, less a b = true → less b a = false)
    (l acc : List Blk) (h : AdjOK less acc) : AdjOK less (isortRev less acc l) := by
  induction l generalizing acc with
  | nil => exact h
  | cons x rest ih => exact ih _ (adjOK_insertBack less hasym x acc h)

theorem perm_insertBack (less : Blk → Blk → Bool) (x : Blk) (acc : List Blk) :
    (insertBack less x acc).Perm (x :: acc) := by
  induction acc with
  | nil => simp [insertBack]
  | cons y rest ih =>
    unfold insertBack
    split
    · exact (List.Perm.cons y ih).trans (List.Perm.swap x y rest)
    · exact List.Perm.refl _

theorem perm_isortRev (less : Blk → Blk → Bool) (l acc : List Blk) :
    (isortRev less acc l).Perm (l.reverse ++ acc) := by
  induction l generalizing acc with
  | nil => simp [isortRev]
  | cons x rest ih =>
    unfold isortRev
    refine (ih _).trans ?_
    rw [List.reverse_cons, List.append_assoc]
    exact List.Perm.append_left _ (by simpa using perm_insertBack less x acc)

end InfluxVerif.BlockOrder
