// Package fw is the correspondence framework: one seeded generator, the real code and the
// Lean model's compiled driver run on the same op lines, canonical outputs diffed, the
// property oracle judged on the implementation's outputs, ddmin shrinking, result file.
package fw

import (
	"bufio"
	"bytes"
	"crypto/sha256"
	"encoding/hex"
	"encoding/json"
	"fmt"
	"os"
	"os/exec"
	"path/filepath"
	"runtime"
	"sort"
	"strconv"
	"strings"
	"sync"
	"time"
)

// Rand is splitmix64; every random choice of a run derives from VERIF_SEED through it.
type Rand struct{ s uint64 }

// NewRand scrambles the seed first: with a state that is a linear function of the seed,
// consecutive seeds would yield shifted copies of one stream.
func NewRand(seed uint64) *Rand {
	z := seed + 0x1234567
	for i := 0; i < 3; i++ {
		z = (z ^ (z >> 30)) * 0xBF58476D1CE4E5B9
		z = (z ^ (z >> 27)) * 0x94D049BB133111EB
		z = z ^ (z >> 31) + 0x9E3779B97F4A7C15
	}
	return &Rand{s: z}
}
func (r *Rand) U64() uint64 {
	r.s += 0x9E3779B97F4A7C15
	z := r.s
	z = (z ^ (z >> 30)) * 0xBF58476D1CE4E5B9
	z = (z ^ (z >> 27)) * 0x94D049BB133111EB
	return z ^ (z >> 31)
}
func (r *Rand) Intn(n int) int {
	if n <= 0 {
		return 0
	}
	return int(r.U64() % uint64(n))
}
func (r *Rand) Bool() bool              { return r.U64()&1 == 1 }
func (r *Rand) Chance(p float64) bool   { return float64(r.U64()>>11)/float64(1<<53) < p }
func (r *Rand) Fork() *Rand             { return NewRand(r.U64()) }
func (r *Rand) Pick(xs []string) string { return xs[r.Intn(len(xs))] }
func (r *Rand) Perm(n int) []int {
	p := make([]int, n)
	for i := range p {
		p[i] = i
	}
	for i := n - 1; i > 0; i-- {
		j := r.Intn(i + 1)
		p[i], p[j] = p[j], p[i]
	}
	return p
}

// Case is one program: op lines executed in order on a fresh state.
type Case struct {
	Ops  []string `json:"ops"`
	Tags []string `json:"tags,omitempty"` // generator-assigned labels for the distribution report
}

// Verdict of the property oracle on the implementation's behaviour for one case.
type Verdict struct {
	OK        bool
	Why       string
	Signature string // stable description of the failure shape (for known_findings.json)
}

type Prop interface {
	ID() string
	Model() string // driver model name; "" = no model stream for this prop
	// Generate produces the cases of this run.
	Generate(r *Rand, tier string) []Case
	// RunImpl executes the ops on the real code from a fresh state; one output line per op.
	RunImpl(c Case) []string
	// Oracle judges the implementation's outputs against the property itself.
	Oracle(c Case, implOut []string) Verdict
	// Trivial says whether a case exercised nothing beyond the trivial path.
	Trivial(c Case, implOut []string) bool
	// Parallel: may RunImpl be called concurrently?
	Parallel() int
}

// Preparer lets a prop turn run-time-relative tokens of a case (e.g. `now-3600000000000`)
// into concrete ones just before the case is executed on both sides; replay files keep the
// relative form.
type Preparer interface{ Prepare(c Case) Case }

func prep(p Prop, c Case) Case {
	if pr, ok := p.(Preparer); ok {
		return pr.Prepare(c)
	}
	return c
}

// Optional: props whose model state must be reset between cases emit this line.
const ResetLine = "reset"

type Divergence struct {
	Kind      string   `json:"kind"` // impl-violation | model-divergence
	Ops       []string `json:"ops"`
	ImplOut   []string `json:"impl_out"`
	ModelOut  []string `json:"model_out,omitempty"`
	Oracle    string   `json:"oracle_verdict"`
	Signature string   `json:"signature"`
	Replay    string   `json:"replay"`
	Known     bool     `json:"known"`
	FirstDiff int      `json:"first_diff"`
	// when the minimised case does not fail again: the run that did (first outputs that differ)
	Original map[string]interface{} `json:"original_run,omitempty"`
}

type Result struct {
	Property             string                 `json:"property"`
	Seed                 uint64                 `json:"seed"`
	Tier                 string                 `json:"tier"`
	Programs             int                    `json:"programs"`
	Evaluations          int                    `json:"evaluations"`
	DistinctNontrivial   int                    `json:"distinct_nontrivial"`
	Rule                 string                 `json:"rule"`
	OpHistogram          map[string]int         `json:"op_histogram"`
	TagHistogram         map[string]int         `json:"tag_histogram"`
	OutHistogram         map[string]int         `json:"out_histogram"`
	Samples              []interface{}          `json:"samples"`
	Divergences          []Divergence           `json:"divergences"`
	DisagreementsChecked int                    `json:"disagreements_checked"`
	HangsRerun           int                    `json:"hangs_rerun_alone"`
	Exhaustive           bool                   `json:"exhaustive"`
	Extra                map[string]interface{} `json:"extra,omitempty"`
	WallS                float64                `json:"wall_s"`
}

type Config struct {
	Seed       uint64
	Tier       string
	Work       string // scratch dir
	Driver     string // path of compiled Lean driver
	Replays    string // dir for replay files
	Corpus     string // dir of minimised past failures, run first
	Known      []KnownFinding
	ReplayFile string
	Rule       string
	Exhaustive bool
	Extra      map[string]interface{}
}

type KnownFinding struct {
	Property  string `json:"property"`
	ID        string `json:"id"`
	Status    string `json:"status"`
	Signature string `json:"signature"`
	WhatFails string `json:"what_fails"`
	Commit    string `json:"commit,omitempty"`
}

// RunModel pipes the ops of the cases through the Lean driver and splits the output per case.
func RunModel(driver, model string, cases []Case, stateful bool) ([][]string, error) {
	var in bytes.Buffer
	total := 0
	for _, c := range cases {
		if stateful {
			in.WriteString(ResetLine + "\n")
			total++
		}
		for _, op := range c.Ops {
			in.WriteString(op + "\n")
			total++
		}
	}
	cmd := exec.Command(driver, model)
	cmd.Stdin = &in
	var out, errb bytes.Buffer
	cmd.Stdout = &out
	cmd.Stderr = &errb
	if err := cmd.Run(); err != nil {
		return nil, fmt.Errorf("driver %s: %v: %s", model, err, errb.String())
	}
	sc := bufio.NewScanner(&out)
	sc.Buffer(make([]byte, 1<<20), 1<<30)
	var lines []string
	for sc.Scan() {
		lines = append(lines, sc.Text())
	}
	if len(lines) != total {
		return nil, fmt.Errorf("driver %s: %d output lines for %d ops; stderr=%s", model, len(lines), total, errb.String())
	}
	res := make([][]string, len(cases))
	k := 0
	for i, c := range cases {
		if stateful {
			k++
		}
		res[i] = lines[k : k+len(c.Ops)]
		k += len(c.Ops)
	}
	return res, nil
}

func firstDiff(a, b []string) int {
	for i := range a {
		if i >= len(b) || a[i] != b[i] {
			return i
		}
	}
	if len(b) > len(a) {
		return len(a)
	}
	return -1
}

type Stateful interface{ Stateful() bool }

func isStateful(p Prop) bool {
	if s, ok := p.(Stateful); ok {
		return s.Stateful()
	}
	return false
}

func hashOps(ops []string) string {
	h := sha256.Sum256([]byte(strings.Join(ops, "\n")))
	return hex.EncodeToString(h[:8])
}

// CaseTimeout bounds one case on the implementation side; a case that does not return is
// reported as a hang (the goroutine is abandoned).
var CaseTimeout = 4 * time.Minute

// HangDir, when set, receives the ops and the goroutine stacks of a case that hangs.
var HangDir string

func init() {
	if v := os.Getenv("VERIF_CASE_TIMEOUT"); v != "" {
		if n, err := strconv.Atoi(v); err == nil && n > 0 {
			CaseTimeout = time.Duration(n) * time.Second
		}
	}
}

// Isolate, when set, is the command prefix (binary, property id) that runs one case's
// implementation side in a child process ("<bin> <ID> implonly", case JSON on stdin, outputs
// JSON on stdout): used after the in-process run died, so that the crashing input is found.
var Isolate []string

func runIsolated(c Case) []string {
	in, _ := json.Marshal(c)
	cmd := exec.Command(Isolate[0], append(append([]string{}, Isolate[1:]...), "implonly")...)
	cmd.Stdin = bytes.NewReader(in)
	var stdout, stderr bytes.Buffer
	cmd.Stdout, cmd.Stderr = &stdout, &stderr
	timer := time.AfterFunc(CaseTimeout, func() { cmd.Process.Kill() })
	err := cmd.Run()
	timer.Stop()
	var out []string
	if err == nil && json.Unmarshal(stdout.Bytes(), &out) == nil {
		return out
	}
	// the first lines of the crash report identify it
	msg := stderr.String()
	first := ""
	for _, l := range strings.Split(msg, "\n") {
		if strings.HasPrefix(l, "panic:") || strings.HasPrefix(l, "fatal error:") || strings.HasPrefix(l, "WARNING: DATA RACE") {
			first = l
			break
		}
	}
	if len(msg) > 4000 {
		msg = msg[:4000]
	}
	return []string{fmt.Sprintf("PROCESS-CRASH %s || %v || %s", first, err, strings.ReplaceAll(msg, "\n", " | "))}
}

// crashVerdict: a crash of the process that runs the implementation is a violation of every
// property checked here, whatever the property's own oracle looks at.
func crashVerdict(out []string) (Verdict, bool) {
	for _, o := range out {
		if strings.HasPrefix(o, "HARNESS-HANG") {
			return Verdict{OK: false, Why: o, Signature: "hang: the implementation did not return"}, true
		}
		if strings.HasPrefix(o, "PROCESS-CRASH") {
			first := strings.TrimSpace(strings.SplitN(strings.TrimPrefix(o, "PROCESS-CRASH"), "||", 2)[0])
			if len(first) > 120 {
				first = first[:120]
			}
			return Verdict{OK: false, Why: o, Signature: "process crash: " + first}, true
		}
	}
	return Verdict{}, false
}

func oracle(p Prop, c Case, out []string) Verdict {
	if v, ok := crashVerdict(out); ok {
		return v
	}
	return p.Oracle(c, out)
}

func safeRunImpl(p Prop, c Case) []string {
	if Isolate != nil {
		return runIsolated(c)
	}
	done := make(chan []string, 1)
	go func() { done <- safeRunImpl1(p, c) }()
	select {
	case out := <-done:
		return out
	case <-time.After(CaseTimeout):
		if HangDir != "" {
			// keep the case and the goroutine stacks for diagnosis
			b, _ := json.Marshal(map[string]interface{}{"property": p.ID(), "ops": c.Ops})
			os.WriteFile(filepath.Join(HangDir, "hang-"+hashOps(c.Ops)[:12]+".json"), b, 0o644)
			buf := make([]byte, 4<<20)
			n := runtime.Stack(buf, true)
			os.WriteFile(filepath.Join(HangDir, "hang-"+hashOps(c.Ops)[:12]+".stacks"), buf[:n], 0o644)
		}
		return []string{"HARNESS-HANG implementation did not return within " + CaseTimeout.String()}
	}
}

func safeRunImpl1(p Prop, c Case) (out []string) {
	defer func() {
		if r := recover(); r != nil {
			buf := make([]byte, 4096)
			n := runtime.Stack(buf, false)
			out = append(out, fmt.Sprintf("HARNESS-PANIC %v %s", r, strings.ReplaceAll(string(buf[:n]), "\n", " | ")))
		}
	}()
	return p.RunImpl(c)
}

// failing reports whether a case still shows the same kind of problem (used by ddmin).
func failing(p Prop, cfg *Config, c Case, kind string) bool {
	c = prep(p, c)
	impl := safeRunImpl(p, c)
	if kind == "impl-violation" {
		return !oracle(p, c, impl).OK
	}
	if p.Model() == "" {
		return false
	}
	m, err := RunModel(cfg.Driver, p.Model(), []Case{c}, isStateful(p))
	if err != nil {
		return false
	}
	return firstDiff(impl, m[0]) >= 0
}

// Shrinker lets a prop veto/repair op subsets (e.g. keep a header op).
type Shrinker interface{ KeepOp(i int, op string) bool }

func ddmin(p Prop, cfg *Config, c Case, kind string) Case {
	ops := append([]string(nil), c.Ops...)
	budget := 200
	n := 2
	for len(ops) >= 2 && budget > 0 {
		chunk := (len(ops) + n - 1) / n
		reduced := false
		for start := 0; start < len(ops) && budget > 0; start += chunk {
			end := start + chunk
			if end > len(ops) {
				end = len(ops)
			}
			var cand []string
			for i, op := range ops {
				keep := i < start || i >= end
				if !keep {
					if s, ok := p.(Shrinker); ok && s.KeepOp(i, op) {
						keep = true
					}
				}
				if keep {
					cand = append(cand, op)
				}
			}
			if len(cand) == len(ops) || len(cand) == 0 {
				continue
			}
			budget--
			if failing(p, cfg, Case{Ops: cand}, kind) {
				ops = cand
				if n > 2 {
					n--
				}
				reduced = true
				break
			}
		}
		if !reduced {
			if n >= len(ops) {
				break
			}
			n *= 2
			if n > len(ops) {
				n = len(ops)
			}
		}
	}
	return Case{Ops: ops, Tags: c.Tags}
}

func opKind(op string) string {
	if i := strings.IndexByte(op, ' '); i > 0 {
		return op[:i]
	}
	return op
}

// Run executes the whole correspondence for one property and writes <work>/result.json.
func Run(p Prop, cfg *Config) (*Result, error) {
	t0 := time.Now()
	res := &Result{Property: p.ID(), Seed: cfg.Seed, Tier: cfg.Tier, Rule: cfg.Rule,
		OpHistogram: map[string]int{}, TagHistogram: map[string]int{}, OutHistogram: map[string]int{},
		Exhaustive: cfg.Exhaustive, Extra: cfg.Extra}
	var cases []Case
	if cfg.ReplayFile != "" {
		c, err := LoadReplay(cfg.ReplayFile)
		if err != nil {
			return nil, err
		}
		cases = []Case{c}
	} else {
		// corpus first
		if cfg.Corpus != "" {
			files, _ := filepath.Glob(filepath.Join(cfg.Corpus, p.ID()+"-*.json"))
			sort.Strings(files)
			for _, f := range files {
				if c, err := LoadReplay(f); err == nil {
					c.Tags = append(c.Tags, "corpus")
					cases = append(cases, c)
				}
			}
		}
		cases = append(cases, p.Generate(NewRand(cfg.Seed), cfg.Tier)...)
	}
	res.Programs = len(cases)
	raw := cases
	cases = make([]Case, len(raw))
	for i := range raw {
		cases[i] = prep(p, raw[i])
	}
	implOut := make([][]string, len(cases))
	par := p.Parallel()
	if par < 1 {
		par = 1
	}
	var wg sync.WaitGroup
	sem := make(chan struct{}, par)
	for i := range cases {
		wg.Add(1)
		sem <- struct{}{}
		go func(i int) {
			defer wg.Done()
			defer func() { <-sem }()
			implOut[i] = safeRunImpl(p, cases[i])
		}(i)
	}
	wg.Wait()
	// A case that ran into the time-out while the other cases (and whatever else the machine
	// is doing) competed with it is run once more on its own: only a case that does not
	// return then either is reported as a hang.
	for i := range cases {
		if len(implOut[i]) > 0 && strings.HasPrefix(implOut[i][0], "HARNESS-HANG") {
			res.HangsRerun++
			implOut[i] = safeRunImpl(p, cases[i])
		}
	}
	var modelOut [][]string
	if p.Model() != "" {
		var err error
		modelOut, err = RunModel(cfg.Driver, p.Model(), cases, isStateful(p))
		if err != nil {
			return nil, err
		}
	}
	seen := map[string]bool{}
	preSeen := map[string]int{}
	nrep := 0
	for i, c := range cases {
		res.Evaluations += len(c.Ops)
		for _, op := range c.Ops {
			res.OpHistogram[opKind(op)]++
		}
		for _, t := range c.Tags {
			res.TagHistogram[t]++
		}
		for _, o := range implOut[i] {
			res.OutHistogram[opKind(o)]++
		}
		h := hashOps(raw[i].Ops)
		if !seen[h] {
			seen[h] = true
			if !p.Trivial(c, implOut[i]) {
				res.DistinctNontrivial++
			}
		}
		if len(res.Samples) < 4 && (i%(len(cases)/4+1) == 0) {
			s := map[string]interface{}{"ops": trunc(c.Ops, 12), "impl_out": trunc(implOut[i], 12)}
			if modelOut != nil {
				s["model_out"] = trunc(modelOut[i], 12)
			}
			res.Samples = append(res.Samples, s)
		}
		v := oracle(p, c, implOut[i])
		kind := ""
		fd := -1
		if !v.OK {
			kind = "impl-violation"
		} else if modelOut != nil {
			if fd = firstDiff(implOut[i], modelOut[i]); fd >= 0 {
				kind = "model-divergence"
			}
		}
		if kind == "" {
			continue
		}
		res.DisagreementsChecked++
		presig := kind + "|" + v.Signature
		if nrep >= 8 || preSeen[presig] >= 3 { // enough reports of this shape; keep counting only
			continue
		}
		preSeen[presig]++
		small := raw[i]
		hang := len(implOut[i]) > 0 && strings.HasPrefix(implOut[i][0], "HARNESS-HANG")
		if cfg.ReplayFile == "" && !hang { // every attempt at shrinking a hang costs a time-out
			small = ddmin(p, cfg, raw[i], kind)
		}
		unprepared := small
		small = prep(p, small)
		si := implOut[i]
		if !hang {
			si = safeRunImpl(p, small)
		}
		sv := oracle(p, small, si)
		d := Divergence{Kind: kind, Ops: unprepared.Ops, ImplOut: si, Oracle: "holds", Signature: sv.Signature, FirstDiff: fd}
		if !sv.OK {
			d.Kind = "impl-violation"
			d.Oracle = "VIOLATED: " + sv.Why
		}
		if p.Model() != "" {
			if m, err := RunModel(cfg.Driver, p.Model(), []Case{small}, isStateful(p)); err == nil {
				d.ModelOut = m[0]
				d.FirstDiff = firstDiff(si, m[0])
			}
		}
		if sv.OK && d.FirstDiff < 0 {
			// not reproduced after shrinking: keep what was seen the first time
			o := map[string]interface{}{"ops": c.Ops, "oracle": v.Why, "signature": v.Signature}
			if fd >= 0 && modelOut != nil && fd < len(implOut[i]) && fd < len(modelOut[i]) {
				o["first_diff"] = fd
				o["impl"] = implOut[i][fd]
				o["model"] = modelOut[i][fd]
			}
			d.Original = o
			if d.Signature == "" {
				d.Signature = "not reproduced: " + v.Signature
			}
		}
		if d.Kind == "model-divergence" && d.Signature == "" {
			d.Signature = "model-divergence"
		}
		for _, k := range cfg.Known {
			if k.Property == p.ID() && k.Status == "open" && k.Signature == d.Signature && d.Kind == "impl-violation" {
				d.Known = true
			}
		}
		// de-duplicate reports by signature
		dup := false
		for _, e := range res.Divergences {
			if e.Signature == d.Signature && e.Kind == d.Kind {
				dup = true
			}
		}
		if dup {
			continue
		}
		nrep++
		d.Replay = filepath.Join(cfg.Replays, fmt.Sprintf("%s-%d-%d.json", p.ID(), cfg.Seed, nrep))
		writeReplay(d, p, cfg)
		res.Divergences = append(res.Divergences, d)
	}
	res.WallS = time.Since(t0).Seconds()
	b, _ := json.MarshalIndent(res, "", " ")
	if err := os.WriteFile(filepath.Join(cfg.Work, "result.json"), b, 0o644); err != nil {
		return nil, err
	}
	return res, nil
}

func trunc(xs []string, n int) []string {
	var out []string
	for i, x := range xs {
		if i >= n {
			out = append(out, fmt.Sprintf("… (%d more)", len(xs)-n))
			break
		}
		if len(x) > 300 {
			x = x[:300] + "…"
		}
		out = append(out, x)
	}
	return out
}

type replayFile struct {
	Property       string                 `json:"property"`
	Kind           string                 `json:"kind"`
	Correspondence string                 `json:"correspondence,omitempty"`
	Theorem        string                 `json:"theorem,omitempty"`
	Seed           uint64                 `json:"seed"`
	Ops            []string               `json:"ops"`
	ImplOut        []string               `json:"impl_out,omitempty"`
	ModelOut       []string               `json:"model_out,omitempty"`
	Oracle         string                 `json:"oracle_verdict,omitempty"`
	Signature      string                 `json:"signature,omitempty"`
	HowToReplay    string                 `json:"how_to_replay"`
	Original       map[string]interface{} `json:"original_run,omitempty"`
}

func writeReplay(d Divergence, p Prop, cfg *Config) {
	os.MkdirAll(cfg.Replays, 0o755)
	rf := replayFile{Property: p.ID(), Kind: d.Kind, Seed: cfg.Seed, Ops: d.Ops, ImplOut: d.ImplOut, ModelOut: d.ModelOut,
		Oracle: d.Oracle, Signature: d.Signature, Correspondence: "driver model '" + p.Model() + "' vs implementation",
		HowToReplay: "bin/check " + p.ID() + " --replay " + d.Replay, Original: d.Original}
	b, _ := json.MarshalIndent(rf, "", " ")
	os.WriteFile(d.Replay, b, 0o644)
}

func LoadReplay(path string) (Case, error) {
	b, err := os.ReadFile(path)
	if err != nil {
		return Case{}, err
	}
	var rf replayFile
	if err := json.Unmarshal(b, &rf); err != nil {
		return Case{}, err
	}
	return Case{Ops: rf.Ops}, nil
}

func LoadKnown(path string) []KnownFinding {
	b, err := os.ReadFile(path)
	if err != nil {
		return nil
	}
	var f struct {
		Findings []KnownFinding `json:"findings"`
	}
	json.Unmarshal(b, &f)
	return f.Findings
}
