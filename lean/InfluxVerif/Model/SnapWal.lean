/-
C01 — the bookkeeping between the cache, its snapshot, the WAL segments and the data files
(tsdb/engine/tsm1: Engine.WritePoints, Engine.WriteSnapshot / writeSnapshotAndCommit,
Cache.Snapshot / ClearSnapshot, WAL.CloseSegment / ClosedSegments / Remove).  Core Lean only.

A write is a natural number (its identity is all that matters here).  The durable state is the
data files and the WAL (closed segments and the open one); the cache (live store and the
snapshot being written or retried) is lost by a crash and rebuilt by replaying the WAL.
-/
namespace InfluxVerif.SnapWal

structure St where
  files : List Nat := []          -- writes held by installed data files
  closed : List (List Nat) := []  -- closed WAL segments, oldest first
  cur : List Nat := []            -- the open WAL segment
  store : List Nat := []          -- live cache
  snap : List Nat := []           -- cache snapshot taken and not yet installed (a failed one stays)
  acked : List Nat := []          -- ghost: every write acknowledged so far
  deriving Repr, DecidableEq

/-- an acknowledged write: appended to the open segment and to the live cache -/
def write (s : St) (w : Nat) : St :=
  { s with cur := s.cur ++ [w], store := s.store ++ [w], acked := s.acked ++ [w] }

/-- the start of `WriteSnapshot`: the open segment is closed, all closed segments are noted for
removal, and the cache hands out its snapshot.  `retryTakesAll = true` is the repaired
`Cache.Snapshot` (a snapshot kept from a failed attempt is retried together with what was
written since); `false` is the pinned code (the old snapshot alone).  Returns the state and
the number of closed segments the attempt will remove on success. -/
def begin (retryTakesAll : Bool) (s : St) : St × Nat :=
  let closed := if s.cur.isEmpty then s.closed else s.closed ++ [s.cur]
  let s1 := { s with closed := closed, cur := [] }
  if s.snap.isEmpty then
    ({ s1 with snap := s.store, store := [] }, closed.length)
  else if retryTakesAll then
    ({ s1 with snap := s.snap ++ s.store, store := [] }, closed.length)
  else
    (s1, closed.length)

/-- the snapshot was written and installed: its writes are in a file, the noted segments go -/
def succeed (s : St) (n : Nat) : St :=
  { s with files := s.files ++ s.snap, snap := [], closed := s.closed.drop n }

/-- the snapshot could not be written: it stays in the cache, nothing else changes -/
def fail (s : St) : St := s

/-- what a restart finds: the files and the WAL -/
def durable (s : St) : List Nat := s.files ++ s.closed.flatten ++ s.cur

/-- a crash and restart: the cache is rebuilt from the WAL, the failed snapshot is gone -/
def restart (s : St) : St :=
  { s with store := s.closed.flatten ++ s.cur, snap := [] }

inductive Op where
  | write (w : Nat)
  | snapshotOk      -- begin; succeed
  | snapshotFails   -- begin; fail
  | restart
  deriving Repr, DecidableEq

def step (fixed : Bool) (s : St) : Op → St
  | .write w => write s w
  | .snapshotOk => let (s1, n) := begin fixed s; succeed s1 n
  | .snapshotFails => (begin fixed s).1
  | .restart => restart s

def run (fixed : Bool) (s : St) (ops : List Op) : St := ops.foldl (step fixed) s

end InfluxVerif.SnapWal
