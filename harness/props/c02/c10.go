package c02

import (
	"fmt"
	"strings"

	"verifharness/fw"
)

// C10 — deletes remove exactly the targeted data, permanently.  Same shard ops, model and
// reference as C02; the generator concentrates on deletes (by measurement, tag, everything;
// single instant, bounded, open-ended, spanning all points), measurement drops, a delete
// running while a cache snapshot is in flight (schedule forced through the engine's verif
// points), followed by snapshots, compactions, reopen, further writes, and listings.
type C10 struct{}

func (C10) ID() string                   { return "C10" }
func (C10) Model() string                { return "shard" }
func (C10) Parallel() int                { return 8 }
func (C10) Stateful() bool               { return true }
func (C10) KeepOp(i int, op string) bool { return i == 0 }
func (C10) RunImpl(c fw.Case) []string   { return RunOps(c.Ops) }
func (C10) Oracle(c fw.Case, out []string) fw.Verdict {
	return Prop{}.Oracle(c, out)
}
func (C10) Trivial(c fw.Case, out []string) bool {
	for _, op := range c.Ops {
		if strings.HasPrefix(op, "del") || strings.HasPrefix(op, "snapdel") || strings.HasPrefix(op, "dropm") {
			return false
		}
	}
	return true
}
func (C10) Describe(cfg *fw.Config) {
	cfg.Rule = "seeded histories on one shard (inmem and tsi1 index): writes to 3 measurements x 5 tag sets (0, 1 and 2 tag keys) x 2 fields over 40 instants, then any interleaving of range deletes (by measurement, by tag pair, over all measurements; single instant, bounded, open-ended on either side, whole range), measurement drops, deletes issued while a cache snapshot is written but not yet installed, snapshots, full/fast compactions of contiguous file groups, reopen, and further writes to the same series; after every mutating step: reads of every series over the full range in both directions through both iterator families, and the series / measurement / tag key / tag value listings; non-trivial = at least one delete or drop ran; distinct = distinct op list"
}

var c10Meas = []string{"m0", "m1", "m2"}
var c10Tags = []string{"-", "host=a", "host=b", "host=a,region=x", "host=b,region=y"}
var c10Fields = []string{"v", "n"}

const c10Base = int64(1600000000000000000)

func c10Batch(r *fw.Rand, live map[string]bool) string {
	n := 1 + r.Intn(10)
	var pts []string
	for i := 0; i < n; i++ {
		m, tg := c10Meas[r.Intn(len(c10Meas))], c10Tags[r.Intn(len(c10Tags))]
		var fs []string
		for _, fn := range c10Fields {
			if r.Intn(3) > 0 || len(fs) == 0 && fn == "n" {
				fs = append(fs, fn+"="+genVal(r, fieldTypes[fn]))
			}
		}
		t := c10Base + int64(r.Intn(40))*1000
		if r.Intn(25) == 0 {
			t = []int64{-9223372036854775806, 9223372036854775806, 0, -1}[r.Intn(4)]
		}
		live[m+"|"+tg] = true
		pts = append(pts, fmt.Sprintf("%s|%s|%d|%s", m, tg, t, strings.Join(fs, ",")))
	}
	return strings.Join(pts, ";")
}

func c10Observe(r *fw.Rand, ops []string, live map[string]bool, all bool) []string {
	for s := range live {
		if !all && r.Intn(3) == 0 {
			continue
		}
		p := strings.SplitN(s, "|", 2)
		dir := "asc"
		if r.Intn(2) == 0 {
			dir = "desc"
		}
		ops = append(ops, fmt.Sprintf("read %s %s %s %d %d %s", p[0], p[1], c10Fields[r.Intn(2)], int64(-9223372036854775806), int64(9223372036854775806), dir))
	}
	ops = append(ops, "series", "meas")
	m := c10Meas[r.Intn(len(c10Meas))]
	// (tag keys are not part of the property's listing clause)
	ops = append(ops, "tagvals "+m+" host")
	if r.Intn(2) == 0 {
		ops = append(ops, "tagvals "+m+" region")
	}
	return ops
}

func c10Delete(r *fw.Rand) string {
	meas := c10Meas[r.Intn(len(c10Meas))]
	if r.Intn(10) == 0 {
		meas = "*"
	}
	pred := "-"
	switch r.Intn(5) {
	case 0:
		pred = "host=a"
	case 1:
		pred = "host=b"
	case 2:
		pred = "region=x"
	}
	lo := c10Base + int64(r.Intn(40))*1000
	hi := lo + int64(r.Intn(20))*1000
	los, his := fmt.Sprint(lo), fmt.Sprint(hi)
	switch r.Intn(8) {
	case 0:
		his = los // a single instant
	case 1:
		los = "-inf"
	case 2:
		his = "+inf"
	case 3:
		los, his = "-inf", "+inf"
	case 4:
		los, his = fmt.Sprint(c10Base), fmt.Sprint(c10Base+40000) // spans all ordinary points
	}
	verb := "del"
	switch r.Intn(8) {
	case 0, 1:
		verb = "snapdel"
	case 2:
		verb = "delprobe" // the files are asked for their tombstones in mid-delete
	}
	return fmt.Sprintf("%s %s %s %s %s", verb, meas, pred, los, his)
}

func c10Case(r *fw.Rand, index string) fw.Case {
	ops := []string{"reset " + index}
	live := map[string]bool{}
	files := 0
	steps := 6 + r.Intn(14)
	for i := 0; i < 1+r.Intn(3); i++ {
		ops = append(ops, "w "+c10Batch(r, live))
	}
	for i := 0; i < steps; i++ {
		switch r.Intn(12) {
		case 0, 1, 2:
			ops = append(ops, "w "+c10Batch(r, live))
		case 3, 4:
			if r.Intn(4) == 0 {
				// a failed snapshot stays in the cache: deletes must reach it
				ops = append(ops, "snapfail")
			} else {
				ops = append(ops, "snap")
				files++
			}
		case 5:
			if files >= 2 {
				a := r.Intn(files - 1)
				b := a + 1 + r.Intn(files-a-1)
				mode := []string{"full", "fast"}[r.Intn(2)]
				ops = append(ops, fmt.Sprintf("compact %s %d %d", mode, a, b))
				files -= b - a
			} else {
				ops = append(ops, "snap")
				files++
			}
		case 6:
			ops = append(ops, "reopen")
		case 7:
			ops = append(ops, "dropm "+c10Meas[r.Intn(len(c10Meas))])
			ops = c10Observe(r, ops, live, true)
		default:
			d := c10Delete(r)
			ops = append(ops, d)
			if strings.HasPrefix(d, "snapdel") {
				files++
			}
			ops = c10Observe(r, ops, live, false)
		}
	}
	// whatever happened, the end state after one more restart and a full compaction
	ops = append(ops, "reopen")
	ops = c10Observe(r, ops, live, true)
	ops = append(ops, "snap")
	files++
	if files >= 2 {
		ops = append(ops, fmt.Sprintf("compact full 0 %d", files-1))
	}
	ops = c10Observe(r, ops, live, true)
	return fw.Case{Ops: ops, Tags: []string{"delete", index}}
}

// c10OrderedCase: files whose blocks of a series do not overlap in time (each file holds its
// own window), a partial delete that touches only a later file, then a compaction — the
// blocks the delete did not touch may be copied without decoding, the tombstoned one may not.
func c10OrderedCase(r *fw.Rand, index string) fw.Case {
	monitored := r.Intn(4) == 0
	held := !monitored && r.Intn(3) == 0
	ops := []string{"reset " + index}
	live := map[string]bool{}
	nf := 2 + r.Intn(3)
	series := [][2]string{}
	for i, n := 0, 1+r.Intn(3); i < n; i++ {
		series = append(series, [2]string{c10Meas[r.Intn(len(c10Meas))], c10Tags[r.Intn(len(c10Tags))]})
	}
	for k := 0; k < nf; k++ {
		var pts []string
		for _, sr := range series {
			live[sr[0]+"|"+sr[1]] = true
			for j, n := 0, 2+r.Intn(5); j < n; j++ {
				pts = append(pts, fmt.Sprintf("%s|%s|%d|n=%s", sr[0], sr[1], c10Base+int64(k*10+r.Intn(10))*1000, genVal(r, fieldTypes["n"])))
			}
		}
		ops = append(ops, "w "+strings.Join(pts, ";"), "snap")
	}
	for d, nd := 0, 1+r.Intn(2); d < nd; d++ {
		k := 1 + r.Intn(nf-1) // not the oldest file
		lo := c10Base + int64(k*10+r.Intn(5))*1000
		hi := lo + int64(r.Intn(5))*1000
		verb := "del"
		if d == 0 && monitored {
			verb = "delmon" // compactions are switched on from outside in mid-delete
		}
		if d == 0 && held {
			verb = "delheld" // the engine's own compaction of all files is about to install
		}
		ops = append(ops, fmt.Sprintf("%s %s - %d %d", verb, series[r.Intn(len(series))][0], lo, hi))
	}
	if r.Intn(3) == 0 {
		ops = append(ops, "reopen")
	}
	ops = append(ops, fmt.Sprintf("compact %s 0 %d", []string{"fast", "full"}[r.Intn(2)], nf-1))
	ops = c10Observe(r, ops, live, true)
	ops = append(ops, "reopen")
	ops = c10Observe(r, ops, live, true)
	return fw.Case{Ops: ops, Tags: []string{"ordered-files", index}}
}

func (C10) Generate(r *fw.Rand, tier string) []fw.Case {
	n := 60
	if tier == "thorough" {
		n = 2500
	}
	var cases []fw.Case
	for i := 0; i < n; i++ {
		idx := "inmem"
		if i%2 == 1 {
			idx = "tsi1"
		}
		cases = append(cases, c10Case(r.Fork(), idx))
		if i%5 == 0 {
			cases = append(cases, c10OrderedCase(r.Fork(), idx))
		}
	}
	return cases
}
