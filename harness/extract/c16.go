package extract

import (
	"fmt"
	"os"
	"os/exec"
	"path/filepath"
	"regexp"
	"sort"
	"strings"

	"github.com/influxdata/influxql"
)

// C16Statements are the representative statements, one or more per statement kind;
// index = statement id used in op lines.
var C16Statements = []string{
	`SELECT v FROM cpu`,
	`SELECT v FROM db1.rp0.cpu`,
	`SELECT v INTO db1.rp0.out FROM cpu`,
	`SELECT mean(v) INTO out FROM db0.rp0.cpu GROUP BY time(1m)`,
	`DELETE FROM cpu`,
	`DROP SERIES FROM cpu`,
	`DROP MEASUREMENT cpu`,
	`SHOW MEASUREMENTS`,
	`SHOW MEASUREMENTS ON db1`,
	`SHOW SERIES`,
	`SHOW SERIES ON db1`,
	`SHOW TAG KEYS`,
	`SHOW TAG VALUES WITH KEY = host`,
	`SHOW FIELD KEYS`,
	`SHOW SERIES CARDINALITY`,
	`SHOW SERIES EXACT CARDINALITY ON db1`,
	`SHOW MEASUREMENT CARDINALITY`,
	`SHOW TAG KEY CARDINALITY`,
	`SHOW TAG VALUES CARDINALITY WITH KEY = host`,
	`SHOW FIELD KEY CARDINALITY`,
	`SHOW RETENTION POLICIES ON db0`,
	`SHOW RETENTION POLICIES`,
	`SHOW DATABASES`,
	`SHOW USERS`,
	`SHOW GRANTS FOR u0`,
	`SHOW CONTINUOUS QUERIES`,
	`SHOW SUBSCRIPTIONS`,
	`SHOW SHARDS`,
	`SHOW SHARD GROUPS`,
	`SHOW STATS`,
	`SHOW DIAGNOSTICS`,
	`SHOW QUERIES`,
	`SHOW SERVERS`,
	`KILL QUERY 3`,
	`CREATE DATABASE db9`,
	`DROP DATABASE db0`,
	`CREATE RETENTION POLICY rp9 ON db0 DURATION 1d REPLICATION 1`,
	`ALTER RETENTION POLICY rp0 ON db0 DURATION 2d`,
	`DROP RETENTION POLICY rp0 ON db0`,
	`CREATE USER u9 WITH PASSWORD 'p'`,
	`CREATE USER a9 WITH PASSWORD 'p' WITH ALL PRIVILEGES`,
	`DROP USER u0`,
	`SET PASSWORD FOR u0 = 'q'`,
	`GRANT READ ON db0 TO u0`,
	`GRANT ALL PRIVILEGES TO u0`,
	`REVOKE READ ON db0 FROM u0`,
	`REVOKE ALL PRIVILEGES FROM u0`,
	`CREATE CONTINUOUS QUERY cq0 ON db0 BEGIN SELECT mean(v) INTO out FROM cpu GROUP BY time(1m) END`,
	`DROP CONTINUOUS QUERY cq0 ON db0`,
	`CREATE SUBSCRIPTION s0 ON db0.rp0 DESTINATIONS ALL 'udp://h:1'`,
	`DROP SUBSCRIPTION s0 ON db0.rp0`,
	`DROP SHARD 3`,
	`EXPLAIN SELECT v FROM cpu`,
	`EXPLAIN ANALYZE SELECT v FROM cpu`,
}

func init() {
	Register(func(repo, out string) error {
		f := NewFile("C16")
		var rows []string
		covered := map[string]bool{}
		for i, text := range C16Statements {
			st, err := influxql.ParseStatement(text)
			if err != nil {
				return fmt.Errorf("C16: statement %d %q: %v", i, text, err)
			}
			tn := strings.TrimPrefix(fmt.Sprintf("%T", st), "*influxql.")
			covered[tn] = true
			privs, err := st.RequiredPrivileges()
			if err != nil {
				return fmt.Errorf("C16: statement %d %q: privileges: %v", i, text, err)
			}
			isAdminCreate := false
			if cu, ok := st.(*influxql.CreateUserStatement); ok && cu.Admin {
				isAdminCreate = true
			}
			var ps []string
			for _, p := range privs {
				ps = append(ps, fmt.Sprintf("(%v, %s, %d)", p.Admin, LeanStr(p.Name), int(p.Privilege)))
			}
			rows = append(rows, fmt.Sprintf("(%s, %v, [%s])", LeanStr(tn), isAdminCreate, strings.Join(ps, ", ")))
		}
		f.Def("statements", "List (String × Bool × List (Bool × String × Nat))", "[\n  "+strings.Join(rows, ",\n  ")+"]")
		f.StrList("statementTexts", C16Statements)
		// privilege enum
		f.NatList("privilegeEnum", []uint64{uint64(influxql.NoPrivileges), uint64(influxql.ReadPrivilege), uint64(influxql.WritePrivilege), uint64(influxql.AllPrivileges)})
		// coverage: every statement type of the linked influxql that has RequiredPrivileges is represented
		cmd := exec.Command("go", "list", "-m", "-f", "{{.Dir}}", "github.com/influxdata/influxql")
		cmd.Dir = repo
		cmd.Env = append(os.Environ(), "GOFLAGS=-mod=mod", "GOPROXY=off", "GOSUMDB=off", "GOTOOLCHAIN=local")
		b, err := cmd.Output()
		if err != nil {
			return fmt.Errorf("C16: go list influxql: %v", err)
		}
		src, err := os.ReadFile(filepath.Join(strings.TrimSpace(string(b)), "ast.go"))
		if err != nil {
			return err
		}
		re := regexp.MustCompile(`(?m)^func \(\w+ \*?(\w+)\) RequiredPrivileges\(`)
		var missing []string
		for _, m := range re.FindAllStringSubmatch(string(src), -1) {
			if !covered[m[1]] {
				missing = append(missing, m[1])
			}
		}
		sort.Strings(missing)
		f.StrList("uncoveredStatementTypes", missing)
		return f.Write(out)
	})
}
