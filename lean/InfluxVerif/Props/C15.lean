/-
C15 — Inter-node protocol is lossless and cannot be used to crash a node.
Theorems over `InfluxVerif.TLV`: the framing functions and the connection loop as a parser
of *every* byte stream.
-/
import InfluxVerif.Model.TLV
import InfluxVerif.Lemmas.CodecBasic
import InfluxVerif.Gen.C15

namespace InfluxVerif.TLV
open InfluxVerif.Codec

/-- **No byte string makes `ReadLV` panic.** (`make([]byte, sz)` is reached only with
`0 ≤ sz < MaxMessageSize`.) -/
theorem readLV_never_panics (b : Bytes) : (readLV b).1 ≠ .panic := by
  unfold readLV
  split
  · simp
  · rename_i u rest _
    simp only
    split
    · simp
    · rename_i hsz
      have : ¬ (toInt64 u < 0) := fun h => hsz (Or.inl h)
      simp only [makeSlice, this, if_false]
      split <;> simp

/-- **Allocation bound.** Whatever arrives, a frame never makes the node allocate
`MaxMessageSize` bytes or more for its value. -/
theorem readLV_alloc_bounded (b : Bytes) : (readLV b).2 < maxMessageSize := by
  unfold readLV
  split
  · simp [maxMessageSize]
  · rename_i u rest _
    simp only
    split
    · simp [maxMessageSize]
    · rename_i hsz
      have h0 : ¬ (toInt64 u < 0) := fun h => hsz (Or.inl h)
      have h1 : toInt64 u < maxMessageSize := by
        by_contra h; exact hsz (Or.inr (by omega))
      simp only [makeSlice, h0, if_false]
      have : (toInt64 u).toNat < maxMessageSize := by omega
      split <;> simpa using this

/-- **Framing round trip.** What `WriteTLV` writes, `ReadType` + `ReadLV` read back, and the
rest of the stream is untouched. -/
theorem tlv_roundtrip (typ : Nat) (payload rest : Bytes) (h : payload.length < maxMessageSize) :
    ∃ b, writeTLV typ payload ++ rest = typ :: b ∧ (readLV b).1 = .ok payload rest := by
  refine ⟨be64 payload.length ++ payload ++ rest, by simp [writeTLV], ?_⟩
  unfold readLV
  have hlt : payload.length < M64 := by unfold maxMessageSize at h; unfold M64; omega
  rw [List.append_assoc, be64_roundtrip _ hlt]
  simp only
  have hi : toInt64 payload.length = (payload.length : Int) := by
    unfold toInt64 maxMessageSize at *; unfold M63; simp; omega
  have hneg : ¬ ((payload.length : Int) < 0 ∨ (payload.length : Int) ≥ maxMessageSize) := by
    unfold maxMessageSize at *; omega
  rw [hi]
  simp only [hneg, if_false, makeSlice]
  have : ¬ ((payload.length : Int) < 0) := by omega
  simp [this]

/-- **The connection loop never panics**, whatever the dispatch table and whatever bytes
arrive, in any quantity. -/
theorem serve_never_panics (action : Nat → Action) (fuel : Nat) (b : Bytes) :
    Event.panic ∉ serve action fuel b := by
  induction fuel generalizing b with
  | zero => simp [serve]
  | succ fuel ih =>
    cases b with
    | nil => simp [serve]
    | cons typ rest =>
      simp only [serve]
      have hnp := readLV_never_panics rest
      cases action typ with
      | unknown => exact ih rest
      | inline =>
        simp only
        cases hr : (readLV rest).1 with
        | ok p r => simp only [List.mem_cons, not_or]; exact ⟨by simp, ih r⟩
        | panic => exact absurd hr hnp
        | shortHeader => simp
        | rejected => simp
        | shortValue => simp
      | continue_ =>
        simp only
        cases hr : (readLV rest).1 with
        | panic => exact absurd hr hnp
        | ok p r => simp only [List.mem_cons, not_or]; exact ⟨by simp, ih _⟩
        | shortHeader => simp only [List.mem_cons, not_or]; exact ⟨by simp, ih _⟩
        | rejected => simp only [List.mem_cons, not_or]; exact ⟨by simp, ih _⟩
        | shortValue => simp only [List.mem_cons, not_or]; exact ⟨by simp, ih _⟩
      | return_ =>
        simp only
        cases hr : (readLV rest).1 with
        | panic => exact absurd hr hnp
        | ok p r => simp
        | shortHeader => simp
        | rejected => simp
        | shortValue => simp

/-- a frame the handler reads itself (write / execute-statement) is answered exactly when its
length-value could be read; otherwise the connection is closed without a reply -/
theorem inline_answered_or_closed (action : Nat → Action) (fuel typ : Nat) (b : Bytes)
    (h : action typ = .inline) :
    (∃ p rest, (readLV b).1 = .ok p rest ∧ serve action (fuel + 1) (typ :: b) = .reply (typ + 1) :: serve action fuel rest)
    ∨ ((∀ p rest, (readLV b).1 ≠ .ok p rest) ∧ serve action (fuel + 1) (typ :: b) = []) := by
  simp only [serve, h]
  have hnp := readLV_never_panics b
  cases hr : (readLV b).1 with
  | ok p r => exact Or.inl ⟨p, r, rfl, rfl⟩
  | panic => exact absurd hr hnp
  | shortHeader => exact Or.inr ⟨by simp, rfl⟩
  | rejected => exact Or.inr ⟨by simp, rfl⟩
  | shortValue => exact Or.inr ⟨by simp, rfl⟩

/-! ### Tie to the code (Gen/C15.lean) -/

theorem gen_constants : Gen.C15.maxMessageSize = maxMessageSize ∧ Gen.C15.muxHeader = 2 := by decide

/-- the dispatch table of `handleConn` as the source has it (go/ast): which request types it
frames itself, which processors end the connection loop, which let it go on -/
theorem gen_dispatch :
    Gen.C15.inlineTypes = [1, 3] ∧
    Gen.C15.returnTypes = [17, 19, 21, 29, 31, 33, 35, 37, 39, 41, 43] ∧
    Gen.C15.continueTypes = [5, 7, 9, 11, 13, 15, 23, 25, 27] := by decide

/-- `handleConn` has no `recover`: this is why a panic anywhere under it is modelled as the
death of the node (and why `serve_never_panics` matters) -/
theorem gen_no_recover : Gen.C15.handleConnRecovers = false := by decide

/-! ### Non-vacuity -/

example : (readLV [255,255,255,255,255,255,255,255, 1, 2]).1 = .rejected := by decide
example : (readLV [0,0,0,0,0,0,0,2, 7, 9, 5]).1 = .ok [7, 9] [5] := by decide
example : (readLV [0,0,0,0,0,0,0,2, 7]).1 = .shortValue := by decide
example : serve (fun t => if t = 1 then .inline else .unknown) 30 [9, 1, 0,0,0,0,0,0,0,1, 5, 1, 255,255,255,255,255,255,255,255]
    = [.reply 2] := by decide

end InfluxVerif.TLV
