/-
Timestamp block encoding (tsdb/engine/tsm1/timestamp.go): `encoder.reduce/Bytes` and
`TimeDecoder` driven by `for Next() { Read() }`.
-/
import InfluxVerif.Model.Codec.Simple8b
namespace InfluxVerif.Codec

/-- `math.Pow10(k)` as `uint64`/`int64` for the 4-bit exponent field (table checked vs Gen). -/
def pow10 (k : Nat) : Nat := 10 ^ k

/-- `byte(math.Log10(float64(div)))` for div ∈ {10^0..10^12} -/
def log10of : Nat → Nat → Nat
  | 0, _ => 0
  | fuel + 1, d => if d < 10 then 0 else 1 + log10of fuel (d / 10)

/-- in-place delta computation of `reduce`: `d[0] = ts[0]`, `d[i] = ts[i] - ts[i-1]` (mod 2^64) -/
def deltasFrom (prev : Nat) : List Nat → List Nat
  | [] => []
  | t :: rest => sub64 t prev :: deltasFrom t rest

def timeDeltas : List Nat → List Nat
  | [] => []
  | t :: rest => t :: deltasFrom t rest

/-- `for divisor > 1 && v%divisor != 0 { divisor /= 10 }` -/
def divStep : Nat → Nat → Nat → Nat
  | 0, d, _ => d
  | fuel + 1, d, v => if d > 1 ∧ v % d ≠ 0 then divStep fuel (d / 10) v else d

/-- the loop runs from the last delta to the second element -/
def reduceDiv (ds : List Nat) : Nat := ds.foldr (fun v d => divStep 13 d v) 1000000000000

def reduceMax (ds : List Nat) : Nat := ds.foldr (fun v m => if v > m then v else m) 0

/-- all deltas after the first element equal -/
def allEq : List Nat → Bool
  | [] => true
  | [_] => true
  | a :: b :: rest => a == b && allEq (b :: rest)

/-- `encoder.Bytes()`; `none` = the simple8b encoder reported an error. -/
def timeEncode (ts : List Nat) : Option Bytes :=
  match timeDeltas ts with
  | [] => some []
  | first :: ds =>
    let dv := reduceDiv ds
    let mx := reduceMax ds
    if allEq ds ∧ ds.length ≥ 1 then
      some ((2 * 16 + log10of 13 dv) :: be64 first ++ putUvarint (ds.headD 0 / dv) ++ putUvarint (ds.length + 1))
    else if mx > s8bMax then
      some (0 :: (first :: ds).flatMap be64)
    else
      match s8bEncodeStream (ds.map (· / dv)) with
      | none => none
      | some ws => some ((1 * 16 + log10of 13 dv) :: be64 first ++ wordsToBytes ws)

/-- running sum `deltas[i] = last + deltas[i]*div` (mod 2^64) -/
def prefixSums (dv : Nat) (last : Nat) : List Nat → List Nat
  | [] => []
  | d :: rest => let v := add64 last (mul64 d dv); v :: prefixSums dv v rest

def rleTimes (first delta : Nat) : Nat → List Nat
  | 0 => []
  | n + 1 => first :: rleTimes (add64 first delta) delta n

/-- `TimeDecoder.Init` + `Next/Read` loop; `none` = `Error() != nil`. -/
def timeDecode (b : Bytes) : Option (List Nat) :=
  match b with
  | [] => some []
  | b0 :: rest =>
    let enc := b0 / 16 % 16
    if enc = 0 then
      -- decodeRaw: len/8 values, trailing bytes ignored
      match bytesToWords (rest.length / 8) rest with
      | [] => some []
      | f :: ds => some (f :: prefixSums 1 f ds)
    else if enc = 2 then
      if b.length < 9 then none else
      match be64dec rest with
      | none => none
      | some (first, r1) =>
        match uvarint r1 with
        | none => none
        | some (value, _, r2) =>
          match uvarint r2 with
          | none => none
          | some (count, _, _) =>
            let delta := mul64 value (pow10 (b0 % 16) % M64)
            -- d.n = int(count): a count ≥ 2^63 is negative and yields nothing
            if count ≥ M63 then some [] else some (rleTimes first delta count)
    else if enc = 1 then
      if b.length < 9 then none else
      match be64dec rest with
      | none => none
      | some (first, r1) =>
        let dv := pow10 (b0 % 16) % M64
        some (first :: prefixSums dv first (s8bDecodeAll (bytesToWords (r1.length / 8) r1)))
    else none

end InfluxVerif.Codec
