/-
C02 / C09 — the order in which the blocks of one key are merged.
`blocks.sortStable` (tsdb/engine/tsm1/compact.go) and `sortLocations` (file_store.go) are the
same insertion sort over two different comparisons; the merge that follows lets the block that
comes LATER in the list win on equal timestamps, so blocks that overlap in time must keep the
order of their files.  Core Lean only.
-/
namespace InfluxVerif.BlockOrder

/-- a block of one key: its index entry's time range and the position of its file (files are
numbered oldest first) -/
structure Blk where
  min : Int
  max : Int
  file : Nat
  deriving Repr, DecidableEq, Inhabited

def overlaps (a b : Blk) : Bool := a.min ≤ b.max && b.min ≤ a.max

/-- `blocks.Less`: `a` lies wholly before `b` -/
def lessC (a b : Blk) : Bool := a.min < b.min && a.max < b.min

/-- `ascLocations.Less`: by file when the blocks overlap, else by start time -/
def lessAsc (a b : Blk) : Bool := if overlaps a b then a.file < b.file else a.min < b.min

/-- `descLocations.Less`: by file when the blocks overlap, else by end time -/
def lessDesc (a b : Blk) : Bool := if overlaps a b then a.file < b.file else a.max < b.max

/-- insert `x` at the end of an already processed prefix, moving it in front of every element it
is `less` than — the inner loop of the insertion sort, on the reversed prefix -/
def insertBack (less : Blk → Blk → Bool) (x : Blk) : List Blk → List Blk
  | [] => [x]
  | y :: rest => if less x y then y :: insertBack less x rest else x :: y :: rest

/-- the insertion sort of `sortStable` / `sortLocations`; the accumulator is the sorted prefix
in reverse (last element first) -/
def isortRev (less : Blk → Blk → Bool) : List Blk → List Blk → List Blk
  | acc, [] => acc
  | acc, x :: rest => isortRev less (insertBack less x acc) rest

def isort (less : Blk → Blk → Bool) (l : List Blk) : List Blk := (isortRev less [] l).reverse

end InfluxVerif.BlockOrder
