/-
C01 — Acknowledged writes survive any crash and restart.
(1) The shard specification (Spec/Shard.lean) has no crash operation: a crash followed by a
restart is the identity on it, so the real shard — compared with the specification after every
crash image and restart (harness/props/c02/c01.go) — must give back every acknowledged write.
(2) The one place where the real engine decides what survives a torn write is the replay of
the newest WAL segment; these theorems are about that replay (Model/Codec/Wal.lean, tied to
wal.go by the C13 correspondence): a torn tail costs nothing that was acknowledged, recovery
followed by further appends replays completely — and the negative result for the pinned tree,
where appends after a recovery landed behind a gap of zeros.
-/
import InfluxVerif.Lemmas.Wal
import InfluxVerif.Props.C13
import InfluxVerif.Model.SnapWal

namespace InfluxVerif.Codec

def Valid (valid : Nat → Bytes → Bool) (fs : List Frame) : Prop :=
  ∀ f ∈ fs, valid f.ty f.payload = true ∧ f.payload.length < 4294967296

theorem framesLen_append (a b : List Frame) : framesLen (a ++ b) = framesLen a + framesLen b := by
  simp [framesLen, segmentBytes, List.flatMap_append]

theorem framesLen_take_le (fs : List Frame) (j : Nat) : framesLen (fs.take j) ≤ framesLen fs := by
  conv => rhs; rw [← List.take_append_drop j fs]
  rw [framesLen_append]; omega

/-- **A torn tail costs nothing acknowledged.** `acked` are the entries whose append was
acknowledged (they are completely on disk), `later` were being appended when the process died;
the file is cut anywhere at or after the end of `acked`.  Replay returns all of `acked`,
followed by a prefix of `later`, and the valid length it reports lies at an entry boundary at
or after the end of `acked`. -/
theorem acked_survive_torn_tail (valid : Nat → Bytes → Bool) (acked later : List Frame)
    (hv : Valid valid (acked ++ later)) (k : Nat) (hk : framesLen acked ≤ k) :
    ∃ m, m ≤ later.length ∧
      walReplay valid ((acked ++ later).length + 1) ((segmentBytes (acked ++ later)).take k)
        = (acked ++ later.take m, framesLen (acked ++ later.take m)) := by
  obtain ⟨j, hj, hrep, hle, hmax⟩ := wal_torn_prefix valid (acked ++ later) hv k
  have hjge : acked.length ≤ j := by
    by_contra hlt
    have hlt : j < acked.length := by omega
    have h1 := hmax (by simp; omega)
    have h2 : framesLen ((acked ++ later).take (j + 1)) ≤ framesLen acked := by
      rw [List.take_append_of_le_length (by omega)]
      exact framesLen_take_le acked (j + 1)
    omega
  refine ⟨j - acked.length, by simp at hj; omega, ?_⟩
  rw [hrep]
  have : (acked ++ later).take j = acked ++ later.take (j - acked.length) := by
    rw [List.take_append, List.take_of_length_le hjge]
  rw [this]

theorem segmentBytes_append (a b : List Frame) : segmentBytes (a ++ b) = segmentBytes a ++ segmentBytes b := by
  simp [segmentBytes, List.flatMap_append]

/-- **Recovery, then more acknowledged writes, then another restart.**  The file is truncated
to the valid length the replay reported, `new` entries are appended at the end of the file
(append mode), and the next replay returns everything: what the first recovery kept and every
entry acknowledged since. -/
theorem recovery_then_append (valid : Nat → Bytes → Bool) (kept new : List Frame)
    (hv : Valid valid (kept ++ new)) :
    walReplay valid ((kept ++ new).length + 1) (segmentBytes kept ++ segmentBytes new)
      = (kept ++ new, framesLen (kept ++ new)) := by
  rw [← segmentBytes_append]
  exact wal_full_replay valid (kept ++ new) hv

/-- the file truncated at the reported valid length is exactly the encoding of the kept entries -/
theorem truncate_at_valid_length (fs : List Frame) (j k : Nat) (hle : framesLen (fs.take j) ≤ k) :
    ((segmentBytes fs).take k).take (framesLen (fs.take j)) = segmentBytes (fs.take j) := by
  rw [List.take_take, Nat.min_eq_left hle]
  have h : segmentBytes fs = segmentBytes (fs.take j) ++ segmentBytes (fs.drop j) := by
    rw [← segmentBytes_append, List.take_append_drop]
  unfold framesLen
  rw [h, List.take_left]

/-- **The pinned tree's defect, as a theorem about the model**: when the appends after a
recovery are written behind a gap of zero bytes (the writer kept the offset the file had
before it was truncated), the next replay stops at the gap — entry type 0 is not a WAL entry
type — and none of the entries acknowledged after the recovery is returned. -/
theorem gap_loses_acknowledged (valid : Nat → Bytes → Bool) (h0 : ∀ p, valid 0 p = false)
    (kept : List Frame) (hv : Valid valid kept) (gap : Nat) (hg : 0 < gap) (rest : Bytes) :
    walReplay valid (kept.length + 1) (segmentBytes kept ++ (List.replicate gap 0 ++ rest))
      = (kept, framesLen kept) := by
  induction kept with
  | nil =>
    cases gap with
    | zero => omega
    | succ g =>
      simp only [segmentBytes, List.flatMap_nil, List.nil_append, List.replicate_succ, List.cons_append,
        List.length_nil, Nat.zero_add, walReplay, framesLen, List.length_nil]
      cases be32dec (List.replicate g 0 ++ rest) with
      | none => rfl
      | some p =>
        obtain ⟨len, r1⟩ := p
        simp only
        split
        · rfl
        · simp [h0]
  | cons f fs ih =>
    obtain ⟨hvf, hlf⟩ := hv f (by simp)
    have hseg : segmentBytes (f :: fs) = frameBytes f ++ segmentBytes fs := by simp [segmentBytes]
    rw [hseg, List.append_assoc, List.length_cons, walReplay_step valid _ f _ hlf hvf,
      ih (fun g hg => hv g (by simp [hg])), framesLen_cons]

/-! ### Non-vacuity -/

-- two acknowledged entries, a third cut after 3 of its 7 bytes: both acknowledged entries come back
example : walReplay (fun ty _ => ty != 0) 4 ((segmentBytes [⟨1, [9, 9]⟩, ⟨1, [7]⟩, ⟨1, [5, 5]⟩]).take 16)
    = ([⟨1, [9, 9]⟩, ⟨1, [7]⟩], 13) := by decide
-- appended behind a gap of two zero bytes, the acknowledged third entry is not replayed
example : (walReplay (fun ty _ => ty != 0) 4 (segmentBytes [⟨1, [9, 9]⟩] ++ ([0, 0] ++ segmentBytes [⟨1, [5, 5]⟩]))).1
    = [⟨1, [9, 9]⟩] := by decide

end InfluxVerif.Codec

/-! ### the cache snapshot and the WAL: nothing acknowledged is ever outside files + WAL -/

namespace InfluxVerif.SnapWal

/-- every acknowledged write is durable, and everything in the WAL is still in the cache
(snapshot or live store) unless a file holds it -/
def Inv (s : St) : Prop :=
  (∀ w ∈ s.acked, w ∈ durable s) ∧
  (∀ w ∈ s.closed.flatten ++ s.cur, w ∈ s.files ∨ w ∈ s.snap ∨ w ∈ s.store)

theorem inv_init : Inv {} := by
  constructor <;> intro w hw <;> simp [durable] at hw

theorem inv_write (s : St) (w : Nat) (h : Inv s) : Inv (write s w) := by
  obtain ⟨h1, h2⟩ := h
  constructor
  · intro x hx
    simp only [write, List.mem_append, List.mem_singleton] at hx
    simp only [durable, write, List.mem_append, List.mem_singleton]
    rcases hx with hx | hx
    · have := h1 x hx
      simp only [durable, List.mem_append] at this
      rcases this with (h | h) | h
      · exact Or.inl (Or.inl h)
      · exact Or.inl (Or.inr h)
      · exact Or.inr (Or.inl h)
    · exact Or.inr (Or.inr hx)
  · intro x hx
    simp only [write, List.mem_append, List.mem_singleton] at hx ⊢
    rcases hx with hx | hx | hx
    · rcases h2 x (by simp [hx]) with h | h | h
      · exact Or.inl h
      · exact Or.inr (Or.inl h)
      · exact Or.inr (Or.inr (Or.inl h))
    · rcases h2 x (by simp [hx]) with h | h | h
      · exact Or.inl h
      · exact Or.inr (Or.inl h)
      · exact Or.inr (Or.inr (Or.inl h))
    · exact Or.inr (Or.inr (Or.inr hx))

/-- the WAL content does not change when the open segment is closed -/
theorem wal_begin (s : St) :
    (begin true s).1.closed.flatten ++ (begin true s).1.cur = s.closed.flatten ++ s.cur := by
  unfold begin
  by_cases hc : s.cur.isEmpty
  · have : s.cur = [] := List.isEmpty_iff.mp hc
    by_cases hs : s.snap.isEmpty <;> simp [hc, hs, this]
  · by_cases hs : s.snap.isEmpty <;> simp [hc, hs, List.flatten_append]

theorem begin_fields (s : St) :
    (begin true s).1.files = s.files ∧ (begin true s).1.acked = s.acked ∧ (begin true s).1.store = [] ∧
    (∀ x, x ∈ (begin true s).1.snap ↔ x ∈ s.snap ∨ x ∈ s.store) ∧
    (begin true s).2 = (begin true s).1.closed.length := by
  unfold begin
  by_cases hs : s.snap.isEmpty
  · have : s.snap = [] := List.isEmpty_iff.mp hs
    simp [hs, this]
  · simp [hs]

theorem inv_begin (s : St) (h : Inv s) : Inv (begin true s).1 := by
  obtain ⟨h1, h2⟩ := h
  obtain ⟨hf, ha, hst, hsn, _⟩ := begin_fields s
  have hw := wal_begin s
  constructor
  · intro x hx
    rw [ha] at hx
    have := h1 x hx
    simp only [durable, List.mem_append] at this ⊢
    rw [hf]
    have hw' : x ∈ (begin true s).1.closed.flatten ++ (begin true s).1.cur ↔ x ∈ s.closed.flatten ++ s.cur := by rw [hw]
    simp only [List.mem_append] at hw'
    rcases this with (h | h) | h
    · exact Or.inl (Or.inl h)
    · rcases hw'.mpr (Or.inl h) with h' | h'
      · exact Or.inl (Or.inr h')
      · exact Or.inr h'
    · rcases hw'.mpr (Or.inr h) with h' | h'
      · exact Or.inl (Or.inr h')
      · exact Or.inr h'
  · intro x hx
    rw [hw] at hx
    rw [hf, hst]
    rcases h2 x hx with h | h | h
    · exact Or.inl h
    · exact Or.inr (Or.inl ((hsn x).mpr (Or.inl h)))
    · exact Or.inr (Or.inl ((hsn x).mpr (Or.inr h)))

theorem inv_succeed (s : St) (h : Inv (begin true s).1) : Inv (succeed (begin true s).1 (begin true s).2) := by
  obtain ⟨h1, h2⟩ := h
  obtain ⟨_, _, hst, _, hn⟩ := begin_fields s
  have hcur : (begin true s).1.cur = [] := by
    unfold begin
    by_cases hs : s.snap.isEmpty <;> simp [hs]
  generalize hb : (begin true s).1 = b at *
  generalize hm : (begin true s).2 = n at *
  subst hn
  constructor
  · intro x hx
    simp only [succeed] at hx
    have := h1 x hx
    simp only [durable, succeed, List.drop_length, List.flatten_nil, List.append_nil, List.mem_append] at this ⊢
    rw [hcur] at this ⊢
    rcases this with (h | h) | h
    · exact Or.inl (Or.inl h)
    · rcases h2 x (by simp [h]) with h' | h' | h'
      · exact Or.inl (Or.inl h')
      · exact Or.inl (Or.inr h')
      · rw [hst] at h'; simp at h'
    · simp at h
  · intro x hx
    simp only [succeed, List.drop_length, List.flatten_nil, List.nil_append] at hx
    rw [hcur] at hx
    simp at hx

theorem inv_restart (s : St) (h : Inv s) : Inv (restart s) := by
  obtain ⟨h1, _⟩ := h
  constructor
  · intro x hx
    exact h1 x hx
  · intro x hx
    exact Or.inr (Or.inr hx)

theorem inv_step (s : St) (op : Op) (h : Inv s) : Inv (step true s op) := by
  cases op with
  | write w => exact inv_write s w h
  | snapshotOk => exact inv_succeed s (inv_begin s h)
  | snapshotFails => exact inv_begin s h
  | restart => exact inv_restart s h

/-- **Every acknowledged write is in a file or in the WAL after every history** of writes,
cache snapshots that succeed, cache snapshots that fail (and are retried by the next one) and
restarts — with the repaired retry, which takes what was written since the failure. -/
theorem acked_always_durable (ops : List Op) :
    ∀ w ∈ (run true {} ops).acked, w ∈ durable (run true {} ops) := by
  have : ∀ (s : St), Inv s → Inv (run true s ops) := by
    induction ops with
    | nil => intro s h; exact h
    | cons op rest ih => intro s h; exact ih _ (inv_step s op h)
  exact (this {} inv_init).1

/-- so a restart at any moment finds all of them: in a file or, replayed, in the cache -/
theorem restart_reads_all_acked (ops : List Op) :
    ∀ w ∈ (run true {} ops).acked,
      w ∈ (restart (run true {} ops)).files ∨ w ∈ (restart (run true {} ops)).store := by
  intro w hw
  have := acked_always_durable ops w hw
  simp only [durable, List.mem_append] at this
  simp only [restart, List.mem_append]
  rcases this with (h | h) | h
  · exact Or.inl h
  · exact Or.inr (Or.inl h)
  · exact Or.inr (Or.inr h)

/-- **The pinned retry loses an acknowledged write**: a snapshot attempt fails, a write is
acknowledged, the next attempt writes the old snapshot alone and removes both segments
(repaired in /repo, see DESIGN 7.1; replays/corpus/C01-failed-snapshot-loses-wal.json). -/
theorem old_retry_loses_a_write :
    let s := run false {} [.write 1, .snapshotFails, .write 2, .snapshotOk]
    2 ∈ s.acked ∧ 2 ∉ durable s ∧ 2 ∉ (restart s).store := by decide

example : durable (run true {} [.write 1, .snapshotFails, .write 2, .snapshotOk]) = [1, 2] := by decide

end InfluxVerif.SnapWal
