/-
C06 — Cluster metadata is deterministic and keeps its invariants.
Theorems over the model `InfluxVerif.Meta` (a port of services/meta/data.go + store_fsm.go
that the correspondence check compares with the real FSM after every command).
-/
import InfluxVerif.Model.Meta
import InfluxVerif.Lemmas.MetaInv
import InfluxVerif.Lemmas.MetaIds
import Mathlib.Data.List.Nodup
import InfluxVerif.Gen.C06

namespace InfluxVerif.Meta

/-- a command log: command, term, index -/
abbrev Log := List (Cmd × Nat × Nat)

def run (auto : Bool) (d : Data) (log : Log) : Data :=
  log.foldl (fun d e => (step auto d e.1 e.2.1 e.2.2).1) d

/-- **Determinism.** The metadata is a function of the committed log: any two replicas that
start from the same value and apply the same log hold the same value (the model has no
choice left in it — `newShardOwner`'s tie is broken by node id). -/
theorem replicas_converge (auto : Bool) (d₀ : Data) (log : Log) (r₁ r₂ : Data)
    (h₁ : r₁ = run auto d₀ log) (h₂ : r₂ = run auto d₀ log) : r₁ = r₂ := by
  rw [h₁, h₂]

/-- a log applied in two pieces is the log applied at once (snapshot + tail, see C07) -/
theorem run_append (auto : Bool) (d : Data) (l₁ l₂ : Log) :
    run auto d (l₁ ++ l₂) = run auto (run auto d l₁) l₂ := by
  simp [run, List.foldl_append]

/-- **A rejected command changes nothing** but the Term/Index stamp. -/
theorem rejected_changes_nothing (auto : Bool) (d d' : Data) (c : Cmd) (term index : Nat) (e : String)
    (h : step auto d c term index = (d', some e)) : d'.payload = d.payload := by
  unfold step at h
  split at h
  · simp at h
  · simp only [Prod.mk.injEq, Option.some.injEq] at h
    obtain ⟨rfl, _⟩ := h
    rfl

/-- an accepted command installs exactly what `applyCmd` computed -/
theorem accepted_installs (auto : Bool) (d d' : Data) (c : Cmd) (term index : Nat)
    (h : step auto d c term index = (d', none)) :
    ∃ d'', applyCmd auto d c = .ok d'' ∧ d' = { d'' with term := term, index := index } := by
  unfold step at h
  split at h
  · rename_i d'' hd
    simp only [Prod.mk.injEq, and_true] at h
    exact ⟨d'', hd, h.symm⟩
  · simp at h

/-! ### creating a shard group -/

/-- every shard of a new group gets exactly `replicaN` owners, all of them existing data nodes -/
theorem newShards_owners (nodes : List Node) (firstID start shardN replicaN : Nat) (hn : nodes ≠ []) :
    ∀ s ∈ newShards nodes firstID start shardN replicaN,
      s.owners.length = replicaN ∧ ∀ o ∈ s.owners, o ∈ nodes.map (·.id) := by
  intro s hs
  simp only [newShards, List.mem_map, List.mem_range] at hs
  obtain ⟨i, _, rfl⟩ := hs
  constructor
  · simp [ownersFor]
  · intro o ho
    simp only [ownersFor, List.mem_map, List.mem_range] at ho
    obtain ⟨j, _, rfl⟩ := ho
    have hlen : 0 < nodes.length := List.length_pos_iff.mpr hn
    have hidx : (start + i * replicaN + j) % nodes.length < nodes.length := Nat.mod_lt _ hlen
    simp only [List.mem_map]
    refine ⟨nodes[(start + i * replicaN + j) % nodes.length], List.getElem_mem hidx, ?_⟩
    simp [List.getD_eq_getElem?_getD, List.getElem?_eq_getElem hidx]

/-- the shard ids of a new group are the next `shardN` values of the counter: all fresh,
pairwise distinct, never below an id handed out before -/
theorem newShards_ids (nodes : List Node) (firstID start shardN replicaN : Nat) :
    (newShards nodes firstID start shardN replicaN).map (·.id) = (List.range shardN).map (firstID + · + 1) := by
  simp [newShards, List.map_map, Function.comp_def]

theorem newShards_ids_fresh (nodes : List Node) (firstID start shardN replicaN : Nat) :
    ∀ s ∈ newShards nodes firstID start shardN replicaN, firstID < s.id ∧ s.id ≤ firstID + shardN := by
  intro s hs
  simp only [newShards, List.mem_map, List.mem_range] at hs
  obtain ⟨i, hi, rfl⟩ := hs
  simp only
  omega

/-- the owners of one shard are pairwise distinct when the node ids are and `replicaN ≤ n` -/
theorem ownersFor_nodup (nodes : List Node) (k replicaN : Nat)
    (hnd : (nodes.map (·.id)).Nodup) (hr : replicaN ≤ nodes.length) :
    (ownersFor nodes k replicaN).Nodup := by
  by_cases hn : nodes.length = 0
  · have : replicaN = 0 := by omega
    subst this; simp [ownersFor]
  have hpos : 0 < nodes.length := Nat.pos_of_ne_zero hn
  unfold ownersFor
  apply List.Nodup.map_on _ List.nodup_range
  intro a ha b hb hab
  simp only [List.mem_range] at ha hb
  have hia : (k + a) % nodes.length < nodes.length := Nat.mod_lt _ hpos
  have hib : (k + b) % nodes.length < nodes.length := Nat.mod_lt _ hpos
  simp only [List.getD_eq_getElem?_getD, List.getElem?_eq_getElem hia, List.getElem?_eq_getElem hib,
    Option.getD_some] at hab
  -- equal ids at two positions of a duplicate-free id list ⇒ equal positions
  have hidx : (k + a) % nodes.length = (k + b) % nodes.length := by
    have h1 : (nodes.map (·.id))[(k + a) % nodes.length]'(by simpa using hia)
            = (nodes.map (·.id))[(k + b) % nodes.length]'(by simpa using hib) := by
      simpa using hab
    exact (List.Nodup.getElem_inj_iff hnd).1 h1
  -- a, b < n and congruent mod n ⇒ equal
  rcases Nat.lt_trichotomy a b with hlt | heq | hgt
  · have h0 := Nat.sub_mod_eq_zero_of_mod_eq hidx.symm
    rw [show k + b - (k + a) = b - a by omega, Nat.mod_eq_of_lt (by omega)] at h0
    omega
  · exact heq
  · have h0 := Nat.sub_mod_eq_zero_of_mod_eq hidx
    rw [show k + a - (k + b) = a - b by omega, Nat.mod_eq_of_lt (by omega)] at h0
    omega

/-! ### Tie to the code (facts regenerated from /repo: Gen/C06.lean) -/

theorem gen_constants :
    Gen.C06.maxNanoTime = maxNanoTime ∧ Gen.C06.maxNameLen = maxNameLen ∧
    Gen.C06.minRetentionPolicyDuration = hour ∧
    Gen.C06.zeroTimeUnixSeconds * 1000000000 = -zeroTimeOffset := by decide

/-- `Apply`'s dispatch table as the code has it (go/ast, in source order). The model's `Cmd`
covers every case except the four legacy ones that need raft state and `SetDataCommand`; a
case added to or removed from `Apply` breaks this obligation and starts the search.
(Whether every *schema* type has a case is C07's `accepted_commands_apply`.) -/
theorem gen_apply_table : Gen.C06.applyCases =
    ["RemovePeerCommand", "CreateNodeCommand", "DeleteNodeCommand", "CreateDatabaseCommand",
     "DropDatabaseCommand", "CreateRetentionPolicyCommand", "DropRetentionPolicyCommand",
     "UpdateRetentionPolicyCommand", "CreateShardGroupCommand", "DeleteShardGroupCommand",
     "CreateContinuousQueryCommand", "DropContinuousQueryCommand", "CreateSubscriptionCommand",
     "DropSubscriptionCommand", "CreateUserCommand", "DropUserCommand", "UpdateUserCommand",
     "SetPrivilegeCommand", "SetAdminPrivilegeCommand", "SetDataCommand", "UpdateNodeCommand",
     "CreateMetaNodeCommand", "DeleteMetaNodeCommand", "SetMetaNodeCommand", "CreateDataNodeCommand",
     "DeleteDataNodeCommand", "UpdateDataNodeCommand", "DropShardCommand",
     "TruncateShardGroupsCommand", "PruneShardGroupsCommand", "CopyShardOwnerCommand",
     "RemoveShardOwnerCommand", "default"] := by decide

/-! ### Non-vacuity -/

example : (step true {} (.createDatabase "db" none) 1 1).2 = none := by decide
example : (step true {} (.createDatabase "" none) 1 1).2 = some "database name required" := by decide

/-! ### the shard groups of a policy never overlap -/

/-- what the callers of the FSM guarantee about a command: a shard group is created for a
timestamp a point can carry (`models.MinNanoTime ≤ t ≤ models.MaxNanoTime`), and a deletion
time is a real time (`DeletedAt = now`, never the zero time that means "not deleted") -/
def Cmd.valid : Cmd → Prop
  | .createSG _ _ ts => minNanoTime ≤ ts ∧ ts ≤ maxNanoTime
  | .deleteSG _ _ _ age => age ≠ .live
  | .dropShard _ age => age ≠ .live
  | .removeOwner _ _ age => age ≠ .live
  | .deleteDataNode _ age => age ≠ .live
  | _ => True

theorem applyCmd_ok (auto : Bool) (d d' : Data) (c : Cmd) (hv : c.valid) (h : applyCmd auto d c = .ok d')
    (hok : DataOK d) : DataOK d' := by
  cases c with
  | createDatabase name rp =>
    simp only [applyCmd, bind, Except.bind] at h
    cases h1 : createDatabase d name with
    | error e => simp [h1] at h
    | ok d1 =>
      simp only [h1] at h
      have hok1 := createDatabase_ok d d1 name h1 hok
      cases rp with
      | none =>
        simp only at h
        split at h
        · exact createRP_ok _ _ _ _ _ _ _ _ h hok1
        · cases h; exact hok1
      | some r =>
        obtain ⟨rpn, replicaN, dur, sgd⟩ := r
        simp only at h
        cases h2 : createRetentionPolicy d1 name rpn replicaN dur sgd true with
        | error e =>
          rw [h2] at h
          split at h <;> cases h
        | ok d2 =>
          rw [h2] at h
          simp only at h
          cases h
          exact createRP_ok _ _ _ _ _ _ _ _ h2 hok1
  | dropDatabase name => exact dropDatabase_ok d d' name h hok
  | createRP db name replicaN dur sgd dflt => exact createRP_ok _ _ _ _ _ _ _ _ h hok
  | dropRP db name => exact dropRP_ok _ _ _ _ h hok
  | updateRP db name nn dur rn sgd dflt => exact updateRP_ok _ _ _ _ _ _ _ _ _ h hok
  | createSG db rp ts => exact createSG_ok _ _ _ _ _ hv.1 hv.2 h hok
  | deleteSG db rp id age => exact deleteSG_ok _ _ _ _ _ _ hv h hok
  | truncate ts => simp only [applyCmd] at h; cases h; exact truncate_ok d ts hok
  | prune => simp only [applyCmd] at h; cases h; exact prune_ok d hok
  | dropShard id age => simp only [applyCmd] at h; cases h; exact dropShard_ok d id age hv hok
  | copyOwner s n => simp only [applyCmd] at h; cases h; exact copyOwner_ok d s n hok
  | removeOwner s n age => simp only [applyCmd] at h; cases h; exact removeOwner_ok d s n age hv hok
  | createDataNode a t => exact createDataNode_ok _ _ _ _ h hok
  | deleteDataNode id age => exact deleteDataNode_ok _ _ _ _ hv h hok
  | updateDataNode id a t => exact updateDataNode_ok _ _ _ _ _ h hok
  | createMetaNode a t rand =>
    simp only [applyCmd] at h
    cases h
    apply setClusterID_ok
    split
    · rename_i d2 hd2; exact createMetaNode_ok _ _ _ _ hd2 hok
    · exact hok
  | deleteMetaNode id =>
    simp only [applyCmd] at h
    split at h
    · exact deleteMetaNode_ok _ _ _ h hok
    · cases h
  | setMetaNode a t rand =>
    simp only [applyCmd] at h
    cases h
    apply setClusterID_ok
    split
    · rename_i d2 hd2; exact setMetaNode_ok _ _ _ _ hd2 hok
    · exact hok
  | createUser n hs a => exact createUser_ok _ _ _ _ _ h hok
  | dropUser n => exact dropUser_ok _ _ _ h hok
  | updateUser n hs => exact updateUser_ok _ _ _ _ h hok
  | setPrivilege u db p => exact setPrivilege_ok _ _ _ _ _ h hok
  | setAdmin u a => exact setAdmin_ok _ _ _ _ h hok
  | createCQ db n q => exact createCQ_ok _ _ _ _ _ h hok
  | dropCQ db n => exact dropCQ_ok _ _ _ _ h hok
  | createSub db rp n m ds bad => exact createSub_ok _ _ _ _ _ _ _ _ h hok
  | dropSub db rp n => exact dropSub_ok _ _ _ _ _ h hok

theorem step_ok (auto : Bool) (d : Data) (c : Cmd) (term index : Nat) (hv : c.valid) (hok : DataOK d) :
    DataOK (step auto d c term index).1 := by
  unfold step
  split
  · rename_i d' hd
    exact dataOK_of_dbs _ d' rfl (applyCmd_ok auto d d' c hv hd hok)
  · exact dataOK_of_dbs _ d rfl hok

/-- **The shard groups of a retention policy never overlap, along every command log.**
Starting from metadata that satisfies the invariant (the empty metadata does), after any
sequence of valid commands — accepted or rejected, in any order — every retention policy has
a positive shard-group duration, every group is well-formed (start ≤ end, a truncation point
inside the group) and no instant is served by two groups of one policy. -/
theorem groups_never_overlap (auto : Bool) (d : Data) (log : Log) (hv : ∀ e ∈ log, e.1.valid) (hok : DataOK d) :
    DataOK (run auto d log) := by
  unfold run
  induction log generalizing d with
  | nil => exact hok
  | cons e rest ih =>
    simp only [List.foldl_cons]
    exact ih _ (fun x hx => hv x (List.mem_cons_of_mem _ hx)) (step_ok auto d e.1 e.2.1 e.2.2 (hv e (by simp)) hok)

/-- the same, said about instants: at most one group of a policy serves a timestamp — so the
group a point is routed to (`ShardGroupByTimestamp`, the first such group) is the only one -/
theorem at_most_one_group_serves (auto : Bool) (d : Data) (log : Log) (hv : ∀ e ∈ log, e.1.valid) (hok : DataOK d)
    (db : DB) (hdb : db ∈ (run auto d log).dbs) (rp : RP) (hrp : rp ∈ db.rps) (t : Int) :
    (rp.groups.filter fun g => g.covers t).length ≤ 1 := by
  have hpw := (groups_never_overlap auto d log hv hok db hdb rp hrp).2.2
  have hf : (rp.groups.filter fun g => g.covers t).Pairwise Apart := hpw.sublist List.filter_sublist
  match hl : rp.groups.filter (fun g => g.covers t) with
  | [] => simp [hl]
  | [_] => simp [hl]
  | a :: b :: rest =>
    exfalso
    rw [hl] at hf
    have hab : Apart a b := (List.pairwise_cons.1 hf).1 b (by simp)
    have ha : a ∈ rp.groups.filter (fun g => g.covers t) := by rw [hl]; simp
    have hb : b ∈ rp.groups.filter (fun g => g.covers t) := by rw [hl]; simp
    exact hab t ⟨(List.mem_filter.1 ha).2, (List.mem_filter.1 hb).2⟩

/-- the empty metadata satisfies the invariant (the premise is not vacuous), and so does a
metadata value with two adjacent groups, one of them truncated -/
example : DataOK ({} : Data) := by intro db hdb; simp at hdb

/-! ### ids are unique and never handed out twice -/

theorem applyCmd_ids (auto : Bool) (d d' : Data) (c : Cmd) (h : applyCmd auto d c = .ok d')
    (hok : IdsOK d) : IdsOK d' := by
  cases c with
  | createDatabase name rp =>
    simp only [applyCmd, bind, Except.bind] at h
    cases h1 : createDatabase d name with
    | error e => simp [h1] at h
    | ok d1 =>
      simp only [h1] at h
      have hok1 := createDatabase_ids d d1 name h1 hok
      cases rp with
      | none =>
        simp only at h
        split at h
        · exact createRP_ids _ _ _ _ _ _ _ _ h hok1
        · cases h; exact hok1
      | some r =>
        obtain ⟨rpn, replicaN, dur, sgd⟩ := r
        simp only at h
        cases h2 : createRetentionPolicy d1 name rpn replicaN dur sgd true with
        | error e =>
          rw [h2] at h
          split at h <;> cases h
        | ok d2 =>
          rw [h2] at h
          simp only at h
          cases h
          exact createRP_ids _ _ _ _ _ _ _ _ h2 hok1
  | dropDatabase name => exact dropDatabase_ids d d' name h hok
  | createRP db name replicaN dur sgd dflt => exact createRP_ids _ _ _ _ _ _ _ _ h hok
  | dropRP db name => exact dropRP_ids _ _ _ _ h hok
  | updateRP db name nn dur rn sgd dflt => exact updateRP_ids _ _ _ _ _ _ _ _ _ h hok
  | createSG db rp ts => exact createSG_ids _ _ _ _ _ h hok
  | deleteSG db rp id age => exact deleteSG_ids _ _ _ _ _ _ h hok
  | truncate ts => simp only [applyCmd] at h; cases h; exact truncate_ids d ts hok
  | prune => simp only [applyCmd] at h; cases h; exact prune_ids d hok
  | dropShard id age => simp only [applyCmd] at h; cases h; exact dropShard_ids d id age hok
  | copyOwner s n => simp only [applyCmd] at h; cases h; exact copyOwner_ids d s n hok
  | removeOwner s n age => simp only [applyCmd] at h; cases h; exact removeOwner_ids d s n age hok
  | createDataNode a t => exact createDataNode_ids _ _ _ _ h hok
  | deleteDataNode id age => exact deleteDataNode_ids _ _ _ _ h hok
  | updateDataNode id a t => exact updateDataNode_ids _ _ _ _ _ h hok
  | createMetaNode a t rand =>
    simp only [applyCmd] at h
    cases h
    apply setClusterID_ids
    split
    · rename_i d2 hd2; exact createMetaNode_ids _ _ _ _ hd2 hok
    · exact hok
  | deleteMetaNode id =>
    simp only [applyCmd] at h
    split at h
    · exact deleteMetaNode_ids _ _ _ h hok
    · cases h
  | setMetaNode a t rand =>
    simp only [applyCmd] at h
    cases h
    apply setClusterID_ids
    split
    · rename_i d2 hd2; exact setMetaNode_ids _ _ _ _ hd2 hok
    · exact hok
  | createUser n hs a => exact createUser_ids _ _ _ _ _ h hok
  | dropUser n => exact dropUser_ids _ _ _ h hok
  | updateUser n hs => exact updateUser_ids _ _ _ _ h hok
  | setPrivilege u db p => exact setPrivilege_ids _ _ _ _ _ h hok
  | setAdmin u a => exact setAdmin_ids _ _ _ _ h hok
  | createCQ db n q => exact createCQ_ids _ _ _ _ _ h hok
  | dropCQ db n => exact dropCQ_ids _ _ _ _ h hok
  | createSub db rp n m ds bad => exact createSub_ids _ _ _ _ _ _ _ _ h hok
  | dropSub db rp n => exact dropSub_ids _ _ _ _ _ h hok

/-- no command lowers the two id counters -/
def CountersLe (d d' : Data) : Prop := d.maxSG ≤ d'.maxSG ∧ d.maxShard ≤ d'.maxShard

theorem CountersLe.refl (d : Data) : CountersLe d d := ⟨Nat.le_refl _, Nat.le_refl _⟩
theorem CountersLe.trans {a b c : Data} (h1 : CountersLe a b) (h2 : CountersLe b c) : CountersLe a c :=
  ⟨Nat.le_trans h1.1 h2.1, Nat.le_trans h1.2 h2.2⟩

macro "counters" h:ident : tactic =>
  `(tactic| (repeat' split at $h:ident) <;> first
      | (cases $h:ident; done)
      | (cases $h:ident; exact ⟨Nat.le_refl _, Nat.le_refl _⟩)
      | (cases $h:ident; exact ⟨Nat.le_succ _, Nat.le_add_right _ _⟩))

theorem createRP_counters (d d' : Data) (dbn n : String) (r du sg : Int) (df : Bool)
    (h : createRetentionPolicy d dbn n r du sg df = .ok d') : CountersLe d d' := by
  unfold createRetentionPolicy at h
  by_cases h1 : n = ""
  · simp [h1] at h
  by_cases h2 : n.length > maxNameLen
  · simp [h1, h2] at h
  by_cases h3 : r < 1
  · simp [h1, h2, h3] at h
  by_cases h4 : (decide (du > 0) && decide (du < normalisedShardDuration sg du)) = true
  · simp [h1, h2, h3, h4] at h
  simp only [h1, h2, h3, h4, ↓reduceIte] at h
  counters h

theorem createDatabase_counters (d d' : Data) (n : String) (h : createDatabase d n = .ok d') : CountersLe d d' := by
  unfold createDatabase at h; counters h

theorem mapGroupsM_counters (d d' : Data) (f : SG → Except String SG) (h : mapGroupsM d f = .ok d') : CountersLe d d' := by
  rw [mapGroupsM_eq] at h
  cases hdbs : d.dbs.mapM (dbM f) with
  | error e => simp [hdbs, bind, Except.bind] at h
  | ok dbs =>
    simp only [hdbs, bind, Except.bind, pure, Except.pure, Except.ok.injEq] at h
    subst h
    exact CountersLe.refl d

theorem createMetaNode_counters (d d' : Data) (a t : String) (h : createMetaNode d a t = .ok d') : CountersLe d d' := by
  unfold createMetaNode at h; counters h

theorem setMetaNode_counters (d d' : Data) (a t : String) (h : setMetaNode d a t = .ok d') : CountersLe d d' := by
  unfold setMetaNode at h
  split at h
  · exact createMetaNode_counters d d' a t h
  · cases h; exact CountersLe.refl d
  · cases h

theorem setClusterID_counters (d : Data) (r : Nat) : CountersLe d (setClusterID d r) := by
  unfold setClusterID; split <;> exact CountersLe.refl d

theorem applyCmd_counters (auto : Bool) (d d' : Data) (c : Cmd) (h : applyCmd auto d c = .ok d') : CountersLe d d' := by
  cases c with
  | createDatabase name rp =>
    simp only [applyCmd, bind, Except.bind] at h
    cases h1 : createDatabase d name with
    | error e => simp [h1] at h
    | ok d1 =>
      simp only [h1] at h
      have hc1 := createDatabase_counters d d1 name h1
      cases rp with
      | none =>
        simp only at h
        split at h
        · exact hc1.trans (createRP_counters _ _ _ _ _ _ _ _ h)
        · cases h; exact hc1
      | some r =>
        obtain ⟨rpn, replicaN, dur, sgd⟩ := r
        simp only at h
        cases h2 : createRetentionPolicy d1 name rpn replicaN dur sgd true with
        | error e =>
          rw [h2] at h
          split at h <;> cases h
        | ok d2 =>
          rw [h2] at h
          simp only at h
          cases h
          exact hc1.trans (createRP_counters _ _ _ _ _ _ _ _ h2)
  | dropDatabase name => simp only [applyCmd, dropDatabase] at h; counters h
  | createRP db name replicaN dur sgd dflt => exact createRP_counters _ _ _ _ _ _ _ _ h
  | dropRP db name => simp only [applyCmd, dropRetentionPolicy] at h; counters h
  | updateRP db name nn dur rn sgd dflt => simp only [applyCmd, updateRetentionPolicy] at h; counters h
  | createSG db rp ts => simp only [applyCmd, createShardGroup] at h; counters h
  | deleteSG db rp id age => simp only [applyCmd, deleteShardGroup] at h; counters h
  | truncate ts => simp only [applyCmd] at h; cases h; exact CountersLe.refl d
  | prune => simp only [applyCmd] at h; cases h; exact CountersLe.refl d
  | dropShard id age =>
    simp only [applyCmd] at h; cases h
    unfold dropShard withShardGroup; split <;> exact CountersLe.refl d
  | copyOwner s n =>
    simp only [applyCmd] at h; cases h
    unfold copyShardOwner withShardGroup
    split
    · exact CountersLe.refl d
    · split <;> exact CountersLe.refl d
  | removeOwner s n age =>
    simp only [applyCmd] at h; cases h
    unfold removeShardOwner withShardGroup; split <;> exact CountersLe.refl d
  | createDataNode a t => simp only [applyCmd, createDataNode] at h; counters h
  | deleteDataNode id age =>
    simp only [applyCmd, deleteDataNode] at h
    split at h
    · have := mapGroupsM_counters _ _ _ h
      exact ⟨this.1, this.2⟩
    · cases h
  | updateDataNode id a t => simp only [applyCmd, updateDataNode] at h; counters h
  | createMetaNode a t rand =>
    simp only [applyCmd] at h
    cases h
    refine CountersLe.trans ?_ (setClusterID_counters _ _)
    split
    · rename_i d2 hd2; exact createMetaNode_counters _ _ _ _ hd2
    · exact CountersLe.refl d
  | deleteMetaNode id =>
    simp only [applyCmd, deleteMetaNode] at h; counters h
  | setMetaNode a t rand =>
    simp only [applyCmd] at h
    cases h
    refine CountersLe.trans ?_ (setClusterID_counters _ _)
    split
    · rename_i d2 hd2; exact setMetaNode_counters _ _ _ _ hd2
    · exact CountersLe.refl d
  | createUser n hs a => simp only [applyCmd, createUser] at h; counters h
  | dropUser n => simp only [applyCmd, dropUser] at h; counters h
  | updateUser n hs => simp only [applyCmd, updateUser] at h; counters h
  | setPrivilege u db p => simp only [applyCmd, setPrivilege] at h; counters h
  | setAdmin u a => simp only [applyCmd, setAdminPrivilege] at h; counters h
  | createCQ db n q => simp only [applyCmd, createCQ] at h; counters h
  | dropCQ db n => simp only [applyCmd, dropCQ] at h; counters h
  | createSub db rp n m ds bad => simp only [applyCmd, createSubscription] at h; counters h
  | dropSub db rp n => simp only [applyCmd, dropSubscription] at h; counters h

theorem step_ids (auto : Bool) (d : Data) (c : Cmd) (term index : Nat) (hok : IdsOK d) :
    IdsOK (step auto d c term index).1 := by
  unfold step
  split
  · rename_i d' hd
    exact idsOK_of_same _ d' rfl rfl rfl (applyCmd_ids auto d d' c hd hok)
  · exact idsOK_of_same _ d rfl rfl rfl hok

/-- **Shard-group ids and shard ids are unique, along every command log** — over all
databases and policies — and none exceeds the counter it was drawn from. A new group takes
the counter plus one and its shards the next values of theirs (`createSG_ids_core`), and no
command lowers a counter, so an id is never handed out twice, not even after the group or
shard that held it was deleted and pruned. No hypothesis on the commands is needed. -/
theorem ids_unique_never_reused (auto : Bool) (d : Data) (log : Log) (hok : IdsOK d) :
    IdsOK (run auto d log) := by
  unfold run
  induction log generalizing d with
  | nil => exact hok
  | cons e rest ih =>
    simp only [List.foldl_cons]
    exact ih _ (step_ids auto d e.1 e.2.1 e.2.2 hok)

/-- the counters never go down along a log (so an id once handed out stays below them) -/
theorem counters_never_decrease (auto : Bool) (d : Data) (log : Log) : CountersLe d (run auto d log) := by
  unfold run
  induction log generalizing d with
  | nil => exact CountersLe.refl d
  | cons e rest ih =>
    simp only [List.foldl_cons]
    refine CountersLe.trans ?_ (ih _)
    unfold step
    split
    · rename_i d' hd
      have := applyCmd_counters auto d d' e.1 hd
      exact ⟨this.1, this.2⟩
    · exact CountersLe.refl d

/-! ### an owner that is handed a shard is a data node -/

/-- **Only a data node becomes an owner through `CopyShardOwner`**: a command naming a node
that is not (or no longer — it may have been removed while the copy was under way) a data
node changes nothing. (The pinned code added it: a shard owned by a removed node; repaired in
/repo, see DESIGN 7.1.) -/
theorem copy_owner_needs_data_node (d : Data) (id n : Nat) (h : d.dataNodes.any (·.id == n) = false) :
    copyShardOwner d id n = d := by
  unfold copyShardOwner
  simp [h]

/-- and when it changes an owner list, the node it adds is one: for every shard of the result,
an owner that the shard did not have before is `n`, and `n` is a data node -/
theorem copy_owner_adds_data_node (d : Data) (id n : Nat) (h : copyShardOwner d id n ≠ d) :
    d.dataNodes.any (·.id == n) = true := by
  cases hn : d.dataNodes.any (·.id == n)
  · exact absurd (copy_owner_needs_data_node d id n hn) h
  · rfl

example : IdsOK ({} : Data) := by
  refine ⟨?_, ?_, ?_, ?_⟩ <;> simp [allGroups]

end InfluxVerif.Meta
