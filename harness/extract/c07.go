package extract

import (
	"sort"

	"github.com/influxdata/influxdb/services/meta"
)

func init() {
	Register(func(repo, out string) error {
		f := NewFile("C07")
		types := meta.VerifCommandTypes()
		var nums []int
		for k := range types {
			nums = append(nums, int(k))
		}
		sort.Ints(nums)
		// behavioural: does validateCommand accept a body of type t with no / own / foreign extension
		own := map[int]bool{3: true, 4: true, 13: true, 32: true} // the extensions VerifRawCommand can attach
		var noNames, ownNames, forNames []string
		var noVals, ownVals, forVals []bool
		for _, t := range nums {
			noNames = append(noNames, types[int32(t)])
			noVals = append(noVals, meta.VerifValidateCommand(meta.VerifRawCommand(int32(t), 0)) == nil)
			foreign := int32(3)
			if t == 3 {
				foreign = 4
			}
			forNames = append(forNames, types[int32(t)])
			forVals = append(forVals, meta.VerifValidateCommand(meta.VerifRawCommand(int32(t), foreign)) == nil)
			if own[t] {
				ownNames = append(ownNames, types[int32(t)])
				ownVals = append(ownVals, meta.VerifValidateCommand(meta.VerifRawCommand(int32(t), int32(t))) == nil)
			}
		}
		f.StrBools("validateNoExt", noNames, noVals)
		f.StrBools("validateForeignExt", forNames, forVals)
		f.StrBools("validateOwnExt", ownNames, ownVals)
		f.Bool("validateUnknownType", meta.VerifValidateCommand(meta.VerifRawCommand(99, 3)) == nil)
		// schema types without a case in Apply (syntactic table of C06 vs schema)
		src, err := Parse(repo, "services/meta/store_fsm.go")
		if err != nil {
			return err
		}
		cases := map[string]bool{}
		if fn := src.Func("storeFSM", "Apply"); fn != nil {
			for _, r := range src.SwitchRows(fn, "cmd.GetType()") {
				cases[r[0]] = true
			}
		}
		var missing []string
		for _, t := range nums {
			if !cases["internal.Command_"+types[int32(t)]] {
				missing = append(missing, types[int32(t)])
			}
		}
		f.StrList("schemaTypesWithoutCase", missing)
		return f.Write(out)
	})
}
