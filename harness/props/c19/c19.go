// Package c19: concurrent operation never corrupts state or loses writes — the part of it a
// harness can look at: stress scenarios on the real components with several goroutines,
// judged by an acknowledged-write log (every write acknowledged before a read began is in the
// read; every acknowledged write is there at the end; a new field written concurrently with
// different types ends with one type), by a watchdog (deadlock) and, in the thorough tier, by
// the Go race detector (the harness binary is built with -race and a report kills the run).
package c19

import (
	"encoding/binary"
	"fmt"
	"io"
	"os"
	"runtime"
	"strconv"
	"strings"
	"sync"
	"sync/atomic"
	"time"

	"github.com/influxdata/influxdb/models"
	"github.com/influxdata/influxdb/services/hh"
	"github.com/influxdata/influxdb/services/meta"
	"github.com/influxdata/influxdb/tsdb"
	"verifharness/fw"
	"verifharness/shardh"
)

type Prop struct{}

func (Prop) ID() string                   { return "C19" }
func (Prop) Model() string                { return "c19" }
func (Prop) Parallel() int                { return 2 }
func (Prop) KeepOp(i int, op string) bool { return true }

func i64(s string) int64 { v, _ := strconv.ParseInt(s, 10, 64); return v }

const base = int64(1600000000000000000)

// shardStress: writers (one series each, increasing timestamps), a snapshotter, a compactor,
// a deleter of series nobody else touches, readers that compare every read with the
// acknowledgements taken before it began.
func shardStress(seed uint64, index string, ms int) string {
	dir, _ := os.MkdirTemp(shardh.WorkDir("stress"), "s-")
	defer os.RemoveAll(dir)
	h, err := shardh.New(dir, index)
	if err != nil {
		return "err:" + strings.ReplaceAll(err.Error(), " ", "_")
	}
	defer h.Close()
	const writers = 4
	var acked [writers]int64 // number of acknowledged points of writer w: timestamps base+0..acked-1
	stop := make(chan struct{})
	var wg sync.WaitGroup
	var failure atomic.Value
	fail := func(s string) {
		failure.CompareAndSwap(nil, s)
	}
	for w := 0; w < writers; w++ {
		wg.Add(1)
		go func(w int) {
			defer wg.Done()
			tags := models.NewTags(map[string]string{"w": fmt.Sprint(w)})
			for i := int64(0); ; i++ {
				select {
				case <-stop:
					return
				default:
				}
				n := 1 + int(seed+uint64(i))%5
				var pts []models.Point
				for k := 0; k < n; k++ {
					p, _ := models.NewPoint("m", tags, models.Fields{"v": i*10 + int64(k)}, time.Unix(0, base+(atomic.LoadInt64(&acked[w])+int64(k))*1000))
					pts = append(pts, p)
				}
				if err := h.Store.WriteToShard(shardh.ShardID, pts); err != nil {
					fail("write failed: " + err.Error())
					return
				}
				atomic.AddInt64(&acked[w], int64(n))
			}
		}(w)
	}
	// snapshotter
	wg.Add(1)
	go func() {
		defer wg.Done()
		for {
			select {
			case <-stop:
				return
			case <-time.After(time.Duration(3+seed%5) * time.Millisecond):
			}
			if e := h.Engine(); e != nil {
				e.WriteSnapshot()
			}
		}
	}()
	// compactor
	wg.Add(1)
	go func() {
		defer wg.Done()
		for {
			select {
			case <-stop:
				return
			case <-time.After(time.Duration(11+seed%7) * time.Millisecond):
			}
			h.CompactAllFiles()
		}
	}()
	// deleter of other series
	wg.Add(1)
	go func() {
		defer wg.Done()
		tags := models.NewTags(map[string]string{"w": "other"})
		for i := int64(0); ; i++ {
			select {
			case <-stop:
				return
			case <-time.After(7 * time.Millisecond):
			}
			p, _ := models.NewPoint("other", tags, models.Fields{"v": i}, time.Unix(0, base+i))
			h.Store.WriteToShard(shardh.ShardID, []models.Point{p})
			lo, hi := base, base+i
			h.DeleteB("other", "-", &lo, &hi)
		}
	}()
	// readers
	for r := 0; r < 2; r++ {
		wg.Add(1)
		go func(r int) {
			defer wg.Done()
			for {
				select {
				case <-stop:
					return
				default:
				}
				w := (r + int(time.Now().UnixNano())) % writers
				if w < 0 {
					w = -w
				}
				before := atomic.LoadInt64(&acked[w])
				tvs, err := h.ReadIter("m", fmt.Sprintf("w=%d", w), "v", base, base+1<<40, true)
				if err != nil {
					fail("read failed: " + err.Error())
					return
				}
				if int64(len(tvs)) < before {
					fail(fmt.Sprintf("a read of series w=%d returned %d points although %d had been acknowledged before it began", w, len(tvs), before))
					return
				}
				for i := int64(0); i < before; i++ {
					if tvs[i].T != base+i*1000 {
						fail(fmt.Sprintf("a read of series w=%d misses the acknowledged point %d", w, i))
						return
					}
				}
			}
		}(r)
	}
	done := make(chan struct{})
	go func() { time.Sleep(time.Duration(ms) * time.Millisecond); close(stop); wg.Wait(); close(done) }()
	select {
	case <-done:
	case <-time.After(time.Duration(ms)*time.Millisecond + 60*time.Second):
		return "DEADLOCK: the workers did not stop within 60 s of the stop signal"
	}
	if f := failure.Load(); f != nil {
		return "LOST " + strings.ReplaceAll(f.(string), " ", "_")
	}
	// at rest: everything acknowledged is there, also after a restart
	for round := 0; round < 2; round++ {
		for w := 0; w < writers; w++ {
			tvs, err := h.ReadIter("m", fmt.Sprintf("w=%d", w), "v", base, base+1<<40, true)
			if err != nil {
				return "err:final_read:" + strings.ReplaceAll(err.Error(), " ", "_")
			}
			if int64(len(tvs)) != acked[w] {
				return fmt.Sprintf("LOST at_rest(round_%d):_series_w=%d_holds_%d_points,_%d_were_acknowledged", round, w, len(tvs), acked[w])
			}
		}
		if err := h.Reopen(); err != nil {
			return "err:reopen:" + strings.ReplaceAll(err.Error(), " ", "_")
		}
	}
	return "ok"
}

// oooStress: one writer sends the points of a series in descending time order (every write is
// older than what the cache holds, so the cache entry is out of order until a reader sorts it)
// while several readers read the series: every read must hold every point acknowledged
// before it began, once.
// seriesStress: four writers creating new series all the time on an index whose log file is
// turned into an index file every few writes (tsi1 with a 256-byte log), or on the in-memory
// index: every acknowledged series is listed under its measurement and found by its tag,
// at rest and after a reopen.
func seriesStress(seed uint64, index string, ms int) string {
	dir, _ := os.MkdirTemp(shardh.WorkDir("stress"), "s-")
	defer os.RemoveAll(dir)
	if index == "tsi1" {
		index = "tsi1c"
	}
	h, err := shardh.New(dir, index)
	if err != nil {
		return "err:" + strings.ReplaceAll(err.Error(), " ", "_")
	}
	defer h.Close()
	const writers = 4
	var acked [writers]int64 // series i=0..acked-1 of writer w were acknowledged
	stop := make(chan struct{})
	var wg sync.WaitGroup
	var failure atomic.Value
	for w := 0; w < writers; w++ {
		wg.Add(1)
		go func(w int) {
			defer wg.Done()
			for r := uint64(0); ; r++ {
				select {
				case <-stop:
					return
				default:
				}
				n := 1 + int(seed+r+uint64(w))%3
				var pts []models.Point
				for k := 0; k < n; k++ {
					tags := models.NewTags(map[string]string{"w": fmt.Sprint(w), "i": fmt.Sprint(acked[w] + int64(k))})
					p, _ := models.NewPoint("s", tags, models.Fields{"v": int64(k)}, time.Unix(0, base))
					pts = append(pts, p)
				}
				if err := h.Store.WriteToShard(shardh.ShardID, pts); err != nil {
					failure.CompareAndSwap(nil, "write failed: "+err.Error())
					return
				}
				atomic.AddInt64(&acked[w], int64(n))
			}
		}(w)
	}
	time.Sleep(time.Duration(ms) * time.Millisecond)
	close(stop)
	done := make(chan struct{})
	go func() { wg.Wait(); close(done) }()
	select {
	case <-done:
	case <-time.After(60 * time.Second):
		return "DEADLOCK: series writers did not stop"
	}
	if e := failure.Load(); e != nil {
		return "SERIES " + strings.ReplaceAll(e.(string), " ", "_")
	}
	check := func(when string) string {
		listed := map[string]bool{}
		for _, s := range strings.Split(h.Series(), ";") {
			listed[s] = true
		}
		for w := 0; w < writers; w++ {
			byTag := map[string]bool{}
			for _, s := range strings.Split(h.SeriesBy("s", "w", "eq", fmt.Sprint(w)), ";") {
				byTag[s] = true
			}
			for i := int64(0); i < acked[w]; i++ {
				key := fmt.Sprintf("s|i=%d,w=%d", i, w)
				if !listed[key] {
					return fmt.Sprintf("SERIES %s:_acknowledged_series_%s_is_not_listed_(%d_of_writer_%d_acknowledged)", when, key, acked[w], w)
				}
				if !byTag[key] {
					return fmt.Sprintf("SERIES %s:_acknowledged_series_%s_is_not_found_by_its_tag", when, key)
				}
			}
		}
		return ""
	}
	if e := check("at_rest"); e != "" {
		return e
	}
	if r := h.IndexCompact(); r != "ok" {
		return "SERIES index_compaction:_" + r
	}
	if e := check("after_index_compaction"); e != "" {
		return e
	}
	if err := h.Reopen(); err != nil {
		return "SERIES reopen:_" + strings.ReplaceAll(err.Error(), " ", "_")
	}
	if e := check("after_reopen"); e != "" {
		return e
	}
	return "ok"
}

// tagCacheStress: for each of a run of tag values, one series carrying it exists, then the first lookup of the
// value and the creation of a second series run together; a lookup that begins after both were
// acknowledged must list both (the index caches the series set of a tag value).
func tagCacheStress(seed uint64, index string, ms int) string {
	dir, _ := os.MkdirTemp(shardh.WorkDir("stress"), "s-")
	defer os.RemoveAll(dir)
	h, err := shardh.New(dir, index)
	if err != nil {
		return "err:" + strings.ReplaceAll(err.Error(), " ", "_")
	}
	defer h.Close()
	write := func(val string, j int) error {
		p, _ := models.NewPoint("s", models.NewTags(map[string]string{"k": val, "j": fmt.Sprint(j)}), models.Fields{"v": int64(j)}, time.Unix(0, base))
		return h.Store.WriteToShard(shardh.ShardID, []models.Point{p})
	}
	// background writers keep every partition of the index busy
	stop := make(chan struct{})
	var bg sync.WaitGroup
	for w := 0; w < 4; w++ {
		bg.Add(1)
		go func(w int) {
			defer bg.Done()
			for i := 0; ; i++ {
				select {
				case <-stop:
					return
				default:
				}
				p, _ := models.NewPoint("other", models.NewTags(map[string]string{"w": fmt.Sprint(w), "i": fmt.Sprint(i)}), models.Fields{"v": int64(i)}, time.Unix(0, base))
				h.Store.WriteToShard(shardh.ShardID, []models.Point{p})
			}
		}(w)
	}
	defer func() { close(stop); bg.Wait() }()
	deadline := time.Now().Add(time.Duration(ms) * time.Millisecond)
	for i := 0; time.Now().Before(deadline); i++ {
		val := fmt.Sprintf("v%d", i)
		// the first series of the value exists before anybody looks the value up; the first
		// lookup and the creation of the second series run together
		if err := write(val, 0); err != nil {
			return "TAGCACHE write_failed:_" + strings.ReplaceAll(err.Error(), " ", "_")
		}
		var wg sync.WaitGroup
		var werr error
		wg.Add(2)
		go func() {
			defer wg.Done()
			if uint64(i)%3 == seed%3 {
				runtime.Gosched()
			}
			h.SeriesBy("s", "k", "eq", val)
		}()
		go func() { defer wg.Done(); werr = write(val, 1) }()
		wg.Wait()
		if werr != nil {
			return "TAGCACHE write_failed:_" + strings.ReplaceAll(werr.Error(), " ", "_")
		}
		got := h.SeriesBy("s", "k", "eq", val)
		if n := len(strings.Split(got, ";")); got == "-" || n != 2 {
			return fmt.Sprintf("TAGCACHE tag_value_%s_has_2_acknowledged_series,_a_lookup_that_began_afterwards_lists:_%s", val, got)
		}
	}
	return "ok"
}

func oooStress(seed uint64, index string, ms int) string {
	dir, _ := os.MkdirTemp(shardh.WorkDir("stress"), "s-")
	defer os.RemoveAll(dir)
	h, err := shardh.New(dir, index)
	if err != nil {
		return "err:" + strings.ReplaceAll(err.Error(), " ", "_")
	}
	defer h.Close()
	const top = int64(1 << 30)
	var acked int64
	stop := make(chan struct{})
	var wg sync.WaitGroup
	var failure atomic.Value
	fail := func(s string) { failure.CompareAndSwap(nil, s) }
	wg.Add(1)
	go func() {
		defer wg.Done()
		tags := models.NewTags(map[string]string{"w": "desc"})
		for i := int64(0); i < top; i++ {
			select {
			case <-stop:
				return
			default:
			}
			p, _ := models.NewPoint("m", tags, models.Fields{"v": i}, time.Unix(0, base+(top-i)*1000))
			if err := h.Store.WriteToShard(shardh.ShardID, []models.Point{p}); err != nil {
				fail("write failed: " + err.Error())
				return
			}
			atomic.StoreInt64(&acked, i+1)
			if i%64 == int64(seed%64) {
				time.Sleep(50 * time.Microsecond)
			}
		}
	}()
	for r := 0; r < 4; r++ {
		wg.Add(1)
		go func() {
			defer wg.Done()
			for {
				select {
				case <-stop:
					return
				default:
				}
				before := atomic.LoadInt64(&acked)
				tvs, err := h.ReadIter("m", "w=desc", "v", base, base+(top+1)*1000, true)
				if err != nil {
					fail("read failed: " + err.Error())
					return
				}
				have := make(map[int64]int, len(tvs))
				for _, tv := range tvs {
					have[tv.T]++
				}
				for i := int64(0); i < before; i++ {
					if n := have[base+(top-i)*1000]; n != 1 {
						fail(fmt.Sprintf("a read returned the point written as number %d (acknowledged before the read began; %d were) %d times", i, before, n))
						return
					}
				}
			}
		}()
	}
	done := make(chan struct{})
	go func() { time.Sleep(time.Duration(ms) * time.Millisecond); close(stop); wg.Wait(); close(done) }()
	select {
	case <-done:
	case <-time.After(time.Duration(ms)*time.Millisecond + 60*time.Second):
		return "DEADLOCK: the workers did not stop within 60 s of the stop signal"
	}
	if f := failure.Load(); f != nil {
		return "LOST " + strings.ReplaceAll(f.(string), " ", "_")
	}
	return "ok"
}

// newFields: rounds in which several goroutines write, at the same time, points that each
// bring a different new field of one measurement; every acknowledged write must be readable,
// now and after a restart.
func newFields(seed uint64, index string, rounds int) string {
	dir, _ := os.MkdirTemp(shardh.WorkDir("stress"), "s-")
	defer os.RemoveAll(dir)
	h, err := shardh.New(dir, index)
	if err != nil {
		return "err:" + strings.ReplaceAll(err.Error(), " ", "_")
	}
	defer h.Close()
	const writers = 8
	type ack struct {
		field string
		t     int64
	}
	var acks []ack
	for round := 0; round < rounds; round++ {
		var wg sync.WaitGroup
		start := make(chan struct{})
		res := make([]error, writers)
		for w := 0; w < writers; w++ {
			wg.Add(1)
			go func(w int) {
				defer wg.Done()
				p, _ := models.NewPoint("m", models.NewTags(map[string]string{"host": "a"}), models.Fields{fmt.Sprintf("f%d_%d", round, w): int64(round*100 + w)}, time.Unix(0, base+int64(round*writers+w)*1000))
				<-start
				res[w] = h.Store.WriteToShard(shardh.ShardID, []models.Point{p})
			}(w)
		}
		close(start)
		wg.Wait()
		for w := 0; w < writers; w++ {
			if res[w] == nil {
				acks = append(acks, ack{fmt.Sprintf("f%d_%d", round, w), base + int64(round*writers+w)*1000})
			}
		}
	}
	check := func(when string) string {
		for _, a := range acks {
			tvs, err := h.ReadIter("m", "host=a", a.field, base, base+1<<40, true)
			if err != nil {
				return "err:read:" + strings.ReplaceAll(err.Error(), " ", "_")
			}
			if len(tvs) != 1 || tvs[0].T != a.t {
				return fmt.Sprintf("LOST %s:_the_acknowledged_write_of_new_field_%s_reads_%d_points", when, a.field, len(tvs))
			}
		}
		return ""
	}
	if why := check("at_rest"); why != "" {
		return why
	}
	if err := h.Reopen(); err != nil {
		return "err:reopen:" + strings.ReplaceAll(err.Error(), " ", "_")
	}
	if why := check("after_a_restart"); why != "" {
		return why
	}
	if len(acks) == 0 {
		return "err:nothing_acknowledged"
	}
	return "ok"
}

// fieldRace: goroutines write a new field with different types at the same time; afterwards
// the field has one type and only values of that type.
func fieldRace(seed uint64, index string, rounds int) string {
	dir, _ := os.MkdirTemp(shardh.WorkDir("stress"), "f-")
	defer os.RemoveAll(dir)
	h, err := shardh.New(dir, index)
	if err != nil {
		return "err:" + strings.ReplaceAll(err.Error(), " ", "_")
	}
	defer h.Close()
	for round := 0; round < rounds; round++ {
		field := fmt.Sprintf("f%d", round)
		vals := []interface{}{float64(1.5), int64(7), "s", true}
		var wg sync.WaitGroup
		var okCount int64
		var accepted [4]int32
		for g, v := range vals {
			wg.Add(1)
			go func(g int, v interface{}) {
				defer wg.Done()
				tags := models.NewTags(map[string]string{"g": fmt.Sprint(g)})
				p, _ := models.NewPoint("m", tags, models.Fields{field: v}, time.Unix(0, base+int64(g)))
				if err := h.Store.WriteToShard(shardh.ShardID, []models.Point{p}); err == nil {
					atomic.AddInt64(&okCount, 1)
					atomic.StoreInt32(&accepted[g], 1)
				}
			}(g, v)
		}
		wg.Wait()
		if okCount != 1 {
			// exactly one type can win; the writes of the other types are rejected
			typ := "none"
			if mf := h.Shard().MeasurementFields([]byte("m")); mf != nil && mf.Field(field) != nil {
				typ = mf.Field(field).Type.String()
			}
			return fmt.Sprintf("FIELD %d_of_4_conflicting_first_writes_to_a_new_field_were_accepted_(round_%d,_accepted_float/int/string/bool=%v,_field_type_now_%s)", okCount, round, accepted, typ)
		}
		sh := h.Shard()
		mf := sh.MeasurementFields([]byte("m"))
		if mf == nil || mf.Field(field) == nil {
			return "FIELD the_field_has_no_type_after_the_race"
		}
		// the one accepted point reads back with the field's type
		found := 0
		for g := range vals {
			tvs, err := h.ReadIter("m", fmt.Sprintf("g=%d", g), field, base, base+100, true)
			if err != nil {
				return "FIELD read_error:" + strings.ReplaceAll(err.Error(), " ", "_")
			}
			found += len(tvs)
		}
		if found != 1 {
			return fmt.Sprintf("FIELD %d_values_readable_after_the_race,_want_1", found)
		}
	}
	_ = seed
	return "ok"
}

// hhStress: concurrent appenders and one drainer on a hinted-handoff queue; every appended
// block is drained exactly once, in per-appender order.
// hhCatchup: the sender (NodeProcessor.SendWrite in a loop, as its background loop does) has
// caught up with the appenders (the head segment is also the tail); one block is appended, and
// at the moment the sender has handed it to the shard writer and is about to advance past it —
// and to decide that the head segment is exhausted — eight appenders append one block each.
// Segments hold three blocks. Every accepted block must be delivered.
type catchRec struct {
	mu        sync.Mutex
	delivered map[uint64]int
	armed     *int32
	burst     *atomic.Value
}

func (w *catchRec) WriteShardBinary(shardID, ownerID uint64, points [][]byte) error {
	w.mu.Lock()
	for _, pt := range points {
		var id uint64
		fmt.Sscanf(string(pt), "%d", &id)
		w.delivered[id]++
	}
	w.mu.Unlock()
	if atomic.CompareAndSwapInt32(w.armed, 1, 0) {
		close(w.burst.Load().(chan struct{}))
	}
	return nil
}

func hhCatchup(seed uint64, ms int) string {
	dir, _ := os.MkdirTemp(shardh.WorkDir("stress"), "hc-")
	defer os.RemoveAll(dir)
	cfg := hh.NewConfig()
	cfg.MaxSize = 1 << 30
	cfg.MaxWritesPending = 100
	var armed int32
	var burst atomic.Value
	rec := &catchRec{delivered: map[uint64]int{}, armed: &armed, burst: &burst}
	proc := hh.NewNodeProcessor(cfg, 2, 1, dir, rec, hhNode{})
	if err := hh.VerifOpenProcessor(proc); err != nil {
		return "err:" + strings.ReplaceAll(err.Error(), " ", "_")
	}
	q := hh.VerifProcessorQueue(proc)
	defer q.Close()
	const ptLen = 52
	const blockSize = 12 + ptLen
	q.SetMaxSegmentSize(3*(blockSize+8) + 8)
	const appenders = 8
	var (
		nextID    uint64
		accepted  sync.Map
		nAcc      int64
		appendErr atomic.Value
	)
	appendOne := func() {
		id := atomic.AddUint64(&nextID, 1)
		pt := fmt.Sprintf("%020d", id)
		pt += strings.Repeat("x", ptLen-len(pt))
		b := make([]byte, 12, blockSize)
		binary.BigEndian.PutUint32(b[8:12], uint32(len(pt)))
		b = append(b, pt...)
		if err := q.Append(b); err != nil {
			appendErr.CompareAndSwap(nil, err.Error())
			return
		}
		accepted.Store(id, struct{}{})
		atomic.AddInt64(&nAcc, 1)
	}
	stop := make(chan struct{})
	var wg sync.WaitGroup
	wg.Add(1)
	go func() { // the sender
		defer wg.Done()
		for {
			select {
			case <-stop:
				return
			default:
			}
			if _, err := proc.SendWrite(); err != nil {
				time.Sleep(10 * time.Microsecond)
			}
		}
	}()
	deadline := time.Now().Add(time.Duration(ms) * time.Millisecond)
	for time.Now().Before(deadline) {
		start := make(chan struct{})
		var bw sync.WaitGroup
		for a := 0; a < appenders; a++ {
			bw.Add(1)
			go func() {
				defer bw.Done()
				<-start
				appendOne()
			}()
		}
		burst.Store(start)
		atomic.StoreInt32(&armed, 1)
		appendOne()
		bw.Wait()
		settle := time.Now().Add(5 * time.Second)
		for !q.Empty() && time.Now().Before(settle) {
			time.Sleep(20 * time.Microsecond)
		}
		rec.mu.Lock()
		n := int64(len(rec.delivered))
		rec.mu.Unlock()
		if n != atomic.LoadInt64(&nAcc) {
			break // the queue says it is empty and blocks are missing (or it never drains)
		}
	}
	close(stop)
	done := make(chan struct{})
	go func() { wg.Wait(); close(done) }()
	select {
	case <-done:
	case <-time.After(60 * time.Second):
		return "DEADLOCK: hinted-handoff sender did not stop"
	}
	for k := 0; k < 3; {
		if _, err := proc.SendWrite(); err != nil {
			k++
		} else {
			k = 0
		}
	}
	if e := appendErr.Load(); e != nil {
		return "err:append:" + strings.ReplaceAll(e.(string), " ", "_")
	}
	rec.mu.Lock()
	defer rec.mu.Unlock()
	lost := 0
	accepted.Range(func(k, _ interface{}) bool {
		if rec.delivered[k.(uint64)] == 0 {
			lost++
		}
		return true
	})
	if lost > 0 {
		return fmt.Sprintf("HH %d_blocks_accepted,_%d_never_delivered", atomic.LoadInt64(&nAcc), lost)
	}
	return "ok"
}

func hhStress(seed uint64, ms int) string {
	dir, _ := os.MkdirTemp(shardh.WorkDir("stress"), "h-")
	defer os.RemoveAll(dir)
	q, err := hh.VerifNewQueue(dir, 1<<30, 16)
	if err != nil {
		return "err:" + strings.ReplaceAll(err.Error(), " ", "_")
	}
	if err := q.Open(); err != nil {
		return "err:" + err.Error()
	}
	// odd seeds: small segments (a few blocks each) and appenders that pause, so that the
	// drainer keeps catching up with them at the end of a segment and the next burst arrives
	// while it decides that the head segment is exhausted
	bursty := seed%2 == 1
	q.SetMaxSegmentSize(4096)
	if bursty {
		q.SetMaxSegmentSize(700)
	}
	defer q.Close()
	const appenders = 4
	var sent [appenders]int64
	stop := make(chan struct{})
	var wg sync.WaitGroup
	for a := 0; a < appenders; a++ {
		wg.Add(1)
		go func(a int) {
			defer wg.Done()
			for i := int64(0); ; i++ {
				select {
				case <-stop:
					return
				default:
				}
				b := []byte(fmt.Sprintf("%d:%d:%s", a, i, strings.Repeat("x", int(seed+uint64(i))%200)))
				if err := q.Append(b); err != nil {
					return
				}
				atomic.AddInt64(&sent[a], 1)
				if bursty && i%4 == 3 {
					time.Sleep(time.Duration(500+seed%700) * time.Microsecond)
				}
			}
		}(a)
	}
	var next [appenders]int64
	var drainErr atomic.Value
	drain := func() bool {
		b, err := q.Current()
		if err == io.EOF {
			// what the sender does at the end of the head segment: drop it when it is
			// drained and another one follows, and look again
			q.SkipDrainedHead()
			b, err = q.Current()
		}
		if err != nil {
			return false
		}
		p := strings.SplitN(string(b), ":", 3)
		a, i := int(i64(p[0])), i64(p[1])
		if a < 0 || a >= appenders || i != next[a] {
			drainErr.CompareAndSwap(nil, fmt.Sprintf("appender %d: block %d drained, %d expected", a, i, next[a]))
			return false
		}
		next[a]++
		q.Advance()
		return true
	}
	wg.Add(1)
	go func() {
		defer wg.Done()
		for {
			select {
			case <-stop:
				return
			default:
			}
			if !drain() {
				time.Sleep(time.Millisecond)
			}
		}
	}()
	time.Sleep(time.Duration(ms) * time.Millisecond)
	close(stop)
	done := make(chan struct{})
	go func() { wg.Wait(); close(done) }()
	select {
	case <-done:
	case <-time.After(60 * time.Second):
		return "DEADLOCK: hinted-handoff workers did not stop"
	}
	if e := drainErr.Load(); e != nil {
		return "HH " + strings.ReplaceAll(e.(string), " ", "_")
	}
	for drain() {
	}
	if e := drainErr.Load(); e != nil {
		return "HH " + strings.ReplaceAll(e.(string), " ", "_")
	}
	for a := 0; a < appenders; a++ {
		if next[a] != sent[a] {
			return fmt.Sprintf("HH appender_%d:_%d_blocks_acknowledged,_%d_drained", a, sent[a], next[a])
		}
	}
	return "ok"
}

// hhSender: the real sender (NodeProcessor.SendWrite in a loop, as its background goroutine
// runs it) against concurrent accepted writes: every acknowledged block reaches the shard
// writer, in per-appender order, none is skipped.
type hhRec struct {
	mu   sync.Mutex
	next [4]int64
	bad  string
}

func (w *hhRec) WriteShardBinary(shardID, ownerID uint64, points [][]byte) error {
	w.mu.Lock()
	defer w.mu.Unlock()
	for _, pt := range points {
		p := strings.SplitN(string(pt), ":", 3)
		if len(p) != 3 {
			w.bad = "malformed block delivered"
			continue
		}
		a, i := int(i64(p[0])), i64(p[1])
		switch {
		case a < 0 || a >= len(w.next):
			w.bad = "malformed block delivered"
		case i < w.next[a]:
			// delivered again: allowed (at least once)
		case i > w.next[a]:
			if w.bad == "" {
				w.bad = fmt.Sprintf("appender %d: block %d delivered, %d expected (skipped)", a, i, w.next[a])
			}
			w.next[a] = i + 1
		default:
			w.next[a]++
		}
	}
	return nil
}

type hhNode struct{}

func (hhNode) DataNode(id uint64) (*meta.NodeInfo, error) { return &meta.NodeInfo{ID: id}, nil }

func hhSender(seed uint64, ms int) string {
	dir, _ := os.MkdirTemp(shardh.WorkDir("stress"), "hs-")
	defer os.RemoveAll(dir)
	cfg := hh.NewConfig()
	cfg.MaxSize = 1 << 30
	cfg.MaxWritesPending = 16
	rec := &hhRec{}
	proc := hh.NewNodeProcessor(cfg, 2, 1, dir, rec, hhNode{})
	if err := hh.VerifOpenProcessor(proc); err != nil {
		return "err:" + strings.ReplaceAll(err.Error(), " ", "_")
	}
	q := hh.VerifProcessorQueue(proc)
	q.SetMaxSegmentSize(4096)
	defer q.Close()
	const appenders = 4
	var sent [appenders]int64
	stop := make(chan struct{})
	var wg sync.WaitGroup
	for a := 0; a < appenders; a++ {
		wg.Add(1)
		go func(a int) {
			defer wg.Done()
			for i := int64(0); ; i++ {
				select {
				case <-stop:
					return
				default:
				}
				pt := fmt.Sprintf("%d:%d:%s", a, i, strings.Repeat("x", int(seed+uint64(i))%200))
				b := make([]byte, 12, 12+len(pt))
				binary.BigEndian.PutUint32(b[8:12], uint32(len(pt)))
				b = append(b, pt...)
				if err := q.Append(b); err != nil {
					return
				}
				atomic.AddInt64(&sent[a], 1)
				if i%7 == 0 {
					time.Sleep(50 * time.Microsecond) // let the sender catch up: the queue is often empty
				}
			}
		}(a)
	}
	wg.Add(1)
	go func() {
		defer wg.Done()
		for {
			select {
			case <-stop:
				return
			default:
			}
			proc.SendWrite()
		}
	}()
	time.Sleep(time.Duration(ms) * time.Millisecond)
	close(stop)
	done := make(chan struct{})
	go func() { wg.Wait(); close(done) }()
	select {
	case <-done:
	case <-time.After(60 * time.Second):
		return "DEADLOCK: hinted-handoff sender or writers did not stop"
	}
	for k := 0; k < 3; {
		if _, err := proc.SendWrite(); err != nil {
			k++
		} else {
			k = 0
		}
	}
	rec.mu.Lock()
	defer rec.mu.Unlock()
	if rec.bad != "" {
		return "HH " + strings.ReplaceAll(rec.bad, " ", "_")
	}
	for a := 0; a < appenders; a++ {
		if rec.next[a] != sent[a] {
			return fmt.Sprintf("HH appender_%d:_%d_blocks_acknowledged,_%d_delivered", a, sent[a], rec.next[a])
		}
	}
	return "ok"
}

func runOp(op string) (out string) {
	defer func() {
		if r := recover(); r != nil {
			out = "panic:" + strings.ReplaceAll(fmt.Sprint(r), " ", "_")
		}
	}()
	f := strings.Fields(op)
	switch f[0] {
	case "stress-shard":
		return shardStress(uint64(i64(f[1])), f[2], int(i64(f[3])))
	case "stress-field":
		rounds := 600
		if len(f) > 3 {
			rounds = int(i64(f[3]))
		}
		return fieldRace(uint64(i64(f[1])), f[2], rounds)
	case "stress-tagcache":
		return tagCacheStress(uint64(i64(f[1])), f[2], int(i64(f[3])))
	case "stress-series":
		return seriesStress(uint64(i64(f[1])), f[2], int(i64(f[3])))
	case "stress-ooo":
		return oooStress(uint64(i64(f[1])), f[2], int(i64(f[3])))
	case "stress-newfields":
		return newFields(uint64(i64(f[1])), f[2], int(i64(f[3])))
	case "stress-hh":
		return hhStress(uint64(i64(f[1])), int(i64(f[2])))
	case "stress-hhcatchup":
		return hhCatchup(uint64(i64(f[1])), int(i64(f[2])))
	case "stress-hhsend":
		return hhSender(uint64(i64(f[1])), int(i64(f[2])))
	}
	return "bad-op"
}

func (Prop) RunImpl(c fw.Case) []string {
	out := make([]string, len(c.Ops))
	for i, op := range c.Ops {
		out[i] = runOp(op)
	}
	return out
}

func (Prop) Generate(r *fw.Rand, tier string) []fw.Case {
	n, ms := 3, 400
	if tier == "thorough" {
		n, ms = 40, 1500
	}
	var cases []fw.Case
	for i := 0; i < n; i++ {
		idx := []string{"inmem", "tsi1"}[i%2]
		cases = append(cases, fw.Case{Ops: []string{fmt.Sprintf("stress-shard %d %s %d", r.Intn(1000), idx, ms)}, Tags: []string{"shard"}})
		cases = append(cases, fw.Case{Ops: []string{fmt.Sprintf("stress-field %d %s %d", r.Intn(1000), idx, ms*2)}, Tags: []string{"field"}})
		cases = append(cases, fw.Case{Ops: []string{fmt.Sprintf("stress-ooo %d %s %d", r.Intn(1000), idx, ms)}, Tags: []string{"ooo"}})
		cases = append(cases, fw.Case{Ops: []string{fmt.Sprintf("stress-series %d %s %d", r.Intn(1000), idx, ms)}, Tags: []string{"series"}})
		cases = append(cases, fw.Case{Ops: []string{fmt.Sprintf("stress-tagcache %d tsi1 %d", r.Intn(1000), ms*2) /* only the disk-based index caches the sets */}, Tags: []string{"tagcache"}})
		cases = append(cases, fw.Case{Ops: []string{fmt.Sprintf("stress-newfields %d %s %d", r.Intn(1000), idx, ms/10)}, Tags: []string{"newfields"}})
		cases = append(cases, fw.Case{Ops: []string{fmt.Sprintf("stress-hh %d %d", r.Intn(500)*2, ms)}, Tags: []string{"hh"}})
		cases = append(cases, fw.Case{Ops: []string{fmt.Sprintf("stress-hh %d %d", r.Intn(500)*2+1, ms)}, Tags: []string{"hh-bursty"}})
		cases = append(cases, fw.Case{Ops: []string{fmt.Sprintf("stress-hhcatchup %d %d", r.Intn(1000), ms)}, Tags: []string{"hh-catchup"}})
		cases = append(cases, fw.Case{Ops: []string{fmt.Sprintf("stress-hhsend %d %d", r.Intn(1000), ms)}, Tags: []string{"hhsend"}})
	}
	return cases
}

func (Prop) Describe(cfg *fw.Config) {
	cfg.Rule = "stress scenarios on real components: (shard) 4 writers with their own series, a snapshotter, a compactor of all files, a writer+deleter of another measurement and 2 readers on one shard for 0.4 s (quick) / 1.5 s (thorough), inmem and tsi1: every read must hold all points acknowledged before it began, and at rest and after a reopen all acknowledged points; (field) 800 (quick) / 3000 (thorough) rounds of 4 goroutines writing one new field with four different types: exactly one is accepted and exactly its value is readable; (hh) 4 appenders and a drainer on a hinted-handoff queue with 4 KB segments: every acknowledged block is drained once, in per-appender order; (hhsend) 4 appenders against the real sender (NodeProcessor.SendWrite in a loop) with a recording shard writer: every acknowledged block is delivered, in per-appender order, none skipped; (ooo) one writer sending a series in descending time order against four readers: every read holds every point acknowledged before it began, once; (newfields) rounds of eight goroutines writing different new fields of one measurement at once: every acknowledged write is readable, also after a restart; (series) four writers creating new series all the time on tsi1 with a 256-byte log file (so that the log is swapped and compacted every few writes) and on inmem: every acknowledged series is listed and found by its tag at rest, after the index compactions and after a reopen; (tagcache) for a run of tag values, the first lookup of a value runs together with the creation of a second series carrying it (four background writers of new series): a lookup that begins after both were acknowledged lists both; (hh, odd seeds) pausing appenders on 700-byte segments; (hhcatchup) the real sender, caught up with the appenders, meets a burst of eight appends when it exhausts the head segment (three-block segments): every accepted block is handed out once; a watchdog reports workers that do not stop; thorough tier: the harness is built with the Go race detector (a report ends the run); non-trivial = every scenario; distinct = distinct op list"
}

func (Prop) Trivial(c fw.Case, out []string) bool { return false }

func (Prop) Oracle(c fw.Case, out []string) fw.Verdict {
	for i, o := range out {
		if o != "ok" {
			f := strings.Fields(o + " ?")
			return fw.Verdict{OK: false, Why: c.Ops[i] + " => " + o, Signature: strings.Fields(c.Ops[i])[0] + ": " + f[0]}
		}
	}
	return fw.Verdict{OK: true}
}

var _ = tsdb.ErrShardNotFound
