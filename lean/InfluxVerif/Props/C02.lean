/-
C02 — Reads equal a last-write-wins model of the shard.
(1) the merge algebra used by every read and compaction path; (2) facts about the
specification `InfluxVerif.ShardSpec` that the real shard is compared with op by op.
-/
import InfluxVerif.Model.Values
import InfluxVerif.Spec.Shard
import InfluxVerif.Props.BlockOrder

namespace InfluxVerif.Values

theorem sorted_tail {α} {a : TV α} {l : List (TV α)} (h : Sorted (a :: l)) : Sorted l := by
  cases l with
  | nil => trivial
  | cons b rest => exact h.2

theorem sorted_head_lt {α} {a : TV α} {l : List (TV α)} (h : Sorted (a :: l)) : ∀ p ∈ l, a.1 < p.1 := by
  induction l generalizing a with
  | nil => intro p hp; simp at hp
  | cons b rest ih =>
    intro p hp
    simp only [List.mem_cons] at hp
    rcases hp with rfl | hp
    · exact h.1
    · have := ih h.2 p hp
      have := h.1
      omega

theorem lookup_none_of_lt {α} (l : List (TV α)) (t : Int) (h : ∀ p ∈ l, t < p.1) : lookup l t = none := by
  unfold lookup
  rw [List.find?_eq_none.2]
  · rfl
  · intro p hp
    have := h p hp
    simp; omega

/-- **Merge = last write wins.** For sorted inputs, the merged block holds, for every
timestamp, the second (newer) argument's value if it has one, else the first's. -/
theorem merge_lookup {α} (a b : List (TV α)) (ha : Sorted a) (hb : Sorted b) (t : Int) :
    lookup (merge a b) t = (lookup b t <|> lookup a t) := by
  induction a, b using merge.induct with
  | case1 b => simp [merge, lookup]
  | case2 a hne =>
    cases a with
    | nil => simp [merge, lookup]
    | cons x xs => simp [merge, lookup]
  | case3 x xs y ys hlt ih =>
    rw [merge, if_pos hlt]
    have ih' := ih (sorted_tail ha) hb
    by_cases hx : x.1 = t
    · have hb_none : lookup (y :: ys) t = none := by
        apply lookup_none_of_lt
        intro p hp
        simp only [List.mem_cons] at hp
        rcases hp with rfl | hp
        · omega
        · have := sorted_head_lt hb p hp; omega
      have h1 : lookup (x :: merge xs (y :: ys)) t = some x.2 := by simp [lookup, List.find?_cons, hx]
      have h2 : lookup (x :: xs) t = some x.2 := by simp [lookup, List.find?_cons, hx]
      rw [h1, h2, hb_none]; rfl
    · have h1 : lookup (x :: merge xs (y :: ys)) t = lookup (merge xs (y :: ys)) t := by
        simp [lookup, List.find?_cons, hx]
      have h2 : lookup (x :: xs) t = lookup xs t := by simp [lookup, List.find?_cons, hx]
      rw [h1, h2, ih']
  | case4 x xs y ys hnlt heq ih =>
    rw [merge, if_neg hnlt, if_pos heq]
    have ih' := ih (sorted_tail ha) (sorted_tail hb)
    by_cases hy : y.1 = t
    · simp [lookup, List.find?_cons, hy]
    · have hx : ¬ x.1 = t := by omega
      have h1 : lookup (y :: merge xs ys) t = lookup (merge xs ys) t := by simp [lookup, List.find?_cons, hy]
      have h2 : lookup (y :: ys) t = lookup ys t := by simp [lookup, List.find?_cons, hy]
      have h3 : lookup (x :: xs) t = lookup xs t := by simp [lookup, List.find?_cons, hx]
      rw [h1, h2, h3, ih']
  | case5 x xs y ys hnlt hne ih =>
    rw [merge, if_neg hnlt, if_neg hne]
    have ih' := ih ha (sorted_tail hb)
    by_cases hy : y.1 = t
    · simp [lookup, List.find?_cons, hy]
    · have h1 : lookup (y :: merge (x :: xs) ys) t = lookup (merge (x :: xs) ys) t := by simp [lookup, List.find?_cons, hy]
      have h2 : lookup (y :: ys) t = lookup ys t := by simp [lookup, List.find?_cons, hy]
      rw [h1, h2, ih']

/-- the heads of a merge are heads of its arguments (used for sortedness) -/
theorem merge_head_ge {α} (a b : List (TV α)) (m : Int) (ha : ∀ p ∈ a, m < p.1) (hb : ∀ p ∈ b, m < p.1) :
    ∀ p ∈ merge a b, m < p.1 := by
  induction a, b using merge.induct with
  | case1 b => simpa [merge] using hb
  | case2 a hne => cases a <;> simpa [merge] using ha
  | case3 x xs y ys hlt ih =>
    rw [merge, if_pos hlt]
    intro p hp
    simp only [List.mem_cons] at hp
    rcases hp with rfl | hp
    · exact ha _ (by simp)
    · exact ih (fun q hq => ha q (by simp [hq])) hb p hp
  | case4 x xs y ys hnlt heq ih =>
    rw [merge, if_neg hnlt, if_pos heq]
    intro p hp
    simp only [List.mem_cons] at hp
    rcases hp with rfl | hp
    · exact hb _ (by simp)
    · exact ih (fun q hq => ha q (by simp [hq])) (fun q hq => hb q (by simp [hq])) p hp
  | case5 x xs y ys hnlt hne ih =>
    rw [merge, if_neg hnlt, if_neg hne]
    intro p hp
    simp only [List.mem_cons] at hp
    rcases hp with rfl | hp
    · exact hb _ (by simp)
    · exact ih ha (fun q hq => hb q (by simp [hq])) p hp

theorem sorted_cons_of {α} (x : TV α) (l : List (TV α)) (hl : Sorted l) (h : ∀ p ∈ l, x.1 < p.1) : Sorted (x :: l) := by
  cases l with
  | nil => trivial
  | cons y rest => exact ⟨h y (by simp), hl⟩

/-- **One point per timestamp, in order.** The merge of sorted blocks is sorted with
strictly increasing timestamps. -/
theorem merge_sorted {α} (a b : List (TV α)) (ha : Sorted a) (hb : Sorted b) : Sorted (merge a b) := by
  induction a, b using merge.induct with
  | case1 b => simpa [merge] using hb
  | case2 a hne => cases a <;> simpa [merge] using ha
  | case3 x xs y ys hlt ih =>
    rw [merge, if_pos hlt]
    apply sorted_cons_of _ _ (ih (sorted_tail ha) hb)
    apply merge_head_ge
    · exact sorted_head_lt ha
    · intro p hp
      simp only [List.mem_cons] at hp
      rcases hp with rfl | hp
      · exact hlt
      · have := sorted_head_lt hb p hp; omega
  | case4 x xs y ys hnlt heq ih =>
    rw [merge, if_neg hnlt, if_pos heq]
    apply sorted_cons_of _ _ (ih (sorted_tail ha) (sorted_tail hb))
    apply merge_head_ge
    · intro p hp; have := sorted_head_lt ha p hp; omega
    · exact sorted_head_lt hb
  | case5 x xs y ys hnlt hne ih =>
    rw [merge, if_neg hnlt, if_neg hne]
    apply sorted_cons_of _ _ (ih ha (sorted_tail hb))
    apply merge_head_ge
    · intro p hp
      simp only [List.mem_cons] at hp
      rcases hp with rfl | hp
      · omega
      · have := sorted_head_lt ha p hp; omega
    · exact sorted_head_lt hb

/-- merging a block with itself changes nothing: re-writing identical points is idempotent -/
theorem merge_self_lookup {α} (a : List (TV α)) (ha : Sorted a) (t : Int) : lookup (merge a a) t = lookup a t := by
  rw [merge_lookup a a ha ha]
  cases lookup a t <;> rfl


/-- `upsert` keeps the timestamps strictly increasing -/
theorem upsert_sorted {α} (t : Int) (v : α) (l : List (TV α)) (h : Sorted l) :
    Sorted (upsert t v l) := by
  induction l with
  | nil => trivial
  | cons x rest ih =>
    obtain ⟨t', v'⟩ := x
    simp only [upsert]
    split
    · rename_i hlt; exact ⟨hlt, h⟩
    · split
      · rename_i heq
        subst heq
        cases rest with
        | nil => trivial
        | cons y r => exact ⟨h.1, h.2⟩
      · rename_i hnlt hne
        have hgt : t' < t := by omega
        have ih' := ih (sorted_tail h)
        apply sorted_cons_of _ _ ih'
        intro p hp
        -- every element of `upsert t v rest` is `(t, v)` or an element of `rest`
        have hmem : ∀ l : List (TV α), ∀ p ∈ upsert t v l, p = (t, v) ∨ p ∈ l := by
          intro l
          induction l with
          | nil => intro p hp; simp [upsert] at hp; exact Or.inl hp
          | cons z zs ihz =>
            intro p hp
            simp only [upsert] at hp
            split at hp
            · simp only [List.mem_cons] at hp
              rcases hp with rfl | rfl | hp
              · exact Or.inl rfl
              · exact Or.inr (by simp)
              · exact Or.inr (by simp [hp])
            · split at hp
              · simp only [List.mem_cons] at hp
                rcases hp with rfl | hp
                · exact Or.inl rfl
                · exact Or.inr (by simp [hp])
              · simp only [List.mem_cons] at hp
                rcases hp with rfl | hp
                · exact Or.inr (by simp)
                · rcases ihz p hp with h | h
                  · exact Or.inl h
                  · exact Or.inr (by simp [h])
        rcases hmem rest p hp with rfl | hp'
        · exact hgt
        · exact sorted_head_lt h p hp'

/-- **A read returns the latest value written for the timestamp** -/
theorem upsert_lookup {α} (t : Int) (v : α) (l : List (TV α)) (h : Sorted l) (t' : Int) :
    lookup (upsert t v l) t' = if t' = t then some v else lookup l t' := by
  induction l with
  | nil =>
    by_cases ht : t' = t
    · simp [upsert, lookup, List.find?_cons, ht]
    · have : ¬ t = t' := fun e => ht e.symm
      simp [upsert, lookup, List.find?_cons, ht, this]
  | cons x rest ih =>
    obtain ⟨tx, vx⟩ := x
    simp only [upsert]
    split
    · by_cases ht : t' = t
      · simp [lookup, List.find?_cons, ht]
      · have : ¬ t = t' := fun e => ht e.symm
        simp [lookup, List.find?_cons, ht, this]
    · split
      · rename_i _ heq
        subst heq
        by_cases ht : t' = t
        · simp [lookup, List.find?_cons, ht]
        · have : ¬ t = t' := fun e => ht e.symm
          simp [lookup, List.find?_cons, ht, this]
      · rename_i hnlt hne
        have ih' := ih (sorted_tail h)
        by_cases hx : tx = t'
        · subst hx
          have : ¬ tx = t := fun e => hne e.symm
          simp [lookup, List.find?_cons, this]
        · have e1 : lookup ((tx, vx) :: upsert t v rest) t' = lookup (upsert t v rest) t' := by
            simp [lookup, List.find?_cons, hx]
          have e2 : lookup ((tx, vx) :: rest) t' = lookup rest t' := by
            simp [lookup, List.find?_cons, hx]
          rw [e1, e2, ih']


theorem lookup_append {α} (a b : List (TV α)) (t : Int) :
    lookup (a ++ b) t = (lookup a t <|> lookup b t) := by
  unfold lookup
  rw [List.find?_append]
  cases List.find? (fun x => x.1 == t) a <;> simp

theorem ordered_iff {α} (l : List (TV α)) : ordered l = true ↔ Sorted l := by
  induction l with
  | nil => simp [ordered, Sorted]
  | cons a rest ih =>
    cases rest with
    | nil => simp [ordered, Sorted]
    | cons b r => simp [ordered, Sorted, ih]

theorem foldl_upsert_sorted {α} (l acc : List (TV α)) (h : Sorted acc) :
    Sorted (l.foldl (fun acc p => upsert p.1 p.2 acc) acc) := by
  induction l generalizing acc with
  | nil => exact h
  | cons p l ih => exact ih _ (upsert_sorted p.1 p.2 acc h)

theorem foldl_upsert_lookup {α} (l acc : List (TV α)) (h : Sorted acc) (t : Int) :
    lookup (l.foldl (fun acc p => upsert p.1 p.2 acc) acc) t = (lookup l.reverse t <|> lookup acc t) := by
  induction l generalizing acc with
  | nil => simp [lookup]
  | cons p l ih =>
    rw [List.foldl_cons, ih _ (upsert_sorted p.1 p.2 acc h), upsert_lookup _ _ _ h, List.reverse_cons, lookup_append]
    by_cases ht : t = p.1
    · have : lookup [p] t = some p.2 := by simp [lookup, List.find?_cons, ht]
      rw [this]; simp [ht]
    · have hne : ¬ p.1 = t := fun e => ht e.symm
      have : lookup [p] t = none := by simp [lookup, List.find?_cons, hne]
      rw [this]; simp [ht]

/-- **De-duplication** yields strictly increasing timestamps … -/
theorem dedup_sorted {α} (l : List (TV α)) : Sorted (dedup l) := by
  unfold dedup
  split
  · rename_i h; exact (ordered_iff l).1 h
  · exact foldl_upsert_sorted l [] trivial

/-- … and keeps, for every timestamp, the value written last. -/
theorem dedup_lookup_unordered {α} (l : List (TV α)) (h : ordered l = false) (t : Int) :
    lookup (dedup l) t = lookup l.reverse t := by
  unfold dedup
  rw [if_neg (by simp [h]), foldl_upsert_lookup l [] trivial]
  cases lookup l.reverse t <;> rfl

theorem dedup_of_sorted {α} (l : List (TV α)) (h : Sorted l) : dedup l = l := by
  unfold dedup; rw [if_pos ((ordered_iff l).2 h)]

/-- **`Values.Merge`, as written, is last-write-wins between its arguments**: whenever both
arguments are non-empty the result is strictly increasing, and a timestamp reads the newer
argument's (last) value if it has one, otherwise the older argument's (last) value. -/
theorem mergeFull_sorted {α} (a b : List (TV α)) (ha : a ≠ []) (hb : b ≠ []) : Sorted (mergeFull a b) := by
  unfold mergeFull
  cases a with
  | nil => exact absurd rfl ha
  | cons x xs =>
    cases b with
    | nil => exact absurd rfl hb
    | cons y ys => simpa using merge_sorted _ _ (dedup_sorted _) (dedup_sorted _)

theorem mergeFull_lookup {α} (a b : List (TV α)) (ha : Sorted a) (hb : Sorted b) (t : Int) :
    lookup (mergeFull a b) t = (lookup b t <|> lookup a t) := by
  unfold mergeFull
  cases a with
  | nil => simp [lookup]
  | cons x xs =>
    cases b with
    | nil => simp [lookup]
    | cons y ys =>
      simp only [List.isEmpty_cons, Bool.false_eq_true, if_false]
      rw [dedup_of_sorted _ ha, dedup_of_sorted _ hb]
      exact merge_lookup _ _ ha hb t

/-- `Exclude(min,max)` removes exactly the timestamps of the closed interval -/
theorem exclude_lookup {α} (l : List (TV α)) (a b t : Int) :
    lookup (exclude l a b) t = if a ≤ t ∧ t ≤ b then none else lookup l t := by
  induction l with
  | nil => simp [exclude, lookup]
  | cons p l ih =>
    unfold exclude at *
    by_cases hp : p.1 = t
    · by_cases hin : a ≤ t ∧ t ≤ b
      · have : (decide (p.1 < a) || decide (p.1 > b)) = false := by simp; omega
        rw [List.filter_cons, if_neg (by simp [this]), ih, if_pos hin, if_pos hin]
      · have : (decide (p.1 < a) || decide (p.1 > b)) = true := by simp; omega
        rw [List.filter_cons, if_pos this, if_neg hin]
        simp [lookup, List.find?_cons, hp]
    · have e : lookup (p :: l) t = lookup l t := by simp [lookup, List.find?_cons, hp]
      rw [e, List.filter_cons]
      split
      · have e2 : ∀ m : List (TV α), lookup (p :: m) t = lookup m t := by
          intro m; simp [lookup, List.find?_cons, hp]
        rw [e2, ih]
      · exact ih

theorem exclude_sorted {α} (l : List (TV α)) (a b : Int) (h : Sorted l) : Sorted (exclude l a b) := by
  induction l with
  | nil => trivial
  | cons p l ih =>
    unfold exclude at *
    rw [List.filter_cons]
    split
    · apply sorted_cons_of _ _ (ih (sorted_tail h))
      intro q hq
      exact sorted_head_lt h q (List.mem_filter.1 hq).1
    · exact ih (sorted_tail h)

/-- `Include(min,max)` keeps exactly the timestamps of the closed interval -/
theorem include_lookup {α} (l : List (TV α)) (a b t : Int) :
    lookup (include_ l a b) t = if a ≤ t ∧ t ≤ b then lookup l t else none := by
  induction l with
  | nil => simp [include_, lookup]
  | cons p l ih =>
    unfold include_ at *
    by_cases hp : p.1 = t
    · by_cases hin : a ≤ t ∧ t ≤ b
      · have : (decide (a ≤ p.1) && decide (p.1 ≤ b)) = true := by simp; omega
        rw [List.filter_cons, if_pos this, if_pos hin]
        simp [lookup, hp]
      · have : (decide (a ≤ p.1) && decide (p.1 ≤ b)) = false := by simp; omega
        rw [List.filter_cons, if_neg (by simp [this]), ih, if_neg hin, if_neg hin]
    · have e : lookup (p :: l) t = lookup l t := by simp [lookup, hp]
      rw [e, List.filter_cons]
      split
      · have e2 : ∀ m : List (TV α), lookup (p :: m) t = lookup m t := by
          intro m; simp [lookup, hp]
        rw [e2, ih]
      · exact ih

end InfluxVerif.Values

namespace InfluxVerif.ShardSpec

/-- **A point whose field conflicts with the field's type is rejected as a partial write and
leaves the stored data unchanged** -/
theorem conflicting_point_changes_nothing (s : St) (p : Pt) (h : validPt s p = false) :
    (write s [p]).1.cols = s.cols ∧ (write s [p]).2 = .partialWrite 1 := by
  simp [write, h, createFields]

/-! ### Non-vacuity -/

example : Values.dedup [(5, 'a'), (1, 'b'), (5, 'c')] = [(1, 'b'), (5, 'c')] := by
  simp [Values.dedup, Values.ordered, Values.upsert]
example : upsert 5 "i2" [(1, "i0"), (5, "i1"), (9, "i3")] = [(1, "i0"), (5, "i2"), (9, "i3")] := by decide
example : Values.merge [(1, 'a'), (3, 'b')] [(3, 'c'), (4, 'd')] = [(1, 'a'), (3, 'c'), (4, 'd')] := by
  simp [Values.merge]

/-! ### the order in which a KeyCursor visits the blocks of a key (Props/BlockOrder.lean) -/

/-- `sortLocations` keeps an older file's block in front of a newer file's overlapping block,
in both directions and whatever the number of blocks — the pinned tree's `sort.Sort` did not
beyond 12 blocks -/
theorem cursor_order_keeps_files (l : List BlockOrder.Blk) (a b : BlockOrder.Blk)
    (hab : [a, b].Sublist l) (hov : BlockOrder.overlaps a b = true) (hfile : a.file ≤ b.file) :
    [a, b].Sublist (BlockOrder.isort BlockOrder.lessAsc l) ∧ [a, b].Sublist (BlockOrder.isort BlockOrder.lessDesc l) :=
  BlockOrder.cursor_overlapping_keep_file_order l a b hab hov hfile

end InfluxVerif.ShardSpec
