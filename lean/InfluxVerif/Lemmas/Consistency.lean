/- Helper lemmas for Props/C03.lean -/
import InfluxVerif.Model.Consistency
import Mathlib.Data.List.Perm.Subperm
import Mathlib.Data.List.Range

namespace InfluxVerif.Consistency

theorem required_pos (level : Level) (n : Nat) (hn : 1 ≤ n) : 1 ≤ required level n := by
  cases level <;> simp [required] <;> omega

theorem collectLoop_none (req : Nat) (arr : List Res) (w : Nat) (hw : w < req) :
    collectLoop req w arr = none ↔ req ≤ w + arr.count .ok := by
  induction arr generalizing w with
  | nil => simp [collectLoop]; omega
  | cons r rest ih =>
    cases r with
    | ok =>
      simp only [collectLoop, List.count_cons_self]
      by_cases h : w + 1 ≥ req
      · simp [h]; omega
      · simp only [h, if_false]; rw [ih (w+1) (by omega)]; omega
    | skip => simp only [collectLoop]; rw [ih w hw]; simp [List.count_cons]
    | err => simp only [collectLoop]; rw [ih w hw]; simp [List.count_cons]

theorem collectLoop_some (req : Nat) (arr : List Res) (w w' : Nat)
    (h : collectLoop req w arr = some w') : w' = w + arr.count .ok := by
  induction arr generalizing w with
  | nil => simp [collectLoop] at h; simp; omega
  | cons r rest ih =>
    cases r with
    | ok =>
      simp only [collectLoop] at h
      split at h
      · cases h
      · have := ih _ h; simp [List.count_cons]; omega
    | skip => simp only [collectLoop] at h; have := ih _ h; simp [List.count_cons]; omega
    | err => simp only [collectLoop] at h; have := ih _ h; simp [List.count_cons]; omega

theorem collect_ok_iff (req n : Nat) (arr : List Res) :
    (collect req n arr = .ok → req ≤ arr.count .ok) ∧
    (1 ≤ req → req ≤ arr.count .ok → collect req n arr = .ok) := by
  constructor
  · intro h
    by_cases hr : 0 < req
    · unfold collect at h
      split at h
      · rename_i hn; have := (collectLoop_none req arr 0 hr).1 hn; omega
      · split at h <;> (try split at h) <;> cases h
    · omega
  · intro hr hc
    unfold collect
    have := (collectLoop_none req arr 0 (by omega)).2 (by omega)
    simp [this]

theorem collect_not_ok (req n : Nat) (arr : List Res) (h : arr.count .ok < req) :
    collect req n arr =
      if arr.length < n then .timeout
      else if 0 < arr.count .ok then .partialWrite else .failed := by
  unfold collect
  cases hl : collectLoop req 0 arr with
  | none => have := (collectLoop_none req arr 0 (by omega)).1 hl; omega
  | some w =>
    have := collectLoop_some req arr 0 w hl
    simp only [Nat.zero_add] at this
    subst this
    rfl

theorem collect_perm (req n : Nat) (a b : List Res) (h : a.Perm b) :
    collect req n a = collect req n b := by
  by_cases hr : 1 ≤ req
  · by_cases hc : req ≤ a.count .ok
    · rw [(collect_ok_iff req n a).2 hr hc, (collect_ok_iff req n b).2 hr (by rw [← h.count_eq]; exact hc)]
    · rw [collect_not_ok req n a (by omega), collect_not_ok req n b (by rw [← h.count_eq]; omega),
        h.length_eq, h.count_eq]
  · have hz : req = 0 := by omega
    subst hz
    -- with req = 0 the loop returns early on the first ok, otherwise falls through
    by_cases hc : 0 < a.count .ok
    · have ha : collectLoop 0 0 a = none := by
        clear h
        induction a with
        | nil => simp at hc
        | cons r rest ih =>
          cases r <;> simp [collectLoop, List.count_cons] at * <;> exact ih hc
      have hb : collectLoop 0 0 b = none := by
        have hc' : 0 < b.count .ok := by rw [← h.count_eq]; exact hc
        clear h ha hc
        induction b with
        | nil => simp at hc'
        | cons r rest ih =>
          cases r <;> simp [collectLoop, List.count_cons] at * <;> exact ih hc'
      simp [collect, ha, hb]
    · have hza : a.count .ok = 0 := by omega
      have hzb : b.count .ok = 0 := by rw [← h.count_eq]; exact hza
      have key : ∀ l : List Res, l.count .ok = 0 → collectLoop 0 0 l = some 0 := by
        intro l hl
        induction l with
        | nil => rfl
        | cons r rest ih =>
          cases r <;> simp [collectLoop, List.count_cons] at * <;> exact ih hl
      simp [collect, key a hza, key b hzb, h.length_eq]

/-- number of `ok` results sent by the owners in `arrived` -/
theorem okCount_eq_metCount (level : Level) (arrived : List Outcome) :
    (arrivalsOf level arrived).count .ok =
      arrived.countP (fun o => counts level (ownerStep level o).2) := by
  unfold arrivalsOf
  induction arrived with
  | nil => rfl
  | cons o rest ih =>
    cases o <;> cases level <;>
      simp [List.filterMap_cons, ownerStep, counts, List.count_cons, List.countP_cons] at * <;>
      omega

theorem okCount_le_metCount (level : Level) (arrived : List Outcome) :
    (arrivalsOf level arrived).count .ok ≤
      arrived.countP (fun o => counts level (ownerStep level o).2) :=
  Nat.le_of_eq (okCount_eq_metCount level arrived)

theorem metCount_le_okCount (level : Level) (arrived : List Outcome) :
    arrived.countP (fun o => counts level (ownerStep level o).2) ≤
      (arrivalsOf level arrived).count .ok :=
  Nat.le_of_eq (okCount_eq_metCount level arrived).symm

theorem filterMap_getElem?_subperm {α : Type} (l : List α) (order : List Nat) (hnd : order.Nodup) :
    (order.filterMap (l[·]?)).Subperm l := by
  have h1 : order.filterMap (l[·]?) = (order.filter (· < l.length)).filterMap (l[·]?) := by
    clear hnd
    induction order with
    | nil => rfl
    | cons i rest ih =>
      by_cases hi : i < l.length
      · simp [List.filterMap_cons, List.filter_cons, hi, ih]
      · have : l[i]? = none := by simp; omega
        simp [List.filterMap_cons, List.filter_cons, hi, this, ih]
  have h2 : ∀ l : List α, (List.range l.length).filterMap (l[·]?) = l := by
    intro l
    induction l with
    | nil => rfl
    | cons x xs ih =>
      simp only [List.length_cons, List.range_succ_eq_map, List.filterMap_cons,
        List.getElem?_cons_zero, List.filterMap_map, Function.comp_def, List.getElem?_cons_succ]
      rw [ih]
  have h3 : (order.filter (· < l.length)).Subperm (List.range l.length) := by
    apply List.Nodup.subperm (hnd.filter _)
    intro i hi
    simp at hi
    simp [hi.2]
  obtain ⟨s, hperm, hsub⟩ := h3
  rw [h1]
  refine ⟨s.filterMap (l[·]?), hperm.filterMap _, ?_⟩
  have := hsub.filterMap (l[·]?)
  rwa [h2 l] at this

end InfluxVerif.Consistency
