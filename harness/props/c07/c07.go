// Package c07: snapshot fidelity (persist/restore at arbitrary points of command logs),
// point-in-time snapshots under later commands, and "accepted request bodies never panic the
// FSM" — all against the real storeFSM through the verif hook; model = driver "meta".
package c07

import (
	"bytes"
	"fmt"
	"net/http"
	"net/http/httptest"
	"os"
	"sort"
	"strconv"
	"strings"
	"sync"
	"time"

	"github.com/hashicorp/raft"
	"github.com/influxdata/influxdb/services/meta"
	"verifharness/fw"
	"verifharness/metah"
	"verifharness/props/c06"
)

type Prop struct{}

func (Prop) ID() string     { return "C07" }
func (Prop) Model() string  { return "meta" }
func (Prop) Parallel() int  { return 16 }
func (Prop) Stateful() bool { return true }
func (Prop) Describe(cfg *fw.Config) {
	cfg.Rule = "C06's seeded command logs with snapshot ops interleaved: `snap` persists the FSM snapshot and restores it into a fresh FSM (state must be identical), `hold`/`release` keep a snapshot object across later commands and persist it afterwards (must equal the image at hold time), `snaptail` restores and applies the remaining log on both; plus the exhaustive table of request bodies {every schema command type, unknown type} x {no extension, own extension, foreign extension} through validateCommand and, if accepted, the FSM; non-trivial = log with a shard group and a snapshot op, or a raw body; distinct = distinct op list"
}

func (Prop) KeepOp(i int, op string) bool { return i == 0 || strings.HasPrefix(op, "reset") }

func (Prop) Generate(r *fw.Rand, tier string) []fw.Case {
	var cases []fw.Case
	// 1. raw request bodies, exhaustive
	types := meta.VerifCommandTypes()
	var nums []int
	for k := range types {
		nums = append(nums, int(k))
	}
	sort.Ints(nums)
	nums = append(nums, 0, 99)
	exts := []int{0, 3, 4, 13, 32} // none, CreateDatabase, DropDatabase, CreateUser, PruneShardGroups (numbers checked below)
	for _, t := range nums {
		for _, e := range exts {
			cases = append(cases, fw.Case{Ops: []string{"reset 1", "createdatanode h1 t1", fmt.Sprintf("raw %d %d", t, e), "dump"}, Tags: []string{"raw"}})
			if e != 0 && t == e {
				cases = append(cases, fw.Case{Ops: []string{"reset 1", "createdatanode h1 t1", fmt.Sprintf("raw %d %d bad", t, e), "dump"}, Tags: []string{"raw"}})
			}
		}
	}
	// 1b. the index of a client's metadata cache under answers from lagging meta servers
	for i := 0; i < 6; i++ {
		var xs []string
		cur := 1 + r.Intn(5)
		for k := 0; k < 3+r.Intn(5); k++ {
			switch r.Intn(4) {
			case 0:
				xs = append(xs, fmt.Sprint(cur-1-r.Intn(cur))) // a server that is behind
			case 1:
				xs = append(xs, fmt.Sprint(cur)) // nothing new
			default:
				cur += 1 + r.Intn(4)
				xs = append(xs, fmt.Sprint(cur))
			}
		}
		cases = append(cases, fw.Case{Ops: []string{"cpoll " + strings.Join(xs, ",")}, Tags: []string{"client"}})
	}
	// 2. logs with snapshot ops
	n := 120
	if tier == "thorough" {
		n = 2500
	}
	base := c06.Prop{}.Generate(r, tier)
	for i := 0; i < n && i < len(base); i++ {
		var ops []string
		holding := false
		for _, op := range base[i].Ops {
			ops = append(ops, op)
			if op == "dump" || strings.HasPrefix(op, "reset") {
				continue
			}
			switch r.Intn(12) {
			case 0:
				ops = append(ops, "snap")
			case 1:
				if !holding {
					ops = append(ops, "hold")
					holding = true
				}
			case 2:
				if holding {
					ops = append(ops, "release")
					holding = false
				}
			}
		}
		if holding {
			ops = append(ops, "release")
		}
		ops = append(ops, "snap", "dump")
		cases = append(cases, fw.Case{Ops: ops, Tags: []string{"log"}})
	}
	return cases
}

type state struct {
	m        *metah.M
	held     raft.FSMSnapshot
	heldDump string
}

func payload(dump string) string {
	i := strings.Index(dump, " c=")
	if i < 0 {
		return dump
	}
	return dump[i:]
}

func dumpOf(b []byte) (string, error) {
	f := meta.VerifNewFSM(true)
	if err := f.Restore(b); err != nil {
		return "", err
	}
	return metah.Dump(f.Data()), nil
}

func (s *state) step(op string) (out string) {
	defer func() {
		if r := recover(); r != nil {
			out = "harness-panic:" + strings.ReplaceAll(fmt.Sprint(r), " ", "_")
		}
	}()
	f := strings.Fields(op)
	switch f[0] {
	case "snap":
		b, _, err := s.m.F.SnapshotBytes()
		if err != nil {
			return "snap err"
		}
		d, err := dumpOf(b)
		if err != nil {
			return "snap restore-err"
		}
		if d != metah.Dump(s.m.F.Data()) {
			return "snap LOSSY"
		}
		// continue on the restored copy: the rest of the log must behave identically
		if err := s.m.F.Restore(b); err != nil {
			return "snap restore-err"
		}
		return "snap ok"
	case "hold":
		b, snap, err := s.m.F.SnapshotBytes()
		if err != nil {
			return "hold err"
		}
		s.held = snap
		d, _ := dumpOf(b)
		s.heldDump = d
		return "ok"
	case "release":
		if s.held == nil {
			return "bad-op"
		}
		b, err := meta.VerifPersist(s.held)
		s.held = nil
		if err != nil {
			return "release err"
		}
		d, _ := dumpOf(b)
		if payload(d) != payload(s.heldDump) {
			return "release CHANGED"
		}
		return "release same"
	case "cpoll":
		return clientPoll(f[1])
	case "raw":
		var t, e int
		fmt.Sscan(f[1], &t)
		fmt.Sscan(f[2], &e)
		b := meta.VerifRawCommand(int32(t), int32(e))
		if len(f) > 3 && f[3] == "bad" {
			// keep the extension field, replace its payload by bytes that do not decode:
			// [type field][tag varint][3][0x0a 0x05 'x'] (an inner length past the end)
			b = badPayload(b)
		}
		if err := meta.VerifValidateCommand(b); err != nil {
			return "rejected"
		}
		s.m.K++
		_, pan := s.m.F.Apply(b, s.m.K, 1+s.m.K/8)
		if pan != "" {
			return "PANIC"
		}
		return "applied"
	}
	return s.m.Step(op)
}

// clientPoll: a real meta.Client polls a scripted meta server that answers the k-th request
// with a metadata value of index idx[k] — what a client sees that is handed from one meta node
// to another that lags behind, or polls a follower still replaying its log. Every request
// carries the index the client holds at that moment; the op returns those indices (after the
// first answer): the index of a data node's metadata cache must never go back.
func clientPoll(csv string) (res string) {
	defer func() {
		if r := recover(); r != nil {
			res = "panic:" + strings.ReplaceAll(fmt.Sprint(r), " ", "_")
		}
	}()
	var idx []uint64
	for _, x := range strings.Split(csv, ",") {
		v, err := strconv.ParseUint(x, 10, 64)
		if err != nil {
			return "bad-op"
		}
		idx = append(idx, v)
	}
	var mu sync.Mutex
	var seen []string
	k := 0
	done := make(chan struct{})
	stop := make(chan struct{})
	srv := httptest.NewServer(http.HandlerFunc(func(w http.ResponseWriter, r *http.Request) {
		mu.Lock()
		if k > 0 {
			seen = append(seen, r.URL.Query().Get("index"))
		}
		if k >= len(idx) {
			if k == len(idx) {
				close(done)
			}
			k++
			mu.Unlock()
			<-stop // nothing more to say: hold the request like a server without news
			return
		}
		// the metadata names this server as the (only) meta node: the client takes its list of
		// meta servers from what it installs
		d := &meta.Data{Index: idx[k], MetaNodes: []meta.NodeInfo{{ID: 1, Addr: r.Host, TCPAddr: r.Host}}}
		k++
		mu.Unlock()
		b, err := d.MarshalBinary()
		if err != nil {
			w.WriteHeader(500)
			return
		}
		w.Write(b)
	}))
	defer srv.Close()
	defer close(stop)
	dir, _ := os.MkdirTemp("", "c07-client-")
	defer os.RemoveAll(dir)
	cfg := meta.NewConfig()
	cfg.Dir = dir
	c := meta.NewClient(cfg)
	c.SetMetaServers([]string{strings.TrimPrefix(srv.URL, "http://")})
	if err := c.Open(); err != nil {
		return "err:open"
	}
	defer c.Close()
	select {
	case <-done:
	case <-time.After(20 * time.Second):
		return "hang"
	}
	mu.Lock()
	defer mu.Unlock()
	return "ok " + strings.Join(seen, ",")
}

// badPayload rewrites a marshalled Command {Type; one extension field} so that the
// extension's payload is three bytes that do not decode as a message.
func badPayload(b []byte) []byte {
	var out []byte
	i := 0
	uvarint := func() (uint64, bool) {
		var v uint64
		for s := uint(0); i < len(b); s += 7 {
			c := b[i]
			i++
			v |= uint64(c&0x7f) << s
			if c&0x80 == 0 {
				return v, true
			}
		}
		return 0, false
	}
	for i < len(b) {
		start := i
		tag, ok := uvarint()
		if !ok {
			return b
		}
		switch tag & 7 {
		case 0:
			if _, ok := uvarint(); !ok {
				return b
			}
			out = append(out, b[start:i]...)
		case 2:
			tagEnd := i
			l, ok := uvarint()
			if !ok || i+int(l) > len(b) {
				return b
			}
			i += int(l)
			if tag>>3 == 1 {
				out = append(out, b[start:i]...)
			} else {
				out = append(out, b[start:tagEnd]...)
				out = append(out, 3, 0x0a, 0x05, 'x')
			}
		default:
			return b
		}
	}
	return out
}

func (Prop) RunImpl(c fw.Case) []string {
	s := &state{m: metah.New(true)}
	out := make([]string, len(c.Ops))
	for i, op := range c.Ops {
		out[i] = s.step(op)
	}
	return out
}

func (Prop) Oracle(c fw.Case, out []string) fw.Verdict {
	for i, op := range c.Ops {
		if i >= len(out) {
			break
		}
		o := out[i]
		if strings.HasPrefix(op, "cpoll ") {
			if !strings.HasPrefix(o, "ok ") {
				return fw.Verdict{OK: false, Why: op + " => " + o, Signature: "client poll " + strings.Fields(o + " ?")[0]}
			}
			prev := uint64(0)
			for _, x := range strings.Split(strings.TrimPrefix(o, "ok "), ",") {
				v, _ := strconv.ParseUint(x, 10, 64)
				if v < prev {
					return fw.Verdict{OK: false, Why: fmt.Sprintf("%s: the client's metadata went back from index %d to %d (indices held: %s)", op, prev, v, o), Signature: "a data node's metadata cache goes back to an older index"}
				}
				prev = v
			}
			continue
		}
		switch {
		case o == "snap LOSSY" || strings.HasPrefix(o, "snap restore-err") || o == "snap err":
			// which value was lost: find the last state-changing op before
			prev := ""
			for j := i - 1; j >= 0; j-- {
				if c.Ops[j] != "dump" && c.Ops[j] != "snap" && c.Ops[j] != "hold" && c.Ops[j] != "release" {
					prev = strings.Fields(c.Ops[j])[0]
					break
				}
			}
			return fw.Verdict{OK: false, Why: fmt.Sprintf("snapshot taken after op %d does not restore to the state that produced it (%s)", i, o), Signature: "snapshot lossy after " + prev}
		case o == "release CHANGED":
			return fw.Verdict{OK: false, Why: fmt.Sprintf("snapshot held since an earlier op was changed by later commands (op %d)", i), Signature: "held snapshot changed"}
		case o == "PANIC":
			return fw.Verdict{OK: false, Why: "request body " + op + " passes validateCommand and panics storeFSM.Apply", Signature: "accepted body panics FSM: " + rawClass(op)}
		case strings.HasPrefix(o, "panic") || strings.HasPrefix(o, "harness-panic"):
			return fw.Verdict{OK: false, Why: op + " => " + o, Signature: "panic " + strings.Fields(op)[0]}
		}
	}
	return fw.Verdict{OK: true}
}

func rawClass(op string) string {
	var t, e int
	f := strings.Fields(op)
	fmt.Sscan(f[1], &t)
	fmt.Sscan(f[2], &e)
	name := meta.VerifCommandTypes()[int32(t)]
	switch {
	case name == "":
		return "unknown type"
	case e == 0:
		return "type without extension"
	case e != t:
		return "foreign extension"
	}
	return "no case for " + name
}

func (Prop) Trivial(c fw.Case, out []string) bool {
	for _, op := range c.Ops {
		if strings.HasPrefix(op, "raw") {
			return false
		}
	}
	sg, snap := false, false
	for i, op := range c.Ops {
		if strings.HasPrefix(op, "createsg") && i < len(out) && out[i] == "ok" {
			sg = true
		}
		if op == "snap" || op == "release" {
			snap = true
		}
	}
	return !(sg && snap)
}

var _ = bytes.Equal
