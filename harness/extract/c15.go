package extract

import (
	"fmt"
	"go/ast"
	"strings"

	"github.com/influxdata/influxdb/coordinator"
)

func init() {
	Register(func(repo, out string) error {
		f := NewFile("C15")
		f.Nat("maxMessageSize", coordinator.MaxMessageSize)
		f.Nat("muxHeader", coordinator.MuxHeader)
		src, err := Parse(repo, "coordinator/service.go")
		if err != nil {
			return err
		}
		// message type constants: the const block whose first name is writeShardRequestMessage (iota + 1)
		vals := map[string]uint64{}
		var names []string
		for _, d := range src.File.Decls {
			gd, ok := d.(*ast.GenDecl)
			if !ok || len(gd.Specs) == 0 {
				continue
			}
			vs0, ok := gd.Specs[0].(*ast.ValueSpec)
			if !ok || len(vs0.Names) == 0 || vs0.Names[0].Name != "writeShardRequestMessage" {
				continue
			}
			if t := src.Text(vs0.Values[0]); t != "iota + 1" {
				return fmt.Errorf("C15: message constants start with %q, expected iota + 1", t)
			}
			for i, sp := range gd.Specs {
				vs := sp.(*ast.ValueSpec)
				if i > 0 && len(vs.Values) != 0 {
					return fmt.Errorf("C15: constant %s has an explicit value", vs.Names[0].Name)
				}
				vals[vs.Names[0].Name] = uint64(i + 1)
				names = append(names, vs.Names[0].Name)
			}
		}
		if len(names) == 0 {
			return fmt.Errorf("C15: message type constants not found")
		}
		f.StrList("messageNames", names)
		fn := src.Func("Service", "handleConn")
		if fn == nil {
			return fmt.Errorf("C15: handleConn not found")
		}
		var inline, ret, cont []uint64
		hasRecover := false
		ast.Inspect(fn, func(n ast.Node) bool {
			if c, ok := n.(*ast.CallExpr); ok {
				if id, ok := c.Fun.(*ast.Ident); ok && id.Name == "recover" {
					hasRecover = true
				}
			}
			return true
		})
		for _, row := range src.SwitchRows(fn, "typ") {
			if row[0] == "default" {
				continue
			}
			v, ok := vals[row[0]]
			if !ok {
				return fmt.Errorf("C15: unknown case label %s", row[0])
			}
			body := row[1]
			switch {
			case strings.Contains(body, "ReadLV(conn)"):
				inline = append(inline, v)
			case strings.HasSuffix(strings.TrimSpace(body), "return"):
				ret = append(ret, v)
			default:
				cont = append(cont, v)
			}
		}
		f.NatList("inlineTypes", inline)
		f.NatList("returnTypes", ret)
		f.NatList("continueTypes", cont)
		f.Bool("handleConnRecovers", hasRecover)
		return f.Write(out)
	})
}
