import Driver.Util
import InfluxVerif.Model.Codec.Int
import InfluxVerif.Model.Codec.Bool
import InfluxVerif.Model.Codec.Wal
import InfluxVerif.Model.Codec.Float
namespace Driver.C13
open InfluxVerif.Codec

def natsCsv? (s : String) : Option (List Nat) := allSome ((splitCsv s).map String.toNat?)
def showNats (l : List Nat) : String := joinCsv (l.map toString)
def hexNat? (s : String) : Option (List Nat) := (hexToBytes? s).map (·.map UInt8.toNat)
def natHex (b : List Nat) : String := bytesToHex (b.map UInt8.ofNat)

def bits? (s : String) : Option (List Bool) :=
  if s = "-" then some [] else allSome (s.toList.map fun c => if c = '1' then some true else if c = '0' then some false else none)
def showBits (l : List Bool) : String := if l.isEmpty then "-" else String.ofList (l.map fun b => if b then '1' else '0')

def optBytes : Option Bytes → String
  | some b => s!"ok {natHex b}"
  | none => "err"
def optNats : Option (List Nat) → String
  | some l => s!"ok {showNats l}"
  | none => "err"

def parseFrame (s : String) : Option Frame :=
  match s.splitOn ":" with
  | ty :: len :: v :: _ =>     -- (a fourth part, the hash of the entry written, is for the harness)
    match ty.toNat?, len.toNat?, v.toNat? with
    | some ty, some len, some v => some ⟨ty, (if v = 1 then 0 else 255) :: List.replicate (len - 1) 0⟩
    | _, _, _ => none
  | _ => none

/-- abstract payload validity: the harness marks undecodable payloads with first byte 255 -/
def absValid (ty : Nat) (p : Bytes) : Bool := (ty = 1 || ty = 2 || ty = 3) && p.head? != some 255

def handle (line : String) : String :=
  match splitWs line with
  | ["tenc", xs] => match natsCsv? xs with | some l => optBytes (timeEncode l) | none => "bad-op"
  | ["tdec", h] => match hexNat? h with | some b => optNats (timeDecode b) | none => "bad-op"
  | ["ienc", xs] => match natsCsv? xs with | some l => optBytes (intEncode l) | none => "bad-op"
  | ["idec", h] => match hexNat? h with | some b => optNats (intDecode b) | none => "bad-op"
  | ["benc", bs] => match bits? bs with | some l => s!"ok {natHex (boolEncode l)}" | none => "bad-op"
  | ["bdec", h] => match hexNat? h with
    | some b => (match boolDecode b with | some l => s!"ok {showBits l}" | none => "err")
    | none => "bad-op"
  -- float blocks: values are float64 bit patterns in decimal ("-" = no value)
  | ["fenc", xs] => match (if xs = "-" then some [] else natsCsv? xs) with
    | some l => if l.all (· < M64) then optBytes (Float.encode l) else "bad-op"
    | none => "bad-op"
  | ["fdec", h] => match (if h = "-" then some [] else hexNat? h) with
    | some b => optNats (Float.decode b)
    | none => "bad-op"
  | ["s8s", xs] => match natsCsv? xs with | some l => optNats (s8bEncodeStream l) | none => "bad-op"
  | ["s8a", xs] => match natsCsv? xs with | some l => optNats (s8bEncodeAll l) | none => "bad-op"
  | ["s8d", xs] => match natsCsv? xs with | some l => optNats (some (s8bDecodeAll l)) | none => "bad-op"
  | ["uv", x] => match x.toNat? with | some n => s!"ok {natHex (putUvarint n)}" | none => "bad-op"
  | ["uvd", h] => match hexNat? h with
    | some b => (match uvarint b with | some (v, n, _) => s!"ok {v} {n}" | none => "err")
    | none => "bad-op"
  -- batch encoders (compaction path): same format; the model requires a round trip and
  -- records that the bytes equal the streaming encoder's
  | ["tbatch", _] => "batch rt=true"
  | ["ibatch", _] => "batch rt=true"
  | ["bbatch", _] => "batch rt=true"
  | ["fbatch", _] => "batch rt=true same=true"
  | ["sbatch", _] => "batch rt=true same=true"
  | ["zz", x] => match x.toNat? with | some n => s!"ok {zigzagEnc n}" | none => "bad-op"
  | ["zzd", x] => match x.toNat? with | some n => s!"ok {zigzagDec n}" | none => "bad-op"
  | ["walgrow", p, n] => match p.toNat?, n.toNat? with
    | some p, some n =>
      let (l, c) := growRead (2 ^ 20) (n / (2 ^ 20) + 2) n p 0 0
      s!"ok {l} {c} {if l < n then (if l = 0 then "eof" else "short") else "full"}"
    | _, _ => "bad-op"
  | "wal" :: k :: fs :: _ =>
    match k.toNat?, allSome ((splitCsv fs).map parseFrame) with
    | some k, some frames =>
      let seg := (segmentBytes frames).take k
      let (got, n) := walReplay absValid (seg.length + 1) seg
      s!"ok {got.length} {n}"
    | _, _ => "bad-op"
  | _ => "bad-op"

end Driver.C13
