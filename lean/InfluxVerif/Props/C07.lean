/-
C07 — Acknowledged metadata changes are never lost; replicas converge.
What a model can carry: the state machine (C06), the snapshot image, request validation.
hashicorp/raft's log replication and boltdb are trusted (see DESIGN.md §3, C07).
-/
import InfluxVerif.Props.C06
import InfluxVerif.Model.MetaCodec
import InfluxVerif.Gen.C07

namespace InfluxVerif.Meta

theorem wrap64_id (t : Int) (h : inInt64 t) : wrap64 t = t := by
  unfold wrap64 inInt64 two63 two64 at *
  omega

theorem codecSG_id (g : SG) (h : inInt64 g.start ∧ inInt64 g.stop ∧ (∀ t, g.trunc = some t → inInt64 t)) :
    codecSG g = g := by
  obtain ⟨h1, h2, h3⟩ := h
  unfold codecSG codecTime
  rw [wrap64_id _ h1, wrap64_id _ h2]
  cases ht : g.trunc with
  | none => simp [codecTrunc, ← ht]
  | some t => simp [codecTrunc, wrap64_id t (h3 t ht), ← ht]

/-- **Snapshot fidelity.** A snapshot restores to exactly the value that produced it,
for every metadata value whose instants are int64 nanoseconds (which `CreateShardGroup`
and `TruncateShardGroups` guarantee after the two repairs recorded in known_findings.json). -/
theorem restore_persist (d : Data) (h : wfTimes d) : snapshotRoundtrip d = d := by
  unfold snapshotRoundtrip mapGroups
  have hdbs : d.dbs.map (fun db => { db with rps := db.rps.map fun rp => { rp with groups := rp.groups.map codecSG } }) = d.dbs := by
    conv => rhs; rw [← List.map_id d.dbs]
    apply List.map_congr_left
    intro db hdb
    have hrps : db.rps.map (fun rp => { rp with groups := rp.groups.map codecSG }) = db.rps := by
      conv => rhs; rw [← List.map_id db.rps]
      apply List.map_congr_left
      intro rp hrp
      have hgs : rp.groups.map codecSG = rp.groups := by
        conv => rhs; rw [← List.map_id rp.groups]
        apply List.map_congr_left
        intro g hg
        exact codecSG_id g (h db hdb rp hrp g hg)
      simp [hgs]
    simp [hrps]
  rw [hdbs]

/-- **Snapshot + log tail = whole log.** Restoring a snapshot taken after `l₁` and applying
`l₂` gives what applying `l₁ ++ l₂` gives: log snapshotting loses nothing. -/
theorem snapshot_then_tail (auto : Bool) (d₀ : Data) (l₁ l₂ : Log)
    (h : wfTimes (run auto d₀ l₁)) :
    run auto (snapshotRoundtrip (run auto d₀ l₁)) l₂ = run auto d₀ (l₁ ++ l₂) := by
  rw [restore_persist _ h, run_append]

/-- restored replicas converge with replicas that replayed the whole log -/
theorem restored_replica_converges (auto : Bool) (d₀ : Data) (l₁ l₂ : Log)
    (h : wfTimes (run auto d₀ l₁)) (r₁ r₂ : Data)
    (h₁ : r₁ = run auto (snapshotRoundtrip (run auto d₀ l₁)) l₂) (h₂ : r₂ = run auto d₀ (l₁ ++ l₂)) :
    r₁ = r₂ := by rw [h₁, h₂, snapshot_then_tail auto d₀ l₁ l₂ h]

/-- the two lossy instants, as they were on the pinned tree (kept as documentation of why
`wfTimes` is needed: outside it the image is *not* faithful) -/
theorem wrap64_lossy_below : wrap64 (-9223459200000000000) ≠ -9223459200000000000 := by decide

/-- **No accepted request can stop the replicas from applying their log.** -/
theorem accepted_commands_apply (cases : List String) (tname : Option String) (t ext : Nat) :
    serveRaw cases tname t ext ≠ .panic := by
  unfold serveRaw
  split
  · rename_i hv
    unfold validateRaw at hv
    simp only [Bool.and_eq_true, beq_iff_eq] at hv
    obtain ⟨hc, he⟩ := hv
    unfold applyRaw
    cases tname with
    | none => simp at hc
    | some n =>
      simp only at hc ⊢
      have hm : n ∈ cases := by simpa using hc
      simp [hm, he]
  · simp

/-! ### Tie to the code (Gen/C07.lean: `validateCommand` executed on built bodies) -/

/-- executed: a body without its extension, with a foreign extension, with an unknown type
or with a schema type that has no case in `Apply` is rejected; own extension is accepted -/
theorem gen_validate_behaviour :
    Gen.C07.validateNoExt.all (fun r => r.2 == false) = true ∧
    Gen.C07.validateForeignExt.all (fun r => r.2 == false) = true ∧
    Gen.C07.validateOwnExt.all (fun r => r.2 == true) = true ∧
    Gen.C07.validateUnknownType = false := by decide

/-- every schema type that `Apply` has no case for is known, and is rejected by the above -/
theorem gen_types_without_case : Gen.C07.schemaTypesWithoutCase = ["SetDefaultRetentionPolicyCommand"] := by decide

/-! ### the metadata cache of a data node -/

/-- **The cache never goes back**: whatever a meta server answers with, the index the client
holds afterwards is at least what it held and at least what a newer answer brought. -/
theorem client_cache_monotone (held i : Nat) :
    held ≤ clientInstall held i ∧ (held ≤ i → clientInstall held i = i) := by
  unfold clientInstall
  constructor
  · split <;> omega
  · intro h; split <;> omega

/-- along any sequence of answers the held index is the largest seen so far: the cache
converges to the newest metadata any server has handed out and no acknowledged change
vanishes from it -/
theorem client_cache_is_max (held : Nat) (answers : List Nat) :
    answers.foldl clientInstall held = answers.foldl max held := by
  induction answers generalizing held with
  | nil => rfl
  | cons a as ih =>
    simp only [List.foldl_cons]
    have : clientInstall held a = max held a := by unfold clientInstall; split <;> omega
    rw [this, ih]

/-- the client as it was (it installed every answer) lost ground to a lagging server -/
example : [5].foldl (fun _ i => i) 6 < 6 := by decide

/-! ### Non-vacuity -/

example : wfTimes {} := by intro db hdb; simp at hdb
example : serveRaw ["CreateDatabaseCommand"] (some "CreateDatabaseCommand") 3 3 = .applied := by decide
example : serveRaw ["CreateDatabaseCommand"] (some "CreateDatabaseCommand") 3 0 = .rejected := by decide
example : applyRaw ["CreateDatabaseCommand"] (some "CreateDatabaseCommand") 3 0 = .panic := by decide

end InfluxVerif.Meta
