/-
C16 — authorisation decisions (services/meta/query_authorizer.go, write_authorizer.go,
UserInfo.AuthorizeDatabase) and the data node's credential cache
(services/meta/client.go: Authenticate, updateAuthCache).  Core Lean only.
-/
import InfluxVerif.Model.Meta
namespace InfluxVerif.Auth
open InfluxVerif.Meta

/-- influxql privileges: 0 none, 1 read, 2 write, 3 all -/
abbrev Priv := Nat

/-- one element of `Statement.RequiredPrivileges()` -/
structure ReqPriv where
  admin : Bool
  name : String      -- database; "" = the request's default database
  priv : Priv
  deriving DecidableEq, Repr, Inhabited

structure Stmt where
  kind : String
  createsAdmin : Bool           -- `CREATE USER … WITH ALL PRIVILEGES`
  privs : List ReqPriv
  deriving DecidableEq, Repr, Inhabited

/-- `UserInfo.AuthorizeDatabase` -/
def authorizeDatabase (u : User) (p : Priv) (db : String) : Bool :=
  u.admin || p == 0 ||
    (match u.privs.lookup db with
     | some q => q == p || q == 3
     | none => false)

/-- what one statement demands of a non-admin user -/
def stmtAllowed (u : User) (defaultDB : String) (s : Stmt) : Bool :=
  s.privs.all fun p => !p.admin && authorizeDatabase u p.priv (if p.name = "" then defaultDB else p.name)

/-- `QueryAuthorizer.AuthorizeQuery` -/
def authorizeQuery (userCount : Nat) (u : Option User) (q : List Stmt) (defaultDB : String) : Bool :=
  if userCount = 0 then
    match q with
    | s :: _ => s.createsAdmin
    | [] => false
  else match u with
    | none => false
    | some u => u.admin || q.all (stmtAllowed u defaultDB)

/-- `WriteAuthorizer.AuthorizeWrite` (user looked up by name) -/
def authorizeWrite (users : List User) (name db : String) : Bool :=
  match users.find? (·.name == name) with
  | none => false
  | some u => authorizeDatabase u 2 db

/-! ### credential cache -/

/-- `verify pw hash`: bcrypt's comparison, a parameter of the model -/
abbrev Verify := String → String → Bool

structure CacheEntry where
  user : String
  pw : String        -- stands for the salted hash of the accepted password
  bhash : String     -- the bcrypt hash the password was verified against
  deriving DecidableEq, Repr, Inhabited

structure Pending where
  user : String
  pw : String
  bhash : String
  deriving DecidableEq, Repr, Inhabited

structure Node where
  users : List User := []           -- the node's cached metadata (`cacheData.Users`)
  cache : List CacheEntry := []
  pending : List Pending := []      -- authentications between the hash comparison and the cache store
  deriving Repr, Inhabited

def lookupUser (n : Node) (name : String) : Option User := n.users.find? (·.name == name)

inductive AuthStep
  | begin (user pw : String)        -- reads user + cache, verifies; either answers at once or leaves a pending store
  | finish                           -- the oldest pending authentication stores its cache entry
  | poll (users : List User)        -- new metadata reaches the node: cacheData := …; updateAuthCache()
  deriving Repr

/-- result of the first half of `Authenticate` -/
inductive Answer | accepted | rejected | verified   -- verified = accepted, store still pending
  deriving DecidableEq, Repr

def authBegin (verify : Verify) (n : Node) (user pw : String) : Node × Answer :=
  match lookupUser n user with
  | none => (n, .rejected)
  | some u =>
    -- cache hit: same password AND the entry is bound to the user's current hash
    if n.cache.any (fun e => e.user == user && e.pw == pw && e.bhash == u.hash) then (n, .accepted)
    else if verify pw u.hash then ({ n with pending := n.pending ++ [⟨user, pw, u.hash⟩] }, .verified)
    else (n, .rejected)

def authFinish (n : Node) : Node :=
  match n.pending with
  | [] => n
  | p :: rest => { n with pending := rest, cache := ⟨p.user, p.pw, p.bhash⟩ :: n.cache.filter (·.user != p.user) }

/-- `updateAuthCache`: keep entries of still-present users whose hash is unchanged -/
def authPoll (n : Node) (users : List User) : Node :=
  { n with users := users,
           cache := n.cache.filter fun e => users.any fun u => u.name == e.user && u.hash == e.bhash }

def authStep (verify : Verify) (n : Node) : AuthStep → Node
  | .begin u pw => (authBegin verify n u pw).1
  | .finish => authFinish n
  | .poll us => authPoll n us

/-! ### the HTTP front (`services/httpd/handler.go`: `authenticate`, `serveQuery`, `serveWrite`) -/

/-- how a request carries its credentials: none at all; user name and password (basic
authentication or the `u`/`p` parameters); a signed token naming the user -/
inductive Carrier | none | password | bearer
  deriving DecidableEq, Repr

/-- the `authenticate` middleware with authentication enabled: outer `none` = the request is
turned away (401); `some none` = let through without a user, which happens only while no
administrator exists; `some (some u)` = runs as `u`. A password is checked through the
credential cache (`Client.Authenticate`), a token's user is only looked up. -/
def httpUser (verify : Verify) (n : Node) (c : Carrier) (user pw : String) : Node × Option (Option User) :=
  if !n.users.any (·.admin) then (n, some Option.none)
  else match c with
    | .none => (n, Option.none)
    | .password =>
      if user = "" then (n, Option.none)
      else
        let (n1, a) := authBegin verify n user pw
        let n2 := if a = .verified then authFinish n1 else n1
        if a = .rejected then (n2, Option.none) else (n2, some (lookupUser n2 user))
    | .bearer =>
      if user = "" then (n, Option.none)
      else match lookupUser n user with
        | Option.none => (n, Option.none)
        | some u => (n, some (some u))

/-- status of a query request: 401 turned away, 403 not authorised, 200 executed -/
def httpQuery (verify : Verify) (n : Node) (c : Carrier) (user pw : String) (q : List Stmt) (db : String) : Node × Nat :=
  match httpUser verify n c user pw with
  | (n', Option.none) => (n', 401)
  | (n', some u) => (n', if authorizeQuery n'.users.length u q db then 200 else 403)

/-- status of a write request to `db` (`dbExists`: the node knows the database): 401 turned
away, 404 no such database, 403 no user or no write privilege, 204 written -/
def httpWrite (verify : Verify) (n : Node) (c : Carrier) (user pw : String) (db : String) (dbExists : Bool) : Node × Nat :=
  match httpUser verify n c user pw with
  | (n', Option.none) => (n', 401)
  | (n', some u) =>
    if !dbExists then (n', 404)
    else match u with
      | Option.none => (n', 403)
      | some u => (n', if authorizeWrite n'.users u.name db then 204 else 403)

end InfluxVerif.Auth
