import Driver.Util
import InfluxVerif.Model.HHQueue
namespace Driver.HHD
open InfluxVerif.HH

/-- payload of block `id` with length `len`: decimal digits of the id, then 'x' padding -/
def payload (id len : Nat) : Block :=
  let ds := (toString id).toList.map (·.toNat)
  (ds ++ List.replicate (len - ds.length) 120).take (max len ds.length)

def blockId (b : Block) : Nat :=
  (b.takeWhile (fun c => 48 ≤ c && c ≤ 57)).foldl (fun a c => a * 10 + (c - 48)) 0

def showRes : Res → String
  | .ok => "ok" | .notOpen => "notopen" | .full => "full" | .segmentFull => "segfull" | .eof => "eof"
  | .block b => s!"block {blockId b} {b.length}"
  | .bool b => if b then "true" else "false"

def init (maxSeg maxSize : Nat) : Q :=
  { segs := [newSeg 1 maxSeg], nextID := 2, maxSegSize := maxSeg, maxSize := maxSize, closedSegs := [] }

def step (q : Q) (line : String) : Q × String :=
  -- `dcurrent`/`dadvance`/`dempty` (the final drain) are `current`/`advance`/`empty`
  let toks := match splitWs line with
    | t :: rest => (if t.startsWith "d" then (t.drop 1).toString else t) :: rest
    | [] => []
  match toks with
  | ["reset", a, b] => match a.toNat?, b.toNat? with
    | some a, some b => (init a b, "ok")
    | _, _ => (q, "bad-op")
  | ["reset", a, b, _] => match a.toNat?, b.toNat? with   -- a third word says how blocks look (processor cases)
    | some a, some b => (init a b, "ok")
    | _, _ => (q, "bad-op")
  | ["reset"] => (init 1024 100000, "ok")
  | ["append", id, len, buf] => match id.toNat?, len.toNat? with
    | some id, some len =>
      let (q', r) := q.append (payload id len) (buf = "1")
      (q', showRes r)
    | _, _ => (q, "bad-op")
  | ["psend", ok] =>
    -- one SendWrite round of the node processor (ok = 0: the shard writer fails, retryable)
    let (q', sent) := sendWrite q [] (ok != "0")
    (q', match q.current, sent with
      | .block b, some _ => s!"sent {blockId b} {b.length}"
      | .block _, none => "fail"
      | .eof, _ => "eof"
      | r, _ => showRes r)
  | ["psendmid", id, len] => match id.toNat?, len.toNat? with
    -- a SendWrite round with an append landing between its look at the head and its reaction
    | some id, some len =>
      match q.current with
      | .eof =>
        let r := (q.append (payload id len) false).2
        ((sendWrite q [(payload id len, false)] true).1, s!"eof mid={showRes r}")
      | .block b => ((sendWrite q [] true).1, s!"sent {blockId b} {b.length} mid=none")
      | r => (q, showRes r)
    | _, _ => (q, "bad-op")
  | ["current"] => (q, showRes q.current)
  | ["advance"] => let (q', r) := q.advance; (q', showRes r)
  | ["empty"] => (q, if q.empty then "true" else "false")
  | ["setmax", n] => match n.toNat? with
    | some n => if q.segs.isEmpty then (q, "notopen") else (q.setMaxSegmentSize n, "ok")
    | none => (q, "bad-op")
  | ["age", i] => match i.toNat? with
    | some i =>
      if i < q.segs.length then
        ({ q with segs := q.segs.mapIdx fun j s => if j = i then { s with old := true } else s }, "ok")
      else (q, "noseg")
    | none => (q, "bad-op")
  | ["purge"] => (Q.purge (q.segs.length + 1) q, "ok")
  | ["crash", "torn", id, len, k] => match id.toNat?, len.toNat?, k.toNat? with
    | some id, some len, some k =>
      let q1 := q.crashTorn (payload id len) (min k (16 + len - 1))
      (q1.setMaxSegmentSize q.maxSegSize, "ok")
    | _, _, _ => (q, "bad-op")
  | ["crash"] =>
    -- a crash image taken now, restarted; the segment size limit is configuration and is set again
    let q1 := q.crash
    (q1.setMaxSegmentSize q.maxSegSize, "ok")
  | ["close"] => (q.close, "ok")
  | ["open"] => if q.segs.isEmpty then (q.open_, "ok") else (q, "already-open")
  | ["usage"] => (q, s!"usage {q.diskUsage} segs {joinCsv (q.segs.map fun s => toString s.id)}")
  | _ => (q, "bad-op")

end Driver.HHD
