package c02

import (
	"fmt"
	"strings"

	"verifharness/fw"
)

// C14 — the series index always matches the data, for both index types.  Histories of series
// creation, drops (by tag predicate, by measurement, whole-range deletes) and re-creation,
// index compactions (log file into index files, levels), series-file compactions, snapshots
// and reopen, run on the in-memory index, the disk-based index and the disk-based index with a
// tiny log file (so that it compacts every few writes); after every step the listings —
// measurements (all / by name set), series (all / under tag predicates = != =~ !~ and absent
// tags), tag keys, tag values, cardinality — are compared with the specification, which is the
// same for every index type.
type C14 struct{}

func (C14) ID() string     { return "C14" }
func (C14) Model() string  { return "shard" }
func (C14) Parallel() int  { return 8 }
func (C14) Stateful() bool { return true }
func (C14) KeepOp(i int, op string) bool {
	// (a history is never cut down to one that asks for listings while the other shard of
	// the database still exists: with the in-memory index they are database-wide)
	return i == 0 || op == "sidedel"
}
func (C14) RunImpl(c fw.Case) []string { return RunOps(c.Ops) }
func (C14) Oracle(c fw.Case, out []string) fw.Verdict {
	return Prop{}.Oracle(c, out)
}
func (C14) Trivial(c fw.Case, out []string) bool {
	for _, op := range c.Ops {
		if strings.HasPrefix(op, "drop") || strings.HasPrefix(op, "del") {
			return false
		}
	}
	return true
}
func (C14) Describe(cfg *fw.Config) {
	cfg.Rule = "seeded histories on one shard under three index configurations (inmem, tsi1, tsi1 with a 256-byte log file): writes creating up to 3 measurements x 12 tag sets (host in a,b,c or absent; region in x,y or absent), drops of series by tag predicate, measurement drops, whole-range deletes, re-creation of dropped series, forced index compactions, series-file compactions, cache snapshots, reopen; after every mutating step a battery of listings: measurements (all and by name set), series (all and under = != =~ !~ predicates incl. the empty value), tag keys, tag values of both keys, cardinality, and reads of dropped and surviving series; non-trivial = at least one drop; distinct = distinct op list"
}

var c14Hosts = []string{"", "a", "b", "c"}
var c14Regions = []string{"", "x", "y"}

func c14Tags(r *fw.Rand) string {
	h, g := c14Hosts[r.Intn(4)], c14Regions[r.Intn(3)]
	var kv []string
	if h != "" {
		kv = append(kv, "host="+h)
	}
	if g != "" {
		kv = append(kv, "region="+g)
	}
	if len(kv) == 0 {
		return "-"
	}
	return strings.Join(kv, ",")
}

func c14Pred(r *fw.Rand) string {
	key := []string{"host", "region"}[r.Intn(2)]
	vals := map[string][]string{"host": {"a", "b", "c"}, "region": {"x", "y"}}[key]
	switch r.Intn(8) {
	case 6:
		// a regular expression that also matches the empty value, i.e. the series without the tag
		return key + " nin " + vals[r.Intn(len(vals))] + ","
	case 7:
		return key + " in " + vals[r.Intn(len(vals))] + ","
	case 0:
		return key + " eq " + vals[r.Intn(len(vals))]
	case 1:
		return key + " ne " + vals[r.Intn(len(vals))]
	case 2:
		return key + " eq -"
	case 3:
		return key + " ne -"
	case 4:
		return key + " in " + vals[0] + "," + vals[len(vals)-1]
	default:
		return key + " nin " + vals[r.Intn(len(vals))] + ",zz"
	}
}

func c14Case(r *fw.Rand, index string) fw.Case {
	ops := []string{"reset " + index}
	// most of a history happens in one measurement: repeated drops and re-creations there
	focus := c10Meas[r.Intn(3)]
	last := focus
	gen := 0
	pm := func() string {
		last = c10Meas[r.Intn(3)]
		if r.Intn(5) < 3 {
			last = focus
		}
		return last
	}
	batch := func() string {
		n := 1 + r.Intn(8)
		var pts []string
		for i := 0; i < n; i++ {
			m := c10Meas[r.Intn(3)]
			if r.Intn(2) == 0 {
				m = focus
			}
			pts = append(pts, fmt.Sprintf("%s|%s|%d|n=i%d", m, c14Tags(r), c10Base+int64(r.Intn(20))*1000, r.Intn(100)))
		}
		return strings.Join(pts, ";")
	}
	observe := func() {
		ops = append(ops, "meas", "series", "card", "measin m0,m2")
		m := last // the measurement the step before touched
		ops = append(ops, "tagkeys "+m, "tagvals "+m+" host", "tagvals "+m+" region")
		ops = append(ops, "seriesby "+m+" "+c14Pred(r), "seriesby "+c10Meas[r.Intn(3)]+" "+c14Pred(r))
		ops = append(ops, fmt.Sprintf("read %s %s n %d %d asc", c10Meas[r.Intn(3)], c14Tags(r), int64(-9223372036854775806), int64(9223372036854775806)))
	}
	for i := 0; i < 1+r.Intn(3); i++ {
		ops = append(ops, "w "+batch())
	}
	observe()
	steps := 5 + r.Intn(12)
	for i := 0; i < steps; i++ {
		switch r.Intn(14) {
		case 13:
			// another shard of the database holds k series of the measurement alone and is
			// removed as a whole; k new series are written here before the next listing
			m := pm()
			k := 1 + r.Intn(3)
			gen++
			// (the in-memory index is one per database: while the other shard exists only the
			// per-shard listings are asked for, and the series written here afterwards are
			// the ones the other shard held, so that every tag value is in use here again)
			var side, fresh []string
			for j := 0; j < k; j++ {
				side = append(side, fmt.Sprintf("%s|host=a,region=g%d_%d|%d|n=i1", m, gen, j, c10Base))
				fresh = append(fresh, fmt.Sprintf("%s|host=a,region=g%d_%d|%d|n=i%d", m, gen, j, c10Base+int64(r.Intn(20))*1000, r.Intn(100)))
			}
			ops = append(ops, "w "+fmt.Sprintf("%s|host=a|%d|n=i%d", m, c10Base+int64(r.Intn(20))*1000, r.Intn(100)))
			ops = append(ops, "sidew "+strings.Join(side, ";"))
			ops = append(ops, "sidelist "+m)
			ops = append(ops, "sidedel")
			if r.Intn(2) == 0 {
				// nothing of the other shard's series may stay behind in the listings
				ops = append(ops, "tagvals "+m+" region", "tagkeys "+m, "meas")
			}
			ops = append(ops, "w "+strings.Join(fresh, ";"))
			ops = append(ops, "series", "seriesby "+m+" host ne c", "seriesby "+m+" region ne x", "seriesby "+m+" host nin c,zz", "tagvals "+m+" region")
			observe()
		case 12:
			// a series loses all its points in this shard (a delete over every instant the
			// history writes at; with a mirror shard the database keeps the series and its
			// id), is written again, and the index is compacted
			m := pm()
			h := []string{"a", "b", "c"}[r.Intn(3)]
			// (with the log turned into an index file between the steps, the tombstone and the
			// re-creation meet in a level compaction)
			between := r.Intn(2) == 0
			ic := func() {
				if between {
					ops = append(ops, "idxcompact")
				}
			}
			ops = append(ops, fmt.Sprintf("w %s|host=%s|%d|n=i%d", m, h, c10Base+int64(r.Intn(20))*1000, r.Intn(100)))
			ic()
			ops = append(ops, fmt.Sprintf("del %s %s %d %d", m, []string{"-", "host=" + h}[r.Intn(2)], c10Base, c10Base+40000))
			ic()
			ops = append(ops, fmt.Sprintf("w %s|host=%s|%d|n=i%d", m, h, c10Base+int64(r.Intn(20))*1000, r.Intn(100)))
			ic()
			if between {
				ops = append(ops, fmt.Sprintf("w %s|host=%s,region=x|%d|n=i%d", m, []string{"a", "b", "c"}[r.Intn(3)], c10Base+int64(r.Intn(20))*1000, r.Intn(100)))
			}
			if between || r.Intn(3) > 0 {
				ops = append(ops, "idxcompact")
			}
			ops = append(ops, "seriesby "+m+" host eq "+h, "seriesby "+m+" host in "+h+",zz", "seriesby "+m+" host nin "+h+",zz")
			if r.Intn(2) == 0 {
				ops = append(ops, "reopen", "seriesby "+m+" host eq "+h)
			}
			observe()
		case 0, 1, 2:
			ops = append(ops, "w "+batch())
		case 3, 4:
			ops = append(ops, "drops "+pm()+" "+c14Pred(r))
			observe()
		case 5:
			ops = append(ops, "drops "+pm()+" - - -")
			observe()
		case 6:
			ops = append(ops, "dropm "+pm())
			observe()
		case 7:
			rng := "-inf +inf"
			if r.Intn(2) == 0 {
				rng = fmt.Sprintf("%d %d", c10Base, c10Base+40000) // every instant the history writes at
			}
			ops = append(ops, fmt.Sprintf("del %s %s %s", pm(), []string{"-", "host=a", "region=x"}[r.Intn(3)], rng))
			observe()
		case 8:
			ops = append(ops, "idxcompact")
			observe()
		case 9:
			ops = append(ops, "sfcompact")
			observe()
		case 10:
			ops = append(ops, []string{"snap", "snap", "snap", "snapfail"}[r.Intn(4)])
		default:
			ops = append(ops, "reopen")
			observe()
		}
	}
	ops = append(ops, "idxcompact", "reopen")
	observe()
	return fw.Case{Ops: ops, Tags: []string{"index", index}}
}

func (C14) Generate(r *fw.Rand, tier string) []fw.Case {
	n := 90
	if tier == "thorough" {
		n = 3000
	}
	var cases []fw.Case
	for i := 0; i < n; i++ {
		cases = append(cases, c14Case(r.Fork(), []string{"inmem", "tsi1", "tsi1c", "inmem", "tsi1+2", "tsi1c+2"}[i%6]))
	}
	return cases
}
