/-
C18 — Backup, restore and shard copy reproduce the shard exactly.
A backup archive is the shard's file set: per file and key the values of its blocks and the
file's tombstone ranges (Model/Compact.lean's `KeyData`).  Restoring hands the same files to a
fresh store, so in the specification a full backup + restore is the identity and the restored
shard reads like the source *provided the tombstones travel with their files* — which is what
the repaired restore path does and the correspondence (harness/props/c02/c18.go) checks.
The theorems here are about the two places where the archive is not simply the file set:
importing the files as new generations on top of existing ones, and the time-bounded export,
which copies whole blocks.
-/
import InfluxVerif.Props.C09
import InfluxVerif.Gen.C18
import InfluxVerif.Model.Meta

namespace InfluxVerif.Compact
open InfluxVerif.Values

/-- **Import as new files**: the archive's files, added after (as newer generations than) the
files the destination already has, read as the archive where the archive has a value and as
the destination's own files elsewhere; into an empty destination they read as the source. -/
theorem import_overlays {α} (existing imported : List (KeyData α)) (t : Int) :
    readFiles (existing ++ imported) t = (readFiles imported t <|> readFiles existing t) :=
  readFiles_append existing imported t

theorem import_into_empty {α} (imported : List (KeyData α)) (t : Int) :
    readFiles ([] ++ imported) t = readFiles imported t := by simp

/-- **Dropping the tombstones resurrects deleted points** (the pinned tree's restore skipped
tombstone files): a concrete file whose point at t=5 is tombstoned reads nothing at 5, the
same file without its tombstones reads the deleted value. -/
theorem dropping_tombstones_resurrects :
    readFiles [({ vals := [(1, 'a'), (5, 'b')], tombs := [(4, 6)] } : KeyData Char)] 5 = none ∧
    readFiles [({ vals := [(1, 'a'), (5, 'b')], tombs := [] } : KeyData Char)] 5 = some 'b' := by
  constructor <;> decide

/-! ### time-bounded export: whole blocks that touch the window -/

/-- a block's index entry: first and last timestamp -/
def blockMin {α} (b : List (TV α)) : Int := (b.head?.map (·.1)).getD 0
def blockMax {α} (b : List (TV α)) : Int := (b.getLast?.map (·.1)).getD 0

/-- `filterFileToBackup`'s test on a block's index entry -/
def exportKeeps {α} (lo hi : Int) (b : List (TV α)) : Bool :=
  (blockMin b ≥ lo && blockMin b ≤ hi) || (blockMax b ≥ lo && blockMax b ≤ hi) || (blockMin b ≤ lo && blockMax b ≥ hi)

theorem sorted_bounds {α} (b : List (TV α)) (hs : Sorted b) :
    ∀ p ∈ b, blockMin b ≤ p.1 ∧ p.1 ≤ blockMax b := by
  induction b with
  | nil => intro p hp; simp at hp
  | cons x xs ih =>
    cases xs with
    | nil =>
      intro p hp
      simp only [List.mem_singleton] at hp
      subst hp
      simp [blockMin, blockMax]
    | cons y ys =>
      have hmin : blockMin (x :: y :: ys) = x.1 := by simp [blockMin]
      have hmax : blockMax (x :: y :: ys) = blockMax (y :: ys) := by simp [blockMax, List.getLast?_cons_cons]
      have hymin : blockMin (y :: ys) = y.1 := by simp [blockMin]
      have hxy : x.1 < y.1 := hs.1
      have ih' := ih (sorted_tail hs)
      have hy := ih' y (by simp)
      intro p hp
      rw [hmin, hmax]
      simp only [List.mem_cons] at hp
      rcases hp with rfl | hp
      · constructor
        · omega
        · have := hy.2; omega
      · have hp' := ih' p (by simp only [List.mem_cons]; exact hp)
        rw [hymin] at hp'
        constructor <;> omega

theorem find_flatten_filter {β} (p : β → Bool) (q : List β → Bool) (bs : List (List β))
    (h : ∀ b ∈ bs, q b = false → ∀ x ∈ b, p x = false) :
    (bs.filter q).flatten.find? p = bs.flatten.find? p := by
  induction bs with
  | nil => rfl
  | cons b rest ih =>
    have ih' := ih (fun c hc => h c (by simp [hc]))
    rw [List.filter_cons]
    split
    · simp only [List.flatten_cons, List.find?_append, ih']
    · rename_i hq
      have hq' : q b = false := by simpa using hq
      have hnone : b.find? p = none := by
        rw [List.find?_eq_none]
        intro x hx
        simp [h b (by simp) hq' x hx]
      simp only [List.flatten_cons, List.find?_append, hnone, Option.none_or, ih']

/-- **A time-bounded export keeps every point of the window**: whole blocks are copied when
their index entry touches `[lo, hi]`; for every timestamp inside the window the exported
blocks read exactly like the source's blocks. (Points outside the window may come along.) -/
theorem export_keeps_window {α} (blocks : List (List (TV α))) (hs : ∀ b ∈ blocks, Sorted b)
    (lo hi t : Int) (ht : lo ≤ t ∧ t ≤ hi) :
    lookup ((blocks.filter (exportKeeps lo hi)).flatten) t = lookup blocks.flatten t := by
  unfold lookup
  rw [find_flatten_filter]
  intro b hb hq x hx
  obtain ⟨h1, h2⟩ := sorted_bounds b (hs b hb) x hx
  unfold exportKeeps at hq
  simp only [Bool.or_eq_false_iff, Bool.and_eq_false_iff, decide_eq_false_iff_not] at hq
  obtain ⟨⟨ha, hb'⟩, hc⟩ := hq
  cases hxt : (x.1 == t)
  · rfl
  · have hxt' : x.1 = t := by simpa using hxt
    omega

set_option linter.unusedSimpArgs false

/-! ### time-bounded export: which files are streamed, and how often

`timeStampFilterTarFile` decides per TSM file from the file's time range `[mn, mx]`: a file
that sticks out of the window is rewritten block by block (`filterFileToBackup`), a file wholly
inside the window is streamed as it is.  The archive must name each file at most once — Restore
renames every member to its final name and fails on the second copy — and must name every file
that touches the window. -/

/-- the "needs filtering" test and the "stream as it is" test are **the source's own**:
`Gen/C18.lean` is regenerated on every run from the two `if` conditions of
`timeStampFilterTarFile` (harness/extract/c18.go), so the theorems below are re-proved about
what the code says now. -/
theorem gen_translated : Gen.C18.translated = true := rfl

abbrev fileFiltered := Gen.C18.fileFiltered
abbrev filePlain := Gen.C18.filePlain

/-- the test of the pinned tree -/
def fileFilteredOld (lo hi mn mx : Int) : Bool :=
  (mn ≥ lo && mn ≤ hi && mx > hi) || (mx ≥ lo && mx ≤ hi && mn < lo) || (mn ≤ lo && mx ≥ hi)

/-- how many archive members carry the file's name -/
def fileCopies (lo hi mn mx : Int) : Nat :=
  (if fileFiltered lo hi mn mx then 1 else 0) + (if filePlain lo hi mn mx then 1 else 0)

/-- **No file is streamed twice**, whatever its range and the window. -/
theorem export_file_at_most_once (lo hi mn mx : Int) : fileCopies lo hi mn mx ≤ 1 := by
  unfold fileCopies
  by_cases hA : fileFiltered lo hi mn mx = true <;> by_cases hB : filePlain lo hi mn mx = true <;>
    simp only [hA, hB, if_true, if_false, Bool.false_eq_true] <;>
    simp only [fileFiltered, filePlain, Gen.C18.fileFiltered, Gen.C18.filePlain, Bool.or_eq_true, Bool.not_eq_true', Bool.not_eq_eq_eq_not, Bool.not_true, decide_eq_false_iff_not, Bool.and_eq_true, decide_eq_true_eq] at hA hB <;> omega

/-- **Every file that touches the window is streamed exactly once** (for a well-formed file
range and window). -/
theorem export_file_exactly_once (lo hi mn mx : Int) (_hf : mn ≤ mx) (_hw : lo ≤ hi)
    (touch : mn ≤ hi ∧ lo ≤ mx) : fileCopies lo hi mn mx = 1 := by
  unfold fileCopies
  by_cases hA : fileFiltered lo hi mn mx = true <;> by_cases hB : filePlain lo hi mn mx = true <;>
    simp only [hA, hB, if_true, if_false, Bool.false_eq_true] <;>
    simp only [fileFiltered, filePlain, Gen.C18.fileFiltered, Gen.C18.filePlain, Bool.or_eq_true, Bool.not_eq_true', Bool.not_eq_eq_eq_not, Bool.not_true, decide_eq_false_iff_not, Bool.and_eq_true, decide_eq_true_eq] at hA hB <;> omega

/-- a file that does not touch the window is left out -/
theorem export_file_outside (lo hi mn mx : Int) (hf : mn ≤ mx) (hw : lo ≤ hi)
    (out : hi < mn ∨ mx < lo) : fileCopies lo hi mn mx = 0 := by
  unfold fileCopies
  by_cases hA : fileFiltered lo hi mn mx = true <;> by_cases hB : filePlain lo hi mn mx = true <;>
    simp only [hA, hB, if_true, if_false, Bool.false_eq_true] <;>
    simp only [fileFiltered, filePlain, Gen.C18.fileFiltered, Gen.C18.filePlain, Bool.or_eq_true, Bool.not_eq_true', Bool.not_eq_eq_eq_not, Bool.not_true, decide_eq_false_iff_not, Bool.and_eq_true, decide_eq_true_eq] at hA hB <;> omega

/-- **The pinned tree's test streamed a file twice** exactly when its range equals the window:
the witness the correspondence found (replays/corpus/C18-export-exact-range-twice.json). -/
theorem old_export_streams_twice :
    (if fileFilteredOld 1000 5000 1000 5000 then 1 else 0) + (if filePlain 1000 5000 1000 5000 then 1 else 0) = 2 := by
  decide

theorem old_export_twice_iff (lo hi mn mx : Int) :
    (fileFilteredOld lo hi mn mx = true ∧ filePlain lo hi mn mx = true) ↔ (mn = lo ∧ mx = hi) := by
  unfold fileFilteredOld
  simp only [filePlain, Gen.C18.filePlain, Bool.or_eq_true, Bool.and_eq_true, decide_eq_true_eq]
  constructor
  · intro h; omega
  · intro h; omega

/-! ### Non-vacuity -/

example : ([[(1, 'a'), (3, 'b')], [(5, 'c'), (7, 'd')], [(9, 'e')]] : List (List (TV Char))).filter (exportKeeps 4 6)
    = [[(5, 'c'), (7, 'd')]] := by decide

example : fileCopies 1000 5000 1000 5000 = 1 ∧ fileCopies 1000 5000 0 9000 = 1 ∧ fileCopies 1000 5000 2000 3000 = 1
    ∧ fileCopies 1000 5000 6000 7000 = 0 := by decide

end InfluxVerif.Compact

/-! ### the metadata step of a shard copy: the destination becomes an owner, nobody stops being one -/

namespace InfluxVerif.Meta

theorem insertOwner_go_mem (node x : Nat) (os : List Nat) :
    x ∈ insertOwner.go node os ↔ x = node ∨ x ∈ os := by
  induction os with
  | nil => simp [insertOwner.go]
  | cons o os ih =>
    unfold insertOwner.go
    split
    · simp
    · simp only [List.mem_cons, ih]
      constructor
      · rintro (h | h | h)
        · exact Or.inr (Or.inl h)
        · exact Or.inl h
        · exact Or.inr (Or.inr h)
      · rintro (h | h | h)
        · exact Or.inr (Or.inl h)
        · exact Or.inl h
        · exact Or.inr (Or.inr h)

/-- **After `CopyShardOwner` the owners are exactly the old owners and the destination**: for
every owner list (sorted or not) and every node id, lower or higher than the present ones. -/
theorem copy_owner_adds_only (node x : Nat) (owners : List Nat) :
    x ∈ insertOwner node owners ↔ x = node ∨ x ∈ owners := by
  unfold insertOwner
  split
  · rename_i h
    have hn : node ∈ owners := by simpa using h
    constructor
    · exact Or.inr
    · rintro (h | h)
      · exact h ▸ hn
      · exact h
  · exact insertOwner_go_mem node x owners

theorem insertOwner_go_length (node : Nat) (os : List Nat) :
    (insertOwner.go node os).length = os.length + 1 := by
  induction os with
  | nil => simp [insertOwner.go]
  | cons o os ih =>
    unfold insertOwner.go
    split <;> simp [ih]

/-- no owner is counted twice or dropped: the list grows by one exactly when the node was not
an owner -/
theorem copy_owner_length (node : Nat) (owners : List Nat) :
    (insertOwner node owners).length = if owners.contains node then owners.length else owners.length + 1 := by
  unfold insertOwner
  split
  · rfl
  · exact insertOwner_go_length node owners

example : insertOwner 1 [2] = [1, 2] ∧ insertOwner 3 [2, 5] = [2, 3, 5] ∧ insertOwner 9 [2, 5] = [2, 5, 9] ∧ insertOwner 5 [2, 5] = [2, 5] := by
  decide

end InfluxVerif.Meta
