/- Boolean block encoding (tsdb/engine/tsm1/bool.go). -/
import InfluxVerif.Model.Codec.Basic
namespace InfluxVerif.Codec

/-- pack up to 8 bits MSB-first, zero padded on the right -/
def packByte (bs : List Bool) : Nat :=
  (List.range 8).foldl (fun acc i => 2 * acc + (if bs.getD i false then 1 else 0)) 0

def packBits : Nat → List Bool → Bytes
  | _, [] => []
  | 0, _ => []
  | fuel + 1, bs => packByte (bs.take 8) :: packBits fuel (bs.drop 8)

def boolEncode (bs : List Bool) : Bytes :=
  -- an empty encoder still flushes one zero byte
  (1 * 16) :: putUvarint bs.length ++ (if bs = [] then [0] else packBits bs.length bs)

def bitAt (b : Bytes) (i : Nat) : Bool :=
  (b.getD (i / 8) 0) / 2 ^ (7 - i % 8) % 2 = 1

def boolDecode (b : Bytes) : Option (List Bool) :=
  match b with
  | [] => some []
  | _ :: rest =>
    match uvarint rest with
    | none => none
    | some (count, _, body) =>
      -- e.n = int(count) (negative when ≥ 2^63), capped by the bits present
      let n := if count ≥ M63 then 0 else min count (body.length * 8)
      some ((List.range n).map (bitAt body))

end InfluxVerif.Codec
