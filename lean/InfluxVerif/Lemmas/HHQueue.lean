/- Helper lemmas for Props/C04.lean -/
import InfluxVerif.Model.HHQueue
import Mathlib.Data.List.Basic

namespace InfluxVerif.HH

def Seg.pend (s : Seg) : List Block := s.blocks.drop s.pos ++ s.buf
def Seg.WF (s : Seg) : Prop := s.pos ≤ s.blocks.length

/-- every segment's offset lies within its blocks; only the tail segment buffers -/
def Q.WF (q : Q) : Prop := (∀ s ∈ q.segs, s.WF) ∧ (∀ s ∈ q.segs.dropLast, s.buf = [])

theorem pending_eq (q : Q) : q.pending = q.segs.flatMap Seg.pend := rfl

theorem flush_pend (s : Seg) (h : s.WF) : s.flush.pend = s.pend ∧ s.flush.WF ∧ s.flush.buf = [] := by
  unfold Seg.flush
  split
  · rename_i hb
    exact ⟨rfl, h, by simpa using hb⟩
  · refine ⟨?_, ?_, rfl⟩
    · simp only [Seg.pend, List.append_nil]
      unfold Seg.WF at h
      rw [List.drop_append_of_le_length h]
    · unfold Seg.WF at *
      simp only [List.length_append]
      omega

theorem updLast_append (f : Seg → Seg) (init : List Seg) (t : Seg) :
    updLast f (init ++ [t]) = init ++ [f t] := by
  induction init with
  | nil => rfl
  | cons s rest ih =>
    cases rest with
    | nil => simp [updLast]
    | cons r rs =>
      simp only [List.cons_append] at ih ⊢
      rw [updLast]
      · rw [ih]
      · simp

theorem segs_split (l : List Seg) (t : Seg) (h : l.getLast? = some t) : l = l.dropLast ++ [t] := by
  have hne : l ≠ [] := by intro e; simp [e] at h
  have := List.dropLast_append_getLast hne
  rw [List.getLast?_eq_some_getLast hne] at h
  simp only [Option.some.injEq] at h
  rw [h] at this
  exact this.symm

theorem flatMap_snoc (init : List Seg) (t : Seg) :
    (init ++ [t]).flatMap Seg.pend = init.flatMap Seg.pend ++ t.pend := by
  simp [List.flatMap_append]

theorem wf_snoc (q : Q) (init : List Seg) (t : Seg) (hs : q.segs = init ++ [t]) :
    q.WF ↔ (∀ s ∈ init, s.WF ∧ s.buf = []) ∧ t.WF := by
  unfold Q.WF
  rw [hs, List.dropLast_concat]
  constructor
  · rintro ⟨h1, h2⟩
    exact ⟨fun s hs => ⟨h1 s (by simp [hs]), h2 s hs⟩, h1 t (by simp)⟩
  · rintro ⟨h1, h2⟩
    refine ⟨?_, fun s hs => (h1 s hs).2⟩
    intro s hs
    simp only [List.mem_append, List.mem_singleton] at hs
    rcases hs with hs | rfl
    · exact (h1 s hs).1
    · exact h2

/-- one segment's `append` -/
theorem seg_append_spec (s : Seg) (b : Block) (buffered : Bool) (h : s.WF) :
    let r := s.append b buffered
    r.1.WF ∧ (r.2 = true → r.1.pend = s.pend ++ [b]) ∧ (r.2 = false → r.1.pend = s.pend ∧ r.1.buf = []) := by
  simp only [Seg.append]
  split
  · obtain ⟨hp, hw, hb⟩ := flush_pend s h
    exact ⟨hw, by simp, fun _ => ⟨hp, hb⟩⟩
  · have hw' : ({ s with buf := s.buf ++ [b] } : Seg).WF := h
    have hp' : ({ s with buf := s.buf ++ [b] } : Seg).pend = s.pend ++ [b] := by
      simp [Seg.pend, List.append_assoc]
    cases buffered with
    | true => simp only [if_true]; exact ⟨hw', fun _ => hp', by simp⟩
    | false =>
      simp only [Bool.false_eq_true, if_false]
      obtain ⟨hp, hw, _⟩ := flush_pend _ hw'
      exact ⟨hw, fun _ => by rw [hp, hp'], by simp⟩

end InfluxVerif.HH
