/-
C19 — Concurrent operation never corrupts state or loses writes  (partial).
What a theorem can carry here is the logic of the interleavings, not the Go runtime: for the
engine's writer / snapshotter / compactor / reader, modelled as atomic steps at the granularity
of the code's critical sections (Model/Sched.lean), a read that samples the cache first and the
files afterwards — the order every cursor builder of the code uses, a regenerated fact — sees
every write acknowledged before it began, under EVERY schedule; with the opposite order there
is a schedule that loses an acknowledged write.  Data races, deadlocks and crashes are looked
for by the stress harness built with the race detector (harness/props/c19), which is testing.
-/
import InfluxVerif.Model.Sched
import InfluxVerif.Gen.C19

namespace InfluxVerif.Sched

/-- every acknowledged write is in the cache, in the snapshot being written, or in a file -/
def Inv (s : St) : Prop := ∀ w ∈ s.acked, w ∈ s.cache ∨ w ∈ s.snap ∨ w ∈ s.files

theorem inv_init : Inv {} := by intro w hw; simp at hw

theorem step_inv (s : St) (st : Step) (h : Inv s) : Inv (step s st) := by
  cases st with
  | write w =>
    intro x hx
    have hx' : x = w ∨ x ∈ s.acked := by simpa [step] using hx
    show x ∈ w :: s.cache ∨ x ∈ s.snap ∨ x ∈ s.files
    rcases hx' with rfl | hx'
    · exact Or.inl (by simp)
    · rcases h x hx' with h1 | h1 | h1
      · exact Or.inl (by simp [h1])
      · exact Or.inr (Or.inl h1)
      · exact Or.inr (Or.inr h1)
  | snapBegin =>
    by_cases hemp : s.snap.isEmpty = true
    · have e : step s .snapBegin = { s with snap := s.cache, cache := [] } := by simp [step, hemp]
      rw [e]
      intro x hx
      rcases h x hx with h1 | h1 | h1
      · exact Or.inr (Or.inl h1)
      · have : s.snap = [] := by simpa using hemp
        rw [this] at h1; simp at h1
      · exact Or.inr (Or.inr h1)
    · have e : step s .snapBegin = s := by simp [step, hemp]
      rw [e]; exact h
  | snapInstall =>
    intro x hx
    have hx' : x ∈ s.acked := by simpa [step] using hx
    show x ∈ s.cache ∨ x ∈ s.snap ∨ x ∈ s.snap ++ s.files
    rcases h x hx' with h1 | h1 | h1
    · exact Or.inl h1
    · exact Or.inr (Or.inl h1)
    · exact Or.inr (Or.inr (by simp [h1]))
  | snapClear =>
    by_cases hall : (s.snap.all (s.files.contains ·)) = true
    · have e : step s .snapClear = { s with snap := [] } := by simp only [step, hall, if_true]
      rw [e]
      intro x hx
      rcases h x hx with h1 | h1 | h1
      · exact Or.inl h1
      · right; right
        have := List.all_eq_true.1 hall x h1
        simpa using this
      · exact Or.inr (Or.inr h1)
    · have e : step s .snapClear = s := by simp only [step, hall, if_false]; rfl
      rw [e]; exact h
  | compact => exact h

theorem run_inv (steps : List Step) (s : St) (h : Inv s) : Inv (run s steps) := by
  induction steps generalizing s with
  | nil => exact h
  | cons st rest ih => exact ih _ (step_inv s st h)

theorem step_files_mono (s : St) (st : Step) (w : W) (h : w ∈ s.files) : w ∈ (step s st).files := by
  cases st with
  | write x => exact h
  | snapBegin => by_cases hemp : s.snap.isEmpty = true <;> simp [step, hemp, h]
  | snapInstall => simp [step, h]
  | snapClear =>
    by_cases hall : (s.snap.all (s.files.contains ·)) = true
    · simp only [step, hall, if_true]; exact h
    · simp only [step, hall]; exact h
  | compact => exact h

theorem run_files_mono (steps : List Step) (s : St) (w : W) (h : w ∈ s.files) : w ∈ (run s steps).files := by
  induction steps generalizing s with
  | nil => exact h
  | cons st rest ih => exact ih _ (step_files_mono s st w h)

/-- **A read sees every write acknowledged before it began, under every schedule.**
`before` is any history up to the moment the reader samples the cache (store and snapshot);
`during` is anything that happens until it takes the file references — more writes, a
snapshot beginning, being installed, being cleared, compactions, in any order and number. -/
theorem read_sees_acked (before during : List Step) (w : W) (hw : w ∈ (run {} before).acked) :
    w ∈ readCacheFirst (run {} before) (run (run {} before) during) := by
  have hinv := run_inv before {} inv_init
  unfold readCacheFirst
  simp only [List.mem_append]
  rcases hinv w hw with h | h | h
  · exact Or.inl (Or.inl h)
  · exact Or.inl (Or.inr h)
  · exact Or.inr (run_files_mono during _ w h)

/-- **The order matters**: sampling the files first and the cache afterwards loses an
acknowledged write under the schedule write; snapshot begins; [files sampled]; snapshot
installed; snapshot cleared; [cache sampled]. -/
theorem files_first_loses_a_write :
    let atFiles := run {} [.write 1, .snapBegin]
    let atCache := run atFiles [.snapInstall, .snapClear]
    1 ∈ atFiles.acked ∧ 1 ∉ readFilesFirst atFiles atCache := by decide

/-! ### Tie to the code: facts regenerated from /repo on every run (Gen/C19.lean) -/

/-- all ten cursor builders (five types, iterator and array cursor) sample `Cache.Values`
before they take the `KeyCursor` -/
theorem gen_cache_before_files :
    Gen.C19.cacheBeforeFiles.length = 10 ∧ Gen.C19.cacheBeforeFiles.all (·.2) = true := by decide

/-- `writeSnapshotAndCommit` installs the snapshot's file before it clears the snapshot -/
theorem gen_install_before_clear : Gen.C19.installBeforeClear = true := by decide

/-- `validateSeriesAndFields` compares the type of a field that appeared since validation
(the `recheck = true` of the race model below) -/
theorem gen_type_rechecked : Gen.C19.typeRecheckedAtSecondLook = true := by decide

/-! ### Non-vacuity -/

example : (run {} [.write 1, .snapBegin, .write 2, .snapInstall, .snapClear]).files = [1] := by decide

end InfluxVerif.Sched

namespace InfluxVerif.Sched

/-! ### one type under a race -/

/-- every writer that got past the checks, and every stored value, has the field's type -/
def FInv (s : FSt) : Prop :=
  (∀ w ∈ s.ws, (w.pc = .ready ∨ w.pc = .done) → s.field = some w.ty) ∧
  (∀ t ∈ s.stored, s.field = some t)

theorem wstep_spec (field : Option Ty) (w : Writer) :
    let r := wstep true field w
    -- the field, once set, never changes; it is only ever set to the writer's own type
    (∀ t, field = some t → r.1 = some t) ∧
    (field = none → r.1 = none ∨ r.1 = some w.ty) ∧
    r.2.2.ty = w.ty ∧
    -- a writer is ready/done afterwards only if the field has its type
    ((r.2.2.pc = .ready ∨ r.2.2.pc = .done) → (w.pc = .ready ∨ w.pc = .done) ∨ r.1 = some w.ty) ∧
    -- a value is stored only by a writer that was ready
    (∀ v, r.2.1 = some v → v = w.ty ∧ w.pc = .ready) := by
  cases hpc : w.pc <;> cases field <;> simp [wstep, hpc] <;> try (split <;> simp_all)

/-- **Conflicting concurrent first writes leave the field with one type and only values of
that type, under every schedule and any number of writers** (the repaired code). -/
theorem one_type_under_race (ws : List Writer) (hstart : ∀ w ∈ ws, w.pc = .start) (sched : List Nat) :
    FInv (frun true { ws := ws } sched) := by
  suffices h : ∀ s, FInv s → FInv (frun true s sched) by
    apply h
    refine ⟨?_, by simp⟩
    intro w hw hp
    have := hstart w hw
    rcases hp with hp | hp <;> simp [this] at hp
  induction sched with
  | nil => exact fun s hs => hs
  | cons i rest ih =>
    intro s hs
    apply ih
    unfold fstep
    cases hget : s.ws[i]? with
    | none => simpa [hget] using hs
    | some w =>
      simp only
      have hw : w ∈ s.ws := List.mem_of_getElem? hget
      obtain ⟨hkeep, hnew, hty, hready, hstore⟩ := wstep_spec s.field w
      obtain ⟨h1, h2⟩ := hs
      -- the field after the step, seen from the field before
      have hfield : ∀ t, s.field = some t → (wstep true s.field w).1 = some t := hkeep
      constructor
      · intro x hx hp
        rcases List.mem_or_eq_of_mem_set hx with hx' | rfl
        · exact hfield _ (h1 x hx' hp)
        · rw [hty]
          rcases hready hp with hold | hnewf
          · exact hfield _ (h1 w hw hold)
          · exact hnewf
      · intro t ht
        cases hv : (wstep true s.field w).2.1 with
        | none =>
          rw [hv] at ht
          exact hfield _ (h2 t ht)
        | some v =>
          rw [hv] at ht
          simp only [List.mem_cons] at ht
          obtain ⟨hvty, hwr⟩ := hstore v hv
          rcases ht with rfl | ht
          · rw [hvty]; exact hfield _ (h1 w hw (Or.inl hwr))
          · exact hfield _ (h2 t ht)

/-- **The pinned code's window**: when the second look only tests existence, the schedule
"A validates; B validates, looks again, creates the field; A looks again; A stores" leaves a
value of A's type under a field of B's type. -/
theorem existence_only_check_mixes_types :
    let s := frun false { ws := [{ ty := 1 }, { ty := 2 }] } [0, 1, 1, 1, 0, 0]
    s.field = some 2 ∧ 1 ∈ s.stored := by decide

end InfluxVerif.Sched
