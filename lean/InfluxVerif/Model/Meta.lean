/-
C06/C07/C08/C17 — model of `services/meta.Data` and of `storeFSM.Apply`'s dispatch
(services/meta/data.go, store_fsm.go).  Core Lean only.

Times are `Int` nanoseconds since the Unix epoch (unbounded, as `time.Time` is for this
purpose); the zero `time.Time` of `TruncatedAt` is `none`.  `DeletedAt` is set from the
wall clock in the Go code; only its three consequences are modelled: live / deleted
recently / deleted long enough ago to be pruned (`Del`).
-/
namespace InfluxVerif.Meta

inductive Del | live | recent | old
  deriving DecidableEq, Repr, Inhabited

structure Shard where
  id : Nat
  owners : List Nat
  deriving DecidableEq, Repr, Inhabited

structure SG where
  id : Nat
  start : Int
  stop : Int
  del : Del
  trunc : Option Int
  shards : List Shard
  deriving DecidableEq, Repr, Inhabited

structure Sub where
  name : String
  mode : String
  dests : List String
  deriving DecidableEq, Repr, Inhabited

structure RP where
  name : String
  replicaN : Int
  duration : Int
  sgDuration : Int
  groups : List SG
  subs : List Sub
  deriving DecidableEq, Repr, Inhabited

structure DB where
  name : String
  defaultRP : String
  rps : List RP
  cqs : List (String × String)
  deriving DecidableEq, Repr, Inhabited

structure User where
  name : String
  hash : String
  admin : Bool
  privs : List (String × Nat)     -- database ↦ privilege, kept sorted by database for the dump
  deriving DecidableEq, Repr, Inhabited

structure Node where
  id : Nat
  addr : String
  tcp : String
  deriving DecidableEq, Repr, Inhabited

structure Data where
  term : Nat := 0
  index : Nat := 0
  clusterID : Nat := 0
  metaNodes : List Node := []
  dataNodes : List Node := []
  dbs : List DB := []
  users : List User := []
  maxNode : Nat := 0
  maxSG : Nat := 0
  maxShard : Nat := 0
  deriving DecidableEq, Repr, Inhabited

def hour : Int := 3600000000000
def maxNanoTime : Int := 9223372036854775806      -- models.MaxNanoTime (Gen-checked)
def minNanoTime : Int := -9223372036854775806     -- models.MinNanoTime (Gen-checked)
def zeroTimeOffset : Int := 62135596800000000000  -- ns between year 1 and the Unix epoch
def maxNameLen : Nat := 255

/-! ### small list helpers mirroring the Go loops -/

def insertSorted {α} (lt : α → α → Bool) (x : α) : List α → List α
  | [] => [x]
  | y :: ys => if lt x y then x :: y :: ys else y :: insertSorted lt x ys

/-- stable insertion sort (any correct sort agrees with `sort.Sort` when keys are distinct) -/
def sortBy {α} (lt : α → α → Bool) (l : List α) : List α := l.foldl (fun acc x => insertSorted lt x acc) []

def nodeLt (a b : Node) : Bool := a.id < b.id

/-- `ShardGroupInfos.Less`: by effective end (truncation time if truncated), then start -/
def SG.effEnd (g : SG) : Int := match g.trunc with | some t => t | none => g.stop
def sgLt (a b : SG) : Bool := if a.effEnd = b.effEnd then a.start < b.start else a.effEnd < b.effEnd

def SG.deleted (g : SG) : Bool := g.del != .live
def SG.contains (g : SG) (t : Int) : Bool := g.start ≤ t && t < g.stop

/-! ### lookups -/

def findDB (d : Data) (name : String) : Option DB := d.dbs.find? (·.name == name)
def DB.findRP (db : DB) (name : String) : Option RP := db.rps.find? (·.name == name)

/-- `DatabaseInfo.RetentionPolicy`: the empty name stands for the default policy -/
def DB.findRPd (db : DB) (name : String) : Option RP :=
  if name = "" then (if db.defaultRP = "" then none else db.findRP db.defaultRP) else db.findRP name

def Data.mapDB (d : Data) (name : String) (f : DB → DB) : Data :=
  { d with dbs := d.dbs.map fun db => if db.name == name then f db else db }

/-- first policy with the name only (as `&di.RetentionPolicies[i]` of the first match) -/
def mapFirst {α} (p : α → Bool) (f : α → α) : List α → List α
  | [] => []
  | x :: xs => if p x then f x :: xs else x :: mapFirst p f xs

def Data.mapRP (d : Data) (dbn rpn : String) (f : RP → RP) : Data :=
  { d with dbs := mapFirst (·.name == dbn) (fun db => { db with rps := mapFirst (·.name == rpn) f db.rps }) d.dbs }

/-- `RetentionPolicyInfo.ShardGroupByTimestamp` -/
def RP.groupAt (rp : RP) (t : Int) : Option SG :=
  rp.groups.find? fun g => g.contains t && !g.deleted && (match g.trunc with | some tr => t < tr | none => true)

/-! ### durations -/

def shardGroupDuration (d : Int) : Int :=
  if d ≥ 180 * 24 * hour || d = 0 then 7 * 24 * hour
  else if d ≥ 2 * 24 * hour then 24 * hour
  else hour

def normalisedShardDuration (sgd d : Int) : Int :=
  if sgd = 0 then shardGroupDuration d
  else if sgd < hour then shardGroupDuration hour
  else sgd

/-! ### commands on `Data` — each returns the new value or an error message -/

abbrev R := Except String Data

def errDBNotFound (n : String) : String := "database not found: " ++ n
def errRPNotFound (n : String) : String := "retention policy not found: " ++ n

def createDatabase (d : Data) (name : String) : R :=
  if name = "" then .error "database name required"
  else if name.length > maxNameLen then .error "name too long"
  else if (findDB d name).isSome then .ok d
  else .ok { d with dbs := d.dbs ++ [{ name := name, defaultRP := "", rps := [], cqs := [] }] }

def removeFirst {α} (p : α → Bool) : List α → List α
  | [] => []
  | x :: xs => if p x then xs else x :: removeFirst p xs

def dropDatabase (d : Data) (name : String) : R :=
  if (findDB d name).isSome then
    .ok { d with dbs := removeFirst (·.name == name) d.dbs,
                 users := d.users.map fun u => { u with privs := u.privs.filter (·.1 != name) } }
  else .ok d

def createRetentionPolicy (d : Data) (dbn : String) (name : String) (replicaN dur sgd : Int)
    (makeDefault : Bool) : R :=
  if name = "" then .error "retention policy name required"
  else if name.length > maxNameLen then .error "name too long"
  else if replicaN < 1 then .error "replication factor must be greater than 0"
  else
    let sgd := normalisedShardDuration sgd dur
    if dur > 0 && dur < sgd then .error "retention policy duration must be greater than the shard duration"
    else match findDB d dbn with
    | none => .error (errDBNotFound dbn)
    | some db =>
      match db.findRP name with
      | some rp =>
        if rp.replicaN ≠ replicaN || rp.duration ≠ dur || rp.sgDuration ≠ sgd then
          .error "retention policy already exists"
        else if makeDefault && db.defaultRP ≠ name then
          .error "retention policy conflicts with an existing policy"
        else .ok d
      | none =>
        .ok (Data.mapDBFirst d dbn fun db =>
          { db with rps := db.rps ++ [{ name := name, replicaN := replicaN, duration := dur, sgDuration := sgd, groups := [], subs := [] }],
                    defaultRP := if makeDefault then name else db.defaultRP })
where
  Data.mapDBFirst (d : Data) (dbn : String) (f : DB → DB) : Data :=
    { d with dbs := mapFirst (·.name == dbn) f d.dbs }

def dropRetentionPolicy (d : Data) (dbn name : String) : R :=
  .ok { d with dbs := mapFirst (·.name == dbn) (fun db => { db with rps := removeFirst (·.name == name) db.rps }) d.dbs }

def updateRetentionPolicy (d : Data) (dbn name : String) (newName : Option String)
    (dur : Option Int) (replicaN : Option Int) (sgd : Option Int) (makeDefault : Bool) : R :=
  match findDB d dbn with
  | none => .error (errDBNotFound dbn)
  | some db =>
    match db.findRPd name with
    | none => .error (errRPNotFound name)
    | some rp =>
      if (match newName with | some n => n ≠ name && (db.findRPd n).isSome | none => false) then
        .error "retention policy name already exists"
      else if (match dur with | some x => x < hour && x ≠ 0 | none => false) then
        .error "retention policy duration must be at least 1h0m0s"
      else if (match dur, sgd with
          | some x, some s => x > 0 && x < s
          | some x, none => x > 0 && x < rp.sgDuration
          | none, some s => rp.duration > 0 && rp.duration < s
          | none, none => false) then
        .error "retention policy duration must be greater than the shard duration"
      else
        let rp1 := { rp with name := newName.getD rp.name, duration := dur.getD rp.duration,
                             replicaN := replicaN.getD rp.replicaN }
        let rp2 := match sgd with
          | some s => { rp1 with sgDuration := normalisedShardDuration s rp1.duration }
          | none => rp1
        .ok { d with dbs := mapFirst (·.name == dbn) (fun db =>
                { db with rps := mapFirst (·.name == rp.name) (fun _ => rp2) db.rps,
                          defaultRP := if db.defaultRP ≠ rp2.name && makeDefault then rp2.name else db.defaultRP }) d.dbs }

/-- `Time.Truncate(d)` for `d > 0`: multiples of `d` counted from year 1 -/
def truncateTime (t d : Int) : Int := if d ≤ 0 then t else t - (t + zeroTimeOffset) % d

/-- the clipping loop of `CreateShardGroup` over the stored groups, in order -/
def clip (ts : Int) : List SG → Int × Int → Int × Int
  | [], se => se
  | g :: gs, (s, e) =>
    if g.deleted then clip ts gs (s, e)
    else
      let endI := g.effEnd
      let s' := if ts ≥ endI && endI > s then endI else s
      let e' := if g.start > ts && g.start < e then g.start else e
      clip ts gs (s', e')

/-- owners of shard `i` (0-based) of a new group: `replicaN` consecutive nodes, round robin -/
def ownersFor (nodes : List Node) (nodeIndex replicaN : Nat) : List Nat :=
  (List.range replicaN).map fun j => (nodes.getD ((nodeIndex + j) % nodes.length) default).id

def newShards (nodes : List Node) (firstID : Nat) (startIndex shardN replicaN : Nat) : List Shard :=
  (List.range shardN).map fun i =>
    { id := firstID + i + 1, owners := ownersFor nodes (startIndex + i * replicaN) replicaN }

/-- smallest `shardN ≥ 1` with `shardN * replicaN % n = 0` (terminates within `n` steps) -/
def shardNFor (replicaN n : Nat) : Nat → Nat → Nat
  | 0, s => s
  | fuel + 1, s => if s * replicaN % n = 0 then s else shardNFor replicaN n fuel (s + 1)

def createShardGroup (d : Data) (dbn rpn : String) (ts : Int) : R :=
  if d.dataNodes.isEmpty then .ok d
  else match findDB d dbn with
  | none => .error (errDBNotFound dbn)
  | some db =>
    match db.findRP rpn with
    | none => .error (errRPNotFound rpn)
    | some rp =>
      if (rp.groupAt ts).isSome then .ok d
      else
        let n := d.dataNodes.length
        -- `replicaN` is a Go int: 0 ↦ 1, above the node count ↦ node count, negatives stay
        let replicaI : Int := if rp.replicaN = 0 then 1 else if rp.replicaN > n then n else rp.replicaN
        let replicaN : Nat := replicaI.toNat          -- owners per shard (`for j < replicaN`)
        -- `shardN*replicaN % n != 0` with Go's truncated remainder ⇔ n ∤ shardN·|replicaN|
        let shardN := shardNFor replicaI.natAbs n (n + 1) 1
        let startT := truncateTime ts rp.sgDuration
        let end0 := startT + rp.sgDuration
        let start0 := if startT < minNanoTime then minNanoTime else startT
        let end1 := if end0 > maxNanoTime then maxNanoTime + 1 else end0
        let (s, e) := clip ts rp.groups (start0, end1)
        let sg : SG := { id := d.maxSG + 1, start := s, stop := e, del := .live, trunc := none,
                         shards := newShards d.dataNodes d.maxShard (d.index % n) shardN replicaN }
        let d1 := { d with maxSG := d.maxSG + 1, maxShard := d.maxShard + shardN }
        .ok (d1.mapRP dbn rpn fun rp => { rp with groups := sortBy sgLt (rp.groups ++ [sg]) })

def deleteShardGroup (d : Data) (dbn rpn : String) (id : Nat) (age : Del) : R :=
  match findDB d dbn with
  | none => .error (errDBNotFound dbn)
  | some db =>
    match db.findRP rpn with
    | none => .error (errRPNotFound rpn)
    | some rp =>
      if rp.groups.any (·.id == id) then
        .ok (d.mapRP dbn rpn fun rp => { rp with groups := mapFirst (·.id == id) (fun g => { g with del := age }) rp.groups })
      else .error "shard group not found"

def mapGroups (d : Data) (f : SG → SG) : Data :=
  { d with dbs := d.dbs.map fun db => { db with rps := db.rps.map fun rp => { rp with groups := rp.groups.map f } } }

def truncateShardGroups (d : Data) (t : Int) : Data :=
  mapGroups d fun g =>
    if t ≥ g.stop || g.deleted || (match g.trunc with | some tr => tr < t | none => false) then g
    else if t ≤ g.start then { g with trunc := some g.start } else { g with trunc := some t }

def pruneShardGroups (d : Data) : Data :=
  { d with dbs := d.dbs.map fun db => { db with rps := db.rps.map fun rp =>
      { rp with groups := rp.groups.filter (·.del != .old) } } }

/-- The first group (in database, policy, group order) holding shard `id` is rewritten by
`f`; the search stops there (the Go loops `return`). -/
def updFirstGroup (has : SG → Bool) (f : SG → SG) : List SG → Option (List SG)
  | [] => none
  | g :: gs => if has g then some (f g :: gs) else (updFirstGroup has f gs).map (g :: ·)

def updFirstRP (has : SG → Bool) (f : SG → SG) : List RP → Option (List RP)
  | [] => none
  | r :: rs => match updFirstGroup has f r.groups with
    | some gs => some ({ r with groups := gs } :: rs)
    | none => (updFirstRP has f rs).map (r :: ·)

def updFirstDB (has : SG → Bool) (f : SG → SG) : List DB → Option (List DB)
  | [] => none
  | b :: bs => match updFirstRP has f b.rps with
    | some rs => some ({ b with rps := rs } :: bs)
    | none => (updFirstDB has f bs).map (b :: ·)

def withShardGroup (d : Data) (shardID : Nat) (f : SG → SG) : Data :=
  match updFirstDB (fun g => g.shards.any (·.id == shardID)) f d.dbs with
  | some dbs => { d with dbs := dbs }
  | none => d

def dropShard (d : Data) (id : Nat) (age : Del) : Data :=
  withShardGroup d id fun g =>
    let shards := removeFirst (·.id == id) g.shards
    { g with shards := shards, del := if g.shards.length = 1 then age else g.del }

/-- insert before the first owner with a larger id, else append; no-op if present -/
def insertOwner (node : Nat) (owners : List Nat) : List Nat :=
  if owners.contains node then owners
  else
    let rec go : List Nat → List Nat
      | [] => [node]
      | o :: os => if o > node then node :: o :: os else o :: go os
    go owners

def copyShardOwner (d : Data) (id node : Nat) : Data :=
  -- only a data node can own a shard (it may have been removed while the copy was under way)
  if !d.dataNodes.any (·.id == node) then d else
  withShardGroup d id fun g =>
    { g with shards := mapFirst (·.id == id) (fun s => { s with owners := insertOwner node s.owners }) g.shards }

def removeShardOwner (d : Data) (id node : Nat) (age : Del) : Data :=
  withShardGroup d id fun g =>
    match g.shards.find? (·.id == id) with
    | none => g
    | some s =>
      let owners := removeFirst (· == node) s.owners
      if owners.isEmpty then
        { g with shards := removeFirst (·.id == id) g.shards, del := if g.shards.length = 1 then age else g.del }
      else
        { g with shards := mapFirst (·.id == id) (fun s => { s with owners := owners }) g.shards }

/-! ### nodes -/

def createDataNode (d : Data) (addr tcp : String) : R :=
  if d.dataNodes.any (·.tcp == tcp) then .error "node already exists"
  else
    let existing0 := (d.metaNodes.find? (·.tcp == tcp)).map (·.id) |>.getD 0
    -- the meta node's id is shared only if no other data node holds it
    let existing := if existing0 ≠ 0 && d.dataNodes.any (·.id == existing0) then 0 else existing0
    let (id, maxNode) := if existing = 0 then (d.maxNode + 1, d.maxNode + 1) else (existing, d.maxNode)
    .ok { d with maxNode := maxNode, dataNodes := sortBy nodeLt (d.dataNodes ++ [{ id := id, addr := addr, tcp := tcp }]) }

def createMetaNode (d : Data) (addr tcp : String) : R :=
  if d.metaNodes.any (·.addr == addr) then .error "node already exists"
  else
    let existing0 := (d.dataNodes.find? (·.tcp == tcp)).map (·.id) |>.getD 0
    let existing := if existing0 ≠ 0 && d.metaNodes.any (·.id == existing0) then 0 else existing0
    let (id, maxNode) := if existing = 0 then (d.maxNode + 1, d.maxNode + 1) else (existing, d.maxNode)
    .ok { d with maxNode := maxNode, metaNodes := sortBy nodeLt (d.metaNodes ++ [{ id := id, addr := addr, tcp := tcp }]) }

def setMetaNode (d : Data) (addr tcp : String) : R :=
  match d.metaNodes with
  | [] => createMetaNode d addr tcp
  | [n] => .ok { d with metaNodes := [{ n with addr := addr, tcp := tcp }] }
  | _ => .error "can't set meta node when there are more than 1 in the metastore"

def deleteMetaNode (d : Data) (id : Nat) : R :=
  if id = 0 then .error "node id must be greater than 0"
  else if d.metaNodes.any (·.id == id) then .ok { d with metaNodes := d.metaNodes.filter (·.id != id) }
  else .error "node not found"

def updateDataNode (d : Data) (id : Nat) (addr tcp : String) : R :=
  if d.dataNodes.any (·.id == id) then
    .ok { d with dataNodes := mapFirst (·.id == id) (fun n => { n with addr := addr, tcp := tcp }) d.dataNodes }
  else .error "node not found"

/-- owner frequencies of a group in first-occurrence order: (node, count) -/
def bump (n : Nat) : List (Nat × Nat) → List (Nat × Nat)
  | [] => [(n, 1)]
  | (m, c) :: rest => if m = n then (m, c + 1) :: rest else (m, c) :: bump n rest

/-- `newShardOwner` after the fix: least loaded node, lowest id among ties -/
def pickOwner (freqs : List (Nat × Nat)) : Option Nat :=
  freqs.foldl (fun best (n, c) =>
    match best with
    | none => some (n, c)
    | some (bn, bc) => if c < bc || (c = bc && n < bn) then some (n, c) else some (bn, bc)) none
  |>.map (·.1)

def reassign (orphans : List Nat) (freqs : List (Nat × Nat)) (shards : List Shard) : Except String (List Shard) :=
  match orphans with
  | [] => .ok shards
  | o :: os =>
    match pickOwner freqs with
    | none => .error s!"cannot reassign shard {o} due to lack of data nodes"
    | some n =>
      reassign os (bump n freqs) (mapFirst (·.id == o) (fun s => { s with owners := s.owners ++ [n] }) shards)

def deleteNodeFromGroup (id : Nat) (age : Del) (g : SG) : Except String SG :=
  let freqs := g.shards.foldl (fun f s => s.owners.foldl (fun f o => bump o f) f) []
  let shards := g.shards.map fun s => { s with owners := removeLast id s.owners }
  let orphans := (shards.filter (·.owners.isEmpty)).map (·.id)
  if g.shards.isEmpty || orphans.length = g.shards.length then
    .ok { g with shards := shards, del := age }
  else
    match reassign orphans (freqs.filter (·.1 != id)) shards with
    | .error e => .error e
    | .ok shards' => .ok { g with shards := shards' }
where
  /-- the Go loop remembers the *last* index holding `id` and removes that one -/
  removeLast (id : Nat) (l : List Nat) : List Nat :=
    match l.reverse.idxOf? id with
    | none => l
    | some i => l.eraseIdx (l.length - 1 - i)

def mapGroupsM (d : Data) (f : SG → Except String SG) : Except String Data := do
  let dbs ← d.dbs.mapM fun db => do
    let rps ← db.rps.mapM fun rp => do
      let gs ← rp.groups.mapM f
      pure { rp with groups := gs }
    pure { db with rps := rps }
  pure { d with dbs := dbs }

def deleteDataNode (d : Data) (id : Nat) (age : Del) : R :=
  if d.dataNodes.any (·.id == id) then
    mapGroupsM { d with dataNodes := d.dataNodes.filter (·.id != id) } (deleteNodeFromGroup id age)
  else .error "node not found"

/-! ### users, continuous queries, subscriptions -/

def createUser (d : Data) (name hash : String) (admin : Bool) : R :=
  if name = "" then .error "username required"
  else if d.users.any (·.name == name) then .error "user already exists"
  else .ok { d with users := d.users ++ [{ name := name, hash := hash, admin := admin, privs := [] }] }

def dropUser (d : Data) (name : String) : R :=
  if d.users.any (·.name == name) then .ok { d with users := removeFirst (·.name == name) d.users }
  else .error "user not found"

def updateUser (d : Data) (name hash : String) : R :=
  if d.users.any (·.name == name) then
    .ok { d with users := mapFirst (·.name == name) (fun u => { u with hash := hash }) d.users }
  else .error "user not found"

def setPriv (privs : List (String × Nat)) (db : String) (p : Nat) : List (String × Nat) :=
  insertSorted (fun a b => a.1 < b.1) (db, p) (privs.filter (·.1 != db))

def setPrivilege (d : Data) (name db : String) (p : Nat) : R :=
  if !d.users.any (·.name == name) then .error "user not found"
  else if (findDB d db).isNone then .error (errDBNotFound db)
  else .ok { d with users := mapFirst (·.name == name) (fun u => { u with privs := setPriv u.privs db p }) d.users }

def setAdminPrivilege (d : Data) (name : String) (admin : Bool) : R :=
  if d.users.any (·.name == name) then
    .ok { d with users := mapFirst (·.name == name) (fun u => { u with admin := admin }) d.users }
  else .error "user not found"

def createCQ (d : Data) (dbn name query : String) : R :=
  match findDB d dbn with
  | none => .error (errDBNotFound dbn)
  | some db =>
    match db.cqs.find? (·.1 == name) with
    | some (_, q) => if q.toLower = query.toLower then .ok d else .error "continuous query already exists"
    | none => .ok { d with dbs := mapFirst (·.name == dbn) (fun db => { db with cqs := db.cqs ++ [(name, query)] }) d.dbs }

def dropCQ (d : Data) (dbn name : String) : R :=
  .ok { d with dbs := mapFirst (·.name == dbn) (fun db => { db with cqs := removeFirst (·.1 == name) db.cqs }) d.dbs }

/-- `validURL` is decided by the harness (`net/url` is not modelled) and passed in -/
def createSubscription (d : Data) (dbn rpn name mode : String) (dests : List String) (badURL : Option String) : R :=
  match badURL with
  | some u => .error ("invalid subscription URL: " ++ u)
  | none =>
    match findDB d dbn with
    | none => .error (errDBNotFound dbn)
    | some db =>
      match db.findRP rpn with
      | none => .error (errRPNotFound rpn)
      | some rp =>
        if rp.subs.any (·.name == name) then .error "subscription already exists"
        else .ok (d.mapRP dbn rpn fun rp => { rp with subs := rp.subs ++ [{ name := name, mode := mode, dests := dests }] })

def dropSubscription (d : Data) (dbn rpn name : String) : R :=
  match findDB d dbn with
  | none => .error (errDBNotFound dbn)
  | some db =>
    match db.findRP rpn with
    | none => .error (errRPNotFound rpn)
    | some rp =>
      if rp.subs.any (·.name == name) then
        .ok (d.mapRP dbn rpn fun rp => { rp with subs := removeFirst (·.name == name) rp.subs })
      else .error "subscription not found"

/-! ### the FSM: commands, `Apply` (copy-on-write + stamping) -/

inductive Cmd
  | createDatabase (name : String) (rp : Option (String × Int × Int × Int))
  | dropDatabase (name : String)
  | createRP (db name : String) (replicaN dur sgd : Int) (dflt : Bool)
  | dropRP (db name : String)
  | updateRP (db name : String) (newName : Option String) (dur replicaN sgd : Option Int) (dflt : Bool)
  | createSG (db rp : String) (ts : Int)
  | deleteSG (db rp : String) (id : Nat) (age : Del)
  | truncate (ts : Int)
  | prune
  | dropShard (id : Nat) (age : Del)
  | copyOwner (shard node : Nat)
  | removeOwner (shard node : Nat) (age : Del)
  | createDataNode (addr tcp : String)
  | deleteDataNode (id : Nat) (age : Del)
  | updateDataNode (id : Nat) (addr tcp : String)
  | createMetaNode (addr tcp : String) (rand : Nat)
  | deleteMetaNode (id : Nat)
  | setMetaNode (addr tcp : String) (rand : Nat)
  | createUser (name hash : String) (admin : Bool)
  | dropUser (name : String)
  | updateUser (name hash : String)
  | setPrivilege (user db : String) (p : Nat)
  | setAdmin (user : String) (admin : Bool)
  | createCQ (db name query : String)
  | dropCQ (db name : String)
  | createSub (db rp name mode : String) (dests : List String) (badURL : Option String)
  | dropSub (db rp name : String)
  deriving Repr, Inhabited

def setClusterID (d : Data) (rand : Nat) : Data := if d.clusterID = 0 then { d with clusterID := rand } else d

/-- the command's effect on a clone of the data (`autoCreate` = `RetentionAutoCreate`) -/
def applyCmd (autoCreate : Bool) (d : Data) : Cmd → R
  | .createDatabase name rp => do
    let d1 ← createDatabase d name
    match rp with
    | some (rpn, replicaN, dur, sgd) =>
      match createRetentionPolicy d1 name rpn replicaN dur sgd true with
      | .error "retention policy already exists" => .error "retention policy conflicts with an existing policy"
      | r => r
    | none =>
      if autoCreate then
        let n := d1.dataNodes.length
        let replicaN : Int := if n > 3 then 3 else if n < 1 then 1 else n
        createRetentionPolicy d1 name "autogen" replicaN 0 0 true
      else .ok d1
  | .dropDatabase name => dropDatabase d name
  | .createRP db name replicaN dur sgd dflt => createRetentionPolicy d db name replicaN dur sgd dflt
  | .dropRP db name => dropRetentionPolicy d db name
  | .updateRP db name nn dur rn sgd dflt => updateRetentionPolicy d db name nn dur rn sgd dflt
  | .createSG db rp ts => createShardGroup d db rp ts
  | .deleteSG db rp id age => deleteShardGroup d db rp id age
  | .truncate ts => .ok (truncateShardGroups d ts)
  | .prune => .ok (pruneShardGroups d)
  | .dropShard id age => .ok (dropShard d id age)
  | .copyOwner s n => .ok (copyShardOwner d s n)
  | .removeOwner s n age => .ok (removeShardOwner d s n age)
  | .createDataNode a t => createDataNode d a t
  | .deleteDataNode id age => deleteDataNode d id age
  | .updateDataNode id a t => updateDataNode d id a t
  | .createMetaNode a t rand =>
    -- the FSM ignores CreateMetaNode's error
    .ok (setClusterID (match createMetaNode d a t with | .ok d' => d' | .error _ => d) rand)
  | .deleteMetaNode id => if d.metaNodes.any (·.id == id) then deleteMetaNode d id else .error "node not found"
  | .setMetaNode a t rand =>
    .ok (setClusterID (match setMetaNode d a t with | .ok d' => d' | .error _ => d) rand)
  | .createUser n h a => createUser d n h a
  | .dropUser n => dropUser d n
  | .updateUser n h => updateUser d n h
  | .setPrivilege u db p => setPrivilege d u db p
  | .setAdmin u a => setAdminPrivilege d u a
  | .createCQ db n q => createCQ d db n q
  | .dropCQ db n => dropCQ d db n
  | .createSub db rp n m ds bad => createSubscription d db rp n m ds bad
  | .dropSub db rp n => dropSubscription d db rp n

/-- `storeFSM.Apply`: on success the mutated clone is installed, on error the old value
stays; in both cases Term/Index are stamped. Returns the new data and the error, if any. -/
def step (autoCreate : Bool) (d : Data) (c : Cmd) (term index : Nat) : Data × Option String :=
  match applyCmd autoCreate d c with
  | .ok d' => ({ d' with term := term, index := index }, none)
  | .error e => ({ d with term := term, index := index }, some e)

/-- `Client.pollForUpdates`: the index of the metadata the client holds after a meta server
answered with metadata of index `i` — an answer older than what the client has is ignored -/
def clientInstall (held i : Nat) : Nat := if i < held then held else i

/-- everything except the stamp -/
def Data.payload (d : Data) : Data := { d with term := 0, index := 0 }

end InfluxVerif.Meta
