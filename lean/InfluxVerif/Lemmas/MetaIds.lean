/-
Shard-group and shard ids of the metadata model are unique and never handed out twice
(Props/C06.lean): helper lemmas.
-/
import InfluxVerif.Lemmas.MetaInv
import Mathlib.Data.List.Flatten
import Mathlib.Data.List.Nodup

namespace InfluxVerif.Meta

def rpGroups (db : DB) : List SG := db.rps.flatMap (·.groups)
def allGroups (d : Data) : List SG := d.dbs.flatMap rpGroups
def sids (g : SG) : List Nat := g.shards.map (·.id)

/-- every group and shard id in use is unique and at most the counter it was drawn from -/
def IdsOK (d : Data) : Prop :=
  ((allGroups d).map (·.id)).Nodup ∧ (∀ g ∈ allGroups d, g.id ≤ d.maxSG) ∧
  ((allGroups d).flatMap sids).Nodup ∧ (∀ g ∈ allGroups d, ∀ i ∈ sids g, i ≤ d.maxShard)

/-- a group rewritten in place: same id, no new shard ids -/
def Keeps (g g' : SG) : Prop := g'.id = g.id ∧ (sids g').Sublist (sids g)

theorem Keeps.refl (g : SG) : Keeps g g := ⟨rfl, List.Sublist.refl _⟩

/-- `l'` comes from `l` by dropping some groups and rewriting others in place -/
def Rel (l l' : List SG) : Prop := ∃ m, m.Sublist l ∧ List.Forall₂ Keeps m l'

theorem forall2_refl (l : List SG) : List.Forall₂ Keeps l l := by
  induction l with
  | nil => exact List.Forall₂.nil
  | cons a l ih => exact List.Forall₂.cons (Keeps.refl a) ih

theorem Rel.refl (l : List SG) : Rel l l := ⟨l, List.Sublist.refl _, forall2_refl l⟩

theorem Rel.of_sublist {l l' : List SG} (h : l'.Sublist l) : Rel l l' := ⟨l', h, forall2_refl l'⟩

theorem Rel.of_forall2 {l l' : List SG} (h : List.Forall₂ Keeps l l') : Rel l l' := ⟨l, List.Sublist.refl _, h⟩

theorem forall2_append {R : SG → SG → Prop} {a a' b b' : List SG} (h1 : List.Forall₂ R a a') (h2 : List.Forall₂ R b b') :
    List.Forall₂ R (a ++ b) (a' ++ b') := by
  induction h1 with
  | nil => exact h2
  | cons h _ ih => exact List.Forall₂.cons h ih

theorem Rel.append {a a' b b' : List SG} (h1 : Rel a a') (h2 : Rel b b') : Rel (a ++ b) (a' ++ b') := by
  obtain ⟨m1, s1, f1⟩ := h1
  obtain ⟨m2, s2, f2⟩ := h2
  exact ⟨m1 ++ m2, s1.append s2, forall2_append f1 f2⟩

/-! ### `Rel` through the list operations of the model -/

theorem rel_flatMap_mapFirst {α} (g : α → List SG) (p : α → Bool) (f : α → α) (hf : ∀ x, Rel (g x) (g (f x)))
    (l : List α) : Rel (l.flatMap g) ((mapFirst p f l).flatMap g) := by
  induction l with
  | nil => exact Rel.refl _
  | cons a l ih =>
    unfold mapFirst
    split
    · simp only [List.flatMap_cons]
      exact (hf a).append (Rel.refl _)
    · simp only [List.flatMap_cons]
      exact (Rel.refl _).append ih

theorem rel_flatMap_map {α} (g : α → List SG) (f : α → α) (hf : ∀ x, Rel (g x) (g (f x)))
    (l : List α) : Rel (l.flatMap g) ((l.map f).flatMap g) := by
  induction l with
  | nil => exact Rel.refl _
  | cons a l ih =>
    simp only [List.map_cons, List.flatMap_cons]
    exact (hf a).append ih

theorem rel_flatMap_sublist {α} (g : α → List SG) (l l' : List α) (h : l'.Sublist l) :
    Rel (l.flatMap g) (l'.flatMap g) :=
  Rel.of_sublist (List.Sublist.flatMap h g)

/-! ### the invariant follows a `Rel` step -/

theorem forall2_ids {l l' : List SG} (h : List.Forall₂ Keeps l l') :
    l'.map (·.id) = l.map (·.id) ∧ (l'.flatMap sids).Sublist (l.flatMap sids) := by
  induction h with
  | nil => exact ⟨rfl, List.Sublist.refl _⟩
  | cons hab _ ih =>
    refine ⟨?_, ?_⟩
    · simp only [List.map_cons, hab.1, ih.1]
    · simp only [List.flatMap_cons]
      exact hab.2.append ih.2

theorem mem_of_forall2 {l l' : List SG} (h : List.Forall₂ Keeps l l') (g' : SG) (hg : g' ∈ l') :
    ∃ g ∈ l, Keeps g g' := by
  induction h with
  | nil => simp at hg
  | @cons a b l l' hab _ ih =>
    simp only [List.mem_cons] at hg
    rcases hg with rfl | hg
    · exact ⟨a, by simp, hab⟩
    · obtain ⟨g, hgm, hk⟩ := ih hg
      exact ⟨g, List.mem_cons_of_mem _ hgm, hk⟩

theorem idsOK_of_rel (d d' : Data) (hr : Rel (allGroups d) (allGroups d'))
    (hsg : d.maxSG ≤ d'.maxSG) (hsh : d.maxShard ≤ d'.maxShard) (hok : IdsOK d) : IdsOK d' := by
  obtain ⟨m, hsub, hf⟩ := hr
  obtain ⟨h1, h2, h3, h4⟩ := hok
  obtain ⟨hid, hsh'⟩ := forall2_ids hf
  refine ⟨?_, ?_, ?_, ?_⟩
  · rw [hid]
    exact h1.sublist (hsub.map _)
  · intro g' hg'
    obtain ⟨g, hgm, hk⟩ := mem_of_forall2 hf g' hg'
    have := h2 g (hsub.subset hgm)
    rw [hk.1]; omega
  · exact h3.sublist (hsh'.trans (List.Sublist.flatMap hsub sids))
  · intro g' hg' i hi
    obtain ⟨g, hgm, hk⟩ := mem_of_forall2 hf g' hg'
    have := h4 g (hsub.subset hgm) i (hk.2.subset hi)
    omega

end InfluxVerif.Meta

namespace InfluxVerif.Meta

theorem rel_flatMap_mapFirst_found {α} (g : α → List SG) (p : α → Bool) (f : α → α) (l : List α)
    (hf : ∀ x, l.find? p = some x → Rel (g x) (g (f x))) : Rel (l.flatMap g) ((mapFirst p f l).flatMap g) := by
  induction l with
  | nil => exact Rel.refl _
  | cons a l ih =>
    unfold mapFirst
    by_cases hp : p a = true
    · simp only [hp, if_true, List.flatMap_cons]
      exact (hf a (by simp [List.find?, hp])).append (Rel.refl _)
    · simp only [hp, Bool.false_eq_true, if_false, List.flatMap_cons]
      refine (Rel.refl _).append (ih ?_)
      intro x hx
      apply hf
      simp only [List.find?, hp]
      exact hx

theorem idsOK_of_same (d d' : Data) (h1 : d'.dbs = d.dbs) (h2 : d'.maxSG = d.maxSG) (h3 : d'.maxShard = d.maxShard)
    (hok : IdsOK d) : IdsOK d' := by
  unfold IdsOK allGroups at *
  rw [h1, h2, h3]
  exact hok

macro "ids_same" h:ident hok:ident : tactic =>
  `(tactic| (repeat' split at $h:ident) <;> first
      | (cases $h:ident; done)
      | (cases $h:ident; exact idsOK_of_same _ _ rfl rfl rfl $hok))

theorem createUser_ids (d d' : Data) (n hs : String) (a : Bool) (h : createUser d n hs a = .ok d') (hok : IdsOK d) : IdsOK d' := by
  unfold createUser at h; ids_same h hok
theorem dropUser_ids (d d' : Data) (n : String) (h : dropUser d n = .ok d') (hok : IdsOK d) : IdsOK d' := by
  unfold dropUser at h; ids_same h hok
theorem updateUser_ids (d d' : Data) (n hs : String) (h : updateUser d n hs = .ok d') (hok : IdsOK d) : IdsOK d' := by
  unfold updateUser at h; ids_same h hok
theorem setPrivilege_ids (d d' : Data) (n db : String) (p : Nat) (h : setPrivilege d n db p = .ok d') (hok : IdsOK d) : IdsOK d' := by
  unfold setPrivilege at h; ids_same h hok
theorem setAdmin_ids (d d' : Data) (n : String) (a : Bool) (h : setAdminPrivilege d n a = .ok d') (hok : IdsOK d) : IdsOK d' := by
  unfold setAdminPrivilege at h; ids_same h hok
theorem createDataNode_ids (d d' : Data) (a t : String) (h : createDataNode d a t = .ok d') (hok : IdsOK d) : IdsOK d' := by
  unfold createDataNode at h; ids_same h hok
theorem updateDataNode_ids (d d' : Data) (id : Nat) (a t : String) (h : updateDataNode d id a t = .ok d') (hok : IdsOK d) : IdsOK d' := by
  unfold updateDataNode at h; ids_same h hok
theorem createMetaNode_ids (d d' : Data) (a t : String) (h : createMetaNode d a t = .ok d') (hok : IdsOK d) : IdsOK d' := by
  unfold createMetaNode at h; ids_same h hok
theorem deleteMetaNode_ids (d d' : Data) (id : Nat) (h : deleteMetaNode d id = .ok d') (hok : IdsOK d) : IdsOK d' := by
  unfold deleteMetaNode at h; ids_same h hok
theorem setMetaNode_ids (d d' : Data) (a t : String) (h : setMetaNode d a t = .ok d') (hok : IdsOK d) : IdsOK d' := by
  unfold setMetaNode at h
  split at h
  · exact createMetaNode_ids d d' a t h hok
  · cases h; exact idsOK_of_same _ _ rfl rfl rfl hok
  · cases h
theorem setClusterID_ids (d : Data) (r : Nat) (hok : IdsOK d) : IdsOK (setClusterID d r) := by
  unfold setClusterID; split
  · exact idsOK_of_same _ _ rfl rfl rfl hok
  · exact hok

/-- a step that rewrites the groups with `Rel` and leaves the counters alone -/
theorem idsOK_rel_same (d d' : Data) (hok : IdsOK d) (h2 : d'.maxSG = d.maxSG) (h3 : d'.maxShard = d.maxShard)
    (h : Rel (allGroups d) (allGroups d')) : IdsOK d' :=
  idsOK_of_rel d d' h (by omega) (by omega) hok

/-- a step that rewrites the databases with `Rel` and leaves the counters alone -/
theorem idsOK_rel_dbs (d : Data) (dbs : List DB) (h : Rel (allGroups d) (dbs.flatMap rpGroups)) (hok : IdsOK d) :
    IdsOK { d with dbs := dbs } :=
  idsOK_of_rel d _ h (Nat.le_refl _) (Nat.le_refl _) hok

end InfluxVerif.Meta

namespace InfluxVerif.Meta

/-! ### databases, policies, continuous queries, subscriptions -/

theorem createDatabase_ids (d d' : Data) (n : String) (h : createDatabase d n = .ok d') (hok : IdsOK d) : IdsOK d' := by
  unfold createDatabase at h
  repeat' split at h
  · cases h
  · cases h
  · cases h; exact hok
  · cases h
    refine idsOK_rel_same d _ hok rfl rfl ?_
    show Rel (allGroups d) ((d.dbs ++ [_]).flatMap rpGroups)
    simp only [List.flatMap_append, List.flatMap_cons, List.flatMap_nil, rpGroups, List.append_nil]
    exact Rel.refl _

theorem dropDatabase_ids (d d' : Data) (n : String) (h : dropDatabase d n = .ok d') (hok : IdsOK d) : IdsOK d' := by
  unfold dropDatabase at h
  split at h
  · cases h
    refine idsOK_rel_same d _ hok rfl rfl ?_
    exact rel_flatMap_sublist rpGroups _ _ (removeFirst_sublist _ _)
  · cases h; exact hok

theorem createRP_ids (d d' : Data) (dbn n : String) (r du sg : Int) (df : Bool)
    (h : createRetentionPolicy d dbn n r du sg df = .ok d') (hok : IdsOK d) : IdsOK d' := by
  unfold createRetentionPolicy at h
  by_cases h1 : n = ""
  · simp [h1] at h
  by_cases h2 : n.length > maxNameLen
  · simp [h1, h2] at h
  by_cases h3 : r < 1
  · simp [h1, h2, h3] at h
  by_cases h4 : (decide (du > 0) && decide (du < normalisedShardDuration sg du)) = true
  · simp [h1, h2, h3, h4] at h
  simp only [h1, h2, h3, h4, ↓reduceIte] at h
  cases hdb : findDB d dbn with
  | none => simp [hdb] at h
  | some db =>
    simp only [hdb] at h
    cases hrp : db.findRP n with
    | some rp =>
      simp only [hrp] at h
      repeat' split at h
      all_goals first
        | (cases h; done)
        | (cases h; exact hok)
    | none =>
      simp only [hrp] at h
      cases h
      unfold createRetentionPolicy.Data.mapDBFirst
      refine idsOK_rel_same d _ hok rfl rfl ?_
      apply rel_flatMap_mapFirst
      intro x
      simp only [rpGroups, List.flatMap_append, List.flatMap_cons, List.flatMap_nil, List.append_nil]
      exact Rel.refl _

theorem dropRP_ids (d d' : Data) (dbn n : String) (h : dropRetentionPolicy d dbn n = .ok d') (hok : IdsOK d) : IdsOK d' := by
  unfold dropRetentionPolicy at h
  cases h
  refine idsOK_rel_same d _ hok rfl rfl ?_
  apply rel_flatMap_mapFirst
  intro x
  exact rel_flatMap_sublist _ _ _ (removeFirst_sublist _ _)

theorem createCQ_ids (d d' : Data) (dbn n q : String) (h : createCQ d dbn n q = .ok d') (hok : IdsOK d) : IdsOK d' := by
  unfold createCQ at h
  repeat' split at h
  all_goals first
    | (cases h; done)
    | (cases h; exact hok)
    | skip
  cases h
  refine idsOK_rel_same d _ hok rfl rfl ?_
  apply rel_flatMap_mapFirst
  intro x
  exact Rel.refl _

theorem dropCQ_ids (d d' : Data) (dbn n : String) (h : dropCQ d dbn n = .ok d') (hok : IdsOK d) : IdsOK d' := by
  unfold dropCQ at h
  cases h
  refine idsOK_rel_same d _ hok rfl rfl ?_
  apply rel_flatMap_mapFirst
  intro x
  exact Rel.refl _

/-- rewriting the first policy of the first database by a function that keeps its groups up to `Rel` -/
theorem mapRP_ids (d : Data) (dbn rpn : String) (f : RP → RP) (hf : ∀ rp, Rel rp.groups (f rp).groups)
    (hok : IdsOK d) : IdsOK (d.mapRP dbn rpn f) := by
  unfold Data.mapRP
  refine idsOK_rel_same d _ hok rfl rfl ?_
  apply rel_flatMap_mapFirst
  intro db
  unfold rpGroups
  apply rel_flatMap_mapFirst
  exact hf

theorem createSub_ids (d d' : Data) (dbn rpn n m : String) (ds : List String) (bad : Option String)
    (h : createSubscription d dbn rpn n m ds bad = .ok d') (hok : IdsOK d) : IdsOK d' := by
  unfold createSubscription at h
  repeat' split at h
  all_goals first
    | (cases h; done)
    | skip
  cases h
  exact mapRP_ids d _ _ _ (fun rp => Rel.refl _) hok

theorem dropSub_ids (d d' : Data) (dbn rpn n : String)
    (h : dropSubscription d dbn rpn n = .ok d') (hok : IdsOK d) : IdsOK d' := by
  unfold dropSubscription at h
  repeat' split at h
  all_goals first
    | (cases h; done)
    | skip
  cases h
  exact mapRP_ids d _ _ _ (fun rp => Rel.refl _) hok

end InfluxVerif.Meta

namespace InfluxVerif.Meta

/-! ### shard groups -/

theorem forall2_mapFirst_keeps (p : SG → Bool) (f : SG → SG) (hf : ∀ g, Keeps g (f g)) (l : List SG) :
    List.Forall₂ Keeps l (mapFirst p f l) := by
  induction l with
  | nil => exact List.Forall₂.nil
  | cons a l ih =>
    unfold mapFirst
    split
    · exact List.Forall₂.cons (hf a) (forall2_refl l)
    · exact List.Forall₂.cons (Keeps.refl a) ih

theorem forall2_map_keeps (f : SG → SG) (hf : ∀ g, Keeps g (f g)) (l : List SG) :
    List.Forall₂ Keeps l (l.map f) := by
  induction l with
  | nil => exact List.Forall₂.nil
  | cons a l ih => exact List.Forall₂.cons (hf a) ih

theorem deleteSG_ids (d d' : Data) (dbn rpn : String) (id : Nat) (age : Del)
    (h : deleteShardGroup d dbn rpn id age = .ok d') (hok : IdsOK d) : IdsOK d' := by
  unfold deleteShardGroup at h
  repeat' split at h
  all_goals first
    | (cases h; done)
    | skip
  cases h
  apply mapRP_ids d _ _ _ _ hok
  intro rp
  refine Rel.of_forall2 ?_
  exact forall2_mapFirst_keeps (·.id == id) (fun g => { g with del := age })
    (fun g => ⟨rfl, List.Sublist.refl _⟩) rp.groups

theorem mapGroups_ids (d : Data) (f : SG → SG) (hf : ∀ g, Keeps g (f g)) (hok : IdsOK d) : IdsOK (mapGroups d f) := by
  unfold mapGroups
  refine idsOK_rel_same d _ hok rfl rfl ?_
  apply rel_flatMap_map
  intro db
  unfold rpGroups
  apply rel_flatMap_map
  intro rp
  exact Rel.of_forall2 (forall2_map_keeps f hf _)

theorem truncOne_keeps (t : Int) (g : SG) : Keeps g (truncOne t g) := by
  rcases truncOne_cases t g with h | h | h <;> rw [h]
  · exact Keeps.refl g
  · exact ⟨rfl, List.Sublist.refl _⟩
  · exact ⟨rfl, List.Sublist.refl _⟩

theorem truncate_ids (d : Data) (t : Int) (hok : IdsOK d) : IdsOK (truncateShardGroups d t) :=
  mapGroups_ids d (truncOne t) (truncOne_keeps t) hok

theorem prune_ids (d : Data) (hok : IdsOK d) : IdsOK (pruneShardGroups d) := by
  unfold pruneShardGroups
  refine idsOK_rel_same d _ hok rfl rfl ?_
  apply rel_flatMap_map
  intro db
  unfold rpGroups
  apply rel_flatMap_map
  intro rp
  exact Rel.of_sublist List.filter_sublist

theorem updFirstGroup_keeps (has : SG → Bool) (f : SG → SG) (hf : ∀ g, Keeps g (f g)) (gs gs' : List SG)
    (h : updFirstGroup has f gs = some gs') : List.Forall₂ Keeps gs gs' := by
  induction gs generalizing gs' with
  | nil => simp [updFirstGroup] at h
  | cons g rest ih =>
    unfold updFirstGroup at h
    split at h
    · cases h
      exact List.Forall₂.cons (hf g) (forall2_refl rest)
    · cases hr : updFirstGroup has f rest with
      | none => simp [hr] at h
      | some r =>
        simp only [hr, Option.map_some, Option.some.injEq] at h
        subst h
        exact List.Forall₂.cons (Keeps.refl g) (ih r hr)

theorem updFirstRP_rel (has : SG → Bool) (f : SG → SG) (hf : ∀ g, Keeps g (f g)) (rps rps' : List RP)
    (h : updFirstRP has f rps = some rps') : Rel (rps.flatMap (·.groups)) (rps'.flatMap (·.groups)) := by
  induction rps generalizing rps' with
  | nil => simp [updFirstRP] at h
  | cons r rest ih =>
    unfold updFirstRP at h
    cases hg : updFirstGroup has f r.groups with
    | some gs =>
      simp only [hg, Option.some.injEq] at h
      subst h
      simp only [List.flatMap_cons]
      exact (Rel.of_forall2 (updFirstGroup_keeps has f hf _ _ hg)).append (Rel.refl _)
    | none =>
      simp only [hg] at h
      cases hr : updFirstRP has f rest with
      | none => simp [hr] at h
      | some rs =>
        simp only [hr, Option.map_some, Option.some.injEq] at h
        subst h
        simp only [List.flatMap_cons]
        exact (Rel.refl _).append (ih rs hr)

theorem updFirstDB_rel (has : SG → Bool) (f : SG → SG) (hf : ∀ g, Keeps g (f g)) (dbs dbs' : List DB)
    (h : updFirstDB has f dbs = some dbs') : Rel (dbs.flatMap rpGroups) (dbs'.flatMap rpGroups) := by
  induction dbs generalizing dbs' with
  | nil => simp [updFirstDB] at h
  | cons b rest ih =>
    unfold updFirstDB at h
    cases hg : updFirstRP has f b.rps with
    | some rps =>
      simp only [hg, Option.some.injEq] at h
      subst h
      simp only [List.flatMap_cons]
      exact (updFirstRP_rel has f hf _ _ hg).append (Rel.refl _)
    | none =>
      simp only [hg] at h
      cases hr : updFirstDB has f rest with
      | none => simp [hr] at h
      | some rs =>
        simp only [hr, Option.map_some, Option.some.injEq] at h
        subst h
        simp only [List.flatMap_cons]
        exact (Rel.refl _).append (ih rs hr)

theorem withShardGroup_ids (d : Data) (id : Nat) (f : SG → SG) (hf : ∀ g, Keeps g (f g)) (hok : IdsOK d) :
    IdsOK (withShardGroup d id f) := by
  unfold withShardGroup
  split
  · rename_i dbs hdbs
    exact idsOK_rel_same d _ hok rfl rfl (updFirstDB_rel _ f hf _ _ hdbs)
  · exact hok

theorem sids_removeFirst (p : Shard → Bool) (l : List Shard) :
    ((removeFirst p l).map (·.id)).Sublist (l.map (·.id)) :=
  (removeFirst_sublist p l).map _

theorem sids_mapFirst (p : Shard → Bool) (f : Shard → Shard) (hf : ∀ s, (f s).id = s.id) (l : List Shard) :
    (mapFirst p f l).map (·.id) = l.map (·.id) := by
  induction l with
  | nil => rfl
  | cons a l ih =>
    unfold mapFirst
    split
    · simp [hf]
    · simp [ih]

theorem dropShard_ids (d : Data) (id : Nat) (age : Del) (hok : IdsOK d) : IdsOK (dropShard d id age) := by
  unfold dropShard
  apply withShardGroup_ids d id _ _ hok
  intro g
  exact ⟨rfl, sids_removeFirst _ _⟩

theorem copyOwner_ids (d : Data) (id n : Nat) (hok : IdsOK d) : IdsOK (copyShardOwner d id n) := by
  unfold copyShardOwner
  split
  · exact hok
  apply withShardGroup_ids d id _ _ hok
  intro g
  refine ⟨rfl, ?_⟩
  have := sids_mapFirst (·.id == id) (fun (s : Shard) => { s with owners := insertOwner n s.owners }) (fun s => rfl) g.shards
  show (List.map (·.id) (mapFirst _ _ g.shards)).Sublist _
  rw [this]
  exact List.Sublist.refl _

theorem removeOwner_ids (d : Data) (id n : Nat) (age : Del) (hok : IdsOK d) : IdsOK (removeShardOwner d id n age) := by
  unfold removeShardOwner
  apply withShardGroup_ids d id _ _ hok
  intro g
  cases hs : g.shards.find? (·.id == id) with
  | none => simp only; exact Keeps.refl g
  | some s =>
    simp only
    split
    · exact ⟨rfl, sids_removeFirst _ _⟩
    · refine ⟨rfl, ?_⟩
      have := sids_mapFirst (·.id == id) (fun (s' : Shard) => { s' with owners := removeFirst (· == n) s.owners }) (fun s => rfl) g.shards
      show (List.map (·.id) (mapFirst _ _ g.shards)).Sublist _
      rw [this]
      exact List.Sublist.refl _

end InfluxVerif.Meta

namespace InfluxVerif.Meta

theorem reassign_ids (os : List Nat) (freqs : List (Nat × Nat)) (shards shards' : List Shard)
    (h : reassign os freqs shards = .ok shards') : shards'.map (·.id) = shards.map (·.id) := by
  induction os generalizing freqs shards with
  | nil => simp only [reassign, Except.ok.injEq] at h; subst h; rfl
  | cons o os ih =>
    unfold reassign at h
    split at h
    · cases h
    · rename_i n _
      have := ih _ _ h
      rw [this, sids_mapFirst (·.id == o) (fun (s : Shard) => { s with owners := s.owners ++ [n] }) (fun s => rfl)]

theorem deleteNodeFromGroup_keeps (id : Nat) (age : Del) (g g' : SG)
    (h : deleteNodeFromGroup id age g = .ok g') : Keeps g g' := by
  unfold deleteNodeFromGroup at h
  simp only at h
  split at h
  · cases h
    refine ⟨rfl, ?_⟩
    simp only [sids, List.map_map]
    exact List.Sublist.refl _
  · split at h
    · cases h
    · rename_i shards' hre
      cases h
      refine ⟨rfl, ?_⟩
      simp only [sids]
      rw [reassign_ids _ _ _ _ hre]
      simp only [List.map_map]
      exact List.Sublist.refl _

theorem rel_flatMap_mapM {α} (g : α → List SG) (f : α → Except String α)
    (hf : ∀ a b, f a = .ok b → Rel (g a) (g b)) (l l' : List α) (h : l.mapM f = .ok l') :
    Rel (l.flatMap g) (l'.flatMap g) := by
  have h2 := mapM_forall2 f l l' h
  clear h
  induction h2 with
  | nil => exact Rel.refl _
  | cons hab _ ih =>
    simp only [List.flatMap_cons]
    exact (hf _ _ hab).append ih

theorem mapGroupsM_ids (d d' : Data) (f : SG → Except String SG) (hf : ∀ g g', f g = .ok g' → Keeps g g')
    (h : mapGroupsM d f = .ok d') (hok : IdsOK d) : IdsOK d' := by
  rw [mapGroupsM_eq] at h
  cases hdbs : d.dbs.mapM (dbM f) with
  | error e => simp [hdbs, bind, Except.bind] at h
  | ok dbs =>
    simp only [hdbs, bind, Except.bind, pure, Except.pure, Except.ok.injEq] at h
    subst h
    refine idsOK_rel_same d _ hok rfl rfl ?_
    apply rel_flatMap_mapM rpGroups (dbM f) _ _ _ hdbs
    intro db db' hdb
    unfold dbM at hdb
    cases hrps : db.rps.mapM (rpM f) with
    | error e => simp [hrps, bind, Except.bind] at hdb
    | ok rps =>
      simp only [hrps, bind, Except.bind, pure, Except.pure, Except.ok.injEq] at hdb
      subst hdb
      unfold rpGroups
      apply rel_flatMap_mapM (·.groups) (rpM f) _ _ _ hrps
      intro rp rp' hrp
      unfold rpM at hrp
      cases hgs : rp.groups.mapM f with
      | error e => simp [hgs, bind, Except.bind] at hrp
      | ok gs =>
        simp only [hgs, bind, Except.bind, pure, Except.pure, Except.ok.injEq] at hrp
        subst hrp
        exact Rel.of_forall2 (forall2_imp hf (mapM_forall2 _ _ _ hgs))

theorem deleteDataNode_ids (d d' : Data) (id : Nat) (age : Del)
    (h : deleteDataNode d id age = .ok d') (hok : IdsOK d) : IdsOK d' := by
  unfold deleteDataNode at h
  split at h
  · exact mapGroupsM_ids _ d' _ (deleteNodeFromGroup_keeps id age) h (idsOK_of_same _ _ rfl rfl rfl hok)
  · cases h

end InfluxVerif.Meta

namespace InfluxVerif.Meta

theorem findRP_first_by_own_name (db : DB) (n : String) (rp : RP) (h : db.findRP n = some rp) :
    db.rps.find? (·.name == rp.name) = some rp := by
  unfold DB.findRP at h
  have hp := List.find?_some h
  have hn : rp.name = n := by simpa using hp
  rw [hn]; exact h

theorem findRPd_first_by_own_name (db : DB) (n : String) (rp : RP) (h : db.findRPd n = some rp) :
    db.rps.find? (·.name == rp.name) = some rp := by
  unfold DB.findRPd at h
  split at h
  · split at h
    · cases h
    · exact findRP_first_by_own_name _ _ _ h
  · exact findRP_first_by_own_name _ _ _ h

theorem updateRP_ids (d d' : Data) (dbn n : String) (nn : Option String) (du rn sg : Option Int) (df : Bool)
    (h : updateRetentionPolicy d dbn n nn du rn sg df = .ok d') (hok : IdsOK d) : IdsOK d' := by
  unfold updateRetentionPolicy at h
  cases hdb : findDB d dbn with
  | none => simp [hdb] at h
  | some db =>
    simp only [hdb] at h
    cases hrp : db.findRPd n with
    | none => simp [hrp] at h
    | some rp =>
      simp only [hrp] at h
      have hfirst := findRPd_first_by_own_name db n rp hrp
      repeat' split at h
      all_goals first
        | (cases h; done)
        | skip
      all_goals
        cases h
        refine idsOK_rel_same d _ hok rfl rfl ?_
        apply rel_flatMap_mapFirst_found
        intro db2 hdb2
        have hdbeq : db2 = db := by
          have h2 : findDB d dbn = some db2 := hdb2
          rw [hdb] at h2; exact (Option.some.inj h2).symm
        subst hdbeq
        unfold rpGroups
        apply rel_flatMap_mapFirst_found
        intro x hx
        have hxeq : x = rp := by
          rw [hfirst] at hx; exact (Option.some.inj hx).symm
        subst hxeq
        first
          | exact Rel.refl _
          | (cases sg <;> exact Rel.refl _)

end InfluxVerif.Meta

namespace InfluxVerif.Meta

/-! ### CreateShardGroup -/

theorem perm_flatMap_mapFirst_found {α β} (g : α → List β) (p : α → Bool) (f : α → α) (l : List α) (x : α)
    (hx : l.find? p = some x) (delta : List β) (h : (g (f x)).Perm (g x ++ delta)) :
    ((mapFirst p f l).flatMap g).Perm (l.flatMap g ++ delta) := by
  induction l with
  | nil => simp at hx
  | cons a l ih =>
    unfold mapFirst
    by_cases hp : p a = true
    · have hax : a = x := by
        simp only [List.find?, hp] at hx
        exact Option.some.inj hx
      subst hax
      simp only [hp, if_true, List.flatMap_cons]
      -- g (f a) ++ rest ~ (g a ++ rest) ++ delta
      have h1 : (g (f a) ++ l.flatMap g).Perm ((g a ++ delta) ++ l.flatMap g) := List.Perm.append_right _ h
      refine h1.trans ?_
      simp only [List.append_assoc]
      exact List.Perm.append_left _ List.perm_append_comm
    · simp only [hp, Bool.false_eq_true, if_false, List.flatMap_cons]
      have hx' : l.find? p = some x := by
        simp only [List.find?, hp] at hx
        exact hx
      have := ih hx'
      simp only [List.append_assoc]
      exact List.Perm.append_left _ this

theorem newShards_ids' (nodes : List Node) (firstID start shardN replicaN : Nat) :
    (newShards nodes firstID start shardN replicaN).map (·.id) = (List.range shardN).map (firstID + · + 1) := by
  simp [newShards, List.map_map, Function.comp_def]

theorem allGroups_mapRP_perm (d : Data) (dbn rpn : String) (db : DB) (rp : RP)
    (hdb : findDB d dbn = some db) (hrp : db.findRP rpn = some rp) (f : RP → RP) (delta : List SG)
    (hf : (f rp).groups.Perm (rp.groups ++ delta)) :
    (allGroups (d.mapRP dbn rpn f)).Perm (allGroups d ++ delta) := by
  unfold Data.mapRP allGroups
  apply perm_flatMap_mapFirst_found rpGroups _ _ d.dbs db hdb
  unfold rpGroups
  exact perm_flatMap_mapFirst_found (·.groups) _ _ db.rps rp hrp delta hf

theorem createSG_ids_core (d : Data) (dbn rpn : String) (db : DB) (rp : RP)
    (hdb : findDB d dbn = some db) (hrp : db.findRP rpn = some rp) (sg : SG) (shardN : Nat)
    (hid : sg.id = d.maxSG + 1) (hsh : sids sg = (List.range shardN).map (d.maxShard + · + 1)) (hok : IdsOK d) :
    IdsOK (({ d with maxSG := d.maxSG + 1, maxShard := d.maxShard + shardN } : Data).mapRP dbn rpn
      (fun rp' => { rp' with groups := sortBy sgLt (rp'.groups ++ [sg]) })) := by
  obtain ⟨h1, h2, h3, h4⟩ := hok
  set d1 : Data := { d with maxSG := d.maxSG + 1, maxShard := d.maxShard + shardN } with hd1
  have hperm : (allGroups (d1.mapRP dbn rpn (fun rp' => { rp' with groups := sortBy sgLt (rp'.groups ++ [sg]) }))).Perm
      (allGroups d ++ [sg]) := by
    have := allGroups_mapRP_perm d1 dbn rpn db rp hdb hrp
      (fun rp' => { rp' with groups := sortBy sgLt (rp'.groups ++ [sg]) }) [sg] (sortBy_perm sgLt _)
    exact this
  have hmaxsg : (d1.mapRP dbn rpn (fun rp' => { rp' with groups := sortBy sgLt (rp'.groups ++ [sg]) })).maxSG = d.maxSG + 1 := rfl
  have hmaxsh : (d1.mapRP dbn rpn (fun rp' => { rp' with groups := sortBy sgLt (rp'.groups ++ [sg]) })).maxShard = d.maxShard + shardN := rfl
  refine ⟨?_, ?_, ?_, ?_⟩
  · -- group ids
    have hp := hperm.map (·.id)
    rw [hp.nodup_iff]
    simp only [List.map_append, List.map_cons, List.map_nil]
    rw [List.nodup_append]
    refine ⟨h1, by simp, ?_⟩
    intro a ha b hb
    simp only [List.mem_singleton] at hb
    subst hb
    simp only [List.mem_map] at ha
    obtain ⟨g, hg, rfl⟩ := ha
    have := h2 g hg
    omega
  · intro g hg
    rw [hmaxsg]
    have := hperm.subset hg
    simp only [List.mem_append, List.mem_singleton] at this
    rcases this with hg' | rfl
    · have := h2 g hg'; omega
    · omega
  · -- shard ids
    have hp := List.Perm.flatMap_right sids hperm
    rw [hp.nodup_iff]
    simp only [List.flatMap_append, List.flatMap_cons, List.flatMap_nil, List.append_nil]
    rw [List.nodup_append]
    refine ⟨h3, ?_, ?_⟩
    · rw [hsh]
      apply List.Nodup.map_on _ List.nodup_range
      intro a _ b _ hab
      omega
    · intro a ha b hb
      rw [hsh] at hb
      simp only [List.mem_map, List.mem_range] at hb
      obtain ⟨k, _, rfl⟩ := hb
      simp only [List.mem_flatMap] at ha
      obtain ⟨g, hg, hi⟩ := ha
      have := h4 g hg a hi
      omega
  · intro g hg i hi
    rw [hmaxsh]
    have := hperm.subset hg
    simp only [List.mem_append, List.mem_singleton] at this
    rcases this with hg' | rfl
    · have := h4 g hg' i hi; omega
    · rw [hsh] at hi
      simp only [List.mem_map, List.mem_range] at hi
      obtain ⟨k, hk, rfl⟩ := hi
      omega

theorem createSG_ids (d d' : Data) (dbn rpn : String) (ts : Int)
    (h : createShardGroup d dbn rpn ts = .ok d') (hok : IdsOK d) : IdsOK d' := by
  unfold createShardGroup at h
  by_cases hn : d.dataNodes.isEmpty = true
  · simp only [hn, if_true] at h; cases h; exact hok
  simp only [hn, Bool.false_eq_true, if_false] at h
  cases hdb : findDB d dbn with
  | none => simp [hdb] at h
  | some db =>
    simp only [hdb] at h
    cases hrp : db.findRP rpn with
    | none => simp [hrp] at h
    | some rp =>
      simp only [hrp] at h
      by_cases hg : (rp.groupAt ts).isSome = true
      · simp only [hg, if_true] at h; cases h; exact hok
      simp only [hg, Bool.false_eq_true, if_false] at h
      cases h
      exact createSG_ids_core d dbn rpn db rp hdb hrp _ _ rfl (newShards_ids' _ _ _ _ _) hok

end InfluxVerif.Meta
