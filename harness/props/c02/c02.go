// Package c02: one real shard against the last-write-wins specification
// (InfluxVerif.ShardSpec): writes of all five types incl. duplicates, out-of-order and
// extreme timestamps and type conflicts, snapshots, compactions of chosen file groups,
// range deletes, reopen — and after every step reads over random windows, both directions,
// through both iterator families.
package c02

import (
	"archive/tar"
	"bytes"
	"fmt"
	intar "github.com/influxdata/influxdb/pkg/tar"
	"github.com/influxdata/influxdb/services/meta"
	"os"
	"path/filepath"
	"strconv"
	"strings"
	"verifharness/copyh"

	"github.com/influxdata/influxdb/models"
	"verifharness/fw"
	"verifharness/shardh"
)

type Prop struct{ Name string }

func (p Prop) ID() string {
	if p.Name != "" {
		return p.Name
	}
	return "C02"
}
func (Prop) Model() string  { return "shard" }
func (Prop) Parallel() int  { return 8 }
func (Prop) Stateful() bool { return true }
func (Prop) Describe(cfg *fw.Config) {
	cfg.Rule = "seeded histories on one shard (inmem and tsi1 index): batches of points of five types with duplicate, out-of-order and extreme timestamps, conflicting field types (also inside one batch), cache snapshots, full/fast compactions of contiguous file groups, range deletes by measurement and by tag, reopen; reads over random and full windows, ascending and descending, through Shard.CreateIterator and the array cursors, compared with the last-write-wins model; plus back-fill layouts: one series of 13k-30k points spread over 3-6 snapshot files in interleaved runs of 1000 timestamps with later files overwriting earlier ones; non-trivial = at least two files existed and a read returned an overwritten or deleted timestamp's neighbourhood; distinct = distinct op list"
}
func (Prop) KeepOp(i int, op string) bool { return i == 0 }

var meass = []string{"m0", "m1"}
var tagss = []string{"-", "host=a", "host=b"}
var fieldTypes = map[string]byte{"v": 'f', "n": 'i', "b": 'b', "s": 's', "u": 'u'}
var fieldNames = []string{"v", "n", "b", "s", "u", "v", "n"}

func genVal(r *fw.Rand, ty byte) string {
	switch ty {
	case 'f':
		vals := []string{"f0000000000000000", "f3ff0000000000000", "fbff8000000000000", "f7fefffffffffffff", "f0000000000000001", "f8000000000000000"}
		if r.Chance(0.5) {
			return shardh.ValToken(float64(r.Intn(100000)) / 8)
		}
		return vals[r.Intn(len(vals))]
	case 'i':
		vals := []int64{0, 1, -1, 9223372036854775807, -9223372036854775808}
		if r.Chance(0.6) {
			return fmt.Sprintf("i%d", r.Intn(1000)-500)
		}
		return fmt.Sprintf("i%d", vals[r.Intn(len(vals))])
	case 'u':
		if r.Chance(0.3) {
			return "u18446744073709551615"
		}
		return fmt.Sprintf("u%d", r.Intn(1000))
	case 'b':
		if r.Bool() {
			return "bT"
		}
		return "bF"
	default:
		return shardh.ValToken([]string{"", "x", "hello world", "a\"b", strings.Repeat("z", 300)}[r.Intn(5)])
	}
}

func genTime(r *fw.Rand) int64 {
	base := int64(1600000000000000000)
	switch r.Intn(12) {
	case 0:
		return models.MinNanoTime
	case 1:
		return models.MaxNanoTime
	case 2:
		return 0
	case 3:
		return -1
	default:
		return base + int64(r.Intn(30))*1000
	}
}

// genBatch: type conflicts are injected only on series known to hold data (so that a rejected
// point never leaves a data-less series behind, whose fate under a later delete depends on the
// physical layout), and a batch never gives one new field two types (that is genErrCase).
func genBatch(r *fw.Rand, hasData map[string]bool) string {
	n := 1 + r.Intn(8)
	var pts []string
	batchType := map[string]byte{}
	for i := 0; i < n; i++ {
		m, tg := meass[r.Intn(len(meass))], tagss[r.Intn(len(tagss))]
		series := m + "|" + tg
		nf := 1 + r.Intn(2)
		var fs []string
		seen := map[string]bool{}
		conflict := false
		for j := 0; j < nf; j++ {
			fn := fieldNames[r.Intn(len(fieldNames))]
			if seen[fn] {
				continue
			}
			seen[fn] = true
			ty := fieldTypes[fn]
			if hasData[series] && hasData["f:"+m+"/"+fn] && r.Chance(0.08) { // conflicting type on an established field
				ty = []byte{'f', 'i', 'b', 's'}[r.Intn(4)]
				if ty != fieldTypes[fn] {
					conflict = true
				}
			}
			if bt, ok := batchType[m+"/"+fn]; ok && !conflict {
				ty = bt
			}
			batchType[m+"/"+fn] = fieldTypes[fn]
			fs = append(fs, fn+"="+genVal(r, ty))
		}
		if !conflict {
			hasData[series] = true
			for fn := range seen {
				hasData["f:"+m+"/"+fn] = true
			}
		}
		pts = append(pts, fmt.Sprintf("%s|%s|%d|%s", m, tg, genTime(r), strings.Join(fs, ",")))
	}
	return strings.Join(pts, ";")
}

// genErrCase: batches in which two points give one *new* field different types (the whole
// write fails), followed by writes and reads but no deletes.
func genErrCase(r *fw.Rand, index string) fw.Case {
	ops := []string{"reset " + index}
	for i := 0; i < 2+r.Intn(4); i++ {
		var pts []string
		for k := 0; k < 2+r.Intn(5); k++ {
			fn := fieldNames[r.Intn(len(fieldNames))]
			ty := []byte{'f', 'i', 'b', 's', 'u'}[r.Intn(5)]
			pts = append(pts, fmt.Sprintf("%s|%s|%d|%s=%s", meass[r.Intn(len(meass))], tagss[r.Intn(len(tagss))], genTime(r), fn, genVal(r, ty)))
		}
		ops = append(ops, "w "+strings.Join(pts, ";"))
		if r.Chance(0.1) {
			ops = append(ops, "snapfail")
		}
		if r.Chance(0.3) {
			ops = append(ops, "snap")
		}
		if r.Chance(0.3) {
			ops = append(ops, "reopen")
		}
		ops = append(ops, genReads(r, 2)...)
	}
	for _, m := range meass {
		for _, t := range tagss {
			for _, f := range []string{"v", "n", "b", "s", "u"} {
				ops = append(ops, fmt.Sprintf("read %s %s %s %d %d asc", m, t, f, models.MinNanoTime, models.MaxNanoTime))
			}
		}
	}
	return fw.Case{Ops: ops, Tags: []string{"err-batches", "index=" + index}}
}

func genReads(r *fw.Rand, n int) []string {
	var ops []string
	for i := 0; i < n; i++ {
		tmin, tmax := models.MinNanoTime, models.MaxNanoTime
		if r.Chance(0.6) {
			a, b := genTime(r), genTime(r)
			if a > b {
				a, b = b, a
			}
			tmin, tmax = a, b
		}
		dir := "asc"
		if r.Bool() {
			dir = "desc"
		}
		ops = append(ops, fmt.Sprintf("read %s %s %s %d %d %s", meass[r.Intn(len(meass))], tagss[r.Intn(len(tagss))], fieldNames[r.Intn(len(fieldNames))], tmin, tmax, dir))
	}
	return ops
}

func genCase(r *fw.Rand, index string) fw.Case {
	ops := []string{"reset " + index}
	nfiles := 0
	hasData := map[string]bool{}
	steps := 8 + r.Intn(30)
	for i := 0; i < steps; i++ {
		switch r.Intn(14) {
		case 0, 1, 2, 3, 4, 5:
			ops = append(ops, "w "+genBatch(r, hasData))
		case 6, 7:
			if r.Intn(5) == 0 {
				ops = append(ops, "snapfail")
			} else {
				ops = append(ops, "snap")
				nfiles++
			}
		case 8:
			if nfiles >= 2 {
				a := r.Intn(nfiles - 1)
				b := a + 2 + r.Intn(nfiles-a-1)
				ops = append(ops, fmt.Sprintf("compact %s %d %d", []string{"full", "fast"}[r.Intn(2)], a, b))
				nfiles -= (b - a) - 1
			}
		case 9:
			a, b := genTime(r), genTime(r)
			if a > b {
				a, b = b, a
			}
			if r.Chance(0.2) {
				a, b = models.MinNanoTime, models.MaxNanoTime
			}
			dm := meass[r.Intn(len(meass))]
			ops = append(ops, fmt.Sprintf("del %s %s %d %d", dm, []string{"-", "host=a", "host=b"}[r.Intn(3)], a, b))
			for k := range hasData { // the generator no longer knows which series of dm hold data
				if strings.HasPrefix(k, dm+"|") || strings.HasPrefix(k, "f:"+dm+"/") {
					delete(hasData, k)
				}
			}
		case 10:
			ops = append(ops, "reopen")
		default:
			ops = append(ops, genReads(r, 1+r.Intn(3))...)
		}
	}
	ops = append(ops, genReads(r, 4)...)
	// full reads of everything at the end
	for _, m := range meass {
		for _, t := range tagss {
			for _, f := range []string{"v", "n", "b", "s", "u"} {
				ops = append(ops, fmt.Sprintf("read %s %s %s %d %d asc", m, t, f, models.MinNanoTime, models.MaxNanoTime))
			}
		}
	}
	return fw.Case{Ops: ops, Tags: []string{"mixed", "index=" + index}}
}

// genTombCase: the delete / rewrite / snapshot interplay on one or two series: points,
// snapshot, a range delete, new points inside and around the deleted range, another snapshot
// (or not: the rewrite stays in the cache), repeated; every field read in both directions.
// Optionally a cache snapshot is held in flight (written, not installed) while points are
// overwritten and read.
func genTombCase(r *fw.Rand, index string) fw.Case {
	ops := []string{"reset " + index}
	series := [][2]string{{"m0", "host=a"}}
	if r.Bool() {
		series = append(series, [2]string{"m0", "-"})
	}
	fields := []string{"n", "v", "s", "b", "u"}[:2+r.Intn(4)]
	base := int64(1600000000000000000)
	batch := func(lo, hi int) string {
		var pts []string
		for i := 0; i < 2+r.Intn(8); i++ {
			sr := series[r.Intn(len(series))]
			var fs []string
			for _, fn := range fields {
				if r.Intn(3) > 0 || len(fs) == 0 {
					fs = append(fs, fn+"="+genVal(r, fieldTypes[fn]))
				}
			}
			t := base + int64(lo+r.Intn(hi-lo+1))*1000
			pts = append(pts, fmt.Sprintf("%s|%s|%d|%s", sr[0], sr[1], t, strings.Join(fs, ",")))
		}
		return strings.Join(pts, ";")
	}
	reads := func() {
		for _, sr := range series {
			for _, fn := range fields {
				for _, dir := range []string{"asc", "desc"} {
					if r.Intn(4) == 0 {
						continue
					}
					ops = append(ops, fmt.Sprintf("read %s %s %s %d %d %s", sr[0], sr[1], fn, models.MinNanoTime, models.MaxNanoTime, dir))
				}
			}
		}
	}
	nfiles := 0
	ops = append(ops, "w "+batch(0, 20), "snap")
	nfiles++
	for round := 0; round < 1+r.Intn(4); round++ {
		switch r.Intn(5) {
		case 0, 1, 2:
			a := r.Intn(18)
			b := a + r.Intn(8)
			ops = append(ops, fmt.Sprintf("del m0 %s %d %d", []string{"-", "host=a"}[r.Intn(2)], base+int64(a)*1000, base+int64(b)*1000))
			ops = append(ops, "w "+batch(maxInt(0, a-2), b+2))
			if r.Intn(3) > 0 {
				ops = append(ops, "snap")
				nfiles++
			}
		case 3:
			// overwrite and read while a snapshot is in flight
			ops = append(ops, "w "+batch(0, 20), "snaphold", "w "+batch(0, 20))
			reads()
			ops = append(ops, "snaprelease")
			nfiles++
		default:
			ops = append(ops, "w "+batch(0, 25))
			if nfiles >= 2 && r.Bool() {
				ops = append(ops, fmt.Sprintf("compact %s 0 %d", []string{"full", "fast"}[r.Intn(2)], nfiles-1))
				nfiles = 1
			}
		}
		reads()
		if r.Intn(5) == 0 {
			ops = append(ops, "reopen")
			reads()
		}
	}
	return fw.Case{Ops: ops, Tags: []string{"tomb", "index=" + index}}
}

func maxInt(a, b int) int {
	if a > b {
		return a
	}
	return b
}

// genBackfill builds one series with many 1000-point blocks spread over several files in
// interleaved runs, later files overwriting earlier ones.
func genBackfill(r *fw.Rand) fw.Case {
	ops := []string{"reset inmem"}
	nfiles := 3 + r.Intn(4)
	runs := 13 + r.Intn(18) // runs of 1000 consecutive timestamps
	base := int64(1600000000000000000)
	shifts := [][]int{{0, 0, 0, 0}, {0, 500, 250, 750}, {0, 333, 666, 100}, {0, 1, 999, 500}}[r.Intn(4)]
	longRuns := r.Bool()
	for f := 0; f < nfiles; f++ {
		for k := 0; k < runs; k++ {
			own := k%nfiles == f
			overwrite := f > 0 && r.Chance(0.25)
			if !own && !overwrite {
				continue
			}
			// runs start at a per-file phase, so blocks of different files overlap partially
			shift := int64(shifts[f%len(shifts)]) * 1000
			length := 1000
			if longRuns && (k+f)%3 == 0 {
				length = 1500
			}
			ops = append(ops, fmt.Sprintf("wr big - n i %d 1000 %d %d", base+int64(k)*1000*1000+shift, length, int64(f+1)*100000000+int64(k)*1000))
		}
		ops = append(ops, "snap")
		if r.Chance(0.5) {
			ops = append(ops, fmt.Sprintf("read big - n %d %d asc", models.MinNanoTime, models.MaxNanoTime))
		}
	}
	ops = append(ops, fmt.Sprintf("read big - n %d %d asc", models.MinNanoTime, models.MaxNanoTime),
		fmt.Sprintf("read big - n %d %d desc", models.MinNanoTime, models.MaxNanoTime))
	for i := 0; i < 4; i++ {
		a := base + int64(r.Intn(runs*1000))*1000
		b := a + int64(r.Intn(5000))*1000
		ops = append(ops, fmt.Sprintf("read big - n %d %d %s", a, b, []string{"asc", "desc"}[r.Intn(2)]))
	}
	if r.Chance(0.7) {
		ops = append(ops, fmt.Sprintf("compact %s 0 %d", []string{"full", "fast"}[r.Intn(2)], nfiles),
			fmt.Sprintf("read big - n %d %d asc", models.MinNanoTime, models.MaxNanoTime))
	}
	return fw.Case{Ops: ops, Tags: []string{"backfill"}}
}

func (Prop) Generate(r *fw.Rand, tier string) []fw.Case {
	n, nb := 60, 4
	if tier == "thorough" {
		n, nb = 1500, 60
	}
	if v := os.Getenv("C02_BACKFILL_ONLY"); v != "" {
		n = 0
		fmt.Sscan(v, &nb)
	}
	var cases []fw.Case
	for i := 0; i < n/6; i++ {
		cases = append(cases, genValueCase(r.Fork()))
	}
	for i := 0; i < nb; i++ {
		cases = append(cases, genBackfill(r.Fork()))
	}
	for i := 0; i < n/2; i++ {
		cases = append(cases, genTombCase(r.Fork(), []string{"inmem", "tsi1"}[i%2]))
	}
	for i := 0; i < n; i++ {
		idx := "inmem"
		if i%3 == 2 {
			idx = "tsi1"
		}
		cases = append(cases, genCase(r.Fork(), idx))
		if i%6 == 0 {
			cases = append(cases, genErrCase(r.Fork(), idx))
		}
	}
	return cases
}

func RunOps(ops []string) []string {
	dir, _ := os.MkdirTemp(shardh.WorkDir("shard"), "s-")
	defer os.RemoveAll(dir)
	var h *shardh.H
	var ce *copyh.Env
	defer func() {
		if h != nil {
			h.Close()
			h.Cleanup()
		}
		if ce != nil {
			ce.Close()
		}
	}()
	out := make([]string, len(ops))
	for i, op := range ops {
		f := strings.Fields(op)
		if f[0] == "reset" {
			if h != nil {
				h.Close()
				h.Cleanup()
				os.RemoveAll(dir)
				os.MkdirAll(dir, 0o755)
			}
			idx := "inmem"
			if len(f) > 1 {
				idx = f[1]
			}
			var err error
			h, err = shardh.New(dir, idx)
			if err != nil {
				out[i] = "err:" + strings.ReplaceAll(err.Error(), " ", "_")
				return out
			}
			out[i] = "ok"
			continue
		}
		if strings.HasPrefix(f[0], "v") {
			out[i] = valueOp(f)
			continue
		}
		if f[0] == "creset" {
			if ce != nil {
				ce.Close()
			}
			cdir := filepath.Join(dir, fmt.Sprintf("copy%d", i))
			var err error
			ce, err = copyh.New(cdir, f[1])
			if err != nil {
				out[i] = "err:" + strings.ReplaceAll(err.Error(), " ", "_")
				return out
			}
			out[i] = "ok"
			continue
		}
		if f[0] == "cowner" {
			out[i] = copyOwner(f)
			continue
		}
		if f[0] == "tarfault" {
			out[i] = tarFault(filepath.Join(dir, fmt.Sprintf("tar%d", i)), f)
			continue
		}
		if f[0] == "cw" || f[0] == "csnap" || f[0] == "cdel" || f[0] == "copy" || f[0] == "copyagain" {
			if ce == nil {
				out[i] = "bad-op"
				continue
			}
			out[i] = copyStep(ce, f)
			continue
		}
		if h == nil {
			out[i] = "bad-op"
			continue
		}
		out[i] = h.Step(op)
	}
	return out
}

// copyOwner: the metadata step that follows a successful shard copy (meta.Data.CopyShardOwner,
// applied by the meta nodes): `cowner <owners csv|-> <node>` answers the owner list afterwards.
func copyOwner(f []string) (out string) {
	defer func() {
		if r := recover(); r != nil {
			out = "panic:" + strings.ReplaceAll(fmt.Sprint(r), " ", "_")
		}
	}()
	var owners []meta.ShardOwner
	if f[1] != "-" {
		for _, s := range strings.Split(f[1], ",") {
			v, _ := strconv.ParseUint(s, 10, 64)
			owners = append(owners, meta.ShardOwner{NodeID: v})
		}
	}
	node, _ := strconv.ParseUint(f[2], 10, 64)
	var nodes []meta.NodeInfo
	for id := uint64(1); id <= 9; id++ {
		nodes = append(nodes, meta.NodeInfo{ID: id})
	}
	d := &meta.Data{DataNodes: nodes, Databases: []meta.DatabaseInfo{{Name: "db0", RetentionPolicies: []meta.RetentionPolicyInfo{{Name: "rp0", ReplicaN: 1, ShardGroups: []meta.ShardGroupInfo{
		{ID: 1, Shards: []meta.ShardInfo{{ID: 7, Owners: []meta.ShardOwner{{NodeID: 1}}}}},
		{ID: 2, Shards: []meta.ShardInfo{{ID: 8, Owners: []meta.ShardOwner{{NodeID: 2}}}, {ID: 1, Owners: owners}, {ID: 9, Owners: []meta.ShardOwner{{NodeID: 3}}}}},
	}}}}}}
	d.CopyShardOwner(1, node)
	var got []string
	for _, o := range d.Databases[0].RetentionPolicies[0].ShardGroups[1].Shards[1].Owners {
		got = append(got, fmt.Sprint(o.NodeID))
	}
	others := fmt.Sprint(d.Databases[0].RetentionPolicies[0].ShardGroups[0].Shards[0].Owners, d.Databases[0].RetentionPolicies[0].ShardGroups[1].Shards[0].Owners, d.Databases[0].RetentionPolicies[0].ShardGroups[1].Shards[2].Owners)
	if others != "[{1}] [{2}] [{3}]" {
		return "COWNER-TOUCHED-OTHER-SHARDS " + strings.ReplaceAll(others, " ", "_")
	}
	if len(got) == 0 {
		return "owners -"
	}
	return "owners " + strings.Join(got, ",")
}

// tarFault: the source side of a backup fails part-way: of n files in the directory being
// streamed (pkg/tar.Stream, which Engine.Backup and Export use) the k-th cannot be opened.
// The stream must not look complete to the destination, which accepts an archive that ends
// with the two zero blocks of a tar trailer.
func tarFault(dir string, f []string) (out string) {
	defer func() {
		if r := recover(); r != nil {
			out = "panic:" + strings.ReplaceAll(fmt.Sprint(r), " ", "_")
		}
	}()
	n, _ := strconv.Atoi(f[1])
	k, _ := strconv.Atoi(f[2])
	os.RemoveAll(dir)
	if err := os.MkdirAll(dir, 0o755); err != nil {
		return "err:" + err.Error()
	}
	defer os.RemoveAll(dir)
	for i := 0; i < n; i++ {
		if err := os.WriteFile(filepath.Join(dir, fmt.Sprintf("%09d-%09d.tsm", i+1, 1)), bytes.Repeat([]byte{byte('a' + i)}, 700+300*i), 0o644); err != nil {
			return "err:" + err.Error()
		}
	}
	var buf bytes.Buffer
	seen := 0
	err := intar.Stream(&buf, dir, "db0/rp0/1", func(fi os.FileInfo, rel, full string, tw *tar.Writer) error {
		if seen == k {
			os.Remove(full)
		}
		seen++
		return intar.StreamFile(fi, rel, full, tw)
	})
	b := buf.Bytes()
	complete := len(b) >= 1024
	if complete {
		for _, x := range b[len(b)-1024:] {
			if x != 0 {
				complete = false
				break
			}
		}
	}
	switch {
	case k < n && err == nil:
		return "TARFAULT-NO-ERROR the stream of a directory with an unreadable file reported success"
	case k < n && complete:
		return "TARFAULT-LOOKS-COMPLETE the failed stream ends like a complete archive: the destination would accept a part of the shard"
	case k >= n && (err != nil || !complete):
		return fmt.Sprintf("TARFAULT-BROKEN a fault-free stream: err=%v complete=%v", err, complete)
	}
	if k < n {
		return "refused"
	}
	return "complete"
}

func copyStep(ce *copyh.Env, f []string) (out string) {
	defer func() {
		if r := recover(); r != nil {
			out = "panic:" + strings.ReplaceAll(fmt.Sprint(r), " ", "_")
		}
	}()
	i64 := func(s string) int64 { v, _ := strconv.ParseInt(s, 10, 64); return v }
	switch f[0] {
	case "cw":
		return ce.Write(f[1])
	case "csnap":
		return ce.Snapshot()
	case "cdel":
		return ce.Delete(f[1], i64(f[2]), i64(f[3]))
	case "copy":
		return ce.Copy(f[1], strings.Split(f[2], ";"), strings.Split(f[3], ","))
	case "copyagain":
		return ce.CopyAgain(f[1], strings.Split(f[2], ";"), strings.Split(f[3], ","))
	}
	return "bad-op"
}

func (Prop) RunImpl(c fw.Case) []string { return RunOps(c.Ops) }

// Oracle: the two read paths agree, nothing panics or errors; conformance with the
// last-write-wins meaning is the model comparison itself (the model *is* the property's
// specification), so a divergence on a read is reported as an implementation violation
// by the framework when the simple Go-side reference below also disagrees.
func (Prop) Oracle(c fw.Case, out []string) fw.Verdict {
	ref := newRef()
	for i, op := range c.Ops {
		if i >= len(out) {
			break
		}
		o := out[i]
		f := strings.Fields(op)
		switch {
		case strings.HasPrefix(o, "panic"):
			return fw.Verdict{OK: false, Why: fmt.Sprintf("%.200s => %.300s", op, o), Signature: "panic in " + f[0]}
		case strings.Contains(o, "TYPED-DIFFERS"):
			return fw.Verdict{OK: false, Why: fmt.Sprintf("%s: the generic and a typed instantiation of the block algebra disagree: %.600s", op, o), Signature: "typed " + f[0] + " differs"}
		case strings.Contains(o, "CURSOR-DIFFERS"):
			return fw.Verdict{OK: false, Why: fmt.Sprintf("%s: the iterator and the array cursor disagree: %.600s", op, o), Signature: "iterator and cursor disagree"}
		case strings.HasPrefix(o, "COMPACTIONS-RESTARTED"):
			return fw.Verdict{OK: false, Why: fmt.Sprintf("%.200s => %.300s", op, o), Signature: "compactions restarted inside a delete"}
		case strings.HasPrefix(o, "err") && f[0] != "w":
			return fw.Verdict{OK: false, Why: fmt.Sprintf("%.200s => %.300s", op, o), Signature: "error in " + f[0]}
		}
		if v := ref.step(f, op, o); !v.OK {
			return v
		}
	}
	return fw.Verdict{OK: true}
}

func (Prop) Trivial(c fw.Case, out []string) bool {
	for _, t := range c.Tags {
		if t == "values" {
			return false
		}
	}
	snaps := 0
	for _, op := range c.Ops {
		if op == "snap" {
			snaps++
		}
	}
	return snaps < 2
}
