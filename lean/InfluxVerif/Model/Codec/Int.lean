/-
Integer block encoding (tsdb/engine/tsm1/int.go): `IntegerEncoder.Write/Bytes` and
`IntegerDecoder` driven by `for Next() { Read() }`. int64 values are bit patterns.
-/
import InfluxVerif.Model.Codec.Time
namespace InfluxVerif.Codec

/-- `Write` for each value: zig-zag of the delta to the previous value. -/
def intZZ (prev : Nat) : List Nat → List Nat
  | [] => []
  | v :: rest => zigzagEnc (sub64 v prev) :: intZZ v rest

def intEncode (vs : List Nat) : Option Bytes :=
  let values := intZZ 0 vs
  match values with
  | [] => some []          -- encodePacked: len == 0 ⇒ nil
  | v0 :: tl =>
    -- e.rle: every value from the third on equals its predecessor
    if allEq tl ∧ values.length > 2 then
      some (2 * 16 :: be64 v0 ++ putUvarint (tl.headD 0) ++ putUvarint (values.length - 1))
    else if values.any (· > s8bMax) then
      some (0 :: values.flatMap be64)
    else
      match s8bEncodeAll tl with
      | none => none
      | some ws => some (1 * 16 :: be64 v0 ++ wordsToBytes ws)

/-- prefix sums of zig-zag decoded deltas (`Read`: `v = ZigZagDecode(x) + prev`) -/
def intSums (prev : Nat) : List Nat → List Nat
  | [] => []
  | x :: rest => let v := add64 (zigzagDec x) prev; v :: intSums v rest

def intRle (first delta : Nat) (i : Nat) : Nat → List Nat
  | 0 => []
  | n + 1 => add64 (zigzagDec first) (mul64 i (zigzagDec delta)) :: intRle first delta (i + 1) n

/-- whole 8-byte words; a 1..7 byte tail makes the decoder report an error -/
def wordsExact : Nat → Bytes → Option (List Nat)
  | _, [] => some []
  | 0, _ => none
  | fuel + 1, b => match be64dec b with
    | none => none
    | some (w, rest) => (wordsExact fuel rest).map (w :: ·)

def intDecode (b : Bytes) : Option (List Nat) :=
  match b with
  | [] => some []
  | b0 :: rest =>
    if rest = [] then some [] else
    let enc := b0 / 16 % 16
    if enc = 0 then
      (wordsExact rest.length rest).map (intSums 0)
    else if enc = 1 then
      match wordsExact rest.length rest with
      | none => none
      | some [] => some []
      | some (w0 :: ws) => some (intSums 0 (w0 :: s8bDecodeAll ws))
    else if enc = 2 then
      match be64dec rest with
      | none => none
      | some (first, r1) =>
        match uvarint r1 with
        | none => none
        | some (value, _, r2) =>
          match uvarint r2 with
          | none => none
          | some (count, _, _) =>
            -- d.n = int(count) + 1
            if count ≥ M63 then some [] else some (intRle first value 0 (count + 1))
    else none

end InfluxVerif.Codec
