// Package copyh: shard copy between two in-process data nodes over the real inter-node
// protocol (coordinator.Service: CopyShard request to the destination, which pulls a
// BackupShard stream from the source), with a proxy that cuts the source's stream.
package copyh

import (
	"bytes"
	"fmt"
	"io"
	"math"
	"net"
	"os"
	"path/filepath"
	"sort"
	"strings"
	"time"

	"github.com/influxdata/influxdb/coordinator"
	"github.com/influxdata/influxdb/models"
	"verifharness/node"
	"verifharness/shardh"
)

const DB, RP = "db0", "rp0"
const ShardID = 1

type Env struct {
	Dir   string
	Index string
	A     *node.Node
	ncopy int
}

func New(dir, index string) (*Env, error) {
	e := &Env{Dir: dir, Index: index}
	ln, err := node.Listen()
	if err != nil {
		return nil, err
	}
	e.A, err = node.New(filepath.Join(dir, "a"), ln, node.Options{Index: index})
	if err != nil {
		return nil, err
	}
	if err := e.A.Store.CreateShard(DB, RP, ShardID, true); err != nil {
		return nil, err
	}
	return e, nil
}

func (e *Env) Close() {
	if e.A != nil {
		e.A.Close()
		e.A = nil
	}
}

func (e *Env) Write(arg string) string {
	pts, err := shardh.ParsePoints(arg)
	if err != nil {
		return "bad-op"
	}
	if err := e.A.Store.WriteToShard(ShardID, pts); err != nil {
		return "err:" + strings.ReplaceAll(err.Error(), " ", "_")
	}
	return "ok"
}

// archive returns the backup stream the source would send for a shard.
func (e *Env) archive(id uint64) ([]byte, error) {
	var buf bytes.Buffer
	err := e.A.Store.BackupShard(id, time.Time{}, &buf)
	return buf.Bytes(), err
}

// memberBoundaries returns the offsets at which a tar member ends (header + padded content).
func memberBoundaries(a []byte) []int {
	var out []int
	off := 0
	for off+512 <= len(a) {
		h := a[off : off+512]
		allZero := true
		for _, b := range h {
			if b != 0 {
				allZero = false
				break
			}
		}
		if allZero {
			break
		}
		var size int64
		fmt.Sscanf(strings.TrimRight(string(h[124:135]), "\x00 "), "%o", &size)
		off += 512 + int((size+511)/512*512)
		out = append(out, off)
	}
	return out
}

// proxy forwards everything to the source, and the first `cut` bytes (all if cut < 0) of the
// source's answer back; then it closes the connection.
func proxy(target string, cut int) (addr string, stop func(), err error) {
	ln, err := net.Listen("tcp", "127.0.0.1:0")
	if err != nil {
		return "", nil, err
	}
	go func() {
		for {
			c, err := ln.Accept()
			if err != nil {
				return
			}
			go func(c net.Conn) {
				defer c.Close()
				s, err := net.DialTimeout("tcp", target, 2*time.Second)
				if err != nil {
					return
				}
				defer s.Close()
				go io.Copy(s, c)
				if cut < 0 {
					io.Copy(c, s)
				} else {
					io.CopyN(c, s, int64(cut))
				}
			}(c)
		}
	}()
	return ln.Addr().String(), func() { ln.Close() }, nil
}

// Copy asks a fresh destination node to copy the shard from the source, with the source's
// stream cut as `cut` says: full | pm<0..999> (permille of the archive length) | b<j> (end of
// the j-th archive member, never beyond the last member) | nosrc (the source does not have
// the shard).  Answer: "refused" if the destination reports an error, otherwise the digest of
// what the destination's shard reads for the listed series/fields.
func (e *Env) Copy(cut string, series, fields []string) string {
	return e.copy(cut, "", series, fields)
}

// CopyAgain: a first copy with the source's stream cut as `cut` says, then a second,
// undisturbed copy to the same destination (the operator runs copy-shard again). Answer:
// that of the second copy, which must hold everything the source holds.
func (e *Env) CopyAgain(cut string, series, fields []string) string {
	return e.copy(cut, "full", series, fields)
}

func (e *Env) copy(cut, again string, series, fields []string) string {
	// a fresh destination
	e.ncopy++
	bdir := filepath.Join(e.Dir, fmt.Sprintf("b%d", e.ncopy))
	defer os.RemoveAll(bdir)
	ln, err := node.Listen()
	if err != nil {
		return "err:listen"
	}
	b, err := node.New(bdir, ln, node.Options{Index: e.Index})
	if err != nil {
		return "err:dest:" + strings.ReplaceAll(err.Error(), " ", "_")
	}
	defer b.Close()
	res := e.copyTo(b, bdir, cut, series, fields)
	if again != "" {
		res = e.copyTo(b, bdir, again, series, fields)
	}
	return res
}

func (e *Env) copyTo(b *node.Node, bdir, cut string, series, fields []string) string {
	shard := uint64(ShardID)
	if cut == "nosrc" {
		shard = 999
	}
	k := -1
	if cut != "full" && cut != "nosrc" {
		a, err := e.archive(ShardID)
		if err != nil {
			return "err:archive:" + strings.ReplaceAll(err.Error(), " ", "_")
		}
		if strings.HasPrefix(cut, "pm") {
			var pm int
			fmt.Sscanf(cut[2:], "%d", &pm)
			k = len(a) * pm / 1000
		} else {
			var j int
			fmt.Sscanf(cut[1:], "%d", &j)
			bs := memberBoundaries(a)
			switch {
			case len(bs) == 0:
				k = 0
			case j >= len(bs):
				k = bs[len(bs)-1]
			default:
				k = bs[j]
			}
		}
	}
	paddr, stop, err := proxy(e.A.Addr, k)
	if err != nil {
		return "err:proxy"
	}
	defer stop()
	// the request the meta node sends to the destination
	conn, err := net.DialTimeout("tcp", b.Addr, 2*time.Second)
	if err != nil {
		return "err:dial"
	}
	defer conn.Close()
	conn.SetDeadline(time.Now().Add(20 * time.Second))
	conn.Write([]byte{coordinator.MuxHeader})
	req := &coordinator.CopyShardRequest{Host: paddr, Database: DB, Policy: RP, ShardID: shard, Since: time.Time{}}
	if err := coordinator.EncodeTLV(conn, 33, req); err != nil {
		return "err:send"
	}
	var resp coordinator.CopyShardResponse
	if _, err := coordinator.DecodeTLV(conn, &resp); err != nil {
		return "refused" // the destination closed the connection without a success response
	}
	if resp.Err != nil {
		return "refused"
	}
	// success was reported: the metadata would now list the destination as an owner
	d := &shardh.H{Dir: bdir, Index: e.Index, Store: b.Store}
	if cut == "nosrc" {
		return "ACCEPTED-WITHOUT-SOURCE"
	}
	if b.Store.Shard(shard) == nil {
		return "accepted-but-no-shard"
	}
	var parts []string
	for _, sr := range series {
		p := strings.SplitN(sr, "|", 2)
		for _, f := range fields {
			r := d.Read(p[0], p[1], f, math.MinInt64+2, math.MaxInt64-1, true)
			x := strings.Fields(r)
			if len(x) < 2 {
				return "copied-read " + sr + "/" + f + " " + r
			}
			parts = append(parts, x[0]+":"+x[1])
		}
	}
	return strings.Join(parts, " ")
}

func (e *Env) Delete(meas string, lo, hi int64) string {
	h := &shardh.H{Dir: e.Dir, Index: e.Index, Store: e.A.Store}
	return h.DeleteB(meas, "-", &lo, &hi)
}

func (e *Env) Snapshot() string {
	h := &shardh.H{Dir: e.Dir, Index: e.Index, Store: e.A.Store}
	return h.Snapshot()
}

var _ = models.MinNanoTime
var _ = sort.Strings
